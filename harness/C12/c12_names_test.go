//go:build verif

package vault

// C12 monitor 8: hostile namespace NAMES.
//
// Policy paths are qualified with the path of the namespace the policy is
// defined in; the ACL layer gives '+' and '*' a meaning, the router and the
// namespace store give "sys", "root", "..", "/" a meaning. A namespace name is
// a client-supplied string. Whatever name the server accepts, a policy defined
// in that namespace may only ever be served inside it and below - the oracle
// does not care whether the name "should" have been refused. On a tree that
// refuses the hostile names the monitor shows refusals at creation, and the
// ordinary control names (and the odd names that are accepted: upper-case
// variants of reserved names, percent-escapes, non-ASCII letters) are probed.

import (
	"fmt"
	"strings"
	"testing"

	kit "github.com/openbao/openbao/sdk/v2/helper/verifkit"
	"github.com/openbao/openbao/sdk/v2/logical"
)

const c12ClsOddName = "C12-policy-of-hostile-named-namespace-served-outside-it"

var c12HostileNames = []string{
	"+", "+x", "x+", "a+b", "++", "+X", "*", "+*", "a*", "*a", "**", "+/x", "x/+",
	"..", ".", "...", "../x", "x/..",
	"sys", "root", "cubbyhole", "identity", "auth", "audit",
	"SYS", "Sys", "Root", "ROOT", "Cubbyhole", "IDENTITY", "Auth",
	"a/b", "a//b", "/a", "a b", " a", "a\t", "a\nb",
	"%2b", "%2B", "%2a", "%2f", "%2e%2e", "a%2fb", "%252b",
	"ñandú", "名前", "a​b", "＋", "＊", "a∕b",
}

var c12ControlNames = []string{"ctl1", "ok-name", "c12x"}

func TestVerif_C12_HostileNamespaceNames(t *testing.T) {
	seed := kit.Seed(12)
	shard, shards := kit.Shard()
	r := kit.NewResult(t, "c12-namespace-names", seed,
		"in every generated world every namespace gets a recording mount hn/ holding a canary; then, below the root, below a first-level and below a second-level namespace, the creation of namespaces with hostile names ('+', '+x', 'x+', '*', '+*', 'a*', '..', '.', reserved names and their upper-case variants, names with '/', spaces, control characters, percent-escapes, non-ASCII letters and look-alikes of '+', '*', '/') and with ordinary control names is attempted through sys/namespaces/<name>; in every namespace the server accepts, a mount with the SAME name hn/ is made, the ordinary policies path \"hn/*\", path \"*\" and path \"+/hn/*\" are defined and a token is minted for each; every such token then reads and lists hn/data in EVERY namespace of the world (siblings, the parent, the root, unrelated ones, its own) in two spellings and reads sys/mounts there: it may be served only inside its own namespace and below; a probe is non-trivial when the request namespace is outside the token's namespace")
	defer r.Write(t)
	topos := kit.N(2, 24)
	for ti := 0; ti < topos; ti++ {
		if ti%shards != shard {
			continue
		}
		caseID := fmt.Sprintf("names:%d", ti)
		if !kit.WantCase(caseID) {
			continue
		}
		rng := kit.NewRand(seed, 0x12700+uint64(ti))
		c12NamesCase(t, r, rng, caseID, ti%2 == 1)
		if c12Generic(r) > 30 {
			break
		}
	}
	r.Require("hostile_names_tried", 120)
	r.Require("hostile_names_tried_below_the_root", 50)
	r.Require("hostile_names_tried_nested", 50)
	r.Require("wildcard_names_tried", 40)
	r.Require("hostile_names_refused_at_creation", 60)
	r.Require("control_names_accepted_and_probed", 6)
	r.Require("probes_from_accepted_namespaces", 8000)
	r.Require("probes_outside_the_tokens_namespace", 7000)
	r.Require("probes_outside_refused", 7000)
	r.Require("probes_inside_served", 300)
	r.Require("hostile_names_accepted", 40)
	r.Require("probed_namespaces_with_equally_named_mount", 6)
}

type c12NamedNS struct {
	ns      *c12NS
	hostile bool
	mount   *c12Mount
	toks    []*c12Tok
}

func c12NamesCase(t *testing.T, r *kit.Result, rng *kit.Rand, caseID string, transactional bool) {
	w := c12Build(t, r, rng, caseID, transactional)
	defer w.v.Close()
	hn := map[*c12NS]*c12Mount{}
	seedNS := func(n *c12NS) *c12Mount {
		m := w.mount(n, "hn/", "verifrec", false)
		if m == nil {
			return nil
		}
		c := rng.Canary()
		q := &c12Req{Kind: "names-seed", Op: logical.UpdateOperation, Tok: w.rootTok, N: n, M: m, Form: "header", Header: n.Path, Path: "hn/data/foo", Data: map[string]any{"v": c}}
		w.do(q)
		if !q.ok() {
			w.step("cannot seed hn/ of %q: %s", n.Path, c12Short(q.outcome()))
			return m
		}
		w.canary[c] = c12Owner{Mount: m}
		m.Data = append(m.Data, "data/foo")
		hn[n] = m
		return m
	}
	for _, n := range append([]*c12NS(nil), w.nss...) {
		if !n.effSealed() {
			seedNS(n)
		}
	}
	base := append([]*c12NS(nil), w.nss...)
	// parents: the root, a first-level and a second-level namespace
	parents := []*c12NS{w.root}
	for _, d := range []int{1, 2} {
		for _, n := range w.nss {
			if n.Depth == d && !n.effSealed() {
				parents = append(parents, n)
				break
			}
		}
	}
	var accepted []*c12NamedNS
	try := func(parent *c12NS, name string, hostile bool) {
		if hostile {
			r.Count("hostile_names_tried", 1)
			if parent == w.root {
				r.Count("hostile_names_tried_below_the_root", 1)
			} else {
				r.Count("hostile_names_tried_nested", 1)
			}
			if strings.ContainsAny(name, "+*") {
				r.Count("wildcard_names_tried", 1)
			}
		}
		resp, err := w.v.Do(vReq{Op: logical.UpdateOperation, Path: "sys/namespaces/" + name, Token: w.v.Root, NS: parent.Path})
		if !vOK(resp, err) || resp == nil {
			if hostile {
				r.Count("hostile_names_refused_at_creation", 1)
			} else {
				r.Count("control_names_refused_at_creation", 1)
			}
			w.step("namespace %q below %q refused: %s", name, parent.Path, c12Short(vErrStr(resp, err)))
			return
		}
		id, _ := resp.Data["id"].(string)
		o, err := w.v.Core.NamespaceByID(c12RootCtx(), id)
		if err != nil || o == nil {
			r.Count("accepted_namespaces_not_found_by_id", 1)
			w.step("namespace %q below %q accepted (id %q) but not found", name, parent.Path, id)
			return
		}
		if w.findNS(o.Path) != nil {
			r.Count("names_resolving_to_an_existing_namespace", 1)
			return
		}
		n := &c12NS{Path: o.Path, Name: name, UUID: o.UUID, ID: o.ID, Prefix: NamespaceStoragePathPrefix(o)}
		for _, p := range w.nss {
			if strings.HasPrefix(n.Path, p.Path) && (n.Parent == nil || len(p.Path) > len(n.Parent.Path)) {
				n.Parent = p
			}
		}
		n.Depth = n.Parent.Depth + 1
		w.nss = append(w.nss, n)
		if hostile {
			r.Count("hostile_names_accepted", 1)
			r.Note("[%s] the namespace name %q below %q was accepted (path %q)", caseID, name, parent.Path, n.Path)
		}
		if n.Path != parent.Path+name+"/" {
			r.Count("names_accepted_under_a_different_path", 1)
		}
		w.step("namespace %q below %q accepted as %q", name, parent.Path, n.Path)
		accepted = append(accepted, &c12NamedNS{ns: n, hostile: hostile})
	}
	for _, p := range parents {
		for _, name := range c12HostileNames {
			try(p, name, true)
		}
		for _, name := range c12ControlNames {
			try(p, name, false)
		}
	}
	w.sync()
	caps := c12Caps
	for _, a := range accepted {
		n := a.ns
		a.mount = seedNS(n)
		if a.mount != nil {
			r.Count("probed_namespaces_with_equally_named_mount", 1)
		}
		for _, pc := range []struct{ name, pat string }{{"c12h-kv", "hn/*"}, {"c12h-all", "*"}, {"c12h-plus", "+/hn/*"}} {
			resp, err := w.v.Do(vReq{Op: logical.UpdateOperation, Path: "sys/policies/acl/" + pc.name, Token: w.v.Root, NS: n.Path, Data: map[string]any{"policy": fmt.Sprintf("path %q { %s }\n", pc.pat, caps)}})
			if !vOK(resp, err) {
				r.Count("policies_refused_in_accepted_namespace", 1)
				continue
			}
			resp, err = w.v.Do(vReq{Op: logical.UpdateOperation, Path: "auth/token/create", Token: w.v.Root, NS: n.Path, Data: map[string]any{"policies": []string{pc.name}, "ttl": "1h", "no_default_policy": true}})
			if !vOK(resp, err) || resp == nil || resp.Auth == nil {
				r.Count("tokens_refused_in_accepted_namespace", 1)
				continue
			}
			tk := &c12Tok{Name: pc.name + "@" + n.Path, ID: resp.Auth.ClientToken, NS: n, NSPath: n.Path, Kind: pc.pat}
			w.toks = append(w.toks, tk)
			a.toks = append(a.toks, tk)
		}
		if !a.hostile && len(a.toks) > 0 {
			r.Count("control_names_accepted_and_probed", 1)
		}
	}
	w.sync()
	for _, a := range accepted {
		// targets: every namespace of the generated world, the namespace itself and a few
		// of the other accepted ones (siblings first)
		targets := append([]*c12NS(nil), base...)
		targets = append(targets, a.ns)
		k := 0
		for _, o := range accepted {
			if o != a && o.ns.Parent == a.ns.Parent && k < 3 && w.rng.Chance(1, 4) {
				targets = append(targets, o.ns)
				k++
			}
		}
		for _, tk := range a.toks {
			for _, T := range targets {
				if T.effSealed() || w.nsObj(T) == nil {
					continue
				}
				c12NameProbe(w, a, tk, T, hn[T])
			}
			if w.failed && c12Generic(r) > 25 {
				break
			}
		}
	}
	r.Eval(1)
	var acc []string
	for _, a := range accepted {
		acc = append(acc, fmt.Sprintf("%q", a.ns.Path))
	}
	r.Sample(map[string]any{"case": caseID, "accepted_names": acc, "namespaces": len(w.nss)})
}

func c12NameProbe(w *c12World, a *c12NamedNS, tk *c12Tok, T *c12NS, M *c12Mount) {
	N := a.ns
	type probe struct {
		op   logical.Operation
		path string
		sys  bool
	}
	probes := []probe{{logical.ReadOperation, "hn/data/foo", false}, {logical.ListOperation, "hn/data/", false}, {logical.ReadOperation, "sys/mounts", true}}
	for _, p := range probes {
		forms := c12Forms(T, p.path)
		picked := [][3]string{forms[0]}
		if len(forms) > 1 && !p.sys {
			picked = append(picked, forms[1+w.rng.Intn(len(forms)-1)])
		}
		for _, f := range picked {
			q := &c12Req{Kind: "hostile-name-probe", Op: p.op, Tok: tk, N: T, Form: f[0], Header: f[1], Path: f[2]}
			if !p.sys {
				q.M = M
				if M != nil {
					q.Marker = M.Tag
				}
			}
			w.do(q)
			w.r.Count("probes_from_accepted_namespaces", 1)
			handled, _ := q.handled()
			served := handled
			if p.sys {
				served = q.ok() && q.resp != nil && len(q.resp.Data) > 0
			}
			inside := T.under(N)
			if !inside {
				w.r.Eval(1)
				w.r.Count("probes_outside_the_tokens_namespace", 1)
				w.r.Nontrivial(fmt.Sprintf("name|%v|%s|%s|%s|%s|%d>%d", a.hostile, tk.Kind, p.op, c12Rel(N, T), f[0], N.Depth, T.Depth))
			}
			if M != nil && !p.sys && !T.effSealed() {
				w.checkStorage(q)
			}
			ev := map[string]any{"request": q, "token_namespace": N.Path, "namespace_name": N.Name, "policy_path_as_written": tk.Kind, "request_namespace": T.Path, "outcome": c12Short(q.outcome())}
			switch {
			case served && !inside:
				class := c12ClsOddName
				if !a.hostile {
					class = "C12-cross-namespace-access"
				}
				w.violate(class, fmt.Sprintf("token %s of namespace %q (name %q, policy path %q defined there) was served %s %q header %q in namespace %q, which is %s of it", tk.Name, N.Path, N.Name, tk.Kind, p.op, q.Path, q.Header, T.Path, c12RelWord(c12Rel(N, T))), ev)
			case served:
				w.r.Count("probes_inside_served", 1)
				if !p.sys {
					w.scanResponse(q, false)
				}
			case inside:
				w.r.Count("probes_inside_refused", 1)
			default:
				w.r.Count("probes_outside_refused", 1)
			}
		}
	}
}
