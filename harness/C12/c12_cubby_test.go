//go:build verif

package vault

// C12 monitor 3: cubbyhole data is reachable only with the token that wrote it.

import (
	"fmt"
	"sort"
	"strings"
	"testing"
	"time"

	kit "github.com/openbao/openbao/sdk/v2/helper/verifkit"
	"github.com/openbao/openbao/sdk/v2/logical"
)

func TestVerif_C12_Cubbyhole(t *testing.T) {
	seed := kit.Seed(12)
	shard, shards := kit.Shard()
	r := kit.NewResult(t, "c12-cubbyhole", seed,
		"in every generated world a zoo of tokens (root, namespace root tokens, siblings, parent/child chains, orphans, tokens with a caller-chosen id incl. one id extending another, tokens of every namespace, a batch token) writes distinct canaries under the same cubbyhole paths in every namespace it may act in; then every token reads, lists and probes (other token's storage segment as path, // and trailing-slash spellings) every such cell in every namespace spelling: whatever comes back must have been written by the reading token in that namespace, and at the physical layer the per-token segment below the cubbyhole mount prefix touched by a request must not be a segment another token's writes created; a read is non-trivial when reader and writer differ")
	defer r.Write(t)
	topos := kit.N(3, 128)
	for ti := 0; ti < topos; ti++ {
		if ti%shards != shard {
			continue
		}
		caseID := fmt.Sprintf("cubby:%d", ti)
		if !kit.WantCase(caseID) {
			continue
		}
		rng := kit.NewRand(seed, 0x12200+uint64(ti))
		c12CubbyCase(t, r, rng, caseID, (ti+ti/8)%2 == 0)
		if c12Generic(r) > 30 {
			break
		}
	}
	r.Require("cubbyhole_cells_written", 130)
	r.Require("cross_token_reads", 7000)
	r.Require("cross_token_reads_empty", 7000)
	r.Require("own_reads_returning_own_value", 500)
	r.Require("cross_token_lists", 7000)
	r.Require("segment_probe_reads", 2500)
	r.Require("cubbyhole_phys_ops_checked", 19000)
	r.Require("tokens_with_chosen_id", 4)
	r.Require("reads_after_other_token_revoked", 3500)
	r.Require("chosen_ids_issued_again", 6)
	r.Require("revocations_stopped_by_a_storage_fault_with_cubbyhole_data_left", 4)
	r.Require("reissue_attempts_while_earlier_holder_not_fully_revoked", 4)
	r.Require("reissued_after_complete_revocation", 2)
	r.Require("reads_by_later_holder_or_bystander_of_earlier_holders_cells", 100)
}

type c12Cell struct {
	Tok *c12Tok
	NS  *c12NS
	Val map[string]string // path -> canary
}

type c12CubbyRun struct {
	*c12World
	cells []*c12Cell
	segs  map[string]*c12Tok // "<cubbyhole prefix>|<segment>" -> token whose writes created it
	cubby map[*c12NS]*c12Mount
}

var c12CubbyPaths = []string{"shared", "dir/leaf", "dir/other"}

func c12CubbyCase(t *testing.T, r *kit.Result, rng *kit.Rand, caseID string, transactional bool) {
	w := c12Build(t, r, rng, caseID, transactional)
	defer w.v.Close()
	s := &c12CubbyRun{c12World: w, segs: map[string]*c12Tok{}, cubby: map[*c12NS]*c12Mount{}}
	for _, m := range w.liveMounts(nil) {
		if m.Cubby {
			s.cubby[m.NS] = m
		}
	}
	// token zoo
	for _, n := range w.nss {
		w.policy(n, "c12-all", []string{"*"})
		a := w.token(n, "A@"+n.Path, "all", []string{"c12-all"}, []string{"*"}, nil)
		w.token(n, "B@"+n.Path, "all", []string{"c12-all"}, []string{"*"}, nil)
		w.token(n, "orphan@"+n.Path, "all", []string{"c12-all"}, []string{"*"}, map[string]any{"no_parent": true})
		w.nsRootToken(n)
		// a child created by A itself (parent/child chain)
		resp, err := w.v.Do(vReq{Op: logical.UpdateOperation, Path: "auth/token/create", Token: a.ID, NS: n.Path, Data: map[string]any{"policies": []string{"c12-all"}, "ttl": "1h", "no_default_policy": true}})
		if vOK(resp, err) && resp != nil && resp.Auth != nil {
			w.toks = append(w.toks, &c12Tok{Name: "childOfA@" + n.Path, ID: resp.Auth.ClientToken, NS: n, NSPath: n.Path, Kind: "all", Patterns: []string{n.Path + "*"}})
		} else {
			t.Fatalf("verif: token A cannot create a child in %q: %s", n.Path, vErrStr(resp, err))
		}
	}
	// caller-chosen ids (root namespace only), one extending the other
	base := "c12id" + rng.Canary()[4:14]
	for _, id := range []string{base, base + "x", base + "/shared"} {
		resp, err := w.v.Do(vReq{Op: logical.UpdateOperation, Path: "auth/token/create", Token: w.v.Root, Data: map[string]any{"id": id, "policies": []string{"c12-all"}, "ttl": "1h", "no_default_policy": true}})
		if vOK(resp, err) && resp != nil && resp.Auth != nil {
			w.toks = append(w.toks, &c12Tok{Name: "chosen-id:" + id[len(base):] + "@", ID: resp.Auth.ClientToken, NS: w.root, Kind: "all", Patterns: []string{"*"}})
			r.Count("tokens_with_chosen_id", 1)
		} else {
			w.step("token with chosen id %q refused: %s", id, c12Short(vErrStr(resp, err)))
		}
	}
	// a batch token must not get a cubbyhole at all
	if resp, err := w.v.Do(vReq{Op: logical.UpdateOperation, Path: "auth/token/create", Token: w.v.Root, Data: map[string]any{"type": "batch", "policies": []string{"c12-all"}, "ttl": "1h", "no_default_policy": true}}); vOK(resp, err) && resp != nil && resp.Auth != nil {
		bt := &c12Tok{Name: "batch@", ID: resp.Auth.ClientToken, NS: w.root, Kind: "batch", Patterns: []string{"*"}}
		q := &c12Req{Kind: "cubby-batch", Op: logical.UpdateOperation, Tok: bt, N: w.root, M: s.cubby[w.root], Header: "", Path: "cubbyhole/shared", Data: map[string]any{"v": rng.Canary()}}
		w.do(q)
		w.checkStorage(q)
		if q.ok() {
			r.Count("batch_token_cubbyhole_writes_accepted", 1)
		} else {
			r.Count("batch_token_cubbyhole_refused", 1)
		}
	}

	// write phase
	for _, tok := range w.toks {
		if tok.Dead || tok.Kind == "batch" {
			continue
		}
		for _, n := range w.nss {
			if !n.under(tok.NS) || n.effSealed() {
				continue
			}
			cell := &c12Cell{Tok: tok, NS: n, Val: map[string]string{}}
			for _, p := range c12CubbyPaths {
				c := rng.Canary()
				q := &c12Req{Kind: "cubby-write", Op: logical.UpdateOperation, Tok: tok, N: n, M: s.cubby[n], Data: map[string]any{"v": c}}
				w.pickForm(q, n, "cubbyhole/"+p)
				w.do(q)
				s.checkPhys(q, true)
				if !q.ok() {
					t.Fatalf("verif: token %s cannot write its cubbyhole in %q: %s", tok.Name, n.Path, q.outcome())
				}
				w.canary[c] = c12Owner{Mount: s.cubby[n], Tok: tok, NS: n}
				cell.Val[p] = c
			}
			s.cells = append(s.cells, cell)
			r.Count("cubbyhole_cells_written", 1)
		}
	}
	s.readAll("all-alive")
	s.reissue()
	// revoke a few tokens (with their children) and look again
	revoked := 0
	for _, tok := range w.toks {
		if revoked >= 2 || !strings.HasPrefix(tok.Name, "A@") {
			continue
		}
		if !rng.Chance(1, 2) {
			continue
		}
		resp, err := w.v.Do(vReq{Op: logical.UpdateOperation, Path: "auth/token/revoke", Token: w.v.Root, NS: tok.NS.Path, Data: map[string]any{"token": tok.ID}})
		if !vOK(resp, err) {
			continue
		}
		revoked++
		tok.Dead = true
		for _, c := range w.toks {
			if c.Name == "childOfA@"+tok.NS.Path {
				c.Dead = true
			}
		}
		w.step("revoked %s and its child", tok.Name)
	}
	// fresh tokens created after the revocation
	for _, n := range w.nss {
		w.token(n, "late@"+n.Path, "all", []string{"c12-all"}, []string{"*"}, nil)
	}
	before := r.Get("cross_token_reads")
	s.readAll("after-revocation")
	r.Count("reads_after_other_token_revoked", int(r.Get("cross_token_reads")-before))
	r.Eval(1)
	names := []string{}
	for _, tk := range w.toks {
		names = append(names, tk.Name)
	}
	sort.Strings(names)
	r.Sample(map[string]any{"case": caseID, "tokens": names, "cells": len(s.cells), "namespaces": w.nss})
}

// checkPhys applies the storage oracle plus the per-token segment rule.
func (s *c12CubbyRun) checkPhys(q *c12Req, writer bool) {
	s.checkStorage(q)
	for _, e := range q.events {
		switch e.Op {
		case "get", "put", "delete", "list", "listpage":
		default:
			continue
		}
		for _, cm := range s.cubby {
			if !strings.HasPrefix(e.Key, cm.Prefix) {
				continue
			}
			s.r.Count("cubbyhole_phys_ops_checked", 1)
			rest := strings.TrimPrefix(e.Key, cm.Prefix)
			seg := strings.SplitN(rest, "/", 2)[0]
			if seg == "" {
				if q.Tok != nil && q.Op != logical.RevokeOperation {
					s.violate("C12-cubbyhole-shared-storage", fmt.Sprintf("request of token %s performed %s on %q, the cubbyhole mount root shared by all tokens", q.TokN, e.Op, e.Key), map[string]any{"request": q, "event": e.String()})
				}
				continue
			}
			k := cm.Prefix + "|" + seg
			owner, known := s.segs[k]
			switch {
			case !known && writer && e.Op == "put":
				s.segs[k] = q.Tok
			case known && owner != q.Tok:
				s.violate("C12-cubbyhole-foreign-storage", fmt.Sprintf("request of token %s (%s %q header %q) performed %s on %q, inside the cubbyhole segment created by token %s", q.TokN, q.Op, q.Path, q.Header, e.Op, e.Key, owner.Name), map[string]any{"request": q, "event": e.String()})
			}
		}
	}
}

func (s *c12CubbyRun) readAll(phase string) {
	// segments known per token, for the "other token's segment as path" probe
	segOf := map[*c12Tok][]string{}
	keys := make([]string, 0, len(s.segs))
	for k := range s.segs {
		keys = append(keys, k)
	}
	sort.Strings(keys)
	for _, k := range keys {
		segOf[s.segs[k]] = append(segOf[s.segs[k]], strings.SplitN(k, "|", 2)[1])
	}
	for _, reader := range s.toks {
		if reader.Dead || reader.Kind == "batch" {
			continue
		}
		for _, cell := range s.cells {
			n := cell.NS
			if !n.under(reader.NS) || n.effSealed() {
				continue
			}
			same := cell.Tok == reader
			if !same && cell.Tok.NS != reader.NS && !s.rng.Chance(1, 3) {
				continue // sample writers of other namespaces
			}
			for _, p := range c12CubbyPaths {
				spell := "cubbyhole/" + p
				switch s.rng.Intn(6) {
				case 0:
					spell = "cubbyhole//" + p
				case 1:
					spell = "cubbyhole/" + p + "/"
				}
				q := &c12Req{Kind: "cubby-read:" + phase, Op: logical.ReadOperation, Tok: reader, N: n, M: s.cubby[n]}
				s.pickForm(q, n, spell)
				s.do(q)
				s.checkPhys(q, false)
				own := s.scanResponse(q, true)
				if same {
					if own > 0 {
						s.r.Count("own_reads_returning_own_value", 1)
					}
					continue
				}
				s.r.Count("cross_token_reads", 1)
				s.r.Eval(1) // one judged request / matrix cell
				s.r.Nontrivial(fmt.Sprintf("read|%s|%s>%s|%d>%d|%s|%v", phase, c12Role(cell.Tok), c12Role(reader), cell.Tok.NS.Depth, n.Depth, q.Form, cell.Tok.Dead))
				if !q.ok() || q.resp == nil || len(q.resp.Data) == 0 {
					s.r.Count("cross_token_reads_empty", 1)
				} else if own > 0 {
					// the reader has a cell of its own under the same path: that is what it must see
					s.r.Count("cross_token_reads_empty", 1)
				}
			}
			if same {
				continue
			}
			// list
			for _, lp := range []string{"cubbyhole/", "cubbyhole/dir/", "cubbyhole"} {
				q := &c12Req{Kind: "cubby-list:" + phase, Op: logical.ListOperation, Tok: reader, N: n, M: s.cubby[n]}
				s.pickForm(q, n, lp)
				s.do(q)
				s.checkPhys(q, false)
				s.scanResponse(q, true)
				s.r.Count("cross_token_lists", 1)
				if q.ok() && q.resp != nil {
					if names, _ := q.resp.Data["keys"].([]string); len(names) > 0 {
						// names must come from the reader's own cell in this namespace
						var mine *c12Cell
						for _, c := range s.cells {
							if c.Tok == reader && c.NS == n {
								mine = c
							}
						}
						for _, nm := range names {
							if mine == nil || !c12NameFromCell(nm) {
								s.violate("C12-cubbyhole-foreign-name-listed", fmt.Sprintf("token %s listed %q in namespace %q and got %v although it never wrote there", reader.Name, lp, n.Path, names), map[string]any{"request": q})
								break
							}
						}
					}
				}
			}
			// the writer's storage segment used as a path by the reader
			for _, seg := range segOf[cell.Tok] {
				if !s.rng.Chance(1, 4) {
					continue
				}
				q := &c12Req{Kind: "cubby-segment-probe:" + phase, Op: logical.ReadOperation, Tok: reader, N: n, M: s.cubby[n]}
				s.pickForm(q, n, "cubbyhole/"+seg+"/shared")
				s.do(q)
				s.checkPhys(q, false)
				s.scanResponse(q, true)
				s.r.Count("segment_probe_reads", 1)
			}
		}
		if s.failed && c12Generic(s.r) > 25 {
			return
		}
	}
}

func c12NameFromCell(name string) bool {
	for _, p := range c12CubbyPaths {
		first := strings.SplitN(p, "/", 2)[0]
		last := p[strings.LastIndex(p, "/")+1:]
		if name == p || name == first || name == first+"/" || name == last {
			return true
		}
	}
	return false
}

func c12Role(t *c12Tok) string {
	return strings.SplitN(t.Name, "@", 2)[0]
}

// ---------------------------------------------------------------- re-issued token ids

// issueID creates a token with a caller-chosen id (root namespace, root caller).
func (s *c12CubbyRun) issueID(id, name string) *c12Tok {
	resp, err := s.v.Do(vReq{Op: logical.UpdateOperation, Path: "auth/token/create", Token: s.v.Root, Data: map[string]any{"id": id, "policies": []string{"c12-all"}, "ttl": "1h", "no_default_policy": true}})
	if !vOK(resp, err) || resp == nil || resp.Auth == nil {
		s.step("issuing id %q (%s) refused: %s", id, name, c12Short(vErrStr(resp, err)))
		return nil
	}
	t := &c12Tok{Name: name + "@", ID: resp.Auth.ClientToken, Accessor: resp.Auth.Accessor, NS: s.root, Kind: "all", Patterns: []string{"*"}}
	s.toks = append(s.toks, t)
	s.step("issued id %q as %s (accessor %s)", id, t.Name, t.Accessor)
	return t
}

// segmentsOf: physical cubbyhole sub-trees created by the token's writes.
func (s *c12CubbyRun) segmentsOf(t *c12Tok) []string {
	var out []string
	for k, o := range s.segs {
		if o == t {
			ps := strings.SplitN(k, "|", 2)
			out = append(out, ps[0]+ps[1]+"/")
		}
	}
	sort.Strings(out)
	return out
}

// releaseSegments: a segment whose keys are all gone from the physical store no
// longer belongs to the token that created it (its revocation cleared it).
func (s *c12CubbyRun) releaseSegments(t *c12Tok) (left int) {
	for k, o := range s.segs {
		if o != t {
			continue
		}
		ps := strings.SplitN(k, "|", 2)
		if n := len(s.v.Probe.Keys(ps[0] + ps[1] + "/")); n == 0 {
			delete(s.segs, k)
		} else {
			left += n
		}
	}
	return left
}

// readCellsOf: readers look at every cell the earlier token wrote.
func (s *c12CubbyRun) readCellsOf(first *c12Tok, readers []*c12Tok, phase string, ownCleared bool) {
	for _, reader := range readers {
		if reader == nil || reader == first {
			continue
		}
		for _, cell := range s.cells {
			if cell.Tok != first || cell.NS.effSealed() || !cell.NS.under(reader.NS) {
				continue
			}
			if reader.ID == first.ID && ownCleared && cell.NS != first.NS {
				s.leftoverInChildNamespace(first, reader, cell, phase)
				continue
			}
			for _, p := range c12CubbyPaths {
				q := &c12Req{Kind: "cubby-reissue-read:" + phase, Op: logical.ReadOperation, Tok: reader, N: cell.NS, M: s.cubby[cell.NS]}
				s.pickForm(q, cell.NS, "cubbyhole/"+p)
				s.do(q)
				s.r.Eval(1)
				s.checkPhys(q, false)
				s.scanResponse(q, true)
				s.r.Count("reads_by_later_holder_or_bystander_of_earlier_holders_cells", 1)
				s.r.Nontrivial(fmt.Sprintf("reissue-read|%s|%s|%d|%v", phase, c12Role(reader), cell.NS.Depth, reader.ID == first.ID))
			}
			for _, lp := range []string{"cubbyhole/", "cubbyhole/dir/"} {
				q := &c12Req{Kind: "cubby-reissue-list:" + phase, Op: logical.ListOperation, Tok: reader, N: cell.NS, M: s.cubby[cell.NS]}
				s.pickForm(q, cell.NS, lp)
				s.do(q)
				s.r.Eval(1)
				s.checkPhys(q, false)
				s.scanResponse(q, true)
				if q.ok() && q.resp != nil && reader.ID == first.ID {
					if names, _ := q.resp.Data["keys"].([]string); len(names) > 0 {
						s.violate("C12-cubbyhole-foreign-name-listed", fmt.Sprintf("token %s (a later holder of the id of %s, which never wrote anything) listed %q in namespace %q and got %v", reader.Name, first.Name, lp, cell.NS.Path, names), map[string]any{"request": q})
					}
				}
			}
		}
	}
}

// reissue: a token id chosen by the caller can be issued again. Whoever holds
// the id later is a different token and must not reach what an earlier holder
// stored, whatever state the earlier holder's revocation is in: complete,
// stopped by a storage fault (while clearing the cubbyhole, while listing it,
// at the n-th write of the revocation), still to be retried.
func (s *c12CubbyRun) reissue() {
	base := "c12re" + s.rng.Canary()[4:12]
	nss := []*c12NS{s.root}
	for _, n := range s.nss {
		if n != s.root && !n.effSealed() && len(nss) < 3 {
			nss = append(nss, n)
		}
	}
	scenarios := []string{"complete", "fault-delete", "fault-list", "fault-nth-write", "fault-delete", "complete", "fault-nth-write", "fault-list"}
	total := kit.N(8, 12)
	for i := 0; i < total; i++ {
		sc := scenarios[i%len(scenarios)]
		id := fmt.Sprintf("%s-%d", base, i)
		if i%3 == 2 {
			id = fmt.Sprintf("s.%s%d", base, i) // looks like a generated service token id
		}
		first := s.issueID(id, fmt.Sprintf("id%d-holder1", i))
		if first == nil {
			s.r.Count("chosen_id_refused_at_first_issue", 1)
			continue
		}
		for _, n := range nss {
			cell := &c12Cell{Tok: first, NS: n, Val: map[string]string{}}
			for _, p := range c12CubbyPaths {
				c := s.rng.Canary()
				q := &c12Req{Kind: "cubby-write", Op: logical.UpdateOperation, Tok: first, N: n, M: s.cubby[n], Data: map[string]any{"v": c}}
				s.pickForm(q, n, "cubbyhole/"+p)
				s.do(q)
				s.checkPhys(q, true)
				if !q.ok() {
					s.t.Fatalf("verif: token %s cannot write its cubbyhole in %q: %s", first.Name, n.Path, q.outcome())
				}
				s.canary[c] = c12Owner{Mount: s.cubby[n], Tok: first, NS: n}
				cell.Val[p] = c
			}
			s.cells = append(s.cells, cell)
			s.r.Count("cubbyhole_cells_written", 1)
		}
		segs := s.segmentsOf(first)
		under := func(k string) bool {
			for _, sg := range segs {
				if strings.HasPrefix(k, sg) {
					return true
				}
			}
			return false
		}
		tag := fmt.Sprintf("c12rev%d", i)
		switch sc {
		case "fault-delete":
			s.v.Probe.FailAll(func(e kit.Event) bool { return e.Op == "delete" && under(e.Key) })
		case "fault-list":
			s.v.Probe.FailAll(func(e kit.Event) bool { return (e.Op == "list" || e.Op == "listpage") && under(e.Key) })
		case "fault-nth-write":
			s.v.Probe.FailNth(func(e kit.Event) bool { return e.Tag == tag && (e.Op == "put" || e.Op == "delete") }, 1+s.rng.Intn(4))
		}
		var rq vReq
		switch s.rng.Intn(3) {
		case 0:
			rq = vReq{Tag: tag, Op: logical.UpdateOperation, Path: "auth/token/revoke", Token: s.v.Root, Data: map[string]any{"token": first.ID}}
		case 1:
			rq = vReq{Tag: tag, Op: logical.UpdateOperation, Path: "auth/token/revoke-accessor", Token: s.v.Root, Data: map[string]any{"accessor": first.Accessor}}
		default:
			rq = vReq{Tag: tag, Op: logical.UpdateOperation, Path: "auth/token/revoke-self", Token: first.ID}
		}
		resp, err := s.v.Do(rq)
		first.Dead = true
		s.step("%s: revoke %s via %s -> %s", sc, first.Name, rq.Path, c12Short(vErrStr(resp, err)))
		left := s.releaseSegments(first)
		if left > 0 {
			left = s.ownLeft(first) // what is left in child namespaces is judged by leftoverInChildNamespace
		}
		if sc != "complete" && left > 0 {
			s.r.Count("revocations_stopped_by_a_storage_fault_with_cubbyhole_data_left", 1)
		}
		if sc == "complete" && left > 0 {
			s.r.Count("complete_revocations_leaving_cubbyhole_keys", left)
		}
		// same id again, while whatever fault there is persists
		bystander := s.token(s.root, fmt.Sprintf("id%d-bystander", i), "all", []string{"c12-all"}, []string{"*"}, nil)
		second := s.issueID(id, fmt.Sprintf("id%d-holder2", i))
		if left > 0 {
			s.r.Count("reissue_attempts_while_earlier_holder_not_fully_revoked", 1)
			if second != nil {
				s.r.Count("ids_issued_again_while_earlier_holder_not_fully_revoked", 1)
			}
		} else if second != nil {
			s.r.Count("reissued_after_complete_revocation", 1)
		}
		if second != nil {
			s.r.Count("chosen_ids_issued_again", 1)
		}
		s.readCellsOf(first, []*c12Tok{second, bystander}, sc, left == 0)
		// the fault goes away, the revocation is retried
		if s.v.Probe.ClearFaults() > 0 {
			s.r.Count("storage_faults_fired_in_revocations", 1)
		}
		if sc != "complete" && second == nil {
			resp, err := s.v.Do(vReq{Op: logical.UpdateOperation, Path: "auth/token/revoke-accessor", Token: s.v.Root, Data: map[string]any{"accessor": first.Accessor}})
			s.step("%s: retry revoke %s -> %s", sc, first.Name, c12Short(vErrStr(resp, err)))
			s.v.WaitQuiet(20*time.Millisecond, 2*time.Second)
			s.releaseSegments(first)
			cleared := s.ownLeft(first) == 0
			third := s.issueID(id, fmt.Sprintf("id%d-holder3", i))
			if third != nil {
				s.r.Count("chosen_ids_issued_again", 1)
			}
			s.readCellsOf(first, []*c12Tok{third, bystander}, sc+"-after-retry", cleared)
		}
		// later holders have been judged here; they take no part in the general read phases
		// (anything they do in a child namespace would meet the earlier holder's leftovers again)
		for _, t := range s.toks {
			if strings.HasPrefix(t.Name, fmt.Sprintf("id%d-holder", i)) {
				t.Dead = true
			}
		}
		if s.failed && c12Generic(s.r) > 25 {
			return
		}
	}
}

// ownLeft: physical keys left in the cubbyhole of the token's OWN namespace.
func (s *c12CubbyRun) ownLeft(t *c12Tok) int {
	n := 0
	for _, sg := range s.segmentsOf(t) {
		if strings.HasPrefix(sg, s.cubby[t.NS].Prefix) {
			n += len(s.v.Probe.Keys(sg))
		}
	}
	return n
}

// leftoverInChildNamespace judges one precise configuration separately: the
// earlier holder of a caller-chosen id was revoked and the cubbyhole of its own
// namespace is gone, but it had also written into the cubbyhole of a child
// namespace; a later holder of the same id looks there.
func (s *c12CubbyRun) leftoverInChildNamespace(first, reader *c12Tok, cell *c12Cell, phase string) {
	hit, what := false, ""
	var witness *c12Req
	for _, p := range append(append([]string{}, c12CubbyPaths...), "") {
		q := &c12Req{Kind: "cubby-reissue-child-ns:" + phase, Op: logical.ReadOperation, Tok: reader, N: cell.NS, M: s.cubby[cell.NS]}
		if p == "" {
			q.Op = logical.ListOperation
		}
		s.pickForm(q, cell.NS, "cubbyhole/"+p)
		s.do(q)
		s.r.Eval(1)
		s.checkStorage(q)
		s.r.Count("reads_by_later_holder_or_bystander_of_earlier_holders_cells", 1)
		if !q.ok() || q.resp == nil {
			continue
		}
		var ss []string
		c12Strings(q.resp.Data, "", &ss)
		for _, x := range ss {
			for _, c := range c12CanaryRe.FindAllString(x, -1) {
				o, known := s.canary[c]
				switch {
				case known && o.Tok == first && o.NS == cell.NS:
					hit, what, witness = true, "read "+c, q
				case known && o.Tok != reader:
					s.violate("C12-cubbyhole-foreign-token-data", fmt.Sprintf("token %s read cubbyhole data %s written by token %s", reader.Name, c, o.Tok.Name), map[string]any{"request": q})
				}
			}
		}
		if names, _ := q.resp.Data["keys"].([]string); p == "" && len(names) > 0 && !hit {
			hit, what, witness = true, fmt.Sprintf("listed %v", names), q
		}
	}
	if !hit {
		s.r.Count("later_holder_finds_nothing_in_child_namespace_cubbyhole", 1)
		return
	}
	s.r.Count("later_holder_reaches_earlier_holders_child_namespace_cubbyhole", 1)
	s.r.Nontrivial(fmt.Sprintf("reissue-child-ns|%s|%d", phase, cell.NS.Depth))
	{
		s.violate("C12-reissued-token-id-reads-earlier-holders-child-namespace-cubbyhole",
			fmt.Sprintf("token %s (accessor %s) was revoked and the cubbyhole of its own namespace %q is cleared, but what it had stored in the cubbyhole of the child namespace %q is still there; token %s (accessor %s), created later with the same caller-chosen id, %s there (%s %q header %q)",
				first.Name, first.Accessor, first.NS.Path, cell.NS.Path, reader.Name, reader.Accessor, what, witness.Op, witness.Path, witness.Header),
			map[string]any{"request": witness, "physical_ops": c12Events(witness.events), "phase": phase})
	}
}
