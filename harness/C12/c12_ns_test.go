//go:build verif

package vault

// C12 monitor 2: access matrix (token namespace x request namespace x policy x
// request spelling) and sealed namespaces.

import (
	"fmt"
	"strings"
	"testing"

	kit "github.com/openbao/openbao/sdk/v2/helper/verifkit"
	"github.com/openbao/openbao/sdk/v2/logical"
)

func TestVerif_C12_Namespaces(t *testing.T) {
	seed := kit.Seed(12)
	shard, shards := kit.Shard()
	r := kit.NewResult(t, "c12-namespaces", seed,
		"for every generated world: every token (root-policy token of each namespace, tokens holding a namespace-wide policy, a single-mount policy, a policy that names a child namespace, a '+' segment policy; all without the default policy) x every namespace x its recording mounts x {update, read, list} x every spelling of the namespace (header, path, split, 'root' header) is sent through Core.HandleRequest; the reference authoriser (request namespace must be the token's namespace or a descendant AND a namespace-qualified policy path must match; nothing is served while the namespace of the request or of the token is sealed) predicts whether the backend handler may run; arbitrary header/path combinations (unknown, prefix-related, traversal-carrying, doubled namespace parts) are resolved by a reference resolver and must be served by exactly the mount it names; tokens whose only policy source is identity-group membership are checked against the default group-policy application mode; then each sealable namespace is sealed in turn, the matrix is repeated for it and the physical log must show no key of the sealed subtree, and after unsealing the earlier data must be back behind the same confinement; a cell is non-trivial when token namespace and request namespace differ or a seal is involved")
	defer r.Write(t)
	topos := kit.N(5, 240)
	for ti := 0; ti < topos; ti++ {
		if ti%shards != shard {
			continue
		}
		caseID := fmt.Sprintf("ns:%d", ti)
		if !kit.WantCase(caseID) {
			continue
		}
		rng := kit.NewRand(seed, 0x12100+uint64(ti))
		c12NSCase(t, r, rng, caseID, (ti+ti/8)%2 == 1)
		if c12Generic(r) > 30 {
			break
		}
	}
	r.Require("matrix_cells", 15000)
	r.Require("cells_expected_allowed_and_served", 2500)
	r.Require("cells_expected_denied_and_refused", 12000)
	r.Require("denied_because_token_namespace_not_ancestor", 5000)
	r.Require("denied_root_policy_outside_subtree", 1200)
	r.Require("denied_because_no_policy_match", 2500)
	r.Require("allowed_into_descendant_namespace", 1400)
	r.Require("denied_because_sealed", 4500)
	r.Require("sealed_phases", 4)
	r.Require("data_back_after_unseal", 35)
	r.Require("spellings_compared", 2800)
	r.Require("header_path_combinations", 1500)
	r.Require("combinations_served", 100)
	r.Require("combinations_with_unknown_or_mismatched_namespace", 300)
	r.Require("group_member_tokens", 50)
	r.Require("group_cells", 1400)
	r.Require("sibling_namespaces_with_prefix_related_names", 3)
}

type c12NSRun struct {
	*c12World
	written map[*c12Mount]string // canary stored under data/<tag>-nm by the root token
}

func c12NSCase(t *testing.T, r *kit.Result, rng *kit.Rand, caseID string, transactional bool) {
	w := c12Build(t, r, rng, caseID, transactional)
	defer w.v.Close()
	s := &c12NSRun{c12World: w, written: map[*c12Mount]string{}}
	w.seedData()
	// policies and tokens
	for _, n := range w.nss {
		recs := w.liveMounts(func(m *c12Mount) bool { return c12Rec(m) && m.NS == n })
		w.policy(n, "c12-all", []string{"*"})
		w.token(n, "all@"+n.Path, "all", []string{"c12-all"}, []string{"*"}, nil)
		w.nsRootToken(n)
		if len(recs) > 0 {
			m := recs[rng.Intn(len(recs))]
			pats := []string{m.api() + "data/*", m.api() + "data"}
			w.policy(n, "c12-one", pats)
			w.token(n, "one@"+n.Path, "one", []string{"c12-one"}, pats, nil)
		}
		for _, k := range w.children(n) {
			krecs := w.liveMounts(func(m *c12Mount) bool { return c12Rec(m) && m.NS == k })
			if len(krecs) == 0 {
				continue
			}
			m := krecs[rng.Intn(len(krecs))]
			pats := []string{k.Name + "/" + m.api() + "data/*"}
			w.policy(n, "c12-kid-"+k.Name, pats)
			w.token(n, "kid-"+k.Name+"@"+n.Path, "kid", []string{"c12-kid-" + k.Name}, pats, nil)
		}
		plus := []string{"+/data/*", "+/+/data/*"}
		w.policy(n, "c12-plus", plus)
		w.token(n, "plus@"+n.Path, "plus", []string{"c12-plus"}, plus, nil)
	}
	// a known value behind every recording mount
	for _, m := range w.liveMounts(c12Rec) {
		c := rng.Canary()
		q := &c12Req{Kind: "ns-seed", Op: logical.UpdateOperation, Tok: w.rootTok, N: m.NS, M: m, Marker: m.Tag, Data: map[string]any{"v": c}}
		q.Form, q.Header, q.Path = "header", m.NS.Path, m.api()+"data/"+m.Tag+"-nm"
		w.do(q)
		if !q.ok() {
			t.Fatalf("verif: cannot seed %s: %s", m, q.outcome())
		}
		w.canary[c] = c12Owner{Mount: m}
		s.written[m] = c
	}
	s.matrix("open", nil)
	s.combos(kit.N(600, 1500))
	s.groups()
	// sealed phases
	var sealable []*c12NS
	for _, n := range w.nss {
		if n.Sealable {
			sealable = append(sealable, n)
		}
	}
	maxPhases := kit.N(2, 4)
	for i, S := range sealable {
		if i >= maxPhases || w.failed {
			break
		}
		if S.effSealed() {
			continue
		}
		if !w.sealNS(S) {
			r.Inconc("[%s] sealing %q was refused", caseID, S.Path)
			continue
		}
		r.Count("sealed_phases", 1)
		s.matrix("sealed:"+S.Path, S)
		s.sealedAdmin(S)
		if !w.unsealTree(S) {
			r.Inconc("[%s] could not unseal %q", caseID, S.Path)
			break
		}
		before := map[*c12Mount]string{}
		for _, m := range w.mounts {
			before[m] = m.Prefix
		}
		w.sync()
		for _, m := range w.liveMounts(c12Rec) {
			if !m.NS.under(S) || s.written[m] == "" {
				continue
			}
			if before[m] != m.Prefix {
				r.Count("mount_prefix_changed_by_seal_cycle", 1)
			}
			q := &c12Req{Kind: "after-unseal-read", Op: logical.ReadOperation, Tok: w.rootTok, N: m.NS, M: m, Marker: m.Tag}
			q.Form, q.Header, q.Path = "header", m.NS.Path, m.api()+"data/"+m.Tag+"-nm"
			w.do(q)
			w.checkStorage(q)
			if w.scanResponse(q, false) > 0 {
				r.Count("data_back_after_unseal", 1)
			} else {
				r.Count("data_missing_after_unseal", 1)
				r.Note("[%s] after unsealing %q the value behind %s was not returned: %s", caseID, S.Path, m, c12Short(q.outcome()))
			}
		}
		s.matrix("reopened:"+S.Path, S)
	}
	r.Eval(1)
	r.Sample(map[string]any{"case": caseID, "namespaces": w.nss, "tokens": w.toks, "mounts": len(w.liveMounts(c12User))})
}

// matrix runs tokens x namespaces x mounts x ops x spellings. With focus set
// only cells that involve the subtree of focus (request or token side) are run
// in full; the others are sampled as a control.
func (s *c12NSRun) matrix(phase string, focus *c12NS) {
	var targets []*c12Mount
	for _, m := range s.mounts {
		if !m.Dead && m.NS != nil && c12Rec(m) && s.written[m] != "" {
			targets = append(targets, m)
		}
	}
	ops := []logical.Operation{logical.UpdateOperation, logical.ReadOperation, logical.ListOperation}
	for _, tok := range s.toks {
		if tok.Dead {
			continue
		}
		for _, M := range targets {
			involved := focus == nil || M.NS.under(focus) || tok.NS.under(focus)
			if !involved && !s.rng.Chance(1, 8) {
				continue
			}
			for _, op := range ops {
				p := M.api() + "data/" + M.Tag + "-nm"
				if op == logical.ListOperation {
					p = M.api() + "data/"
				}
				forms := c12Forms(M.NS, p)
				if focus != nil || !s.rng.Chance(1, 3) {
					// all spellings for a third of the open cells, one otherwise
					f := forms[s.rng.Intn(len(forms))]
					forms = [][3]string{f}
				}
				var first *bool
				for _, f := range forms {
					served := s.cell(phase, tok, M, op, p, f)
					if first == nil {
						first = &served
					} else {
						s.r.Count("spellings_compared", 1)
						if *first != served {
							s.violate("C12-namespace-spellings-disagree", fmt.Sprintf("[%s] token %s, %s on %s: spelling %q (header %q path %q) served=%v but another spelling of the same namespace served=%v", phase, tok.Name, op, M, f[0], f[1], f[2], served, *first), nil)
						}
					}
				}
				if s.failed && c12Generic(s.r) > 25 {
					return
				}
			}
		}
	}
}

// cell sends one request and compares with the reference authoriser.
func (s *c12NSRun) cell(phase string, tok *c12Tok, M *c12Mount, op logical.Operation, p string, f [3]string) bool {
	q := &c12Req{Kind: "matrix:" + phase, Op: op, Tok: tok, N: M.NS, M: M, Marker: M.Tag, Form: f[0], Header: f[1], Path: f[2]}
	if op == logical.UpdateOperation {
		// rewrite the same known value so the cell does not change what a read must return
		q.Data = map[string]any{"v": s.written[M]}
	}
	s.do(q)
	s.r.Count("matrix_cells", 1)
	handled, at := q.handled()
	served := handled
	if !handled && q.ok() && q.resp != nil && len(q.resp.Data) > 0 {
		served = true
	}
	sealedReq, sealedTok := M.NS.effSealed(), tok.NS.effSealed()
	inScope := M.NS.under(tok.NS)
	granted := tok.grants(M.NS, p)
	expected := !sealedReq && !sealedTok && granted
	if tok.NS != M.NS || sealedReq || sealedTok {
		s.r.Eval(1) // one judged request / matrix cell
		s.r.Nontrivial(fmt.Sprintf("%s|%s|%d>%d|%v|%v|%s|%s|%v", strings.SplitN(phase, ":", 2)[0], tok.Kind, tok.NS.Depth, M.NS.Depth, inScope, granted, op, f[0], M.Auth))
	}
	ev := map[string]any{"request": q, "phase": phase, "token": tok, "outcome": c12Short(q.outcome()), "expected_served": expected}
	if sealedReq || sealedTok {
		s.checkSealedUntouched(q)
	} else {
		s.checkStorage(q)
	}
	switch {
	case served && !expected:
		class, why := "", ""
		switch {
		case sealedReq:
			class, why = "C12-sealed-namespace-access", fmt.Sprintf("the request namespace %q is sealed", M.NS.Path)
		case sealedTok:
			class, why = "C12-sealed-namespace-token-accepted", fmt.Sprintf("the token's namespace %q is sealed", tok.NS.Path)
		case !inScope && tok.Root:
			class, why = "C12-root-policy-outside-subtree", fmt.Sprintf("a root-policy token of namespace %q acts only in that namespace and below, not in %q", tok.NS.Path, M.NS.Path)
		case !inScope:
			class, why = "C12-cross-namespace-access", fmt.Sprintf("policies of namespace %q grant nothing in %q", tok.NS.Path, M.NS.Path)
		default:
			class, why = "C12-access-without-policy", fmt.Sprintf("no policy path of the token matches %q", M.NS.Path+p)
		}
		s.violate(class, fmt.Sprintf("[%s] token %s (%s) was served %s %q header %q -> mount %s: %s; outcome %s", phase, tok.Name, tok.Kind, op, q.Path, q.Header, M, why, c12Short(q.outcome())), ev)
	case !served && expected:
		s.r.Count("cells_expected_allowed_but_refused", 1)
		s.r.Inconc("[%s %s] reference expects token %s to be served %s %s%s (header %q path %q) but it was refused: %s", s.caseID, phase, tok.Name, op, M.NS.Path, p, q.Header, q.Path, c12Short(q.outcome()))
	case served:
		s.r.Count("cells_expected_allowed_and_served", 1)
		if tok.NS != M.NS {
			s.r.Count("allowed_into_descendant_namespace", 1)
		}
		if handled && at != M.NS.Path+M.api() {
			s.violate("C12-misrouted-request", fmt.Sprintf("[%s] %s %q header %q addressed to %s was handled by the mount at %q", phase, op, q.Path, q.Header, M, at), ev)
		}
		own := s.scanResponse(q, false)
		if op == logical.ReadOperation && own == 0 {
			s.r.Count("served_reads_without_the_known_value", 1)
		}
	default:
		s.r.Count("cells_expected_denied_and_refused", 1)
		switch {
		case sealedReq || sealedTok:
			s.r.Count("denied_because_sealed", 1)
		case !inScope:
			s.r.Count("denied_because_token_namespace_not_ancestor", 1)
			if tok.Root {
				s.r.Count("denied_root_policy_outside_subtree", 1)
			}
		default:
			s.r.Count("denied_because_no_policy_match", 1)
		}
	}
	return served
}

// sealedAdmin: while S is sealed its mount table, policies and tokens must be
// unreachable through its own sys/ and cubbyhole paths as well.
func (s *c12NSRun) sealedAdmin(S *c12NS) {
	for _, n := range s.subtree(S) {
		for _, tok := range []*c12Tok{s.rootTok} {
			for _, p := range []struct {
				op   logical.Operation
				path string
			}{
				{logical.ReadOperation, "sys/mounts"},
				{logical.ListOperation, "sys/policies/acl"},
				{logical.ReadOperation, "cubbyhole/shared"},
				{logical.UpdateOperation, "auth/token/create"},
				{logical.ReadOperation, "auth/token/lookup-self"},
			} {
				for _, f := range c12Forms(n, p.path) {
					q := &c12Req{Kind: "sealed-admin", Op: p.op, Tok: tok, N: n, Form: f[0], Header: f[1], Path: f[2]}
					s.do(q)
					s.r.Count("sealed_admin_requests", 1)
					s.checkSealedUntouched(q)
					if q.ok() {
						s.violate("C12-sealed-namespace-request-served", fmt.Sprintf("while %q is sealed, %s %q (header %q) succeeded: %s", S.Path, p.op, q.Path, q.Header, c12Short(q.outcome())), map[string]any{"request": q})
					} else {
						s.r.Count("denied_because_sealed", 1)
					}
				}
			}
		}
	}
}

// groups: identity-group policies. A token whose only source of policy is group
// membership (group defined in its own, an ancestor, a descendant or an
// unrelated namespace) must, in the default application mode, never be served
// outside its own namespace subtree. As a positive control the mode is then
// switched to "any" (out of the property's scope) to show that the memberships
// were effective.
func (s *c12NSRun) groups() {
	type member struct {
		tok *c12Tok
		X   *c12NS
		ok  bool
	}
	var members []member
	open := []*c12NS{}
	for _, n := range s.nss {
		if !n.effSealed() {
			open = append(open, n)
		}
	}
	n := 0
	for _, T := range open {
		var am *c12Mount
		for _, m := range s.liveMounts(func(m *c12Mount) bool { return c12Rec(m) && m.Auth && m.NS == T }) {
			am = m
		}
		if am == nil {
			am = s.mount(T, "grp/", "verifrec", true)
			if am == nil {
				continue
			}
		}
		for _, X := range open {
			if !s.rng.Chance(2, 3) && X != T {
				continue
			}
			n++
			q := &c12Req{Kind: "group-login", Op: logical.UpdateOperation, N: T, M: am, Form: "header", Header: T.Path, Path: am.api() + "login/grp" + fmt.Sprint(n),
				Data: map[string]any{"alias": fmt.Sprintf("c12alias%d", n), "no_default_policy": true, "ttl": "1h"}}
			s.do(q)
			if !q.ok() || q.resp == nil || q.resp.Auth == nil || q.resp.Auth.EntityID == "" {
				s.r.Count("group_logins_without_entity", 1)
				continue
			}
			tok := &c12Tok{Name: fmt.Sprintf("grp%d@%s->%s", n, T.Path, X.Path), ID: q.resp.Auth.ClientToken, NS: T, NSPath: T.Path, Kind: "group"}
			resp, err := s.v.Do(vReq{Op: logical.UpdateOperation, Path: "identity/group", Token: s.v.Root, NS: X.Path,
				Data: map[string]any{"name": fmt.Sprintf("c12g%d", n), "policies": []string{"c12-all"}, "member_entity_ids": []string{q.resp.Auth.EntityID}}})
			created := vOK(resp, err)
			if !created {
				s.r.Count("group_with_foreign_member_refused", 1)
				s.step("group in %q with member entity of %q refused: %s", X.Path, T.Path, c12Short(vErrStr(resp, err)))
			} else {
				s.r.Count("groups_created", 1)
				if X != T {
					s.r.Count("groups_with_member_of_other_namespace", 1)
				}
			}
			members = append(members, member{tok, X, created})
			s.r.Count("group_member_tokens", 1)
		}
	}
	var targets []*c12Mount
	for _, m := range s.liveMounts(c12Rec) {
		if !m.Auth {
			targets = append(targets, m)
		}
	}
	run := func(mode string) {
		for _, mb := range members {
			for _, M := range targets {
				p := M.api() + "data/" + M.Tag + "-nm"
				fs := c12Forms(M.NS, p)
				f := fs[s.rng.Intn(len(fs))]
				q := &c12Req{Kind: "group:" + mode, Op: logical.ReadOperation, Tok: mb.tok, N: M.NS, M: M, Marker: M.Tag, Form: f[0], Header: f[1], Path: f[2]}
				s.do(q)
				s.checkStorage(q)
				handled, _ := q.handled()
				s.r.Count("group_cells", 1)
				inTok := M.NS.under(mb.tok.NS)
				byRef := mb.ok && mb.X.under(mb.tok.NS) && M.NS.under(mb.X)
				s.r.Eval(1) // one judged request / matrix cell
				s.r.Nontrivial(fmt.Sprintf("group|%s|%v|%v|%v|%d>%d", mode, mb.ok, inTok, byRef, mb.tok.NS.Depth, M.NS.Depth))
				if mode == "any" {
					if handled && !inTok {
						s.r.Count("group_any_mode_served_outside_token_namespace", 1)
					}
					continue
				}
				switch {
				case handled && !inTok:
					s.violate("C12-group-policy-outside-token-namespace", fmt.Sprintf("token %s of namespace %q, whose only policy source is a group in %q, was served %s %q (header %q) by %s in namespace %q", mb.tok.Name, mb.tok.NS.Path, mb.X.Path, q.Op, q.Path, q.Header, M, M.NS.Path), map[string]any{"request": q})
				case handled && !byRef:
					s.violate("C12-access-without-policy", fmt.Sprintf("token %s of namespace %q (group in %q, created=%v) was served by %s although no policy defined at or below the token's namespace covers it", mb.tok.Name, mb.tok.NS.Path, mb.X.Path, mb.ok, M), map[string]any{"request": q})
				case handled:
					s.r.Count("group_cells_served_inside_hierarchy", 1)
					s.scanResponse(q, false)
				default:
					s.r.Count("group_cells_refused", 1)
					if byRef {
						s.r.Count("group_cells_refused_though_reference_allows", 1)
					}
				}
			}
		}
	}
	run("default")
	if err := s.v.Core.SetGroupPolicyApplicationMode(c12RootCtx(), "any"); err == nil {
		run("any")
		if err := s.v.Core.SetGroupPolicyApplicationMode(c12RootCtx(), groupPolicyApplicationModeWithinNamespaceHierarchy); err != nil {
			s.t.Fatalf("verif: cannot restore the group policy application mode: %v", err)
		}
	}
	for _, mb := range members {
		mb.tok.Dead = true // not part of the later matrices
	}
}

// c12Resolve is the reference resolution of a (namespace header, request path)
// pair, written from the documentation: the header is canonicalised (one leading
// slash dropped, "." / ".." / empty segments resolved, trailing slash added,
// "root" = root namespace), header and path are concatenated, the deepest
// namespace whose path is a prefix of the result is the request namespace
// provided the whole header was consumed, and inside that namespace the mount
// whose path is a prefix of the remainder serves the request.
func (w *c12World) c12Resolve(header, reqPath string) (ns *c12NS, rest string, m *c12Mount) {
	h := strings.TrimPrefix(header, "/")
	hc, above := c12Clean(h)
	if above {
		return nil, "", nil
	}
	if hc != "" && !strings.HasSuffix(hc, "/") {
		hc += "/"
	}
	if hc == "root/" {
		hc = ""
	}
	full := hc + reqPath
	ns = w.root
	for _, n := range w.nss {
		if n.Path != "" && strings.HasPrefix(full, n.Path) && len(n.Path) > len(ns.Path) {
			// a namespace unknown to the core (see unsealTree) and everything below it cannot be addressed
			lost := false
			for x := n; x != nil; x = x.Parent {
				lost = lost || x.Lost
			}
			if !lost {
				ns = n
			}
		}
	}
	if !strings.HasPrefix(ns.Path, hc) {
		return nil, "", nil
	}
	rest = full[len(ns.Path):]
	for _, c := range w.mounts {
		if !c.Dead && c.NS == ns && strings.HasPrefix(rest, c.api()) && (m == nil || len(c.api()) > len(m.api())) {
			m = c
		}
	}
	return ns, rest, m
}

// combos: arbitrary header / path combinations, including headers naming
// unknown namespaces, prefix-related names, traversal segments in the header
// and paths that carry another namespace's path.
func (s *c12NSRun) combos(n int) {
	var recs []*c12Mount
	for _, m := range s.liveMounts(c12Rec) {
		if s.written[m] != "" {
			recs = append(recs, m)
		}
	}
	if len(recs) == 0 {
		return
	}
	var toks []*c12Tok
	for _, t := range s.toks {
		if !t.Dead {
			toks = append(toks, t)
		}
	}
	nsPaths := []string{""}
	for _, x := range s.nss {
		if x.Path != "" {
			nsPaths = append(nsPaths, x.Path)
		}
	}
	for i := 0; i < n; i++ {
		M := recs[s.rng.Intn(len(recs))]
		tok := toks[s.rng.Intn(len(toks))]
		hp := nsPaths[s.rng.Intn(len(nsPaths))]
		header := hp
		switch s.rng.Intn(12) {
		case 0:
			header = "/" + strings.TrimSuffix(hp, "/")
		case 1:
			header = strings.TrimSuffix(hp, "/")
		case 2:
			header = "root"
		case 3:
			header = hp + "zz/"
		case 4:
			header = "zz/" + hp
		case 5:
			if len(hp) > 2 {
				header = hp[:len(hp)-2] // "ab/" -> "a"
			}
		case 6:
			header = hp + "../" + nsPaths[s.rng.Intn(len(nsPaths))]
		case 7:
			header = "../" + hp
		case 8:
			header = strings.ReplaceAll(hp, "/", "//")
		case 9:
			header = hp + "./"
		}
		pp := nsPaths[s.rng.Intn(len(nsPaths))]
		if s.rng.Chance(1, 2) {
			// make the combination likely to be meaningful: the path completes the header to M's namespace
			if strings.HasPrefix(M.NS.Path, hp) {
				pp = strings.TrimPrefix(M.NS.Path, hp)
			}
		}
		op := []logical.Operation{logical.ReadOperation, logical.UpdateOperation, logical.ListOperation}[s.rng.Intn(3)]
		p := pp + M.api() + "data/" + M.Tag + "-nm"
		if op == logical.ListOperation {
			p = pp + M.api() + "data/"
		}
		rns, rest, rm := s.c12Resolve(header, p)
		if op == logical.UpdateOperation && rm != M {
			op = logical.ReadOperation // never store a name carrying M's marker through another mount
		}
		q := &c12Req{Kind: "combo", Op: op, Tok: tok, N: rns, M: rm, Form: "combo", Header: header, Path: p}
		if rm != nil {
			q.Marker = rm.Tag
		}
		if op == logical.UpdateOperation {
			v := "x"
			if rm != nil && s.written[rm] != "" && strings.HasSuffix(rest, rm.Tag+"-nm") {
				v = s.written[rm]
			}
			q.Data = map[string]any{"v": v}
		}
		s.do(q)
		s.r.Count("header_path_combinations", 1)
		if rns == nil || rm != M {
			s.r.Count("combinations_with_unknown_or_mismatched_namespace", 1)
		}
		handled, at := q.handled()
		if rns != nil && !rns.effSealed() && !tok.NS.effSealed() {
			s.checkStorage(q)
		} else {
			s.checkSealedUntouched(q)
		}
		expected := rns != nil && rm != nil && c12Rec(rm) && !rns.effSealed() && !tok.NS.effSealed() && tok.grants(rns, rest) && strings.HasPrefix(rest, rm.api()+"data")
		s.r.Eval(1) // one judged request / matrix cell
		s.r.Nontrivial(fmt.Sprintf("combo|%v|%v|%v|%s|%d", rns != nil, rm == M, expected, tok.Kind, s.rng.Intn(1)))
		ev := map[string]any{"request": q, "token": tok, "resolved_namespace": c12NSPath(rns), "resolved_rest": rest, "outcome": c12Short(q.outcome())}
		switch {
		case handled && rm != nil && at != rns.Path+rm.api(), handled && rm == nil:
			s.violate("C12-misrouted-request", fmt.Sprintf("header %q path %q resolves to namespace %q, mount %v, but the request was handled by the mount at %q", header, p, c12NSPath(rns), rm, at), ev)
		case handled && !expected:
			class := "C12-access-without-policy"
			switch {
			case rns.effSealed() || tok.NS.effSealed():
				class = "C12-sealed-namespace-access"
			case !rns.under(tok.NS) && tok.Root:
				class = "C12-root-policy-outside-subtree"
			case !rns.under(tok.NS):
				class = "C12-cross-namespace-access"
			}
			s.violate(class, fmt.Sprintf("[combo] token %s (%s, namespace %q) was served %s header %q path %q (namespace %q, mount %v) against the reference", tok.Name, tok.Kind, tok.NS.Path, op, header, p, rns.Path, rm), ev)
		case handled:
			s.r.Count("combinations_served", 1)
			s.scanResponse(q, false)
		case expected:
			s.r.Count("combinations_expected_served_but_refused", 1)
			s.r.Inconc("[%s combo] reference expects token %s to be served %s header %q path %q (namespace %q, rest %q) but it was refused: %s", s.caseID, tok.Name, op, header, p, rns.Path, rest, c12Short(q.outcome()))
		default:
			s.r.Count("combinations_refused", 1)
		}
	}
}
