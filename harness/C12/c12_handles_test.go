//go:build verif

package vault

// C12 monitor 4: foreign object handles.
//
// The sys/, auth/token/ and identity/ mounts of a namespace take handles as
// request PARAMETERS: lease ids, token ids and accessors, lease prefixes, role,
// policy and mount names, entity / alias / group ids. A handle is only a string
// chosen by the client: naming, in a request sent to namespace A with a token of
// A, an object that belongs to a namespace B outside A's subtree must neither
// show nor change that object. The monitor builds an estate (leased secrets of
// the recording backend and of kv, tokens, a token role, a policy, mounts, an
// entity with alias and group) in every namespace of a generated tree and sends
// every handle-taking request for every ordered pair (A,B). The verdict is taken
// from effects: the stored lease / token records of B (read through the owning
// namespace's views), renew / revoke handler calls of B's recording mounts,
// physical writes attributed to the request, and B's canaries or ids in the
// response. Pairs with B inside A's subtree are the positive control.
//
// Finding on the unchanged tree (class c12ClsRootTokenID, see rootTokenIDShape):
// TokenStore.lookupInternal resolves a token id that carries no namespace suffix
// in the ROOT namespace whatever the request namespace is, and the front door
// (Core.HandleRequest) re-binds the request to the token's namespace - where the
// ACL check then refuses a token of another namespace - only for ids WITH a
// suffix. auth/token/lookup and auth/token/revoke sent to a child namespace by a
// token of that namespace (policy of that namespace only) naming the id of a
// root-namespace token therefore return that token's accessor, policies and
// display name, respectively revoke it (token entry, accessor, lease and
// parent index under the root namespace's sys/token and sys/expire are
// rewritten and deleted by the request). Accessors are refused ("cannot lookup
// token in different namespace"), renew and revoke-orphan have no effect.

import (
	"bytes"
	"context"
	"encoding/json"
	"fmt"
	"path"
	"sort"
	"strings"
	"testing"

	kit "github.com/openbao/openbao/sdk/v2/helper/verifkit"
	"github.com/openbao/openbao/sdk/v2/logical"
	"github.com/openbao/openbao/v2/internal/helper/namespace"
)

const (
	c12ClsLease    = "C12-foreign-lease-affected-through-lease-id"
	c12ClsPrefix   = "C12-foreign-lease-affected-through-lease-prefix"
	c12ClsToken    = "C12-foreign-token-affected-through-handle"
	c12ClsData     = "C12-foreign-data-returned"
	c12ClsName     = "C12-foreign-object-affected-through-name"
	c12ClsIdentity = "C12-foreign-identity-affected-through-id"
	c12ClsWrite    = "C12-foreign-namespace-storage-written-through-handle"
	c12ClsCaps     = "C12-foreign-token-has-capabilities-in-namespace"
)

func TestVerif_C12_ForeignHandles(t *testing.T) {
	seed := kit.Seed(12)
	shard, shards := kit.Shard()
	r := kit.NewResult(t, "c12-object-handles", seed,
		"in every generated world every namespace gets an estate: leased secrets of the recording backend (on the equally named mount m/ and on a uniquely named mount) and of kv, tokens (plain, parent + child) with their own leases, a token role, an ACL policy, an entity with alias and a group, all carrying canaries; then for every ordered pair (A,B) of namespaces a token of A holding policy path \"*\" of A (or the root-policy token of A) sends to A, in every spelling of A, every handle-taking request of sys/leases (lookup, renew and revoke by body and URL, sync and async, lookup-list / revoke-prefix / revoke-force by prefix and by exact id), auth/token (lookup, renew, revoke, revoke-orphan by id; lookup-, renew-, revoke-accessor; roles; accessors list), sys/capabilities(-accessor), sys/policies, sys/mounts and identity (lookup, read, update, delete, merge, batch-delete by id / name / alias) naming B's objects, in the exact form and with the namespace suffix removed, replaced by A's or by 'root' (token ids also in the form found inside the signed wrapper); when B is outside A's subtree the stored records of B's leases and tokens must be byte-identical afterwards, no renew / revoke handler of B's mounts may have run, the request may not have written physical keys outside A's subtree and the response may not carry B's canaries, ids or names (other than the echoed handle); when B is A or below A the same requests are the positive control and are counted when they take effect; a probe is non-trivial when B is outside A's subtree")
	defer r.Write(t)
	topos := kit.N(4, 96)
	for ti := 0; ti < topos; ti++ {
		if ti%shards != shard {
			continue
		}
		caseID := fmt.Sprintf("handles:%d", ti)
		if !kit.WantCase(caseID) {
			continue
		}
		rng := kit.NewRand(seed, 0x12300+uint64(ti))
		c12HandlesCase(t, r, rng, caseID, ti%2 == 1)
		if c12Generic(r) > 30 {
			break
		}
	}
	// minimums: about half of what one quick seed shows (the kit enforces a third of them)
	r.Require("foreign_handle_requests", 15000)
	for _, ep := range c12LeaseEPs {
		r.Require("foreign_requests:"+ep.Name, 800)
	}
	r.Require("foreign_requests:sys/leases/revoke-prefix/<prefix>", 300)
	r.Require("foreign_requests:sys/leases/revoke-force/<prefix>", 300)
	r.Require("foreign_requests:sys/leases/lookup/<prefix>", 300)
	for _, ep := range c12TokEPs {
		r.Require("foreign_requests:"+ep.Name, 600)
	}
	r.Require("foreign_requests:identity", 1000)
	r.Require("foreign_requests:names", 800)
	r.Require("pairs:parent", 10)
	r.Require("pairs:sibling", 8)
	r.Require("pairs:ancestor", 6)
	r.Require("pairs:unrelated", 20)
	r.Require("pairs:descendant", 15)
	r.Require("pairs:self", 12)
	r.Require("pairs_with_root_namespace_as_foreign", 10)
	r.Require("foreign_requests_naming_an_unsuffixed_root_namespace_lease", 300)
	r.Require("foreign_objects_found_unchanged", 100000)
	r.Require("foreign_request_physical_writes_checked", 200)
	r.Require("foreign_responses_scanned", 10000)
	r.Require("foreign_capabilities_answers_deny", 150)
	r.Require("positive:lease-lookup", 60)
	r.Require("positive:lease-renew", 120)
	r.Require("positive:lease-renew-returned-secret-data", 60)
	r.Require("positive:lease-renew-handler-ran", 60)
	r.Require("positive:lease-revoke", 200)
	r.Require("positive:lease-revoke-handler-ran", 80)
	r.Require("positive:lease-revoke-async", 60)
	r.Require("positive:lease-list", 30)
	r.Require("positive:own-leases-revoked-by-own-mount-prefix", 20)
	r.Require("positive:token-lookup", 40)
	r.Require("positive:token-renew", 40)
	r.Require("positive:token-revoke", 40)
	r.Require("positive:token-revoke-orphan", 30)
	r.Require("positive:token-capabilities", 40)
	r.Require("positive:descendant", 300)
	r.Require("positive:names", 50)
	r.Require("positive:identity", 60)
	r.Require("final_owner_renewals", 36)
	r.Require("final_tokens_usable", 36)
}

// ---------------------------------------------------------------- estates

type c12HLease struct {
	ID     string     `json:"id"`
	NS     *c12NS     `json:"-"`
	NSPath string     `json:"ns"`
	Kind   string     `json:"kind"` // rec | kv | token
	Mount  *c12Mount  `json:"-"`
	Name   string     `json:"name,omitempty"` // lease/<name> (recording backend) or the kv key
	SecID  string     `json:"secret_id,omitempty"`
	Canary string     `json:"-"`
	Tok    *c12HTok   `json:"-"` // Kind token: the token this lease belongs to
	snap   []byte
	gone   bool
	est    *c12Estate
}

type c12HTok struct {
	Name     string     `json:"name"`
	ID       string     `json:"-"`
	Accessor string     `json:"accessor"`
	NS       *c12NS     `json:"-"`
	NSPath   string     `json:"ns"`
	Canary   string     `json:"-"`
	Parent   *c12HTok   `json:"-"`
	Lease    *c12HLease `json:"-"`
	inner    string // the id inside the signed wrapper (what the token store keys on)
	salted   string
	snap     []byte
	gone     bool
	est      *c12Estate
}

type c12Estate struct {
	NS    *c12NS
	obj   *namespace.Namespace
	ctx   context.Context
	idx   int
	Tag   string
	Adm   *c12Tok // the requesting token of this namespace: policy path "*" of the namespace
	RootT *c12Tok // root-policy token living in this namespace
	Owner *c12Tok // creates the leased secrets
	Rec   *c12Mount
	Uniq  *c12Mount
	KV    *c12Mount
	Auth  *c12Mount
	Leases []*c12HLease
	Toks   []*c12HTok
	nLease int
	nTok   int

	Role, RoleCanary     string
	Policy, PolicyCanary string
	EntityID, EntityName, EntityCanary string
	AliasID, AliasName               string
	GroupID, GroupName, GroupCanary  string
	entSnap, grpSnap, roleSnap, polSnap string
}

type c12HRun struct {
	*c12World
	order   []*c12Estate
	est     map[*c12NS]*c12Estate
	secrets map[string]*c12NS // canaries, ids, accessors, names -> owning namespace
	secKeys []string
	secOf   map[string]*c12HLease // secret id of the recording backend -> lease
}

func c12NSID(n *c12NS) string {
	if n.Path == "" {
		return namespace.RootNamespaceID
	}
	return n.ID
}

func (s *c12HRun) secret(v string, n *c12NS) {
	if len(v) < 8 {
		return
	}
	if _, ok := s.secrets[v]; !ok {
		s.secKeys = append(s.secKeys, v)
	}
	s.secrets[v] = n
}

func (s *c12HRun) hToken(n *c12NS, name string, policies []string) *c12Tok {
	resp, err := s.v.Do(vReq{Op: logical.UpdateOperation, Path: "auth/token/create", Token: s.v.Root, NS: n.Path,
		Data: map[string]any{"policies": policies, "ttl": "4h", "no_default_policy": true, "no_parent": true}})
	if !vOK(resp, err) || resp == nil || resp.Auth == nil {
		s.t.Fatalf("verif: cannot create token %s in %q: %s", name, n.Path, vErrStr(resp, err))
	}
	t := &c12Tok{Name: name, ID: resp.Auth.ClientToken, Accessor: resp.Auth.Accessor, NS: n, NSPath: n.Path, Kind: "all", Patterns: []string{n.Path + "*"}}
	s.toks = append(s.toks, t)
	return t
}

func (s *c12HRun) findMount(n *c12NS, p, typ string, auth bool) *c12Mount {
	for _, m := range s.liveMounts(nil) {
		if m.NS == n && m.Path == p && m.Auth == auth && m.Type == typ && !m.Default {
			return m
		}
	}
	return nil
}

func (s *c12HRun) buildEstate(n *c12NS, idx int) *c12Estate {
	e := &c12Estate{NS: n, idx: idx}
	e.obj = s.nsObj(n)
	if e.obj == nil {
		s.t.Fatalf("verif: namespace %q unknown to the core", n.Path)
	}
	e.ctx = namespace.ContextWithNamespace(context.Background(), e.obj)
	s.policy(n, "c12-all", []string{"*"})
	e.Adm = s.hToken(n, "adm@"+n.Path, []string{"c12-all"})
	e.Owner = s.hToken(n, "own@"+n.Path, []string{"c12-all"})
	e.RootT = s.nsRootToken(n)
	if e.Rec = s.findMount(n, "m/", "verifrec", false); e.Rec == nil {
		// the equally named mount of every namespace
		if e.Rec = s.mount(n, "m/", "verifrec", false); e.Rec == nil {
			e.Rec = s.mount(n, "hm/", "verifrec", false)
		}
	}
	e.Uniq = s.mount(n, fmt.Sprintf("hl%d/", idx), "verifrec", false)
	if e.KV = s.findMount(n, "hkv/", "kv", false); e.KV == nil {
		e.KV = s.mount(n, "hkv/", "kv", false)
	}
	if e.Auth = s.findMount(n, "hau/", "verifrec", true); e.Auth == nil {
		e.Auth = s.mount(n, "hau/", "verifrec", true)
	}
	if e.Rec == nil || e.Uniq == nil || e.KV == nil || e.Auth == nil {
		s.t.Fatalf("verif: cannot create the mounts of the estate of %q", n.Path)
	}
	e.Tag = e.Uniq.Tag
	return e
}

func (s *c12HRun) fillEstate(e *c12Estate) {
	n := e.NS
	// victims: leases
	e.Leases = []*c12HLease{s.newRecLease(e, e.Rec), s.newRecLease(e, e.Uniq), s.newKVLease(e)}
	// victims: tokens (plain, parent with child)
	plain := s.newTok(e, nil)
	par := s.newTok(e, nil)
	kid := s.newTok(e, par)
	e.Toks = []*c12HTok{plain, par, kid}
	e.Leases = append(e.Leases, plain.Lease)
	// role, policy
	e.Role, e.RoleCanary = "r-"+e.Tag, s.rng.Canary()
	s.v.MustDo(vReq{Op: logical.UpdateOperation, Path: "auth/token/roles/" + e.Role, Token: s.v.Root, NS: n.Path, Data: map[string]any{"allowed_policies": e.RoleCanary, "path_suffix": e.RoleCanary}})
	e.Policy, e.PolicyCanary = "p-"+e.Tag, s.rng.Canary()
	s.v.Policy(e.Policy, fmt.Sprintf("path \"x/%s\" { capabilities = [\"read\"] }\n", e.PolicyCanary), n.Path)
	// identity
	e.EntityName, e.EntityCanary = "e-"+e.Tag, s.rng.Canary()
	resp := s.v.MustDo(vReq{Op: logical.UpdateOperation, Path: "identity/entity", Token: s.v.Root, NS: n.Path, Data: map[string]any{"name": e.EntityName, "metadata": map[string]any{"c": e.EntityCanary}}})
	if resp != nil {
		e.EntityID, _ = resp.Data["id"].(string)
	}
	e.AliasName = "al-" + e.Tag
	resp = s.v.MustDo(vReq{Op: logical.UpdateOperation, Path: "identity/entity-alias", Token: s.v.Root, NS: n.Path, Data: map[string]any{"name": e.AliasName, "canonical_id": e.EntityID, "mount_accessor": e.Auth.Accessor}})
	if resp != nil {
		e.AliasID, _ = resp.Data["id"].(string)
	}
	e.GroupName, e.GroupCanary = "g-"+e.Tag, s.rng.Canary()
	resp = s.v.MustDo(vReq{Op: logical.UpdateOperation, Path: "identity/group", Token: s.v.Root, NS: n.Path, Data: map[string]any{"name": e.GroupName, "metadata": map[string]any{"c": e.GroupCanary}, "member_entity_ids": []string{e.EntityID}}})
	if resp != nil {
		e.GroupID, _ = resp.Data["id"].(string)
	}
	if e.EntityID == "" || e.AliasID == "" || e.GroupID == "" {
		s.t.Fatalf("verif: identity objects of %q were not created (entity %q alias %q group %q)", n.Path, e.EntityID, e.AliasID, e.GroupID)
	}
	for _, v := range []string{e.RoleCanary, e.PolicyCanary, e.EntityCanary, e.GroupCanary, e.EntityID, e.AliasID, e.GroupID, e.Role, e.Policy, e.EntityName, e.AliasName, e.GroupName, e.Adm.Accessor, e.Owner.Accessor, e.Adm.ID, e.Owner.ID, e.Uniq.Accessor, e.Auth.Accessor, e.Rec.Accessor, e.KV.Accessor} {
		s.secret(v, n)
	}
	e.entSnap, e.grpSnap, e.roleSnap, e.polSnap = s.readEntity(e), s.readGroup(e), s.readRole(e), s.readPolicy(e)
	if !strings.Contains(e.entSnap, e.EntityCanary) || !strings.Contains(e.grpSnap, e.GroupCanary) || !strings.Contains(e.roleSnap, e.RoleCanary) || !strings.Contains(e.polSnap, e.PolicyCanary) {
		s.t.Fatalf("verif: the owner of %q does not read its own named objects back: %s | %s | %s | %s", n.Path, e.entSnap, e.grpSnap, e.roleSnap, e.polSnap)
	}
}

func (s *c12HRun) newRecLease(e *c12Estate, m *c12Mount) *c12HLease {
	c := s.rng.Canary()
	e.nLease++
	name := fmt.Sprintf("%s-l%d", m.Tag, e.nLease)
	resp, err := s.v.Do(vReq{Op: logical.UpdateOperation, Path: m.api() + "lease/" + name, Token: e.Owner.ID, NS: e.NS.Path, Data: map[string]any{"canary": c, "ttl": "1h"}})
	if !vOK(resp, err) || resp == nil || resp.Secret == nil || resp.Secret.LeaseID == "" {
		s.t.Fatalf("verif: cannot obtain a leased secret from %s: %s", m, vErrStr(resp, err))
	}
	l := &c12HLease{ID: resp.Secret.LeaseID, NS: e.NS, NSPath: e.NS.Path, Kind: "rec", Mount: m, Name: name, Canary: c, est: e}
	l.SecID, _ = resp.Data["secret_id"].(string)
	s.registerLease(l)
	return l
}

func (s *c12HRun) newKVLease(e *c12Estate) *c12HLease {
	c := s.rng.Canary()
	e.nLease++
	m := e.KV
	name := fmt.Sprintf("%s-s%d", m.Tag, e.nLease)
	s.v.MustDo(vReq{Op: logical.UpdateOperation, Path: m.api() + name, Token: e.Owner.ID, NS: e.NS.Path, Data: map[string]any{"v": c, "ttl": "1h"}})
	resp, err := s.v.Do(vReq{Op: logical.ReadOperation, Path: m.api() + name, Token: e.Owner.ID, NS: e.NS.Path})
	if !vOK(resp, err) || resp == nil || resp.Secret == nil || resp.Secret.LeaseID == "" {
		s.t.Fatalf("verif: reading %s%s gave no lease: %s", m, name, vErrStr(resp, err))
	}
	l := &c12HLease{ID: resp.Secret.LeaseID, NS: e.NS, NSPath: e.NS.Path, Kind: "kv", Mount: m, Name: name, Canary: c, est: e}
	s.registerLease(l)
	return l
}

func (s *c12HRun) registerLease(l *c12HLease) {
	if l.Canary != "" {
		s.secret(l.Canary, l.NS)
		s.canary[l.Canary] = c12Owner{Mount: l.Mount}
	}
	s.secret(l.ID, l.NS)
	base := c12HBase(l.ID, l.NS)
	s.secret(base[strings.LastIndex(base, "/")+1:], l.NS)
	if l.Kind != "token" {
		s.secret(l.Name, l.NS)
	}
	if l.SecID != "" {
		s.secOf[l.SecID] = l
	}
	l.snap = s.leaseBytes(l)
	if l.snap == nil {
		s.t.Fatalf("verif: the lease %q is not in the lease view of %q", l.ID, l.NS.Path)
	}
}

// newTok creates a victim token in e (child of parent when given) and records
// its stored entry and its lease.
func (s *c12HRun) newTok(e *c12Estate, parent *c12HTok) *c12HTok {
	c := s.rng.Canary()
	e.nTok++
	data := map[string]any{"policies": []string{"c12-all", c}, "ttl": "2h", "no_default_policy": true, "display_name": "d" + c}
	creator := s.v.Root
	if parent != nil {
		creator = parent.ID
	} else {
		data["no_parent"] = true
	}
	resp, err := s.v.Do(vReq{Op: logical.UpdateOperation, Path: "auth/token/create", Token: creator, NS: e.NS.Path, Data: data})
	if !vOK(resp, err) || resp == nil || resp.Auth == nil {
		s.t.Fatalf("verif: cannot create a victim token in %q: %s", e.NS.Path, vErrStr(resp, err))
	}
	t := &c12HTok{Name: fmt.Sprintf("vic%d@%s", e.nTok, e.NS.Path), ID: resp.Auth.ClientToken, Accessor: resp.Auth.Accessor, NS: e.NS, NSPath: e.NS.Path, Canary: c, Parent: parent, est: e}
	ts := s.v.Core.tokenStore
	te, err := ts.Lookup(e.ctx, t.ID)
	if err != nil || te == nil {
		s.t.Fatalf("verif: token store does not know the fresh token %s: %v", t.Name, err)
	}
	t.inner = te.ID
	t.salted, err = ts.SaltID(e.ctx, te.ID)
	if err != nil {
		s.t.Fatalf("verif: salt: %v", err)
	}
	lid := path.Join(te.Path, t.salted)
	if e.NS.Path != "" {
		lid += "." + e.obj.ID
	}
	t.Lease = &c12HLease{ID: lid, NS: e.NS, NSPath: e.NS.Path, Kind: "token", Tok: t, est: e}
	s.registerLease(t.Lease)
	for _, v := range []string{t.ID, t.inner, t.Accessor, c, c12HBase(t.inner, e.NS), c12HBase(t.Accessor, e.NS)} {
		s.secret(v, e.NS)
	}
	t.snap = s.tokBytes(t)
	if t.snap == nil {
		s.t.Fatalf("verif: the entry of token %s is not in the token view of %q", t.Name, e.NS.Path)
	}
	return t
}

func (s *c12HRun) leaseBytes(l *c12HLease) []byte {
	se, err := s.v.Core.expiration.leaseView(l.est.obj).Get(context.Background(), l.ID)
	if err != nil || se == nil {
		return nil
	}
	return se.Value
}

func (s *c12HRun) tokBytes(t *c12HTok) []byte {
	se, err := s.v.Core.tokenStore.idView(t.est.obj).Get(context.Background(), t.salted)
	if err != nil || se == nil {
		return nil
	}
	return se.Value
}

// c12Diff describes how a stored record changed.
func c12Diff(what string, before, after []byte) string {
	if after == nil {
		return what + ": stored record deleted"
	}
	var a, b map[string]any
	if json.Unmarshal(before, &a) != nil || json.Unmarshal(after, &b) != nil {
		return what + ": stored record rewritten"
	}
	var ch []string
	for k, v := range b {
		if fmt.Sprint(a[k]) != fmt.Sprint(v) {
			switch k {
			case "expire_time", "last_renewal_time", "num_uses", "parent", "ttl", "revoke_err":
				ch = append(ch, fmt.Sprintf("%s %v -> %v", k, a[k], v))
			default:
				ch = append(ch, k)
			}
		}
	}
	sort.Strings(ch)
	return what + ": stored record changed (" + strings.Join(ch, ", ") + ")"
}

// audit compares the stored lease and token records of e with their snapshots;
// changed objects are re-snapshotted (deleted ones replaced) so that each change
// is reported once.
type c12Change struct {
	What  string
	Lease *c12HLease
	Tok   *c12HTok
}

func (s *c12HRun) audit(e *c12Estate) (diffs []c12Change) { return s.auditC(e, true) }

func (s *c12HRun) auditC(e *c12Estate, count bool) (diffs []c12Change) {
	for _, l := range e.Leases {
		if l.gone {
			continue
		}
		b := s.leaseBytes(l)
		if bytes.Equal(b, l.snap) {
			if count {
				s.r.Count("foreign_objects_found_unchanged", 1)
			}
			continue
		}
		diffs = append(diffs, c12Change{What: c12Diff(fmt.Sprintf("%s lease %q of namespace %q", l.Kind, l.ID, e.NS.Path), l.snap, b), Lease: l})
		l.snap = b
		l.gone = b == nil
	}
	for _, t := range e.Toks {
		if t.gone {
			continue
		}
		b := s.tokBytes(t)
		if bytes.Equal(b, t.snap) {
			if count {
				s.r.Count("foreign_objects_found_unchanged", 1)
			}
			continue
		}
		diffs = append(diffs, c12Change{What: c12Diff(fmt.Sprintf("token %s (accessor %s) of namespace %q", t.Name, t.Accessor, e.NS.Path), t.snap, b), Tok: t})
		t.snap = b
		t.gone = b == nil
	}
	if len(diffs) == 0 {
		return nil
	}
	// replace what is gone so that later probes still have something to name
	for i, l := range e.Leases {
		if !l.gone {
			continue
		}
		switch l.Kind {
		case "rec":
			e.Leases[i] = s.newRecLease(e, l.Mount)
		case "kv":
			e.Leases[i] = s.newKVLease(e)
		}
	}
	plain, par, kid := e.Toks[0], e.Toks[1], e.Toks[2]
	if plain.gone || plain.Lease.gone {
		plain.gone, plain.Lease.gone = true, true
		np := s.newTok(e, nil)
		for i, l := range e.Leases {
			if l == plain.Lease {
				e.Leases[i] = np.Lease
			}
		}
		e.Toks[0] = np
	}
	if par.gone || kid.gone || par.Lease.gone || kid.Lease.gone || !bytes.Contains(kid.snap, []byte(par.inner)) {
		// the family changed (a token revoked, or the child orphaned): start a new one
		par.gone, kid.gone, par.Lease.gone, kid.Lease.gone = true, true, true, true
		e.Toks[1] = s.newTok(e, nil)
		e.Toks[2] = s.newTok(e, e.Toks[1])
	}
	return diffs
}

// refresh brings the snapshots of e up to date after e's own (legitimate) requests.
func (s *c12HRun) refresh(e *c12Estate) (changed int) {
	return len(s.auditC(e, false))
}

func c12PickStrings(resp *logical.Response, err error, keys ...string) string {
	if !vOK(resp, err) || resp == nil {
		return "absent: " + c12Short(vErrStr(resp, err))
	}
	out := map[string]any{}
	for _, k := range keys {
		out[k] = resp.Data[k]
	}
	b, _ := json.Marshal(out)
	return string(b)
}

func (s *c12HRun) readEntity(e *c12Estate) string {
	resp, err := s.v.Do(vReq{Op: logical.ReadOperation, Path: "identity/entity/id/" + e.EntityID, Token: s.v.Root, NS: e.NS.Path})
	out := c12PickStrings(resp, err, "name", "metadata", "disabled", "policies", "merged_entity_ids")
	if vOK(resp, err) && resp != nil {
		var ids []string
		switch as := resp.Data["aliases"].(type) {
		case []any:
			for _, a := range as {
				if m, ok := a.(map[string]any); ok {
					ids = append(ids, fmt.Sprint(m["id"]))
				}
			}
		}
		sort.Strings(ids)
		out += fmt.Sprintf(" aliases=%v", ids)
	}
	return out
}

func (s *c12HRun) readGroup(e *c12Estate) string {
	resp, err := s.v.Do(vReq{Op: logical.ReadOperation, Path: "identity/group/id/" + e.GroupID, Token: s.v.Root, NS: e.NS.Path})
	return c12PickStrings(resp, err, "name", "metadata", "member_entity_ids", "policies")
}

func (s *c12HRun) readRole(e *c12Estate) string {
	resp, err := s.v.Do(vReq{Op: logical.ReadOperation, Path: "auth/token/roles/" + e.Role, Token: s.v.Root, NS: e.NS.Path})
	return c12PickStrings(resp, err, "allowed_policies", "path_suffix")
}

func (s *c12HRun) readPolicy(e *c12Estate) string {
	resp, err := s.v.Do(vReq{Op: logical.ReadOperation, Path: "sys/policies/acl/" + e.Policy, Token: s.v.Root, NS: e.NS.Path})
	return c12PickStrings(resp, err, "policy")
}

// auditNamed re-reads the named objects of e through their owner.
func (s *c12HRun) auditNamed(e *c12Estate, identity bool) (diffs []string) {
	cmp := func(what string, snap *string, now string) {
		if *snap != now {
			diffs = append(diffs, fmt.Sprintf("%s of namespace %q: %s -> %s", what, e.NS.Path, c12Short(*snap), c12Short(now)))
			*snap = now
		} else {
			s.r.Count("foreign_objects_found_unchanged", 1)
		}
	}
	if identity {
		cmp("entity "+e.EntityID, &e.entSnap, s.readEntity(e))
		cmp("group "+e.GroupID, &e.grpSnap, s.readGroup(e))
		return diffs
	}
	cmp("token role "+e.Role, &e.roleSnap, s.readRole(e))
	cmp("policy "+e.Policy, &e.polSnap, s.readPolicy(e))
	resp, err := s.v.Do(vReq{Op: logical.ReadOperation, Path: "sys/mounts/" + strings.TrimSuffix(e.Uniq.Path, "/"), Token: s.v.Root, NS: e.NS.Path})
	if !vOK(resp, err) || resp == nil || fmt.Sprint(resp.Data["accessor"]) != e.Uniq.Accessor {
		diffs = append(diffs, fmt.Sprintf("mount %s of namespace %q is no longer in its mount table: %s", e.Uniq, e.NS.Path, c12Short(vErrStr(resp, err))))
	} else {
		s.r.Count("foreign_objects_found_unchanged", 1)
	}
	return diffs
}

// ---------------------------------------------------------------- handles and probes

// c12HBase strips the namespace suffix the core appended to an id issued in n.
func c12HBase(id string, n *c12NS) string {
	if n.Path == "" {
		return id
	}
	return strings.TrimSuffix(id, "."+n.ID)
}

// c12HForms: the exact handle and the handle with its namespace suffix removed,
// replaced by the requesting namespace's id, or by "root".
func c12HForms(id string, A, B *c12NS) [][2]string {
	base := c12HBase(id, B)
	out := [][2]string{{"exact", id}}
	add := func(form, v string) {
		for _, o := range out {
			if o[1] == v {
				return
			}
		}
		out = append(out, [2]string{form, v})
	}
	add("suffix-removed", base)
	if A.Path != "" {
		add("suffix-of-requesting-namespace", base+"."+A.ID)
	}
	add("suffix-root", base+"."+namespace.RootNamespaceID)
	return out
}

type c12Probe struct {
	EP      string // endpoint label (counter key)
	Group   string // lease | prefix | token | names | identity
	Effect  string // lookup | renew | revoke | revoke-async | orphan | caps | list | read | write
	Op      logical.Operation
	Path    string
	Data    map[string]any
	Form    string
	Handle  string
	Lease   *c12HLease
	Tok     *c12HTok
	Class   string
	Mutates bool
}

type c12LeaseEP struct {
	Name, Effect string
	Make         func(id string) (logical.Operation, string, map[string]any)
}

var c12LeaseEPs = []c12LeaseEP{
	{"sys/leases/lookup", "lookup", func(id string) (logical.Operation, string, map[string]any) {
		return logical.UpdateOperation, "sys/leases/lookup", map[string]any{"lease_id": id}
	}},
	{"sys/leases/renew", "renew", func(id string) (logical.Operation, string, map[string]any) {
		return logical.UpdateOperation, "sys/leases/renew", map[string]any{"lease_id": id, "increment": 7200}
	}},
	{"sys/leases/renew/<id>", "renew", func(id string) (logical.Operation, string, map[string]any) {
		return logical.UpdateOperation, "sys/leases/renew/" + id, map[string]any{"increment": 7200}
	}},
	{"sys/leases/revoke", "revoke", func(id string) (logical.Operation, string, map[string]any) {
		return logical.UpdateOperation, "sys/leases/revoke", map[string]any{"lease_id": id, "sync": true}
	}},
	{"sys/leases/revoke(async)", "revoke-async", func(id string) (logical.Operation, string, map[string]any) {
		return logical.UpdateOperation, "sys/leases/revoke", map[string]any{"lease_id": id, "sync": false}
	}},
	{"sys/leases/revoke/<id>", "revoke", func(id string) (logical.Operation, string, map[string]any) {
		return logical.UpdateOperation, "sys/leases/revoke/" + id, map[string]any{"sync": true}
	}},
	{"sys/leases/revoke-prefix/<id>", "revoke", func(id string) (logical.Operation, string, map[string]any) {
		return logical.UpdateOperation, "sys/leases/revoke-prefix/" + id, map[string]any{"sync": true}
	}},
	{"sys/leases/revoke-force/<id>", "revoke", func(id string) (logical.Operation, string, map[string]any) {
		return logical.UpdateOperation, "sys/leases/revoke-force/" + id, nil
	}},
}

type c12TokEP struct {
	Name, Effect string
	ByAccessor   bool
	Make         func(h string) (logical.Operation, string, map[string]any)
}

var c12TokEPs = []c12TokEP{
	{"auth/token/lookup", "lookup", false, func(h string) (logical.Operation, string, map[string]any) {
		return logical.UpdateOperation, "auth/token/lookup", map[string]any{"token": h}
	}},
	{"auth/token/lookup-accessor", "lookup", true, func(h string) (logical.Operation, string, map[string]any) {
		return logical.UpdateOperation, "auth/token/lookup-accessor", map[string]any{"accessor": h}
	}},
	{"auth/token/renew", "renew", false, func(h string) (logical.Operation, string, map[string]any) {
		return logical.UpdateOperation, "auth/token/renew", map[string]any{"token": h, "increment": 10800}
	}},
	{"auth/token/renew-accessor", "renew", true, func(h string) (logical.Operation, string, map[string]any) {
		return logical.UpdateOperation, "auth/token/renew-accessor", map[string]any{"accessor": h, "increment": 10800}
	}},
	{"sys/capabilities", "caps", false, func(h string) (logical.Operation, string, map[string]any) {
		return logical.UpdateOperation, "sys/capabilities", map[string]any{"token": h, "paths": []string{"m/data/x"}}
	}},
	{"sys/capabilities-accessor", "caps", true, func(h string) (logical.Operation, string, map[string]any) {
		return logical.UpdateOperation, "sys/capabilities-accessor", map[string]any{"accessor": h, "paths": []string{"m/data/x"}}
	}},
	{"auth/token/revoke-orphan", "orphan", false, func(h string) (logical.Operation, string, map[string]any) {
		return logical.UpdateOperation, "auth/token/revoke-orphan", map[string]any{"token": h}
	}},
	{"auth/token/revoke", "revoke", false, func(h string) (logical.Operation, string, map[string]any) {
		return logical.UpdateOperation, "auth/token/revoke", map[string]any{"token": h}
	}},
	{"auth/token/revoke-accessor", "revoke", true, func(h string) (logical.Operation, string, map[string]any) {
		return logical.UpdateOperation, "auth/token/revoke-accessor", map[string]any{"accessor": h}
	}},
}

func c12Rel(A, B *c12NS) string {
	switch {
	case A == B:
		return "self"
	case B.under(A):
		return "descendant"
	case A.Parent == B:
		return "parent"
	case A.under(B):
		return "ancestor"
	case A.Parent == B.Parent:
		return "sibling"
	}
	return "unrelated"
}

// ---------------------------------------------------------------- the case

func c12HandlesCase(t *testing.T, r *kit.Result, rng *kit.Rand, caseID string, transactional bool) {
	w := c12Build(t, r, rng, caseID, transactional)
	defer w.v.Close()
	s := &c12HRun{c12World: w, est: map[*c12NS]*c12Estate{}, secrets: map[string]*c12NS{}, secOf: map[string]*c12HLease{}}
	// a second top-level branch, so that unrelated namespaces (neither ancestor,
	// descendant nor sibling) always exist
	if hx := w.createNS(w.root, "hx", false); hx != nil && len(w.nss) < 8 {
		w.createNS(hx, "hy", false)
	}
	w.sync()
	idx := 0
	for _, n := range append([]*c12NS(nil), w.nss...) {
		if n.effSealed() {
			continue
		}
		idx++
		e := s.buildEstate(n, idx)
		s.est[n] = e
		s.order = append(s.order, e)
	}
	for _, e := range s.order {
		s.fillEstate(e)
	}
	for _, n := range w.nss {
		if n.UUID != "" {
			s.secret(n.UUID, n)
		}
	}
	w.step("estates built in %d namespaces", len(s.order))

	for _, A := range s.order {
		for _, B := range s.order {
			if w.failed && c12Generic(r) > 25 {
				break
			}
			rel := c12Rel(A.NS, B.NS)
			r.Count("pairs:"+rel, 1)
			if B.NS.under(A.NS) {
				s.positivePair(A, B, rel)
				continue
			}
			if B.NS == w.root {
				r.Count("pairs_with_root_namespace_as_foreign", 1)
			}
			s.foreignPair(A, B, rel)
		}
	}
	s.finalAudit()
	r.Eval(1)
	var names []string
	for _, e := range s.order {
		names = append(names, fmt.Sprintf("%q(id %s): %d leases, %d tokens", e.NS.Path, c12NSID(e.NS), len(e.Leases), len(e.Toks)))
	}
	r.Sample(map[string]any{"case": caseID, "namespaces": w.nss, "estates": names})
}

// attacker picks the requesting token of A.
func (s *c12HRun) attacker(A *c12Estate) *c12Tok {
	if A.NS != s.root && s.rng.Chance(1, 3) {
		return A.RootT
	}
	return A.Adm
}

// ---------------------------------------------------------------- foreign pairs

func (s *c12HRun) foreignPair(A, B *c12Estate, rel string) {
	recAt := s.v.Rec.Len()
	// leases by id (always the live object: one that was affected has been replaced)
	for i := range B.Leases {
		for fi := 0; fi < 4; fi++ {
			for _, ep := range c12LeaseEPs {
				l := B.Leases[i]
				forms := c12HForms(l.ID, A.NS, B.NS)
				if fi >= len(forms) {
					continue
				}
				f := forms[fi]
				op, p, d := ep.Make(f[1])
				s.foreign(A, B, rel, &c12Probe{EP: ep.Name, Group: "lease", Effect: ep.Effect, Op: op, Path: p, Data: d, Form: f[0], Handle: f[1], Lease: l, Class: c12ClsLease, Mutates: ep.Effect != "lookup"})
			}
		}
	}
	// leases by prefix
	var prefixes [][2]string
	for _, l := range B.Leases {
		switch l.Kind {
		case "rec":
			prefixes = append(prefixes, [2]string{"mount/lease/name/", l.Mount.api() + "lease/" + l.Name + "/"})
		case "kv":
			prefixes = append(prefixes, [2]string{"mount/key/", l.Mount.api() + l.Name + "/"})
		}
	}
	prefixes = append(prefixes, [2]string{"unique-mount/", B.Uniq.api()}, [2]string{"namespace-path/mount/", B.NS.Path + B.Rec.api()}, [2]string{"token-leases/", "auth/token/create/"})
	if B.NS.Path != "" {
		prefixes = append(prefixes, [2]string{"namespace-path/", B.NS.Path})
	}
	for _, pf := range prefixes {
		s.foreign(A, B, rel, &c12Probe{EP: "sys/leases/lookup/<prefix>", Group: "prefix", Effect: "list", Op: logical.ListOperation, Path: "sys/leases/lookup/" + pf[1], Form: pf[0], Handle: pf[1], Class: c12ClsPrefix})
		if pf[0] == "token-leases/" {
			continue // would legitimately revoke every token of A, the requesting one included
		}
		// the prefix may legitimately cover leases of A itself (equally named mounts): then the
		// revocation is made synchronous so that A's estate can be brought up to date right away
		own := false
		for _, l := range A.Leases {
			own = own || strings.HasPrefix(l.ID, pf[1])
		}
		s.foreign(A, B, rel, &c12Probe{EP: "sys/leases/revoke-prefix/<prefix>", Group: "prefix", Effect: "revoke", Op: logical.UpdateOperation, Path: "sys/leases/revoke-prefix/" + strings.TrimSuffix(pf[1], "/"), Data: map[string]any{"sync": own || s.rng.Chance(1, 2)}, Form: pf[0], Handle: pf[1], Class: c12ClsPrefix, Mutates: true})
		s.foreign(A, B, rel, &c12Probe{EP: "sys/leases/revoke-force/<prefix>", Group: "prefix", Effect: "revoke", Op: logical.UpdateOperation, Path: "sys/leases/revoke-force/" + strings.TrimSuffix(pf[1], "/"), Form: pf[0], Handle: pf[1], Class: c12ClsPrefix, Mutates: true})
		if s.refresh(A) > 0 {
			s.r.Count("positive:own-leases-revoked-by-own-mount-prefix", 1)
		}
	}
	// the whole equally named mount: legitimately revokes A's own leases there, never B's
	if A.Rec.Path == B.Rec.Path {
		s.foreign(A, B, rel, &c12Probe{EP: "sys/leases/revoke-prefix/<prefix>", Group: "prefix", Effect: "revoke", Op: logical.UpdateOperation, Path: "sys/leases/revoke-prefix/" + strings.TrimSuffix(A.Rec.api(), "/"), Data: map[string]any{"sync": true}, Form: "equally-named-mount/", Handle: A.Rec.api(), Class: c12ClsPrefix, Mutates: true})
		if s.refresh(A) > 0 {
			s.r.Count("positive:own-leases-revoked-by-own-mount-prefix", 1)
		}
	}
	// tokens (always the live object)
	for i := range B.Toks {
		for _, ep := range c12TokEPs {
			for fi := 0; fi < 5; fi++ {
				tk := B.Toks[i]
				forms := c12HForms(tk.Accessor, A.NS, B.NS)
				if !ep.ByAccessor {
					forms = [][2]string{{"exact", tk.ID}}
					for _, f := range c12HForms(tk.inner, A.NS, B.NS) {
						if f[1] != tk.ID {
							forms = append(forms, [2]string{"unwrapped-" + f[0], f[1]})
						}
					}
				}
				if fi >= len(forms) {
					continue
				}
				f := forms[fi]
				op, p, d := ep.Make(f[1])
				s.foreign(A, B, rel, &c12Probe{EP: ep.Name, Group: "token", Effect: ep.Effect, Op: op, Path: p, Data: d, Form: f[0], Handle: f[1], Tok: tk, Class: c12ClsToken, Mutates: ep.Effect != "lookup" && ep.Effect != "caps"})
			}
		}
	}
	s.foreign(A, B, rel, &c12Probe{EP: "auth/token/accessors", Group: "names", Effect: "list", Op: logical.ListOperation, Path: "auth/token/accessors/", Class: c12ClsName})
	// names
	uq := strings.TrimSuffix(B.Uniq.Path, "/")
	for _, p := range []c12Probe{
		{EP: "auth/token/roles/<name>", Op: logical.ReadOperation, Path: "auth/token/roles/" + B.Role},
		{EP: "auth/token/roles/<name>", Op: logical.DeleteOperation, Path: "auth/token/roles/" + B.Role, Mutates: true},
		{EP: "auth/token/create/<role>", Op: logical.UpdateOperation, Path: "auth/token/create/" + B.Role, Data: map[string]any{"ttl": "1m"}},
		{EP: "auth/token/roles", Op: logical.ListOperation, Path: "auth/token/roles/"},
		{EP: "sys/policies/acl/<name>", Op: logical.ReadOperation, Path: "sys/policies/acl/" + B.Policy},
		{EP: "sys/policy/<name>", Op: logical.ReadOperation, Path: "sys/policy/" + B.Policy},
		{EP: "sys/policies/acl/<name>", Op: logical.DeleteOperation, Path: "sys/policies/acl/" + B.Policy, Mutates: true},
		{EP: "sys/policies/acl", Op: logical.ListOperation, Path: "sys/policies/acl/"},
		{EP: "sys/mounts/<path>", Op: logical.ReadOperation, Path: "sys/mounts/" + uq},
		{EP: "sys/mounts/<path>/tune", Op: logical.ReadOperation, Path: "sys/mounts/" + uq + "/tune"},
		{EP: "sys/mounts/<path>/tune", Op: logical.UpdateOperation, Path: "sys/mounts/" + uq + "/tune", Data: map[string]any{"description": "c12 foreign"}, Mutates: true},
		{EP: "sys/mounts/<path>", Op: logical.DeleteOperation, Path: "sys/mounts/" + uq, Mutates: true},
		{EP: "sys/mounts/<ns path + path>", Op: logical.DeleteOperation, Path: "sys/mounts/" + B.NS.Path + uq, Mutates: true},
		{EP: "sys/mounts", Op: logical.ReadOperation, Path: "sys/mounts"},
		{EP: "sys/internal/ui/mounts/<path>", Op: logical.ReadOperation, Path: "sys/internal/ui/mounts/" + B.Uniq.Path + "data/x"},
	} {
		p := p
		p.Group, p.Effect, p.Class, p.Form, p.Handle = "names", "read", c12ClsName, "name", p.Path
		if p.Mutates {
			p.Effect = "write"
		}
		s.foreign(A, B, rel, &p)
	}
	// identity
	for _, p := range []c12Probe{
		{EP: "identity/lookup/entity{id}", Op: logical.UpdateOperation, Path: "identity/lookup/entity", Data: map[string]any{"id": B.EntityID}},
		{EP: "identity/lookup/entity{name}", Op: logical.UpdateOperation, Path: "identity/lookup/entity", Data: map[string]any{"name": B.EntityName}},
		{EP: "identity/lookup/entity{alias_id}", Op: logical.UpdateOperation, Path: "identity/lookup/entity", Data: map[string]any{"alias_id": B.AliasID}},
		{EP: "identity/lookup/entity{alias_name}", Op: logical.UpdateOperation, Path: "identity/lookup/entity", Data: map[string]any{"alias_name": B.AliasName, "alias_mount_accessor": B.Auth.Accessor}},
		{EP: "identity/entity/id/<id>", Op: logical.ReadOperation, Path: "identity/entity/id/" + B.EntityID},
		{EP: "identity/entity/name/<name>", Op: logical.ReadOperation, Path: "identity/entity/name/" + B.EntityName},
		{EP: "identity/entity-alias/id/<id>", Op: logical.ReadOperation, Path: "identity/entity-alias/id/" + B.AliasID},
		{EP: "identity/lookup/group{id}", Op: logical.UpdateOperation, Path: "identity/lookup/group", Data: map[string]any{"id": B.GroupID}},
		{EP: "identity/lookup/group{name}", Op: logical.UpdateOperation, Path: "identity/lookup/group", Data: map[string]any{"name": B.GroupName}},
		{EP: "identity/group/id/<id>", Op: logical.ReadOperation, Path: "identity/group/id/" + B.GroupID},
		{EP: "identity/group/name/<name>", Op: logical.ReadOperation, Path: "identity/group/name/" + B.GroupName},
		{EP: "identity/entity/id", Op: logical.ListOperation, Path: "identity/entity/id/"},
		{EP: "identity/group/id", Op: logical.ListOperation, Path: "identity/group/id/"},
		{EP: "identity/entity/id/<id>", Op: logical.UpdateOperation, Path: "identity/entity/id/" + B.EntityID, Data: map[string]any{"metadata": map[string]any{"c": "c12-foreign"}}, Mutates: true},
		{EP: "identity/entity/merge", Op: logical.UpdateOperation, Path: "identity/entity/merge", Data: map[string]any{"from_entity_ids": []string{B.EntityID}, "to_entity_id": A.EntityID, "force": true}, Mutates: true},
		{EP: "identity/entity-alias/id/<id>", Op: logical.DeleteOperation, Path: "identity/entity-alias/id/" + B.AliasID, Mutates: true},
		{EP: "identity/group/id/<id>", Op: logical.DeleteOperation, Path: "identity/group/id/" + B.GroupID, Mutates: true},
		{EP: "identity/entity/batch-delete", Op: logical.UpdateOperation, Path: "identity/entity/batch-delete", Data: map[string]any{"entity_ids": []string{B.EntityID}}, Mutates: true},
		{EP: "identity/entity/id/<id>", Op: logical.DeleteOperation, Path: "identity/entity/id/" + B.EntityID, Mutates: true},
		{EP: "identity/entity/name/<name>", Op: logical.DeleteOperation, Path: "identity/entity/name/" + B.EntityName, Mutates: true},
	} {
		p := p
		p.Group, p.Effect, p.Class, p.Form, p.Handle = "identity", "read", c12ClsIdentity, "id", p.Path
		if p.Mutates {
			p.Effect = "write"
		}
		s.foreign(A, B, rel, &p)
	}
	// A's own entity must have survived the merge attempts (it was the merge target)
	if now := s.readEntity(A); now != A.entSnap {
		A.entSnap = now
	}
	s.afterPair(A, B, rel, recAt)
}

// c12ClsRootTokenID is the class of one precisely delimited configuration (see
// rootTokenIDShape): the token store of a child namespace honours the id of a
// token of the ROOT namespace.
const c12ClsRootTokenID = "C12-root-namespace-token-id-honoured-by-child-namespace-token-store"

func init() { c12Shapes[c12ClsRootTokenID] = true }

// rootTokenIDShape: the probe names a token of the root namespace by its ID
// (the id as issued, or the id inside the signed wrapper; ids of the root
// namespace carry no namespace suffix), not by accessor, on one of the
// auth/token endpoints that take a token id, and comes from a token of another
// namespace.
func (s *c12HRun) rootTokenIDShape(p *c12Probe, A, B *c12Estate) bool {
	if p.Group != "token" || p.Tok == nil || B.NS != s.root || A.NS == s.root {
		return false
	}
	if p.Handle != p.Tok.ID && p.Handle != p.Tok.inner {
		return false
	}
	switch p.EP {
	case "auth/token/lookup", "auth/token/revoke":
		return true
	}
	return false
}

// namesTokenFamily: the key carries the salted id of the named token or of one of its children.
func (s *c12HRun) namesTokenFamily(key string, t *c12HTok) bool {
	if strings.Contains(key, t.salted) {
		return true
	}
	for _, o := range t.est.Toks {
		if o.Parent == t && strings.Contains(key, o.salted) {
			return true
		}
	}
	return false
}

// ofNamedToken: the object is the named token, its lease, or one of its children / their leases.
func c12OfNamedToken(p *c12Probe, l *c12HLease, t *c12HTok) bool {
	if l != nil {
		t = l.Tok
	}
	return t != nil && p.Tok != nil && (t == p.Tok || t.Parent == p.Tok)
}

// foreign sends one probe naming an object of B (outside A's subtree) and judges it.
func (s *c12HRun) foreign(A, B *c12Estate, rel string, p *c12Probe) {
	tok := s.attacker(A)
	q := &c12Req{Kind: "foreign-handle:" + p.EP, Op: p.Op, Tok: tok, N: A.NS, Data: p.Data}
	if s.rng.Chance(1, 6) {
		// the same request addressed to the owning namespace itself with A's token
		q.Form, q.Header, q.Path, q.N = "header-of-owning-namespace", B.NS.Path, p.Path, B.NS
	} else {
		s.pickForm(q, A.NS, p.Path)
	}
	// what the client sent (the core rewrites some request fields in place)
	var sent []string
	c12Strings(q.Data, "", &sent)
	sent = append(sent, q.Path, q.Header)
	s.do(q)
	s.r.Eval(1)
	s.r.Count("foreign_handle_requests", 1)
	key := p.EP
	if p.Group == "identity" || p.Group == "names" {
		key = p.Group
	}
	s.r.Count("foreign_requests:"+key, 1)
	if B.NS == s.root && p.Lease != nil && p.Form == "exact" {
		s.r.Count("foreign_requests_naming_an_unsuffixed_root_namespace_lease", 1)
	}
	s.r.Nontrivial(fmt.Sprintf("foreign|%s|%s|%s|%s|%s|%v|%d>%d", p.EP, p.Op, p.Form, rel, q.Form, tok.Root, A.NS.Depth, B.NS.Depth))
	if q.ok() {
		s.r.Count("foreign_requests_answered_without_error", 1)
	} else {
		s.r.Count("foreign_requests_refused", 1)
	}
	what := fmt.Sprintf("token %s of namespace %q sent %s %q (header %q, %s form of the handle %q, namespace %q is %s of %q)", tok.Name, A.NS.Path, p.Op, q.Path, q.Header, p.Form, c12Short(p.Handle), B.NS.Path, c12RelWord(rel), A.NS.Path)
	ev := map[string]any{"request": q, "endpoint": p.EP, "handle_form": p.Form, "relation": rel, "requesting_namespace": A.NS.Path, "owning_namespace": B.NS.Path, "outcome": c12Short(q.outcome())}
	if p.Lease != nil {
		ev["lease"] = p.Lease
	}
	if p.Tok != nil {
		ev["token_named"] = p.Tok
	}
	shape := s.rootTokenIDShape(p, A, B)
	if shape {
		s.r.Count("root_namespace_token_ids_sent_to_child_namespace_token_store", 1)
	}
	s.judgeEffects(q, A, p, shape, sent, what, ev)
	// the named namespace's objects
	switch p.Group {
	case "lease", "prefix", "token":
		for _, d := range s.audit(B) {
			ev["physical_ops"] = c12Events(q.events)
			class := p.Class
			if shape && c12OfNamedToken(p, d.Lease, d.Tok) {
				class = c12ClsRootTokenID
				s.r.Count("root_namespace_token_changed_through_its_id:"+p.EP, 1)
			}
			s.violate(class, what+"; afterwards "+d.What+"; outcome "+c12Short(q.outcome()), ev)
		}
	case "identity", "names":
		if p.Mutates {
			for _, d := range s.auditNamed(B, p.Group == "identity") {
				s.violate(p.Class, what+"; afterwards "+d+"; outcome "+c12Short(q.outcome()), ev)
			}
		}
	}
	// a lease lookup that is answered describes the lease (issue and expiry time, path, renewability)
	if p.Group == "lease" && p.Effect == "lookup" && q.ok() && q.resp != nil && q.resp.Data["expire_time"] != nil && p.Form == "exact" {
		ev["response"] = fmt.Sprint(q.resp.Data)
		s.violate(c12ClsData, what+fmt.Sprintf("; the lookup was answered: expire_time %v, issue_time %v, path %v", q.resp.Data["expire_time"], q.resp.Data["issue_time"], q.resp.Data["path"]), ev)
	}
	// capabilities: a token of a namespace that is not an ancestor of A has none in A
	if p.Effect == "caps" && q.ok() && q.resp != nil && !A.NS.under(B.NS) {
		caps, _ := q.resp.Data["capabilities"].([]string)
		if len(caps) > 0 && !(len(caps) == 1 && caps[0] == "deny") {
			s.violate(c12ClsCaps, what+fmt.Sprintf("; the answer lists the capabilities %v of that token on a path of %q", caps, A.NS.Path), ev)
		} else {
			s.r.Count("foreign_capabilities_answers_deny", 1)
		}
	}
}

func c12RelWord(rel string) string {
	switch rel {
	case "parent":
		return "the parent"
	case "ancestor":
		return "an ancestor"
	case "sibling":
		return "a sibling"
	case "unrelated":
		return "unrelated (neither ancestor, descendant nor sibling)"
	}
	return rel
}

// judgeEffects: handler calls in foreign recording mounts, physical writes
// outside A's subtree, foreign data in the response.
func (s *c12HRun) judgeEffects(q *c12Req, A *c12Estate, p *c12Probe, shape bool, sent []string, what string, ev map[string]any) {
	for _, e := range q.recs {
		switch e.Kind {
		case "renew", "revoked", "revoke-failed":
			if l := s.secOf[e.ID]; l != nil && !l.NS.under(A.NS) && !l.gone {
				ev["backend_event"] = e
				s.violate(c12ClsLease, what+fmt.Sprintf("; the %s handler of the recording mount %q ran for the secret %s of lease %q of namespace %q", e.Kind, e.Mount, e.ID, l.ID, l.NS.Path), ev)
			}
		}
	}
	for _, e := range q.events {
		if e.Op != "put" && e.Op != "delete" {
			continue
		}
		s.r.Count("foreign_request_physical_writes_checked", 1)
		ck, _ := c12Clean(e.Key)
		g := s.classify(ck)
		if g.NS != nil && !g.NS.under(A.NS) {
			class := c12ClsWrite
			if shape && g.NS == s.root && (g.Mount == nil || g.Mount.Core) && p.Tok != nil && strings.HasPrefix(ck, "sys/") &&
				(s.namesTokenFamily(ck, p.Tok) || strings.HasPrefix(ck, "sys/token/accessor/")) {
				// the token store's and the expiration manager's records of the named token
				class = c12ClsRootTokenID
			}
			ev["event"] = e.String()
			ev["physical_ops"] = c12Events(q.events)
			s.violate(class, what+fmt.Sprintf("; the request performed %s on %q, storage of namespace %q", e.Op, e.Key, g.NS.Path), ev)
		}
	}
	s.leaks(q, A, p, shape, sent, what, ev)
}

// leaks: a response must not carry a canary, id, accessor or name of an object
// of a namespace outside A's subtree unless the request itself contained it.
func (s *c12HRun) leaks(q *c12Req, A *c12Estate, p *c12Probe, shape bool, sent []string, what string, ev map[string]any) {
	if q.resp == nil {
		return
	}
	var ss []string
	c12Strings(q.resp.Data, "", &ss)
	ss = append(ss, q.resp.Warnings...)
	if q.resp.Secret != nil {
		c12Strings(q.resp.Secret.InternalData, "", &ss)
		ss = append(ss, q.resp.Secret.LeaseID)
	}
	if a := q.resp.Auth; a != nil {
		ss = append(ss, a.ClientToken, a.Accessor, a.DisplayName, a.EntityID)
		ss = append(ss, a.Policies...)
		ss = append(ss, a.TokenPolicies...)
		for k, v := range a.Metadata {
			ss = append(ss, k, v)
		}
	}
	if len(ss) == 0 {
		return
	}
	echoed := func(v string) bool {
		for _, x := range sent {
			if strings.Contains(x, v) {
				return true
			}
		}
		return false
	}
	s.r.Count("foreign_responses_scanned", 1)
	reported := map[string]bool{}
	for _, x := range ss {
		if len(x) < 8 {
			continue
		}
		for _, k := range s.secKeys {
			if !strings.Contains(x, k) {
				continue
			}
			o := s.secrets[k]
			if o.under(A.NS) || echoed(k) || reported[k] {
				continue
			}
			reported[k] = true
			class := c12ClsData
			if shape && p.Tok != nil && (k == p.Tok.Accessor || k == p.Tok.Canary || k == p.Tok.ID || k == p.Tok.inner) {
				class = c12ClsRootTokenID
				s.r.Count("root_namespace_token_data_returned_for_its_id:"+p.EP, 1)
			}
			ev["response_strings"] = c12Trunc(ss)
			s.violate(class, what+fmt.Sprintf("; the response carries %q, which belongs to namespace %q; outcome %s", c12Short(k), o.Path, c12Short(q.outcome())), ev)
		}
	}
}

// afterPair: everything outside A's subtree is compared once more (objects the
// probes did not name, and what background workers did after asynchronous
// revocations), and the backend log of the whole pair is scanned.
func (s *c12HRun) afterPair(A, B *c12Estate, rel string, recAt int) {
	for _, e := range s.v.Rec.Since(recAt) {
		switch e.Kind {
		case "renew", "revoked", "revoke-failed":
			if l := s.secOf[e.ID]; l != nil && !l.NS.under(A.NS) && !l.gone {
				s.violate(c12ClsLease, fmt.Sprintf("while a token of namespace %q sent handle-taking requests naming objects of %q (%s), the %s handler of the recording mount %q ran for the secret %s of lease %q of namespace %q", A.NS.Path, B.NS.Path, rel, e.Kind, e.Mount, e.ID, l.ID, l.NS.Path),
					map[string]any{"backend_event": e, "lease": l})
			}
		}
	}
	for _, e := range s.order {
		if e.NS.under(A.NS) {
			continue
		}
		for _, d := range s.audit(e) {
			s.violate("C12-foreign-object-affected-collaterally", fmt.Sprintf("after the handle-taking requests of a token of namespace %q naming objects of %q (%s): %s", A.NS.Path, B.NS.Path, rel, d.What), map[string]any{"requesting_namespace": A.NS.Path, "named_namespace": B.NS.Path, "affected_namespace": e.NS.Path})
		}
	}
}

// ---------------------------------------------------------------- positive controls

// positivePair: B is A or lies below A. The same requests, sent to A with A's
// token and the exact handle, are expected to work where the documentation says
// so; every probe uses a fresh object.
func (s *c12HRun) positivePair(A, B *c12Estate, rel string) {
	tok := A.Adm
	send := func(p *c12Probe) *c12Req {
		q := &c12Req{Kind: "positive:" + p.EP, Op: p.Op, Tok: tok, N: A.NS, Data: p.Data}
		s.pickForm(q, A.NS, p.Path)
		var sent []string
		c12Strings(q.Data, "", &sent)
		sent = append(sent, q.Path, q.Header)
		s.do(q)
		s.r.Eval(1)
		s.r.Count("positive_control_requests", 1)
		s.leaks(q, A, p, false, sent, "positive control "+p.EP, map[string]any{"request": q})
		return q
	}
	okc := func(kind string, ok bool, p *c12Probe, q *c12Req) {
		if ok {
			s.r.Count("positive:"+kind, 1)
			if rel == "descendant" {
				s.r.Count("positive:descendant", 1)
			}
			return
		}
		s.r.Count("positive_not_effective:"+p.EP+":"+rel, 1)
		s.step("positive control %s (%s, %q -> %q) not effective: %s", p.EP, rel, A.NS.Path, B.NS.Path, c12Short(q.outcome()))
	}
	for _, kind := range []string{"rec", "kv"} {
		for _, ep := range c12LeaseEPs {
			var l *c12HLease
			if kind == "rec" {
				l = s.newRecLease(B, B.Rec)
			} else {
				l = s.newKVLease(B)
			}
			op, pth, d := ep.Make(l.ID)
			p := &c12Probe{EP: ep.Name, Op: op, Path: pth, Data: d}
			q := send(p)
			after := s.leaseBytes(l)
			var evKinds []string
			for _, e := range q.recs {
				if e.ID == l.SecID && l.SecID != "" {
					evKinds = append(evKinds, e.Kind)
				}
			}
			switch ep.Effect {
			case "lookup":
				okc("lease-lookup", q.ok() && q.resp != nil && fmt.Sprint(q.resp.Data["id"]) == l.ID && bytes.Equal(after, l.snap), p, q)
			case "renew":
				ok := q.ok() && q.resp != nil && q.resp.Secret != nil && after != nil && !bytes.Equal(after, l.snap)
				okc("lease-renew", ok, p, q)
				if ok && kind == "kv" {
					var ss []string
					c12Strings(q.resp.Data, "", &ss)
					if strings.Contains(strings.Join(ss, " "), l.Canary) {
						s.r.Count("positive:lease-renew-returned-secret-data", 1)
					}
				}
				if ok && kind == "rec" && len(evKinds) == 1 && evKinds[0] == "renew" {
					s.r.Count("positive:lease-renew-handler-ran", 1)
				}
			case "revoke":
				ok := q.ok() && after == nil
				okc("lease-revoke", ok, p, q)
				if ok && kind == "rec" && len(evKinds) == 1 && evKinds[0] == "revoked" {
					s.r.Count("positive:lease-revoke-handler-ran", 1)
				}
			case "revoke-async":
				okc("lease-revoke-async", q.ok() && !bytes.Equal(after, l.snap), p, q)
			}
			l.gone = true
		}
	}
	// list by prefix
	{
		l := s.newRecLease(B, B.Uniq)
		p := &c12Probe{EP: "sys/leases/lookup/<prefix>", Op: logical.ListOperation, Path: "sys/leases/lookup/" + B.Uniq.api() + "lease/" + l.Name + "/"}
		if rel != "self" {
			p.Path = B.NS.Path[len(A.NS.Path):] + p.Path // the documented way into a child namespace: the path
		}
		q := send(p)
		var names []string
		if q.ok() && q.resp != nil {
			names, _ = q.resp.Data["keys"].([]string)
		}
		okc("lease-list", len(names) == 1 && strings.HasSuffix(l.ID, names[0]), p, q)
		p2 := &c12Probe{EP: "sys/leases/revoke-prefix/<prefix>", Op: logical.UpdateOperation, Path: strings.TrimSuffix(strings.Replace(p.Path, "sys/leases/lookup/", "sys/leases/revoke-prefix/", 1), "/"), Data: map[string]any{"sync": true}}
		q2 := send(p2)
		okc("lease-revoke", q2.ok() && s.leaseBytes(l) == nil, p2, q2)
		l.gone = true
	}
	// tokens
	for _, ep := range c12TokEPs {
		par := s.newTok(B, nil)
		var kid *c12HTok
		if ep.Effect == "orphan" || ep.Effect == "revoke" {
			kid = s.newTok(B, par)
		}
		h := par.ID
		if ep.ByAccessor {
			h = par.Accessor
		}
		op, pth, d := ep.Make(h)
		p := &c12Probe{EP: ep.Name, Op: op, Path: pth, Data: d}
		q := send(p)
		switch ep.Effect {
		case "lookup":
			var ss []string
			if q.resp != nil {
				c12Strings(q.resp.Data, "", &ss)
			}
			okc("token-lookup", q.ok() && strings.Contains(strings.Join(ss, " "), par.Canary), p, q)
		case "renew":
			okc("token-renew", q.ok() && q.resp != nil && q.resp.Auth != nil && !bytes.Equal(s.leaseBytes(par.Lease), par.Lease.snap), p, q)
		case "caps":
			caps := []string(nil)
			if q.ok() && q.resp != nil {
				caps, _ = q.resp.Data["capabilities"].([]string)
			}
			okc("token-capabilities", len(caps) > 0, p, q)
		case "revoke":
			okc("token-revoke", q.ok() && s.tokBytes(par) == nil && s.tokBytes(kid) == nil && !s.v.TokenUsable(par.ID, B.NS.Path), p, q)
		case "orphan":
			okc("token-revoke-orphan", q.ok() && s.tokBytes(par) == nil && s.tokBytes(kid) != nil && s.v.TokenUsable(kid.ID, B.NS.Path), p, q)
		}
		par.gone, par.Lease.gone = true, true
		if kid != nil {
			kid.gone, kid.Lease.gone = true, true
		}
	}
	if rel != "self" {
		return
	}
	// names and identity: reading one's own objects shows the canaries
	for _, c := range []struct {
		kind string
		p    c12Probe
		want string
	}{
		{"names", c12Probe{EP: "auth/token/roles/<name>", Op: logical.ReadOperation, Path: "auth/token/roles/" + B.Role}, B.RoleCanary},
		{"names", c12Probe{EP: "sys/policies/acl/<name>", Op: logical.ReadOperation, Path: "sys/policies/acl/" + B.Policy}, B.PolicyCanary},
		{"names", c12Probe{EP: "sys/mounts/<path>", Op: logical.ReadOperation, Path: "sys/mounts/" + strings.TrimSuffix(B.Uniq.Path, "/")}, B.Uniq.Accessor},
		{"names", c12Probe{EP: "auth/token/accessors", Op: logical.ListOperation, Path: "auth/token/accessors/"}, B.Owner.Accessor},
		{"identity", c12Probe{EP: "identity/lookup/entity{id}", Op: logical.UpdateOperation, Path: "identity/lookup/entity", Data: map[string]any{"id": B.EntityID}}, B.EntityCanary},
		{"identity", c12Probe{EP: "identity/lookup/entity{alias_name}", Op: logical.UpdateOperation, Path: "identity/lookup/entity", Data: map[string]any{"alias_name": B.AliasName, "alias_mount_accessor": B.Auth.Accessor}}, B.EntityCanary},
		{"identity", c12Probe{EP: "identity/entity/name/<name>", Op: logical.ReadOperation, Path: "identity/entity/name/" + B.EntityName}, B.EntityCanary},
		{"identity", c12Probe{EP: "identity/lookup/group{id}", Op: logical.UpdateOperation, Path: "identity/lookup/group", Data: map[string]any{"id": B.GroupID}}, B.GroupCanary},
		{"identity", c12Probe{EP: "identity/group/name/<name>", Op: logical.ReadOperation, Path: "identity/group/name/" + B.GroupName}, B.GroupCanary},
	} {
		p := c.p
		q := send(&p)
		var ss []string
		if q.resp != nil {
			c12Strings(q.resp.Data, "", &ss)
		}
		okc(c.kind, q.ok() && strings.Contains(strings.Join(ss, " "), c.want), &p, q)
	}
}

// finalAudit: every owner still finds, renews and uses what it had.
func (s *c12HRun) finalAudit() {
	for _, e := range s.order {
		for _, d := range s.audit(e) {
			s.violate("C12-foreign-object-affected-collaterally", "at the end of the case: "+d.What, nil)
		}
		for _, d := range append(s.auditNamed(e, true), s.auditNamed(e, false)...) {
			s.violate("C12-foreign-object-affected-collaterally", "at the end of the case: "+d, nil)
		}
		for _, l := range e.Leases {
			if l.gone || l.Kind == "token" {
				continue
			}
			recAt := s.v.Rec.Len()
			resp, err := s.v.Do(vReq{Op: logical.UpdateOperation, Path: "sys/leases/renew", Token: e.Owner.ID, NS: e.NS.Path, Data: map[string]any{"lease_id": l.ID, "increment": 3000}})
			ran := l.Kind != "rec"
			for _, ev := range s.v.Rec.Since(recAt) {
				if ev.Kind == "renew" && ev.ID == l.SecID {
					ran = true
				}
			}
			if vOK(resp, err) && resp != nil && resp.Secret != nil && ran {
				s.r.Count("final_owner_renewals", 1)
			} else {
				s.violate("C12-foreign-object-affected-collaterally", fmt.Sprintf("at the end of the case the owner of lease %q in namespace %q cannot renew it: %s", l.ID, e.NS.Path, c12Short(vErrStr(resp, err))), map[string]any{"lease": l})
			}
			l.snap = s.leaseBytes(l)
		}
		for _, t := range e.Toks {
			if t.gone {
				continue
			}
			if s.v.TokenUsable(t.ID, e.NS.Path) {
				s.r.Count("final_tokens_usable", 1)
			} else {
				s.violate("C12-foreign-object-affected-collaterally", fmt.Sprintf("at the end of the case token %s of namespace %q is no longer usable", t.Name, e.NS.Path), map[string]any{"token_named": t})
			}
			if t.Parent != nil && !t.Parent.gone {
				resp, err := s.v.Do(vReq{Op: logical.UpdateOperation, Path: "auth/token/lookup", Token: s.v.Root, NS: e.NS.Path, Data: map[string]any{"token": t.ID}})
				if vOK(resp, err) && resp != nil && resp.Data["orphan"] == false {
					s.r.Count("final_child_tokens_still_parented", 1)
				} else {
					s.violate("C12-foreign-object-affected-collaterally", fmt.Sprintf("at the end of the case token %s of namespace %q is an orphan: %s", t.Name, e.NS.Path, c12Short(vErrStr(resp, err))), map[string]any{"token_named": t})
				}
			}
		}
	}
}
