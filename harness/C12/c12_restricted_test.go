//go:build verif

package vault

// C12 monitor 7: the sys/ APIs that exist only in the root namespace.
//
// The namespace documentation lists the sys/ endpoints that are "restricted to
// calls from the root namespace" (sys/raw, sys/seal, sys/audit, sys/config/*,
// sys/storage, ...): they act on the whole instance, sys/raw on the whole
// storage. A request addressed to any other namespace - by header, by path
// prefix, by header + path, through any number of levels - must not reach them,
// whatever the token. The core is started with the raw endpoint enabled so that
// the sys mount of every namespace carries it.
//
// Verdicts are taken from effects: the physical keys the request touched (the
// key a sys/raw request names is the client's choice: it must not be reached
// outside the addressed namespace's own storage; no write outside the addressed
// namespace's subtree; the general confinement oracle of the other monitors),
// what the response carries (canaries / storage names of other namespaces), the
// entries named by write / delete probes read back by their owner, and whether
// a root-only API answered at all.

import (
	"fmt"
	"sort"
	"strings"
	"testing"

	kit "github.com/openbao/openbao/sdk/v2/helper/verifkit"
	"github.com/openbao/openbao/sdk/v2/logical"
)

const (
	c12ClsRestrictedServed  = "C12-root-only-sys-api-served-in-child-namespace"
	c12ClsRestrictedStorage = "C12-root-only-sys-api-touched-storage-outside-its-namespace"
	c12ClsRestrictedData    = "C12-root-only-sys-api-returned-foreign-data"
)

// c12RestrictedDoc: the table "Restricted API paths" of the namespace
// documentation (website/content/partials/api/restricted-endpoints.mdx).
var c12RestrictedDoc = []string{
	"audit", "audit-hash", "config/auditing", "config/cors", "config/reload", "config/state", "config/ui", "decode-token",
	"generate-recovery-token", "generate-root", "health", "host-info", "in-flight-req", "init",
	"internal/counters/activity", "internal/counters/activity/export", "internal/counters/activity/monthly", "internal/counters/config",
	"internal/inspect/router", "loggers", "metrics", "mfa/method", "monitor", "pprof", "quotas/config", "quotas/lease-count",
	"quotas/rate-limit", "raw", "rekey", "rekey-recovery-key", "replication/merkle-check", "replication/recover", "replication/reindex",
	"replication/status", "seal", "sealwrap/rewrap", "step-down", "storage", "sync/config", "unseal",
}

type c12RProbe struct {
	Family string
	Op     logical.Operation
	Path   string // relative to the namespace
	Data   map[string]any
	RawKey string // sys/raw: the storage key (or prefix) the client names
	Owner  *c12Mount
	OwnerN *c12NS
	Canary string // the canary stored under RawKey
	Writes bool
}

// c12RFamilies: one or two harmless requests per documented family (nothing that
// would seal, step down, re-key or block if it were served).
func c12RFamilies() []c12RProbe {
	rd, ls, up := logical.ReadOperation, logical.ListOperation, logical.UpdateOperation
	return []c12RProbe{
		{Family: "audit", Op: rd, Path: "sys/audit"},
		{Family: "audit-hash", Op: up, Path: "sys/audit-hash/none", Data: map[string]any{"input": "c12"}},
		{Family: "config/auditing", Op: rd, Path: "sys/config/auditing/request-headers"},
		{Family: "config/cors", Op: rd, Path: "sys/config/cors"},
		{Family: "config/cors", Op: up, Path: "sys/config/cors", Data: map[string]any{"allowed_origins": "https://c12.example.invalid"}, Writes: true},
		{Family: "config/reload", Op: up, Path: "sys/config/reload/license"},
		{Family: "config/state", Op: rd, Path: "sys/config/state/sanitized"},
		{Family: "config/ui", Op: ls, Path: "sys/config/ui/headers/"},
		{Family: "config/ui", Op: up, Path: "sys/config/ui/headers/X-C12", Data: map[string]any{"values": []string{"c12"}}, Writes: true},
		{Family: "decode-token", Op: up, Path: "sys/decode-token", Data: map[string]any{"encoded_token": "AAAA", "otp": "AAAA"}},
		{Family: "generate-recovery-token", Op: rd, Path: "sys/generate-recovery-token/attempt"},
		{Family: "generate-root", Op: rd, Path: "sys/generate-root/attempt"},
		{Family: "health", Op: rd, Path: "sys/health"},
		{Family: "host-info", Op: rd, Path: "sys/host-info"},
		{Family: "in-flight-req", Op: rd, Path: "sys/in-flight-req"},
		{Family: "init", Op: rd, Path: "sys/init"},
		{Family: "internal/counters/activity", Op: rd, Path: "sys/internal/counters/activity"},
		{Family: "internal/counters/activity/monthly", Op: rd, Path: "sys/internal/counters/activity/monthly"},
		{Family: "internal/counters/config", Op: rd, Path: "sys/internal/counters/config"},
		{Family: "internal/inspect/router", Op: rd, Path: "sys/internal/inspect/router/root"},
		{Family: "loggers", Op: up, Path: "sys/loggers", Data: map[string]any{"level": "info"}},
		{Family: "mfa/method", Op: ls, Path: "sys/mfa/method/"},
		{Family: "pprof", Op: rd, Path: "sys/pprof/cmdline"},
		{Family: "quotas/config", Op: rd, Path: "sys/quotas/config"},
		{Family: "quotas/lease-count", Op: ls, Path: "sys/quotas/lease-count/"},
		{Family: "quotas/rate-limit", Op: ls, Path: "sys/quotas/rate-limit/"},
		{Family: "quotas/rate-limit", Op: rd, Path: "sys/quotas/rate-limit/c12q"},
		{Family: "rekey", Op: rd, Path: "sys/rekey/init"},
		{Family: "rekey-recovery-key", Op: rd, Path: "sys/rekey-recovery-key/init"},
		{Family: "replication/status", Op: rd, Path: "sys/replication/status"},
		{Family: "seal", Op: rd, Path: "sys/seal"},
		{Family: "sealwrap/rewrap", Op: rd, Path: "sys/sealwrap/rewrap"},
		{Family: "step-down", Op: rd, Path: "sys/step-down"},
		{Family: "storage", Op: rd, Path: "sys/storage/raft/configuration"},
		{Family: "sync/config", Op: rd, Path: "sys/sync/config"},
		{Family: "unseal", Op: rd, Path: "sys/unseal"},
	}
}

func TestVerif_C12_RestrictedSys(t *testing.T) {
	seed := kit.Seed(12)
	shard, shards := kit.Shard()
	r := kit.NewResult(t, "c12-restricted-sys", seed,
		"generated worlds on a core started with the raw endpoint enabled; canaries are written through every mount of every namespace; for every namespace other than the root and the tokens {policy path \"*\" with every capability and sudo defined in that namespace, root-policy token of that namespace, the same kind of token of its parent, the instance root token} every family of the documented root-only sys/ APIs is requested (sys/raw: read / list / update / delete naming the storage keys of the root's mounts, of other namespaces' mounts, of the namespace's own mounts and of core/ and sys/ records; the other families with one or two harmless requests each) in EVERY spelling of the namespace (header, path prefix, header without slash, header = ancestor + path = rest for every split); whatever physical key a sys/raw request names must not be reached outside the addressed namespace's storage, no request may write outside the addressed namespace's subtree, responses carry no canary or storage name of another namespace, entries named by write / delete probes are read back by their owner, and no root-only API may answer; the same requests by the root token in the root namespace are the positive control; every request is non-trivial, distinct by (family, operation, kind of key, spelling, token kind, depth)")
	defer r.Write(t)
	for _, f := range c12RestrictedDoc {
		if restrictedSysAPIs.HasPathSegments(f) {
			r.Count("documented_root_only_families_the_core_knows", 1)
		} else {
			r.Count("documented_root_only_families_the_core_does_not_list", 1)
			r.Note("the namespace documentation lists sys/%s as restricted to the root namespace; the core's table does not", f)
		}
	}
	topos := kit.N(6, 48)
	for ti := 0; ti < topos; ti++ {
		if ti%shards != shard {
			continue
		}
		caseID := fmt.Sprintf("restricted:%d", ti)
		if !kit.WantCase(caseID) {
			continue
		}
		rng := kit.NewRand(seed, 0x12600+uint64(ti))
		c12RestrictedCase(t, r, rng, caseID, ti%2 == 1)
		if c12Generic(r) > 30 {
			break
		}
	}
	// minimums: about half of what one quick seed shows (the kit enforces a third of them)
	r.Require("restricted_requests", 4000)
	r.Require("restricted_requests:raw", 1600)
	r.Require("restricted_requests:other-families", 2000)
	r.Require("restricted_requests_refused", 4000)
	r.Require("spelling:header", 600)
	r.Require("spelling:path", 1200)
	r.Require("spelling:header-noslash", 1200)
	r.Require("spelling:split", 600)
	r.Require("requests_to_namespaces_two_or_more_levels_deep", 2000)
	r.Require("raw_requests_naming:root-mount", 300)
	r.Require("raw_requests_naming:other-namespace-mount", 400)
	r.Require("raw_requests_naming:own-mount", 200)
	r.Require("raw_requests_naming:core-record", 700)
	r.Require("raw_write_or_delete_probes", 300)
	r.Require("entries_read_back_intact_after_write_probes", 30)
	r.Require("positive:raw_read_in_root_returned_the_canary", 8)
	r.Require("positive:raw_list_in_root", 8)
	r.Require("positive:families_answering_in_root", 30)
	r.Require("documented_root_only_families_the_core_knows", 30)
}

type c12RRun struct {
	*c12World
	adm   map[*c12NS]*c12Tok
	rootT map[*c12NS]*c12Tok
	sys   map[*c12NS]*c12Mount
}

func c12RestrictedCase(t *testing.T, r *kit.Result, rng *kit.Rand, caseID string, transactional bool) {
	// the core option behind CoreConfig.EnableRaw; the sys mounts are built when the core
	// is unsealed, so the core is sealed and unsealed once after the switch
	c12AfterBoot = func(v *vCore) {
		v.Core.rawEnabled = true
		if err := TestCoreSeal(v.Core); err != nil {
			t.Fatalf("verif: seal: %v", err)
		}
		if err := v.Core.UnsealWithStoredKeys(c12RootCtx()); err != nil {
			t.Fatalf("verif: unseal: %v", err)
		}
	}
	w := c12Build(t, r, rng, caseID, transactional)
	c12AfterBoot = nil
	defer w.v.Close()
	s := &c12RRun{c12World: w, adm: map[*c12NS]*c12Tok{}, rootT: map[*c12NS]*c12Tok{}, sys: map[*c12NS]*c12Mount{}}
	for _, n := range w.nss {
		if n.effSealed() {
			continue
		}
		w.policy(n, "c12-all", []string{"*"})
		s.adm[n] = w.token(n, "adm@"+n.Path, "all", []string{"c12-all"}, []string{"*"}, nil)
		s.rootT[n] = w.nsRootToken(n)
	}
	w.seedData()
	w.sync()
	for _, m := range w.liveMounts(nil) {
		if m.Core && m.Path == "sys/" && !m.Auth {
			s.sys[m.NS] = m
		}
	}
	s.positive()
	for _, n := range w.nss {
		if n == w.root || n.effSealed() || s.sys[n] == nil {
			continue
		}
		s.namespaceProbes(n)
		if w.failed && c12Generic(r) > 25 {
			break
		}
	}
	r.Eval(1)
	r.Sample(map[string]any{"case": caseID, "namespaces": w.nss, "mounts": len(w.liveMounts(c12User))})
}

// dataKey: a physical key below a user mount that holds a canary written by seedData.
func (s *c12RRun) dataKey(m *c12Mount) string {
	keys := s.v.RawKeys(m.Prefix)
	sort.Strings(keys)
	for _, k := range keys {
		if strings.Contains(k, m.Tag+"-k") {
			return k
		}
	}
	return ""
}

// rawProbes: the sys/raw requests for a requester in namespace n.
func (s *c12RRun) rawProbes(n *c12NS) []c12RProbe {
	var out []c12RProbe
	add := func(kind, key string, owner *c12Mount, ownerNS *c12NS, write bool) {
		rk := strings.TrimSuffix(key, "/")
		if strings.HasSuffix(key, "/") || key == "" {
			out = append(out, c12RProbe{Family: "raw:" + kind, Op: logical.ListOperation, Path: "sys/raw/" + key, RawKey: key, Owner: owner, OwnerN: ownerNS})
			return
		}
		out = append(out, c12RProbe{Family: "raw:" + kind, Op: logical.ReadOperation, Path: "sys/raw/" + rk, RawKey: key, Owner: owner, OwnerN: ownerNS})
		if write {
			out = append(out, c12RProbe{Family: "raw:" + kind, Op: logical.UpdateOperation, Path: "sys/raw/" + rk, RawKey: key, Owner: owner, OwnerN: ownerNS, Data: map[string]any{"value": "c12-overwritten-by-" + n.Path}, Writes: true})
			out = append(out, c12RProbe{Family: "raw:" + kind, Op: logical.DeleteOperation, Path: "sys/raw/" + rk, RawKey: key, Owner: owner, OwnerN: ownerNS, Writes: true})
		}
	}
	user := s.liveMounts(func(m *c12Mount) bool { return c12User(m) && !m.Auth && len(m.Data) > 0 })
	pick := func(pred func(*c12Mount) bool, max int, kind string) {
		k := 0
		for _, m := range user {
			if k >= max || !pred(m) {
				continue
			}
			key := s.dataKey(m)
			if key == "" {
				continue
			}
			k++
			add(kind, key, m, m.NS, k == 1)
			add(kind, m.Prefix, m, m.NS, false)
		}
	}
	pick(func(m *c12Mount) bool { return m.NS == s.root }, 2, "root-mount")
	pick(func(m *c12Mount) bool { return m.NS != s.root && !m.NS.under(n) && !n.under(m.NS) }, 2, "other-namespace-mount")
	pick(func(m *c12Mount) bool { return m.NS != s.root && m.NS != n && n.under(m.NS) }, 1, "other-namespace-mount")
	pick(func(m *c12Mount) bool { return m.NS == n }, 1, "own-mount")
	for _, k := range []string{"core/mounts", "core/auth", "core/seal-config", "sys/policy/default", "sys/token/id/", "core/", "logical/", "namespaces/", "", n.Prefix + "sys/policy/c12-all", n.Prefix} {
		add("core-record", k, nil, s.root, false)
	}
	return out
}

// positive: in the root namespace the root token is served.
func (s *c12RRun) positive() {
	for _, p := range s.rawProbes(s.root) {
		if p.Writes || p.Owner == nil {
			continue
		}
		q := &c12Req{Kind: "restricted-positive:" + p.Family, Op: p.Op, Tok: s.rootTok, N: s.root, Header: "", Path: p.Path, Form: "header"}
		s.do(q)
		if !q.ok() || q.resp == nil {
			s.step("raw %s %q in the root namespace: %s", p.Op, p.Path, c12Short(q.outcome()))
			continue
		}
		var ss []string
		c12Strings(q.resp.Data, "", &ss)
		all := strings.Join(ss, " ")
		switch p.Op {
		case logical.ReadOperation:
			for _, c := range c12CanaryRe.FindAllString(all, -1) {
				if o, ok := s.canary[c]; ok && o.Mount == p.Owner {
					s.r.Count("positive:raw_read_in_root_returned_the_canary", 1)
					break
				}
			}
		case logical.ListOperation:
			if names, _ := q.resp.Data["keys"].([]string); len(names) > 0 {
				s.r.Count("positive:raw_list_in_root", 1)
			}
		}
	}
	for _, p := range c12RFamilies() {
		if p.Writes {
			continue
		}
		q := &c12Req{Kind: "restricted-positive:" + p.Family, Op: p.Op, Tok: s.rootTok, N: s.root, Header: "", Path: p.Path, Data: p.Data, Form: "header"}
		s.do(q)
		if q.ok() {
			s.r.Count("positive:families_answering_in_root", 1)
		} else {
			s.r.Count("positive:families_not_answering_in_root", 1)
		}
	}
}

func (s *c12RRun) namespaceProbes(n *c12NS) {
	type requester struct {
		tok  *c12Tok
		kind string
	}
	reqs := []requester{{s.adm[n], "admin"}, {s.rootT[n], "ns-root"}}
	if n.Parent != nil && n.Parent != s.root && s.adm[n.Parent] != nil {
		reqs = append(reqs, requester{s.adm[n.Parent], "parent-admin"})
	}
	reqs = append(reqs, requester{s.rootTok, "instance-root"})
	probes := append(s.rawProbes(n), c12RFamilies()...)
	var written []c12RProbe
	for _, p := range probes {
		forms := c12Forms(n, p.Path)
		for fi, f := range forms {
			// the namespace's own admin uses every spelling; the other tokens one spelling each
			for ri, rq := range reqs {
				if ri > 0 && (fi+ri)%len(forms) != 0 {
					continue
				}
				if p.Writes && ri > 1 {
					continue
				}
				s.one(n, rq.tok, rq.kind, p, f)
			}
		}
		if p.Writes && p.Owner != nil && p.Op == logical.DeleteOperation {
			written = append(written, p)
		}
	}
	// the entries named by write / delete probes, read through their own mount by the root token
	for _, p := range written {
		m := p.Owner
		if m.Dead || m.NS.effSealed() || len(m.Data) == 0 {
			continue
		}
		q := &c12Req{Kind: "restricted-readback", Op: logical.ReadOperation, Tok: s.rootTok, N: m.NS, M: m, Form: "header", Header: m.NS.Path, Path: m.api() + m.Data[0]}
		s.do(q)
		if s.scanResponse(q, false) > 0 {
			s.r.Count("entries_read_back_intact_after_write_probes", 1)
		} else {
			s.violate(c12ClsRestrictedStorage, fmt.Sprintf("after the sys/raw write and delete probes sent to namespace %q the entry %q of mount %s (physical key %q) no longer returns its value: %s", n.Path, m.Data[0], m, p.RawKey, c12Short(q.outcome())), map[string]any{"request": q})
		}
	}
}

func (s *c12RRun) one(n *c12NS, tok *c12Tok, tokKind string, p c12RProbe, f [3]string) {
	q := &c12Req{Kind: "restricted:" + p.Family, Op: p.Op, Tok: tok, N: n, M: s.sys[n], Form: f[0], Header: f[1], Path: f[2], Data: p.Data, RawKey: p.RawKey}
	if p.Data != nil {
		q.Data = map[string]any{}
		for k, v := range p.Data {
			q.Data[k] = v
		}
	}
	s.do(q)
	s.r.Eval(1)
	s.r.Count("restricted_requests", 1)
	isRaw := strings.HasPrefix(p.Family, "raw:")
	if isRaw {
		s.r.Count("restricted_requests:raw", 1)
		s.r.Count("raw_requests_naming:"+strings.TrimPrefix(p.Family, "raw:"), 1)
		if p.Writes {
			s.r.Count("raw_write_or_delete_probes", 1)
		}
	} else {
		s.r.Count("restricted_requests:other-families", 1)
	}
	sp := f[0]
	if strings.HasPrefix(sp, "split") {
		sp = "split"
	}
	s.r.Count("spelling:"+sp, 1)
	if n.Depth >= 2 {
		s.r.Count("requests_to_namespaces_two_or_more_levels_deep", 1)
	}
	s.r.Nontrivial(fmt.Sprintf("restricted|%s|%s|%v|%s|%s|%d", p.Family, p.Op, strings.HasSuffix(p.RawKey, "/"), f[0], tokKind, n.Depth))
	what := fmt.Sprintf("token %s (%s) sent %s %q with header %q (spelling %s of namespace %q, root-only API sys/%s)", tok.Name, tokKind, p.Op, q.Path, q.Header, f[0], n.Path, strings.SplitN(strings.TrimPrefix(p.Path, "sys/"), "/", 2)[0])
	ev := map[string]any{"request": q, "token_kind": tokKind, "namespace_addressed": n.Path, "family": p.Family, "outcome": c12Short(q.outcome()), "physical_ops": c12Events(q.events)}
	// 1. physical keys
	for _, e := range q.events {
		switch e.Op {
		case "get", "put", "delete", "list", "listpage":
		default:
			continue
		}
		s.r.Count("phys_ops_checked", 1)
		ck, _ := c12Clean(e.Key)
		g := s.classify(ck)
		named := isRaw && (e.Key == p.RawKey || (p.Op == logical.ListOperation && strings.HasPrefix(e.Key, p.RawKey) && (e.Op == "list" || e.Op == "listpage")))
		switch {
		case named && !strings.HasPrefix(ck, n.Prefix):
			ev["event"] = e.String()
			s.violate(c12ClsRestrictedStorage, what+fmt.Sprintf("; the request performed %s on the storage key %q it named, storage of namespace %q outside the storage %q of the namespace addressed", e.Op, e.Key, g.NS.Path, n.Prefix), ev)
		case (e.Op == "put" || e.Op == "delete") && !g.NS.under(n):
			ev["event"] = e.String()
			s.violate(c12ClsRestrictedStorage, what+fmt.Sprintf("; the request performed %s on %q, storage of namespace %q", e.Op, e.Key, g.NS.Path), ev)
		}
	}
	s.checkStorage(q)
	// 2. the response
	if q.resp != nil {
		var ss []string
		c12Strings(q.resp.Data, "", &ss)
		all := strings.Join(ss, "\n")
		for _, c := range c12CanaryRe.FindAllString(all, -1) {
			if o, ok := s.canary[c]; ok && o.Mount != nil && !o.Mount.NS.under(n) {
				ev["response_strings"] = c12Trunc(ss)
				s.violate(c12ClsRestrictedData, what+fmt.Sprintf("; the response carries %s, written through mount %s of namespace %q", c, o.Mount, o.Mount.NS.Path), ev)
				break
			}
		}
		if q.ok() {
			for _, m := range s.mounts {
				if m.UUID != "" && m.NS != nil && !m.NS.under(n) && !strings.Contains(q.Path, m.UUID) && strings.Contains(all, m.UUID) {
					ev["response_strings"] = c12Trunc(ss)
					s.violate(c12ClsRestrictedData, what+fmt.Sprintf("; the response names the storage of mount %s of namespace %q", m, m.NS.Path), ev)
					break
				}
			}
			for _, o := range s.nss {
				if o.UUID != "" && !o.under(n) && !n.under(o) && !strings.Contains(q.Path, o.UUID) && strings.Contains(all, o.UUID) {
					ev["response_strings"] = c12Trunc(ss)
					s.violate(c12ClsRestrictedData, what+fmt.Sprintf("; the response names the storage of namespace %q", o.Path), ev)
					break
				}
			}
		}
	}
	// 3. a root-only API does not answer outside the root namespace
	if q.ok() {
		s.violate(c12ClsRestrictedServed, what+"; it was answered: "+c12Short(fmt.Sprint(q.resp)), ev)
	} else {
		s.r.Count("restricted_requests_refused", 1)
	}
}
