//go:build verif

package vault

// C12, "a policy grants access only inside the namespace it is defined in and below": policy
// NAMES are client-supplied strings (token creation by a namespace's own administrator, login
// responses of an auth mount, identity entity / group policies). A name must only ever resolve
// to a policy of the token's own namespace, whatever it looks like ("../<uuid of another
// namespace>/<policy>", upper case, padded, nested).

import (
	"context"
	"fmt"
	"strings"
	"testing"

	kit "github.com/openbao/openbao/sdk/v2/helper/verifkit"
	"github.com/openbao/openbao/sdk/v2/logical"
	"github.com/openbao/openbao/v2/internal/helper/namespace"
)

func TestVerif_C12_PolicyNames(t *testing.T) {
	seed := kit.Seed(12)
	r := kit.NewResult(t, "c12-policy-names", seed, "namespaces '', a/, a/c/, b/ each hold an all-powerful policy and a mount with a canary secret (policy cache on and off; every policy used once so that it is cached); for every ordered pair (X, Y), Y != X, a token of X is given - through auth/token/create by X's own administrator, through a login response of an auth mount in X, and through an identity entity in X - policy names that try to address Y's policy (relative forms built from Y's namespace UUID, path and id, case / padding variants, nested forms); the token then reads the canary secret and sys/mounts in every namespace: it must be refused wherever X's own policies do not grant it (the hostile name exists in no namespace as a policy of X); a case is non-trivial when the token was actually issued; distinct by (route, name form, relation of Y to X, cache)")
	defer r.Write(t)
	ctx := namespace.RootContext(context.Background())
	all := `path "*" { capabilities = ["create","read","update","delete","list","sudo"] }`
	for _, cache := range []bool{true, false} {
		v := vBoot(t, vOpts{Cache: cache})
		nss := []string{"", "a/", "a/c/", "b/"}
		v.MustDo(vReq{Op: logical.UpdateOperation, Path: "sys/namespaces/a", Token: v.Root})
		v.MustDo(vReq{Op: logical.UpdateOperation, Path: "sys/namespaces/c", Token: v.Root, NS: "a/"})
		v.MustDo(vReq{Op: logical.UpdateOperation, Path: "sys/namespaces/b", Token: v.Root})
		uuid := map[string]string{}
		id := map[string]string{}
		canary := map[string]string{}
		admin := map[string]string{}
		rng := kit.NewRand(seed, 1200)
		for _, ns := range nss {
			n, err := v.Core.namespaceStore.GetNamespaceByPath(ctx, ns)
			if err != nil || n == nil {
				t.Fatalf("namespace %q: %v", ns, err)
			}
			uuid[ns], id[ns] = n.UUID, n.ID
			v.Mount("rec", "verifrec", ns, nil)
			v.EnableAuth("recauth", "verifrec", ns)
			canary[ns] = rng.Canary()
			v.MustDo(vReq{Op: logical.UpdateOperation, Path: "rec/data/secret", Token: v.Root, NS: ns, Data: map[string]any{"value": canary[ns]}})
			v.Policy("boss", all, ns)
			tok, _, err := v.CreateToken(v.Root, map[string]any{"policies": []string{"boss"}, "ttl": "2h"}, false, ns)
			if err != nil {
				t.Fatalf("admin token of %q: %v", ns, err)
			}
			admin[ns] = tok.ID
			// use the policy once: it is in the policy cache from here on (when there is one)
			v.MustDo(vReq{Op: logical.ReadOperation, Path: "rec/data/secret", Token: admin[ns], NS: ns})
		}
		inSubtree := func(x, y string) bool { return strings.HasPrefix(y, x) }
		forms := func(y string) []string {
			u, p := uuid[y], "boss"
			return []string{
				"../" + u + "/" + p, "../../" + u + "/" + p, u + "/" + p, "./../" + u + "/" + p, "x/../../" + u + "/" + p,
				"../" + strings.ToUpper(u) + "/" + p, " ../" + u + "/" + p + " ", "../" + u + "/" + strings.ToUpper(p),
				"../" + u + "//" + p, "..//" + u + "/" + p, "/" + u + "/" + p, "../" + id[y] + "/" + p, "../" + strings.TrimSuffix(y, "/") + "/" + p,
				y + p, "/" + y + p,
			}
		}
		for _, x := range nss {
			for _, y := range nss {
				if x == y {
					continue
				}
				rel := "unrelated"
				switch {
				case inSubtree(x, y):
					rel = "descendant"
				case inSubtree(y, x):
					rel = "ancestor"
				}
				for fi, name := range forms(y) {
					if n := strings.Trim(strings.ToLower(strings.TrimSpace(name)), "/"); n == "boss" {
						continue // with Y = root some forms are simply X's own policy name
					}
					for _, route := range []string{"create", "login", "entity"} {
						caseID := fmt.Sprintf("polname:%v:%s:%s:%d:%s", cache, x, y, fi, route)
						if !kit.WantCase(caseID) {
							continue
						}
						if kit.Tier() == "quick" && route != "create" && fi%3 != 0 {
							continue
						}
						tok := ""
						switch route {
						case "create":
							resp, err := v.Do(vReq{Op: logical.UpdateOperation, Path: "auth/token/create", Token: admin[x], NS: x, Data: map[string]any{"policies": []string{name}, "ttl": "1h", "id": ""}})
							if vOK(resp, err) && resp != nil && resp.Auth != nil {
								tok = resp.Auth.ClientToken
							}
						case "login":
							resp, err := v.Do(vReq{Op: logical.UpdateOperation, Path: "auth/recauth/login/u", NS: x, Data: map[string]any{"policies": []string{name}, "ttl": "1h"}})
							if vOK(resp, err) && resp != nil && resp.Auth != nil {
								tok = resp.Auth.ClientToken
							}
						case "entity":
							alias := fmt.Sprintf("pn-%d", rng.Intn(1<<30))
							resp, err := v.Do(vReq{Op: logical.UpdateOperation, Path: "auth/recauth/login/u", NS: x, Data: map[string]any{"policies": []string{"default"}, "ttl": "1h", "alias": alias}})
							if vOK(resp, err) && resp != nil && resp.Auth != nil && resp.Auth.EntityID != "" {
								if r2, e2 := v.Do(vReq{Op: logical.UpdateOperation, Path: "identity/entity/id/" + resp.Auth.EntityID, Token: admin[x], NS: x, Data: map[string]any{"policies": []string{name}}}); vOK(r2, e2) {
									tok = resp.Auth.ClientToken
								}
							}
						}
						r.Eval(1)
						if tok == "" {
							r.Count("issue_refused:"+route, 1)
							continue
						}
						r.Count("tokens_issued:"+route, 1)
						r.Nontrivial(fmt.Sprintf("%s|%d|%s|%v", route, fi, rel, cache))
						for _, target := range nss {
							for _, path := range []string{"rec/data/secret", "sys/mounts"} {
								resp, err := v.Do(vReq{Op: logical.ReadOperation, Path: path, Token: tok, NS: target})
								r.Count("probes", 1)
								if rel != "descendant" || target != y {
									r.Count("probes_outside_any_grant_of_the_issuer", 1)
								}
								if vOK(resp, err) && resp != nil && resp.Data != nil {
									r.Violate("C12-policy-name-resolves-to-another-namespaces-policy", caseID,
										fmt.Sprintf("token of namespace %q (%s) whose policy list is [%q] (no such policy exists in %q; the name addresses policy boss of %s namespace %q) read %s in namespace %q (policy cache %v)",
											x, route, name, x, rel, y, path, target, cache),
										map[string]any{"issuer_namespace": x, "named_namespace": y, "relation": rel, "policy_name": name, "route": route, "target_namespace": target, "path": path, "cache": cache,
											"leaked_canary": resp.Data["value"] == canary[target]})
								}
							}
						}
						if r.NViolations() > 20 {
							return
						}
					}
				}
			}
		}
		v.Close()
	}
	r.Require("tokens_issued:create", 100)
	r.Require("probes", 2000)
}
