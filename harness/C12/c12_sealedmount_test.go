//go:build verif

package vault

// C12 monitor 11: a parent's mount at a path under the name of a SEALED child
// namespace. Fixed scenarios (the generated form of this is in the storage
// monitor, known finding F36); this test writes down exactly what happens.
//
// Namespace team/ has its own seal, its own mounts kv/ and own/ and an
// administrator (policy path "*" of team/). While team/ is sealed the root
// namespace mounts <team/kv/> (same router key as the namespace's own kv/) or
// <team/new/> (no such mount in the namespace), data is written through it, the
// namespace is unsealed, and then everybody asks for team/kv/..., team/new/...
// and team/own/...

import (
	"fmt"
	"sort"
	"strings"
	"testing"

	kit "github.com/openbao/openbao/sdk/v2/helper/verifkit"
	"github.com/openbao/openbao/sdk/v2/logical"
)

func TestVerif_C12_MountUnderSealedNamespace(t *testing.T) {
	seed := kit.Seed(12)
	r := kit.NewResult(t, "c12-mount-under-sealed-namespace", seed,
		"fixed scenarios x {plain, transactional storage}: namespace team/ (own shamir seal) with recording mounts kv/ and own/ holding canaries and an administrator token; team/ is sealed; the root namespace mounts a recording backend at team/kv/ (colliding with the namespace's own kv/) or at team/new/; requests to those paths are sent while sealed (no key of team/ may be touched, the request resolves into the sealed namespace and may not be served); team/ is unsealed (if that fails the root's mount is removed and the unseal retried); afterwards the root token and team/'s administrator request team/kv/, team/new/ and team/own/ in header and path spelling: which mount handles them, which storage they touch, whether the namespace's own data is still served; a request of team/'s administrator that is handled by the root namespace's mount and touches root-namespace storage is the known configuration C12-mount-inside-sealed-namespace-path-served-to-child-token")
	defer r.Write(t)
	if _, shards := kit.Shard(); shards > 1 {
		if sh, _ := kit.Shard(); sh != 0 {
			return
		}
	}
	n := 0
	for _, tx := range []bool{false, true} {
		for _, sub := range []string{"kv/", "new/"} {
			n++
			caseID := fmt.Sprintf("sealedmount:%d", n)
			if !kit.WantCase(caseID) {
				continue
			}
			c12SealedMountCase(t, r, kit.NewRand(seed, 0x12a00+uint64(n)), caseID, tx, sub)
		}
	}
	r.Require("scenarios", 4)
	r.Require("requests_while_sealed", 16)
	r.Require("requests_after_unseal", 40)
}

func c12SealedMountCase(t *testing.T, r *kit.Result, rng *kit.Rand, caseID string, transactional bool, sub string) {
	v := vBoot(t, vOpts{Transactional: transactional})
	defer v.Close()
	w := &c12World{t: t, v: v, r: r, rng: rng, caseID: caseID, canary: map[string]c12Owner{}}
	w.root = &c12NS{Path: "", Name: ""}
	w.nss = []*c12NS{w.root}
	w.rootTok = &c12Tok{Name: "root", ID: v.Root, NS: w.root, Kind: "root", Root: true}
	w.toks = []*c12Tok{w.rootTok}
	r.Count("scenarios", 1)
	say := func(format string, a ...any) {
		s := fmt.Sprintf(format, a...)
		w.step("%s", s)
		r.Note("[%s tx=%v root mounts team/%s] %s", caseID, transactional, sub, s)
	}
	team := w.createNS(w.root, "team", true)
	if team == nil {
		t.Fatalf("verif: cannot create team/")
	}
	w.sync()
	own := map[string]*c12Mount{}
	for _, p := range []string{"kv/", "own/"} {
		m := w.mount(team, p, "verifrec", false)
		if m == nil {
			t.Fatalf("verif: cannot mount %s in team/", p)
		}
		w.writeCanary(m, w.rootTok)
		own[p] = m
	}
	w.policy(team, "c12-all", []string{"*"})
	adm := w.token(team, "adm@team/", "all", []string{"c12-all"}, []string{"*"}, nil)
	if !w.sealNS(team) {
		t.Fatalf("verif: cannot seal team/")
	}
	// the root namespace mounts under the sealed namespace's name
	rm := w.mount(w.root, "team/"+sub, "verifrec", false)
	if rm == nil {
		say("while team/ is sealed the root namespace's mount at team/%s is REFUSED", sub)
		r.Count("mount_under_sealed_namespace_refused", 1)
		return
	}
	r.Count("mount_under_sealed_namespace_accepted", 1)
	say("while team/ is sealed the root namespace's mount at team/%s is ACCEPTED (storage %s, namespace storage %s)", sub, rm.Prefix, team.Prefix)
	where := func(q *c12Req) string {
		handled, at := q.handled()
		var touched []string
		seen := map[string]bool{}
		for _, e := range q.events {
			if e.Op != "get" && e.Op != "put" && e.Op != "delete" && e.Op != "list" {
				continue
			}
			for _, m := range append([]*c12Mount{rm}, own["kv/"], own["own/"]) {
				if strings.HasPrefix(e.Key, m.Prefix) && !seen[m.String()+e.Op] {
					seen[m.String()+e.Op] = true
					touched = append(touched, e.Op+" in storage of "+m.String())
				}
			}
		}
		return fmt.Sprintf("handled=%v by mount at %q, %v; outcome %s", handled, at, touched, c12Short(q.outcome()))
	}
	// while sealed
	for _, f := range [][2]string{{"", "team/" + sub + "data/while-sealed"}, {"team/", sub + "data/while-sealed"}, {"", "team/own/data/" + own["own/"].Tag + "-k0"}, {"team/", "kv/data/" + own["kv/"].Tag + "-k0"}} {
		for _, op := range []logical.Operation{logical.UpdateOperation, logical.ReadOperation} {
			q := &c12Req{Kind: "sealedmount-while-sealed", Op: op, Tok: w.rootTok, N: team, Form: "fixed", Header: f[0], Path: f[1]}
			if op == logical.UpdateOperation {
				q.Data = map[string]any{"v": "written-while-sealed"}
			}
			w.do(q)
			r.Eval(1)
			r.Count("requests_while_sealed", 1)
			w.checkSealedUntouched(q)
			handled, at := q.handled()
			if handled {
				r.Count("requests_into_the_sealed_namespaces_path_served", 1)
				say("WHILE SEALED: root token %s header %q path %q: %s", op, f[0], f[1], where(q))
				if at != "team/"+sub {
					w.violate("C12-sealed-namespace-access", fmt.Sprintf("while team/ is sealed %s %q (header %q) was handled by the mount at %q", op, f[1], f[0], at), map[string]any{"request": q})
				}
			} else {
				r.Count("requests_into_the_sealed_namespaces_path_refused", 1)
			}
		}
	}
	say("WHILE SEALED: %d of %d requests to paths under team/ were served (by the root namespace's mount), %d refused", r.Get("requests_into_the_sealed_namespaces_path_served"), r.Get("requests_while_sealed"), r.Get("requests_into_the_sealed_namespaces_path_refused"))
	// a value in the root's mount, written through a path that does not go through the namespace
	c := rng.Canary()
	if q := (&c12Req{Kind: "sealedmount-seed", Op: logical.UpdateOperation, Tok: w.rootTok, N: w.root, M: rm, Form: "fixed", Header: "", Path: "team/" + sub + "data/rootval", Data: map[string]any{"v": c}}); true {
		w.do(q)
		if h, _ := q.handled(); h {
			w.canary[c] = c12Owner{Mount: rm}
			say("WHILE SEALED: the root token stored a value through team/%sdata/rootval in the root namespace's mount", sub)
		} else {
			say("WHILE SEALED: the root token cannot store through team/%sdata/rootval: %s", sub, c12Short(q.outcome()))
		}
	}
	// unseal
	if w.unsealTree(team) {
		say("UNSEAL of team/ succeeded with the root namespace's mount at team/%s in place", sub)
		r.Count("unseal_succeeded_with_parent_mount_in_place", 1)
	} else {
		reason := ""
		for _, st := range w.steps {
			if strings.HasPrefix(st, "unseal team/") {
				reason = c12Short(st)
			}
		}
		say("UNSEAL of team/ FAILED with the root namespace's mount at team/%s in place: %s", sub, reason)
		r.Count("unseal_failed_with_parent_mount_in_place", 1)
		// the namespace is sealed again: nothing of it may be reachable
		probe := func(phase string) {
			for _, f := range [][2]string{{"", "team/own/data/" + own["own/"].Tag + "-k0"}, {"team/", "kv/data/" + own["kv/"].Tag + "-k0"}, {"team/", "own/data/x"}} {
				q := &c12Req{Kind: "sealedmount-" + phase, Op: logical.ReadOperation, Tok: w.rootTok, N: team, Form: "fixed", Header: f[0], Path: f[1]}
				w.do(q)
				r.Eval(1)
				r.Count("requests_while_sealed", 1)
				w.checkSealedUntouched(q)
				if h, at := q.handled(); h {
					w.violate("C12-sealed-namespace-access", fmt.Sprintf("%s: read %q (header %q) was handled by the mount at %q although team/ is sealed", phase, f[1], f[0], at), map[string]any{"request": q})
				} else {
					r.Count("requests_after_failed_unseal_refused", 1)
				}
			}
		}
		probe("after-failed-unseal")
		w.unmount(rm)
		if w.unsealTree(team) {
			say("UNSEAL of team/ succeeded after the root namespace's mount was removed")
		} else {
			for _, st := range w.steps {
				if strings.HasPrefix(st, "unseal team/") {
					reason = c12Short(st)
				}
			}
			say("UNSEAL of team/ STILL FAILS after the root namespace's mount was removed: %s (the first attempt left the namespace's other mounts in the router)", reason)
			r.Count("unseal_failed_after_parent_mount_removed", 1)
			probe("after-second-failed-unseal")
			// a restart of the core
			if err := TestCoreSeal(v.Core); err != nil {
				say("core seal failed: %v", err)
				return
			}
			if err := v.Core.UnsealWithStoredKeys(c12RootCtx()); err != nil {
				say("RESTART of the core failed: %v", err)
				r.Count("core_restart_failed_after_failed_namespace_unseal", 1)
				return
			}
			team.Sealed = true
			if resp, err := v.Do(vReq{Op: logical.ReadOperation, Path: "sys/mounts", Token: v.Root}); vOK(resp, err) && resp != nil {
				_, back := resp.Data["team/"+sub]
				say("AFTER RESTART: the root namespace's mount table lists team/%s: %v (it was unmounted through sys/mounts before the restart, request ok)", sub, back)
				if back {
					r.Count("unmounted_parent_mount_back_after_restart", 1)
					resp, err := v.Do(vReq{Op: logical.DeleteOperation, Path: "sys/mounts/team/" + strings.TrimSuffix(sub, "/"), Token: v.Root})
					say("AFTER RESTART: unmounting team/%s in the root namespace once more: %s", sub, c12Short(vErrStr(resp, err)))
				}
			}
			if !w.unsealNS(team) {
				for _, st := range w.steps {
					if strings.HasPrefix(st, "unseal team/") {
						reason = c12Short(st)
					}
				}
				say("UNSEAL of team/ fails after a restart of the core as well: %s", reason)
				r.Count("unseal_failed_after_core_restart", 1)
				return
			}
			say("UNSEAL of team/ succeeded after a restart of the core (seal + unseal)")
			r.Count("unseal_succeeded_after_core_restart", 1)
		}
	}
	w.sync()
	// afterwards
	type ask struct {
		tok    *c12Tok
		header string
		path   string
		want   *c12Mount // the mount of team/ whose canary the path names (nil: root's mount path)
	}
	kvKey, ownKey := "data/"+own["kv/"].Tag+"-k0", "data/"+own["own/"].Tag+"-k0"
	var asks []ask
	for _, tk := range []*c12Tok{w.rootTok, adm} {
		for _, hp := range [][2]string{{"team/", ""}, {"", "team/"}} {
			asks = append(asks,
				ask{tk, hp[0], hp[1] + "kv/" + kvKey, own["kv/"]},
				ask{tk, hp[0], hp[1] + "own/" + ownKey, own["own/"]},
				ask{tk, hp[0], hp[1] + sub + "data/rootval", nil},
				ask{tk, hp[0], hp[1] + sub + "data/after-unseal", nil})
		}
	}
	summary := map[string]int{}
	for _, a := range asks {
		for _, op := range []logical.Operation{logical.ReadOperation, logical.UpdateOperation} {
			if op == logical.UpdateOperation && !strings.HasSuffix(a.path, "after-unseal") {
				continue
			}
			q := &c12Req{Kind: "sealedmount-after-unseal", Op: op, Tok: a.tok, N: team, Form: "fixed", Header: a.header, Path: a.path}
			if op == logical.UpdateOperation {
				q.Data = map[string]any{"v": "written-after-unseal"}
			}
			w.do(q)
			r.Eval(1)
			r.Count("requests_after_unseal", 1)
			handled, at := q.handled()
			var ss []string
			if q.resp != nil {
				c12Strings(q.resp.Data, "", &ss)
			}
			got := ""
			for _, x := range c12CanaryRe.FindAllString(strings.Join(ss, " "), -1) {
				if o, ok := w.canary[x]; ok {
					got = "value of " + o.Mount.String()
				}
			}
			w.step("AFTER UNSEAL: token %s %s header %q path %q: %s; returned %q", a.tok.Name, op, a.header, a.path, where(q), got)
			if handled {
				summary[fmt.Sprintf("%s %s .../%s -> handled by the mount at %q", a.tok.Name, op, a.path[strings.Index(a.path, "data/")-len(strings.SplitAfter(strings.TrimPrefix(a.path, "team/"), "/")[0]):], at)]++
			} else {
				summary[fmt.Sprintf("%s %s %s -> refused (%s)", a.tok.Name, op, a.path, c12Short(q.outcome()))]++
			}
			inRoot := false
			for _, e := range q.events {
				if strings.HasPrefix(e.Key, rm.Prefix) && !rm.Dead {
					inRoot = true
				}
			}
			switch {
			case a.tok == adm && handled && at == "team/"+sub && inRoot && !rm.Dead:
				r.Count("namespace_token_served_by_the_parents_mount", 1)
				w.violate("C12-mount-inside-sealed-namespace-path-served-to-child-token",
					fmt.Sprintf("mount %s belongs to the root namespace (storage %q) but was accepted at a path inside namespace team/ while that namespace was sealed; after unsealing, token %s of namespace team/ (policy path \"*\" of team/ only) was served %s %q (header %q) by it and touched its storage", rm, rm.Prefix, adm.Name, op, a.path, a.header),
					map[string]any{"request": q, "physical_ops": c12Events(q.events)})
			case a.want != nil && !a.want.Dead && got == "value of "+a.want.String():
				r.Count("namespaces_own_data_served_after_unseal", 1)
			case a.want != nil:
				r.Count("namespaces_own_data_not_served_after_unseal", 1)
			}
			if a.tok == adm && got == "value of "+rm.String() {
				w.violate("C12-foreign-data-visible", fmt.Sprintf("token %s of team/ read the value the root namespace stored in its own mount %s through %q (header %q)", adm.Name, rm, a.path, a.header), map[string]any{"request": q})
			}
		}
	}
	var lines []string
	for k, n := range summary {
		lines = append(lines, fmt.Sprintf("%s (x%d)", k, n))
	}
	sort.Strings(lines)
	say("AFTER UNSEAL: %s", strings.Join(lines, "; "))
	say("AFTER UNSEAL: the namespace's own data was served in %d of %d requests for it; its administrator was served by the root namespace's mount %d times", r.Get("namespaces_own_data_served_after_unseal"), r.Get("namespaces_own_data_served_after_unseal")+r.Get("namespaces_own_data_not_served_after_unseal"), r.Get("namespace_token_served_by_the_parents_mount"))
	r.Sample(map[string]any{"case": caseID, "steps": w.steps})
}
