//go:build verif

package vault

// C12: mounts, cubbyholes and namespaces are confined to their own storage and scope.
//
// This file holds what the three C12 monitors share: a generated "world"
// (namespace tree incl. separately sealed namespaces, user mounts, tokens), the
// table of storage prefixes read from the running core, the classification of
// physical keys, the physical-confinement oracle, the response leak scanner and
// the hostile key / path generators.

import (
	"context"
	"fmt"
	"os"
	"regexp"
	"sort"
	"strings"
	"testing"
	"time"

	kit "github.com/openbao/openbao/sdk/v2/helper/verifkit"
	"github.com/openbao/openbao/sdk/v2/logical"
	"github.com/openbao/openbao/v2/internal/helper/namespace"
)

const c12Caps = `capabilities = ["create","read","update","delete","list","scan","patch","sudo"]`

var (
	c12CanaryRe = regexp.MustCompile(`cnry[0-9a-f]{20}`)
	c12TagRe    = regexp.MustCompile(`c12m[0-9]+x`)
)

// ---------------------------------------------------------------- model

type c12NS struct {
	Path      string   `json:"path"` // "" = root, otherwise "a/", "a/ab/"
	Name      string   `json:"-"`
	Parent    *c12NS   `json:"-"`
	Depth     int      `json:"-"`
	Sealable  bool     `json:"sealable,omitempty"`
	Shares    []string `json:"-"`
	Threshold int      `json:"-"`
	Sealed    bool     `json:"sealed,omitempty"` // its own barrier is sealed
	Lost      bool     `json:"lost,omitempty"`   // no longer known to the core after an ancestor was sealed and unsealed
	UUID      string   `json:"uuid,omitempty"`
	ID        string   `json:"id,omitempty"`
	Prefix    string   `json:"prefix"` // physical prefix read from the core
}

// under reports whether n is a or a descendant of a.
func (n *c12NS) under(a *c12NS) bool {
	for x := n; x != nil; x = x.Parent {
		if x == a {
			return true
		}
	}
	return false
}

// effSealed: the namespace or one of its ancestors is sealed.
func (n *c12NS) effSealed() bool {
	for x := n; x != nil; x = x.Parent {
		if x.Sealed || x.Lost {
			return true
		}
	}
	return false
}

type c12Mount struct {
	NS             *c12NS `json:"-"`
	NSPath         string `json:"ns"`
	Path           string `json:"path"` // mount path without "auth/"
	Auth           bool   `json:"auth,omitempty"`
	Type           string `json:"type"`
	Tag            string `json:"tag"`
	Accessor       string `json:"accessor"`
	UUID           string `json:"uuid"`
	Prefix         string `json:"prefix"`
	Core           bool   `json:"core,omitempty"`    // sys / token / identity: core-owned storage
	Default        bool   `json:"default,omitempty"` // created by the core, not by the harness
	Cubby          bool   `json:"cubbyhole,omitempty"`
	Dead           bool   `json:"dead,omitempty"`
	Odd            bool   `json:"holds_key_with_empty_segment,omitempty"`
	Shadow         *c12NS `json:"-"` // the mount's path lies inside the path of this (other) namespace
	ShadowN        string `json:"inside_path_of_namespace,omitempty"`
	shadowReported bool
	shadowSealed   bool     // accepted while the shadowing namespace was sealed
	Keys           []string `json:"-"` // raw keys stored through this mount
	Data           []string `json:"-"` // data/ paths written through this mount
}

func (m *c12Mount) api() string {
	if m.Auth {
		return "auth/" + m.Path
	}
	return m.Path
}

func (m *c12Mount) String() string { return m.NSPath + m.api() + "[" + m.Tag + "]" }

type c12Tok struct {
	Name     string   `json:"name"`
	ID       string   `json:"-"`
	Accessor string   `json:"-"`
	NS       *c12NS   `json:"-"`
	NSPath   string   `json:"ns"`
	Kind     string   `json:"kind"`
	Root     bool     `json:"root_policy,omitempty"`
	Patterns []string `json:"patterns,omitempty"` // namespace-qualified ACL patterns granting every capability
	Dead     bool     `json:"dead,omitempty"`
}

type c12Owner struct {
	Mount *c12Mount
	Tok   *c12Tok // cubbyhole cells only
	NS    *c12NS  // cubbyhole cells only
}

type c12Region struct {
	Prefix string
	NS     *c12NS
	Mount  *c12Mount // nil = namespace region
}

type c12World struct {
	t       *testing.T
	v       *vCore
	r       *kit.Result
	rng     *kit.Rand
	caseID  string
	root    *c12NS
	nss     []*c12NS
	mounts  []*c12Mount
	toks    []*c12Tok
	rootTok *c12Tok
	regions []c12Region
	canary  map[string]c12Owner
	freed   []string // "<ns path>|<api path>" of paths that once held a mount
	nextTag int
	reqN    int
	steps   []string
	failed  bool
	// a namespace unseal failed in this world. Observation outside C12: the rollback
	// (NamespaceStore.unsealNamespace -> SealNamespace with the root-namespace active
	// context) then writes the namespace's record into the ROOT namespace's store, and
	// the next start of the core fails with "error loading initial namespaces: can't
	// insert namespace with missing parent". Such worlds are not restarted.
	unsealFailed bool
}

func (w *c12World) step(format string, a ...any) {
	s := fmt.Sprintf(format, a...)
	if len(w.steps) < 400 {
		w.steps = append(w.steps, s)
	}
	if os.Getenv("VERIF_C12_TRACE") != "" {
		w.t.Logf("[%s] %s", w.caseID, s)
	}
}

func (w *c12World) witness(extra map[string]any) map[string]any {
	out := map[string]any{"case": w.caseID, "namespaces": w.nss, "mounts": w.mounts}
	n := len(w.steps)
	if n > 60 {
		out["last_steps"] = w.steps[n-60:]
	} else {
		out["steps"] = w.steps
	}
	for k, v := range extra {
		out[k] = v
	}
	return out
}

// c12Shapes are the narrow classes of precisely delimited configurations; their
// witnesses do not count towards the cut-offs that end a run early.
var c12Shapes = map[string]bool{
	"C12-mount-inside-sealed-namespace-path-served-to-child-token":          true,
	"C12-reissued-token-id-reads-earlier-holders-child-namespace-cubbyhole": true,
}

func c12Generic(r *kit.Result) int { return int(r.Get("violations_of_generic_classes")) }

func (w *c12World) violate(class, what string, extra map[string]any) {
	if !c12Shapes[class] {
		w.failed = true
		w.r.Count("violations_of_generic_classes", 1)
	}
	w.r.Violate(class, w.caseID, "["+w.caseID+"] "+what, w.witness(extra))
}

// ---------------------------------------------------------------- requests

type c12Req struct {
	Kind   string            `json:"kind"`
	Op     logical.Operation `json:"op"`
	Header string            `json:"header"` // namespace header as sent
	Path   string            `json:"path"`   // request path as sent
	Data   map[string]any    `json:"data,omitempty"`
	Tok    *c12Tok           `json:"-"`
	TokN   string            `json:"token"`
	N      *c12NS            `json:"-"` // namespace addressed
	M      *c12Mount         `json:"-"` // mount addressed (nil if none)
	MountN string            `json:"mount,omitempty"`
	Marker string            `json:"marker,omitempty"`
	// hostile storage call
	RawCall string `json:"raw_call,omitempty"`
	RawKey  string `json:"raw_key,omitempty"`
	KeyKind string `json:"key_kind,omitempty"`
	Form    string `json:"form,omitempty"`

	tag    string
	events []kit.Event
	recs   []vRecEvent
	resp   *logical.Response
	err    error
}

func (q *c12Req) ok() bool { return vOK(q.resp, q.err) }

func (q *c12Req) outcome() string { return vErrStr(q.resp, q.err) }

// handled reports whether the recording backend of the addressed mount ran its handler.
func (q *c12Req) handled() (bool, string) {
	for _, e := range q.recs {
		if e.Kind == "handler" || e.Kind == "login" || e.Kind == "issued" {
			return true, e.Mount
		}
	}
	return false, ""
}

// do runs the request tagged, collecting its physical events and backend events.
func (w *c12World) do(q *c12Req) {
	w.reqN++
	q.tag = fmt.Sprintf("c12r%d", w.reqN)
	if q.Tok != nil {
		q.TokN = q.Tok.Name
	}
	if q.M != nil {
		q.MountN = q.M.String()
	}
	tok := ""
	if q.Tok != nil {
		tok = q.Tok.ID
	}
	recAt := w.v.Rec.Len()
	w.v.Probe.StartLog(false)
	q.resp, q.err = w.v.Do(vReq{Tag: q.tag, Op: q.Op, Path: q.Path, Token: tok, Data: q.Data, NS: q.Header})
	all := w.v.Probe.StopLog()
	q.events = q.events[:0]
	for _, e := range all {
		if e.Tag == q.tag {
			q.events = append(q.events, e)
		}
	}
	q.recs = w.v.Rec.Since(recAt)
	w.r.Count("requests", 1)
}

// forms returns the (header, path) spellings that address api path p in namespace n.
func c12Forms(n *c12NS, p string) [][3]string {
	out := [][3]string{{"header", n.Path, p}}
	if n.Path == "" {
		out = append(out, [3]string{"header-root", "root", p})
		return out
	}
	out = append(out, [3]string{"path", "", n.Path + p})
	out = append(out, [3]string{"header-noslash", "/" + strings.TrimSuffix(n.Path, "/"), p})
	segs := strings.SplitAfter(strings.TrimSuffix(n.Path, "/"), "/")
	if len(segs) > 1 {
		for i := 1; i < len(segs); i++ {
			h := strings.Join(segs[:i], "")
			rest := strings.Join(segs[i:], "") + "/"
			out = append(out, [3]string{fmt.Sprintf("split%d", i), h, rest + p})
		}
	}
	return out
}

func (w *c12World) pickForm(q *c12Req, n *c12NS, p string) {
	fs := c12Forms(n, p)
	f := fs[w.rng.Intn(len(fs))]
	q.Form, q.Header, q.Path = f[0], f[1], f[2]
}

// ---------------------------------------------------------------- namespace helpers

func c12RootCtx() context.Context { return namespace.RootContext(context.Background()) }

func (w *c12World) nsObj(n *c12NS) *namespace.Namespace {
	if n.Path == "" {
		return namespace.RootNamespace
	}
	o, err := w.v.Core.namespaceStore.GetNamespaceByPath(c12RootCtx(), n.Path)
	if err != nil || o == nil {
		return nil
	}
	return o
}

func (w *c12World) nsCtx(n *c12NS) context.Context {
	o := w.nsObj(n)
	if o == nil {
		return nil
	}
	return namespace.ContextWithNamespace(context.Background(), o)
}

func (w *c12World) findNS(path string) *c12NS {
	for _, n := range w.nss {
		if n.Path == path {
			return n
		}
	}
	return nil
}

func (w *c12World) children(n *c12NS) []*c12NS {
	var out []*c12NS
	for _, c := range w.nss {
		if c.Parent == n {
			out = append(out, c)
		}
	}
	return out
}

func (w *c12World) subtree(n *c12NS) []*c12NS {
	var out []*c12NS
	for _, c := range w.nss {
		if c.under(n) {
			out = append(out, c)
		}
	}
	return out
}

// createNS creates a namespace through the API; a sealable one gets its own
// shamir seal and is unsealed right away.
func (w *c12World) createNS(parent *c12NS, name string, sealable bool) *c12NS {
	data := map[string]any{}
	n := &c12NS{Path: parent.Path + name + "/", Name: name, Parent: parent, Depth: parent.Depth + 1, Sealable: sealable}
	if sealable {
		shares := 1 + w.rng.Intn(3)
		thr := 1
		if shares > 1 {
			thr = 2 + w.rng.Intn(shares-1)
		}
		n.Threshold = thr
		data["seal"] = fmt.Sprintf("seal \"shamir\" {\n shares = %d\n threshold = %d\n}", shares, thr)
	}
	resp, err := w.v.Do(vReq{Op: logical.UpdateOperation, Path: "sys/namespaces/" + name, Token: w.v.Root, NS: parent.Path, Data: data})
	if !vOK(resp, err) || resp == nil {
		w.step("create namespace %s refused: %s", n.Path, vErrStr(resp, err))
		w.r.Count("namespace_create_refused", 1)
		return nil
	}
	n.UUID, _ = resp.Data["uuid"].(string)
	n.ID, _ = resp.Data["id"].(string)
	if sealable {
		ks, _ := resp.Data["key_shares"].([]string)
		n.Shares = ks
		if len(ks) == 0 {
			w.t.Fatalf("verif: sealable namespace %s returned no key shares", n.Path)
		}
		n.Sealed = true
	}
	w.nss = append(w.nss, n)
	w.step("create namespace %s sealable=%v", n.Path, sealable)
	if sealable {
		if !w.unsealNS(n) {
			w.t.Fatalf("verif: cannot unseal fresh namespace %s", n.Path)
		}
	}
	if o := w.nsObj(n); o != nil {
		n.Prefix = NamespaceStoragePathPrefix(o)
	}
	return n
}

func (w *c12World) unsealNS(n *c12NS) bool {
	for i := 0; i < len(n.Shares); i++ {
		resp, err := w.v.Do(vReq{Op: logical.UpdateOperation, Path: "sys/namespaces/" + n.Name + "/unseal", Token: w.v.Root, NS: n.Parent.Path, Data: map[string]any{"key": n.Shares[i]}})
		if !vOK(resp, err) || resp == nil {
			w.step("unseal %s share %d: %s", n.Path, i, vErrStr(resp, err))
			w.unsealFailed = true
			return false
		}
		if s, ok := resp.Data["sealed"].(bool); ok && !s {
			n.Sealed = false
			w.step("unsealed %s after %d share(s)", n.Path, i+1)
			w.r.Count("namespace_unseals", 1)
			return true
		}
	}
	return false
}

func (w *c12World) sealNS(n *c12NS) bool {
	// Let background revocations drain first. Observation outside C12: a lease
	// revocation job that runs while an ancestor namespace is being sealed finds its
	// token's namespace gone (NamespaceByID == nil) and ExpirationManager.
	// removeIndexByToken dereferences it: the whole process panics.
	w.v.WaitQuiet(20*time.Millisecond, 2*time.Second)
	resp, err := w.v.Do(vReq{Op: logical.UpdateOperation, Path: "sys/namespaces/" + n.Name + "/seal", Token: w.v.Root, NS: n.Parent.Path})
	if !vOK(resp, err) {
		w.step("seal %s refused: %s", n.Path, vErrStr(resp, err))
		return false
	}
	n.Sealed = true
	w.step("sealed %s", n.Path)
	w.r.Count("namespace_seals", 1)
	return true
}

// unsealTree unseals n and then every sealable descendant, top-down.
func (w *c12World) unsealTree(n *c12NS) bool {
	if n.Sealed && !w.unsealNS(n) {
		return false
	}
	for _, c := range w.subtree(n) {
		if c != n && c.Sealable {
			// a sealable child keeps its own barrier sealed until its own shares are given
			c.Sealed = true
		}
	}
	for _, c := range w.subtree(n) {
		if c == n || c.Parent.effSealed() {
			continue
		}
		if w.nsObj(c) == nil {
			// Observation (not a C12 verdict): unsealNamespace reloads only the direct
			// children of the unsealed namespace; deeper namespaces stay unknown to the
			// namespace store until the next full load.
			c.Lost = true
			w.r.Count("namespaces_unknown_to_core_after_ancestor_unseal", 1)
			w.r.Note("after sealing and unsealing %q the namespace %q is no longer known to the core (requests to it resolve to its parent); it is treated as unreachable from here on", n.Path, c.Path)
			w.step("namespace %s is unknown to the core after unsealing %s", c.Path, n.Path)
			continue
		}
		if c.Sealable && c.Sealed {
			if !w.unsealNS(c) {
				return false
			}
		}
	}
	return true
}

// restartCore seals and unseals the whole core (= restart of the active node on
// the same store), then unseals every separately sealed namespace again.
func (w *c12World) restartCore() bool {
	if w.unsealFailed {
		w.r.Count("core_restarts_skipped_after_failed_namespace_unseal", 1)
		return false
	}
	w.v.WaitQuiet(20*time.Millisecond, 2*time.Second)
	if err := TestCoreSeal(w.v.Core); err != nil {
		w.r.Inconc("[%s] core seal failed: %v", w.caseID, err)
		return false
	}
	if err := w.v.Core.UnsealWithStoredKeys(c12RootCtx()); err != nil {
		w.r.Inconc("[%s] core unseal failed: %v", w.caseID, err)
		w.failed = true
		return false
	}
	w.step("core restarted (seal + unseal)")
	for _, n := range w.nss {
		n.Lost = false
		if n.Sealable {
			n.Sealed = true
		}
	}
	for _, n := range w.nss { // creation order: parents first
		if n == w.root || n.Parent.effSealed() {
			continue
		}
		if w.nsObj(n) == nil {
			n.Lost = true
			w.r.Count("namespaces_unknown_to_core_after_ancestor_unseal", 1)
			w.step("namespace %s is unknown to the core after the restart", n.Path)
			continue
		}
		if n.Sealable && !w.unsealNS(n) {
			w.step("namespace %s stays sealed after the restart", n.Path)
		}
	}
	w.sync()
	w.r.Count("core_restarts", 1)
	return true
}

// ---------------------------------------------------------------- mounts and prefixes

func (w *c12World) newTag() string {
	w.nextTag++
	return fmt.Sprintf("c12m%dx", w.nextTag)
}

// sync re-reads the mount tables of every reachable namespace through the API
// and the storage prefix of every mount from the router of the running core.
func (w *c12World) sync() {
	seen := map[*c12Mount]bool{}
	for _, n := range w.nss {
		if n.effSealed() {
			continue
		}
		o := w.nsObj(n)
		if o == nil {
			// (seen only in worlds already damaged by a failed namespace unseal / re-seal by the core)
			n.Lost = true
			w.r.Count("namespaces_unexpectedly_unknown_to_core", 1)
			w.step("namespace %s is unexpectedly unknown to the core", n.Path)
			continue
		}
		if n != w.root && w.v.Core.NamespaceSealed(o) {
			// the core sealed it again on its own (failed post-unseal step); follow it
			a := n
			for a != nil && !a.Sealable {
				a = a.Parent
			}
			if a == nil {
				n.Lost = true
			} else {
				a.Sealed = true
			}
			w.r.Count("namespaces_found_sealed_by_the_core", 1)
			w.step("namespace %s was found sealed by the core", n.Path)
			continue
		}
		n.Prefix = NamespaceStoragePathPrefix(o)
		ctx := namespace.ContextWithNamespace(context.Background(), o)
		for _, table := range []string{"sys/mounts", "sys/auth"} {
			resp := w.v.MustDo(vReq{Op: logical.ReadOperation, Path: table, Token: w.v.Root, NS: n.Path})
			paths := make([]string, 0, len(resp.Data))
			for p := range resp.Data {
				paths = append(paths, p)
			}
			sort.Strings(paths)
			for _, p := range paths {
				info, ok := resp.Data[p].(map[string]any)
				if !ok {
					continue
				}
				acc, _ := info["accessor"].(string)
				var m *c12Mount
				for _, x := range w.mounts {
					if x.Accessor == acc {
						m = x
						break
					}
				}
				if m == nil {
					m = &c12Mount{Tag: w.newTag(), Accessor: acc, Default: true}
					w.mounts = append(w.mounts, m)
				}
				m.Auth = table == "sys/auth"
				m.NS, m.NSPath, m.Path = n, n.Path, p
				m.Type, _ = info["type"].(string)
				m.UUID, _ = info["uuid"].(string)
				switch m.Type {
				case "system", "ns_system", "token", "ns_token", "identity", "ns_identity":
					m.Core = true
				}
				m.Cubby = m.Type == "cubbyhole" || m.Type == "ns_cubbyhole"
				m.Dead = false
				pref, found := w.v.Core.router.MatchingStoragePrefixByAPIPath(ctx, m.api())
				switch {
				case found && pref != "":
					m.Prefix = pref
				case w.shadowOf(m) != nil || w.unsealFailed:
					// a mount accepted inside the path of a sealed namespace, or the namespace's
					// own mount at the same router key, can lose its route when that namespace's
					// failed unseal is rolled back (same root cause as the
					// C12-mount-inside-sealed-namespace-path finding); it is out of the workload
					w.r.Count("mounts_without_route_after_failed_namespace_unseal", 1)
					m.Dead = true
				default:
					w.t.Fatalf("verif: router has no storage prefix for %s", m)
				}
				seen[m] = true
			}
		}
	}
	for _, m := range w.mounts {
		if !seen[m] && m.NS != nil && !m.NS.effSealed() {
			m.Dead = true
		}
	}
	for _, m := range w.mounts {
		if !m.Dead && m.NS != nil {
			if m.Shadow = w.shadowOf(m); m.Shadow != nil {
				m.ShadowN = m.Shadow.Path
				// the same router key may meanwhile belong to a mount of the shadowing
				// namespace itself (the parent's mount lost its route): out of the workload
				for _, o := range w.mounts {
					if o != m && !o.Dead && o.NS != nil && o.Shadow == nil && o.NS.Path+o.api() == m.NS.Path+m.api() {
						m.Dead = true
						w.r.Count("shadowed_mounts_whose_route_was_taken_over", 1)
					}
				}
			}
		}
	}
	// cross-check of the two sources (router vs namespace store): a mount's storage
	// lies inside the storage of its own namespace and of no other, and no two
	// mounts share storage.
	live := w.liveMounts(nil)
	for i, m := range live {
		w.r.Count("mount_prefix_invariant_checks", 1)
		bad := !strings.HasPrefix(m.Prefix, m.NS.Prefix)
		for _, o := range w.nss {
			if o != m.NS && o.Prefix != "" && strings.HasPrefix(m.Prefix, o.Prefix) && len(o.Prefix) > len(m.NS.Prefix) {
				bad = true
			}
		}
		if bad {
			w.violate("C12-mount-storage-outside-its-namespace", fmt.Sprintf("mount %s of namespace %q (storage %q) uses the storage prefix %q", m, m.NS.Path, m.NS.Prefix, m.Prefix), nil)
		}
		for _, o := range live[i+1:] {
			if m.Core && o.Core {
				continue // the token store lives below sys/
			}
			if strings.HasPrefix(m.Prefix, o.Prefix) || strings.HasPrefix(o.Prefix, m.Prefix) {
				w.violate("C12-mount-storage-shared", fmt.Sprintf("mounts %s and %s use overlapping storage prefixes %q and %q", m, o, m.Prefix, o.Prefix), nil)
			}
		}
	}
	w.regions = w.regions[:0]
	for _, n := range w.nss {
		w.regions = append(w.regions, c12Region{Prefix: n.Prefix, NS: n})
	}
	for _, m := range w.mounts {
		if !m.Dead && m.Prefix != "" {
			w.regions = append(w.regions, c12Region{Prefix: m.Prefix, NS: m.NS, Mount: m})
		}
	}
}

// classify returns the most specific known region containing the (clean) key.
func (w *c12World) classify(ck string) c12Region {
	best := c12Region{NS: w.root}
	bl := -1
	for _, g := range w.regions {
		if strings.HasPrefix(ck, g.Prefix) && len(g.Prefix) > bl {
			best, bl = g, len(g.Prefix)
		}
	}
	return best
}

// shadowOf: the deepest other namespace whose path is a prefix of the mount's
// full path. The core refuses such mounts (path conflict) unless that namespace
// is sealed at the time; requests to the path then resolve to that namespace.
func (w *c12World) shadowOf(m *c12Mount) *c12NS {
	var d *c12NS
	full := m.NS.Path + m.api()
	for _, n := range w.nss {
		if n != m.NS && n.Path != "" && strings.HasPrefix(full, n.Path) && len(n.Path) > len(m.NS.Path) && (d == nil || len(n.Path) > len(d.Path)) {
			lost := false
			for x := n; x != nil; x = x.Parent {
				lost = lost || x.Lost
			}
			if !lost { // a namespace the core does not know does not capture the path
				d = n
			}
		}
	}
	return d
}

func (w *c12World) markShadow(m *c12Mount) {
	m.Shadow = w.shadowOf(m)
	m.ShadowN = ""
	if m.Shadow != nil {
		m.ShadowN = m.Shadow.Path
		m.shadowSealed = m.Shadow.effSealed()
		w.r.Count("mounts_accepted_inside_the_path_of_a_sealed_namespace", 1)
		w.step("mount %s was accepted although its path lies inside namespace %q (sealed=%v)", m, m.Shadow.Path, m.Shadow.effSealed())
	}
}

// liveMounts: usable mounts of reachable namespaces (mounts whose path is
// shadowed by a namespace are handled separately).
func (w *c12World) liveMounts(pred func(*c12Mount) bool) []*c12Mount {
	var out []*c12Mount
	for _, m := range w.mounts {
		if !m.Dead && m.NS != nil && m.Shadow == nil && !m.NS.effSealed() && (pred == nil || pred(m)) {
			out = append(out, m)
		}
	}
	return out
}

func c12User(m *c12Mount) bool { return !m.Default }

func c12Rec(m *c12Mount) bool { return !m.Default && m.Type == "verifrec" }

// mount tries to mount typ at api path p in n (the core may refuse a conflicting path).
func (w *c12World) mount(n *c12NS, p, typ string, auth bool) *c12Mount {
	table := "sys/mounts/"
	if auth {
		table = "sys/auth/"
	}
	resp, err := w.v.Do(vReq{Op: logical.UpdateOperation, Path: table + strings.TrimSuffix(p, "/"), Token: w.v.Root, NS: n.Path, Data: map[string]any{"type": typ}})
	if !vOK(resp, err) {
		w.step("mount %s%s%s (%s) refused: %s", n.Path, map[bool]string{true: "auth/"}[auth], p, typ, c12Short(vErrStr(resp, err)))
		w.r.Count("mount_refused", 1)
		return nil
	}
	before := map[string]bool{}
	for _, m := range w.mounts {
		before[m.Accessor] = true
	}
	w.sync()
	var nm *c12Mount
	for _, m := range w.mounts {
		if !before[m.Accessor] && m.NS == n && m.Path == p && m.Auth == auth {
			nm = m
		}
	}
	if nm == nil {
		w.t.Fatalf("verif: mounted %s%s but the mount table does not show it", n.Path, p)
	}
	nm.Default = false
	w.markShadow(nm)
	key := n.Path + "|" + nm.api()
	for _, f := range w.freed {
		if f == key {
			w.r.Count("mounts_on_previously_used_path", 1)
		}
	}
	w.r.Count("mounts_created", 1)
	w.step("mount %s type=%s prefix=%s", nm, typ, nm.Prefix)
	return nm
}

func (w *c12World) unmount(m *c12Mount) bool {
	table := "sys/mounts/"
	if m.Auth {
		table = "sys/auth/"
	}
	resp, err := w.v.Do(vReq{Op: logical.DeleteOperation, Path: table + strings.TrimSuffix(m.Path, "/"), Token: w.v.Root, NS: m.NS.Path})
	if !vOK(resp, err) {
		w.step("unmount %s refused: %s", m, c12Short(vErrStr(resp, err)))
		return false
	}
	w.freed = append(w.freed, m.NS.Path+"|"+m.api())
	w.step("unmount %s", m)
	w.sync()
	m.Dead = true
	w.r.Count("unmounts", 1)
	return true
}

// remount moves m to api path "to" of namespace dst and waits (bounded) for the migration.
func (w *c12World) remount(m *c12Mount, dst *c12NS, to string) bool {
	from := m.NS.Path + m.api()
	target := dst.Path + to
	if m.Auth {
		target = dst.Path + "auth/" + to
	}
	resp, err := w.v.Do(vReq{Op: logical.UpdateOperation, Path: "sys/remount", Token: w.v.Root, Data: map[string]any{"from": from, "to": target}})
	if !vOK(resp, err) || resp == nil {
		w.step("remount %s -> %s refused: %s", from, target, c12Short(vErrStr(resp, err)))
		w.r.Count("remount_refused", 1)
		return false
	}
	id, _ := resp.Data["migration_id"].(string)
	status := ""
	for i := 0; i < 400; i++ {
		if info := w.v.Core.readMigrationStatus(id); info != nil {
			status = info.MigrationStatus
			if status != MigrationInProgressStatus.String() {
				break
			}
		}
		time.Sleep(5 * time.Millisecond)
	}
	if status != MigrationSuccessStatus.String() {
		w.step("remount %s -> %s ended with status %q", from, target, status)
		w.r.Count("remount_failed", 1)
		w.sync()
		return false
	}
	oldNS, oldAPI, oldPrefix := m.NS, m.api(), m.Prefix
	w.freed = append(w.freed, oldNS.Path+"|"+oldAPI)
	w.sync()
	w.step("remount %s -> %s ok; prefix %s -> %s", from, target, oldPrefix, m.Prefix)
	w.markShadow(m)
	w.r.Count("remounts", 1)
	if oldNS != m.NS {
		w.r.Count("remounts_across_namespaces", 1)
	}
	return true
}

func c12Short(s string) string {
	s = strings.Join(strings.Fields(s), " ")
	if len(s) > 160 {
		return s[:160] + "..."
	}
	return s
}

// ---------------------------------------------------------------- tokens

func (w *c12World) policy(n *c12NS, name string, patterns []string) {
	var sb strings.Builder
	for _, p := range patterns {
		fmt.Fprintf(&sb, "path %q { %s }\n", p, c12Caps)
	}
	w.v.Policy(name, sb.String(), n.Path)
}

// token creates a service token in namespace n with the given policies using the root token.
func (w *c12World) token(n *c12NS, name, kind string, policies []string, patterns []string, extra map[string]any) *c12Tok {
	data := map[string]any{"policies": policies, "ttl": "2h", "no_default_policy": true}
	for k, v := range extra {
		data[k] = v
	}
	resp, err := w.v.Do(vReq{Op: logical.UpdateOperation, Path: "auth/token/create", Token: w.v.Root, NS: n.Path, Data: data})
	if !vOK(resp, err) || resp == nil || resp.Auth == nil {
		w.t.Fatalf("verif: cannot create token %s in %q: %s", name, n.Path, vErrStr(resp, err))
	}
	t := &c12Tok{Name: name, ID: resp.Auth.ClientToken, NS: n, NSPath: n.Path, Kind: kind}
	for _, p := range patterns {
		t.Patterns = append(t.Patterns, n.Path+p)
	}
	w.toks = append(w.toks, t)
	return t
}

// nsRootToken makes a root-policy token that lives in namespace n (what
// namespace root generation hands out).
func (w *c12World) nsRootToken(n *c12NS) *c12Tok {
	if n.Path == "" {
		return w.rootTok
	}
	ctx := w.nsCtx(n)
	if ctx == nil {
		w.t.Fatalf("verif: namespace %q unknown", n.Path)
	}
	te, err := w.v.Core.tokenStore.rootToken(ctx)
	if err != nil || te == nil {
		w.t.Fatalf("verif: cannot create namespace root token in %q: %v", n.Path, err)
	}
	id := te.ID
	if te.ExternalID != "" {
		id = te.ExternalID
	}
	t := &c12Tok{Name: "root@" + n.Path, ID: id, NS: n, NSPath: n.Path, Kind: "root", Root: true}
	w.toks = append(w.toks, t)
	return t
}

// c12Match implements the documented ACL path matching for the pattern shapes
// the harness writes: exact, trailing "*" (prefix) and "+" (one segment).
func c12Match(pat, p string) bool {
	prefix := strings.HasSuffix(pat, "*")
	if prefix {
		pat = pat[:len(pat)-1]
	}
	if !strings.Contains(pat, "+") {
		if prefix {
			return strings.HasPrefix(p, pat)
		}
		return p == pat
	}
	ps := strings.Split(pat, "/")
	xs := strings.Split(p, "/")
	if !prefix && len(ps) != len(xs) {
		return false
	}
	if len(xs) < len(ps) {
		return false
	}
	for i, s := range ps {
		last := i == len(ps)-1
		switch {
		case s == "+":
			if xs[i] == "" {
				return false
			}
		case last && prefix:
			if !strings.HasPrefix(xs[i], s) {
				return false
			}
		default:
			if s != xs[i] {
				return false
			}
		}
	}
	return true
}

// grants is the reference authoriser: does the token's policy set cover the
// API path p inside namespace n? (No namespace/seal state here.)
func (t *c12Tok) grants(n *c12NS, p string) bool {
	if t.Root {
		return n.under(t.NS)
	}
	full := n.Path + p
	for _, pat := range t.Patterns {
		if c12Match(pat, full) {
			return true
		}
	}
	return false
}

// c12OddKey: the key has an empty path segment (leading, doubled or trailing slash).
func c12OddKey(k string) bool {
	return strings.HasPrefix(k, "/") || strings.HasSuffix(k, "/") || strings.Contains(k, "//")
}

// ---------------------------------------------------------------- canonical keys

// c12Clean resolves "." and ".." segments and collapses empty segments the way
// a hierarchical store would; above reports an attempt to climb over the root.
func c12Clean(k string) (string, bool) {
	trailing := strings.HasSuffix(k, "/")
	var out []string
	above := false
	for _, s := range strings.Split(k, "/") {
		switch s {
		case "", ".":
		case "..":
			if len(out) > 0 {
				out = out[:len(out)-1]
			} else {
				above = true
			}
		default:
			out = append(out, s)
		}
	}
	c := strings.Join(out, "/")
	if trailing && c != "" {
		c += "/"
	}
	return c, above
}

func c12HasRelSeg(k string) bool {
	for _, s := range strings.Split(k, "/") {
		if s == "." || s == ".." {
			return true
		}
	}
	return false
}

// ---------------------------------------------------------------- the physical confinement oracle

// checkStorage judges every physical operation the request performed on its
// own goroutine. allowNS lists additional namespaces whose core-owned keys the
// request may legitimately touch (the token's namespace).
func (w *c12World) checkStorage(q *c12Req) (inside, core int) {
	M := q.M
	rawTarget, rawTargetClean := "", ""
	if q.RawCall != "" && M != nil {
		rawTarget = M.Prefix + q.RawKey
		rawTargetClean, _ = c12Clean(rawTarget)
	}
	for _, e := range q.events {
		switch e.Op {
		case "get", "put", "delete", "list", "listpage":
		default:
			continue
		}
		w.r.Count("phys_ops_checked", 1)
		ck, above := c12Clean(e.Key)
		ev := map[string]any{"request": q, "event": e.String(), "clean_key": ck, "outcome": c12Short(q.outcome())}
		if M != nil && M.Prefix != "" && strings.HasPrefix(e.Key, M.Prefix) {
			if !above && strings.HasPrefix(ck, M.Prefix) {
				inside++
				if c12HasRelSeg(e.Key) {
					w.r.Count("relative_key_resolving_inside_mount", 1)
				}
				continue
			}
			w.violate("C12-storage-escape-relative-key", fmt.Sprintf("request to %s performed %s on physical key %q which resolves to %q, outside the mount prefix %q", M, e.Op, e.Key, ck, M.Prefix), ev)
			continue
		}
		// outside the addressed mount
		if q.Marker != "" && strings.Contains(e.Key, q.Marker) {
			w.violate("C12-storage-escape-client-key", fmt.Sprintf("client-chosen key (marker %s) reached physical key %q outside the prefix of the addressed mount %v", q.Marker, e.Key, M), ev)
			continue
		}
		if rawTarget != "" && e.Op == q.RawCall && (e.Key == rawTarget || ck == rawTargetClean) {
			w.violate("C12-storage-escape-client-key", fmt.Sprintf("hostile %s %q through %s reached physical key %q outside its prefix %q", q.RawCall, q.RawKey, M, e.Key, M.Prefix), ev)
			continue
		}
		g := w.classify(ck)
		if g.Mount != nil && !g.Mount.Core && g.Mount != M {
			w.violate("C12-foreign-mount-storage", fmt.Sprintf("request addressed to %v performed %s on %q, storage of mount %s", M, e.Op, e.Key, g.Mount), ev)
			continue
		}
		if e.Op == "list" || e.Op == "listpage" {
			hit := false
			for _, o := range w.regions {
				if o.Mount != nil && !o.Mount.Core && o.Mount != M && strings.HasPrefix(o.Prefix, ck) {
					w.violate("C12-foreign-mount-enumerated", fmt.Sprintf("request addressed to %v listed %q, an ancestor of the storage of mount %s", M, e.Key, o.Mount), ev)
					hit = true
					break
				}
			}
			if hit {
				continue
			}
		}
		owner := g.NS
		allowed := (q.N != nil && q.N.under(owner)) || (q.Tok != nil && q.Tok.NS.under(owner))
		if !allowed {
			w.violate("C12-foreign-namespace-storage", fmt.Sprintf("request in namespace %q with a token of %q performed %s on %q, storage of namespace %q", c12NSPath(q.N), q.TokN, e.Op, e.Key, owner.Path), ev)
			continue
		}
		rest := strings.TrimPrefix(ck, owner.Prefix)
		if g.Mount != nil || strings.HasPrefix(rest, "sys/") || strings.HasPrefix(rest, "core/") {
			core++
			continue
		}
		w.violate("C12-unclassified-storage", fmt.Sprintf("request addressed to %v performed %s on %q which is neither under the mount prefix nor core-owned (sys/, core/, identity)", M, e.Op, e.Key), ev)
	}
	w.r.Count("phys_ops_inside_mount", inside)
	w.r.Count("phys_ops_core_owned", core)
	return inside, core
}

func c12NSPath(n *c12NS) string {
	if n == nil {
		return "?"
	}
	return n.Path
}

// checkSealedUntouched: no operation of the request may touch a key of a sealed namespace.
func (w *c12World) checkSealedUntouched(q *c12Req) {
	for _, e := range q.events {
		switch e.Op {
		case "get", "put", "delete", "list", "listpage":
		default:
			continue
		}
		ck, _ := c12Clean(e.Key)
		g := w.classify(ck)
		if g.NS != nil && g.NS != w.root && g.NS.effSealed() {
			w.r.Count("phys_ops_in_sealed_namespace", 1)
			// the seal metadata of a sealed namespace is kept under its prefix but is
			// core-owned and is read through the parent's barrier; mount data is not
			if g.Mount != nil || !strings.HasPrefix(strings.TrimPrefix(ck, g.NS.Prefix), "core/") {
				w.violate("C12-sealed-namespace-storage-touched", fmt.Sprintf("while %q is sealed a request (%s %s%s) performed %s on %q", g.NS.Path, q.Op, q.Header, q.Path, e.Op, e.Key),
					map[string]any{"request": q, "event": e.String(), "outcome": c12Short(q.outcome())})
			}
		}
	}
}

// ---------------------------------------------------------------- response leak scanner

func c12Strings(v any, skip string, out *[]string) {
	switch x := v.(type) {
	case string:
		*out = append(*out, x)
	case []string:
		*out = append(*out, x...)
	case []any:
		for _, y := range x {
			c12Strings(y, skip, out)
		}
	case map[string]any:
		ks := make([]string, 0, len(x))
		for k := range x {
			ks = append(ks, k)
		}
		sort.Strings(ks)
		for _, k := range ks {
			if k == skip {
				continue
			}
			*out = append(*out, k)
			c12Strings(x[k], skip, out)
		}
	case map[string]string:
		for k, y := range x {
			*out = append(*out, k, y)
		}
	}
}

// scanResponse: whatever a successful response shows must have been written
// through the addressed mount (and, for cubbyhole cells, with the same token in
// the same namespace).
func (w *c12World) scanResponse(q *c12Req, cubby bool) (own int) {
	if q.resp == nil || q.err != nil || q.resp.IsError() {
		return 0
	}
	var ss []string
	c12Strings(q.resp.Data, "storage_error", &ss)
	if q.resp.Secret != nil {
		c12Strings(q.resp.Secret.InternalData, "", &ss)
	}
	ev := map[string]any{"request": q, "response_strings": c12Trunc(ss)}
	for _, s := range ss {
		for _, c := range c12CanaryRe.FindAllString(s, -1) {
			o, known := w.canary[c]
			if !known {
				continue
			}
			switch {
			case cubby && o.Tok != nil && o.Tok != q.Tok:
				w.violate("C12-cubbyhole-foreign-token-data", fmt.Sprintf("token %s read cubbyhole data %s written by token %s (request %s %s%s)", q.TokN, c, o.Tok.Name, q.Op, q.Header, q.Path), ev)
			case o.Mount != q.M || (cubby && o.NS != q.N):
				w.violate("C12-foreign-data-visible", fmt.Sprintf("request addressed to %v returned data %s that was written through %v", q.M, c, o.Mount), ev)
			default:
				own++
			}
		}
		for _, tg := range c12TagRe.FindAllString(s, -1) {
			if q.M == nil || tg != q.M.Tag {
				w.violate("C12-foreign-name-visible", fmt.Sprintf("request addressed to %v returned the name %q carrying the marker of another mount", q.M, c12Short(s)), ev)
			}
		}
		if !cubby && len(s) >= 8 {
			for _, m := range w.mounts {
				if m != q.M && m.UUID != "" && strings.Contains(s, m.UUID) {
					w.violate("C12-foreign-name-visible", fmt.Sprintf("request addressed to %v returned %q which names the storage of mount %s", q.M, c12Short(s), m), ev)
				}
			}
			for _, n := range w.nss {
				if n.UUID != "" && strings.Contains(s, n.UUID) {
					w.violate("C12-foreign-name-visible", fmt.Sprintf("request addressed to %v returned %q which names the storage of namespace %q", q.M, c12Short(s), n.Path), ev)
				}
			}
		}
	}
	w.r.Count("own_canaries_read_back", own)
	return own
}

func c12Trunc(ss []string) []string {
	out := make([]string, 0, len(ss))
	for i, s := range ss {
		if i >= 30 {
			break
		}
		out = append(out, c12Short(s))
	}
	return out
}

// ---------------------------------------------------------------- hostile inputs

type c12Key struct{ Kind, Key string }

// hostileKeys returns storage keys for a hostile backend mounted as M. Every
// key that can carries M's marker so that it is recognisable at the physical
// layer wherever it ends up.
func (w *c12World) hostileKeys(M *c12Mount, forPut bool) []c12Key {
	T := M.Tag
	up := func(target string) string { return strings.Repeat("../", strings.Count(M.Prefix, "/")) + target }
	ks := []c12Key{
		{"plain", T + "/k" + fmt.Sprint(w.rng.Intn(6))},
		{"plain", T + "/sub/k" + fmt.Sprint(w.rng.Intn(3))},
		{"parent", "../" + T},
		{"parent2", "../../" + T},
		{"to-root", up("zz-" + T)},
		{"mid-parent-out", T + "/../../" + T + "-esc"},
		{"mid-parent-in", T + "/a/../b"},
		{"dot", "./" + T},
		{"mid-dot", T + "/./x"},
		{"trail-parent", T + "/.."},
		{"trail-dot", T + "/."},
		{"bare-parent", ".."},
		{"bare-dot", "."},
		{"parent-slash", "../"},
		{"dot-slash", "./"},
		{"up-list", T + "/../"},
		{"up-list2", T + "/../../"},
		{"absolute", "/" + T},
		{"double-slash", "//" + T},
		{"mid-double-slash", T + "//x"},
		{"trailing-slash", T + "/k/"},
		{"core-token", up(M.NS.Prefix + "sys/token/id/" + T)},
		{"core-policy", up(M.NS.Prefix + "sys/policy/" + T)},
		{"core-mounts", up("core/mounts")},
		{"core-list", up("core/")},
		{"root-list", up("")},
		{"many-parents", strings.Repeat("../", 40) + T},
		{"enc-slash", "..%2f" + T},
		{"enc-dots", "%2e%2e/" + T},
		{"backslash", "..\\" + T},
		{"semicolon", "..;/" + T},
		{"triple-dot", ".../" + T},
		{"dotdot-name", "..name" + T + "/x"},
		{"name-dotdot", T + "../x"},
		{"space-parent", " ../" + T},
		{"parent-space", ".. /" + T},
		{"nul", T + "\x00/../x"},
		{"fullwidth-dots", "．．/" + T},
		{"newline", "..\n/" + T},
		{"long", T + "/" + strings.Repeat("a", 3000)},
		{"deep", T + "/" + strings.Repeat("a/", 300) + "k"},
	}
	if !forPut {
		ks = append(ks, c12Key{"empty", ""})
		if len(M.Keys) > 0 {
			ks = append(ks, c12Key{"plain-existing", M.Keys[w.rng.Intn(len(M.Keys))]}, c12Key{"plain-existing", M.Keys[w.rng.Intn(len(M.Keys))]})
		}
	}
	others := w.liveMounts(func(o *c12Mount) bool { return o != M && !o.Core })
	if len(others) > 0 {
		o := others[w.rng.Intn(len(others))]
		okey := "d/data/" + o.Tag + "-k0"
		if len(o.Keys) > 0 {
			okey = o.Keys[w.rng.Intn(len(o.Keys))]
		}
		ks = append(ks,
			c12Key{"sibling-uuid", "../" + o.UUID + "/" + T},
			c12Key{"sibling-real-key", up(o.Prefix + okey)},
			c12Key{"sibling-real-key", up(o.Prefix + okey)},
			c12Key{"sibling-list", up(o.Prefix)},
			c12Key{"sibling-ns-token", up(o.NS.Prefix + "sys/token/id/" + T)},
		)
		if !forPut {
			ks = append(ks, c12Key{"literal-foreign-prefix", o.Prefix + okey})
		}
	}
	return ks
}

func (w *c12World) hostileAfter(M *c12Mount) string {
	as := []string{"", "", M.Tag, "../", "..", "/", "\xff", "zzz", strings.Repeat("../", strings.Count(M.Prefix, "/")), M.Tag + "/../.."}
	return as[w.rng.Intn(len(as))]
}

// hostileDataPaths returns request paths below "data/" (each carries M's marker).
func (w *c12World) hostileDataPaths(M *c12Mount) []c12Key {
	T := M.Tag
	return []c12Key{
		{"plain", "data/" + T + "-k" + fmt.Sprint(w.rng.Intn(5))},
		{"plain", "data/" + T + "-k" + fmt.Sprint(w.rng.Intn(5))},
		{"plain", "data/" + T + "/sub/k" + fmt.Sprint(w.rng.Intn(3))},
		{"double-slash", "data/" + T + "//k"},
		{"lead-double-slash", "data//" + T},
		{"enc-parent", "data/" + T + "/..%2f..%2fx"},
		{"enc-dots", "data/" + T + "/%2e%2e/x"},
		{"triple-dot", "data/" + T + "/.../x"},
		{"dotdot-name", "data/" + T + "/..x"},
		{"parent", "data/" + T + "/../x"},
		{"parent-out", "data/../../" + T},
		{"dot", "data/./" + T},
		{"trailing-slash", "data/" + T + "/"},
		{"long", "data/" + T + "/" + strings.Repeat("b", 2000)},
	}
}

// ---------------------------------------------------------------- topology generator

var (
	c12NSNames    = []string{"a", "ab", "a-b", "b", "team", "x1", "m", "kv"}
	c12MountPaths = []string{"m/", "m2/", "kv/", "deep/er/", "deep/est/", "a-b/", "ab/", "x1/", "sysx/", "cubbyholes/", "authx/", "identityx/", "team/eng/", "b/"}
)

// c12AfterBoot, when set, runs on the fresh core before any namespace exists
// (used to switch on core options the shared boot helper has no field for).
var c12AfterBoot func(v *vCore)

// c12Build boots a core and generates a world: <= 6 namespaces on <= 3 levels
// (some with their own seal), sibling / multi-segment / equally named mounts.
func c12Build(t *testing.T, r *kit.Result, rng *kit.Rand, caseID string, transactional bool, cache ...bool) *c12World {
	v := vBoot(t, vOpts{Transactional: transactional, Cache: len(cache) > 0 && cache[0]})
	if c12AfterBoot != nil {
		c12AfterBoot(v)
	}
	w := &c12World{t: t, v: v, r: r, rng: rng, caseID: caseID, canary: map[string]c12Owner{}}
	w.root = &c12NS{Path: "", Name: ""}
	w.nss = []*c12NS{w.root}
	w.rootTok = &c12Tok{Name: "root", ID: v.Root, NS: w.root, Kind: "root", Root: true}
	w.toks = []*c12Tok{w.rootTok}
	w.step("boot transactional=%v", transactional)

	nNS := 3 + rng.Intn(3)
	for i := 0; i < nNS; i++ {
		var parent *c12NS
		switch {
		case i == 0:
			parent = w.root
		case (i == 1 || i == 2) && len(w.nss) > 1:
			parent = w.nss[1] // guarantee a two-level chain and two siblings under the first (sealable) namespace
		default:
			cands := []*c12NS{}
			for _, n := range w.nss {
				if n.Depth < 3 {
					cands = append(cands, n)
				}
			}
			parent = cands[rng.Intn(len(cands))]
		}
		name := ""
		if i == 1 && len(w.nss) > 1 {
			name = []string{"a", "ab", "a-b"}[rng.Intn(3)]
		}
		if i == 2 && len(w.nss) > 2 {
			name = map[string]string{"a": []string{"ab", "a-b"}[rng.Intn(2)], "ab": "a", "a-b": "a"}[w.nss[2].Name]
		}
		// prefer a name that is string-prefix related to a sibling ("a" next to "ab", "a-b")
		if sib := w.children(parent); name == "" && len(sib) > 0 && rng.Chance(2, 3) {
			for _, c := range []string{"a", "ab", "a-b"} {
				for _, sb := range sib {
					if c != sb.Name && (strings.HasPrefix(c, sb.Name) || strings.HasPrefix(sb.Name, c)) && w.findNS(parent.Path+c+"/") == nil && name == "" {
						name = c
					}
				}
			}
		}
		for tries := 0; tries < 20 && name == ""; tries++ {
			c := c12NSNames[rng.Intn(len(c12NSNames))]
			if w.findNS(parent.Path+c+"/") == nil {
				name = c
			}
		}
		if name == "" {
			continue
		}
		sealable := i == 0 || rng.Chance(1, 4)
		w.createNS(parent, name, sealable)
	}
	w.sync()

	// user mounts
	for _, n := range append([]*c12NS(nil), w.nss...) {
		k := 2 + rng.Intn(2)
		// every namespace gets "m/" so that equal paths exist in different namespaces
		w.mount(n, "m/", "verifrec", false)
		for i := 0; i < k; i++ {
			p := c12MountPaths[rng.Intn(len(c12MountPaths))]
			typ := "verifrec"
			if rng.Chance(1, 4) {
				typ = "kv"
			}
			w.mount(n, p, typ, false)
		}
		if rng.Chance(2, 3) {
			w.mount(n, []string{"rec/", "m/", "deep/rec/"}[rng.Intn(3)], "verifrec", true)
		}
	}
	// hostile topology attempts: a mount below a child namespace's name, a namespace over a mount path
	for _, n := range w.nss {
		for _, c := range w.children(n) {
			if rng.Chance(1, 2) {
				w.r.Count("topology_conflict_attempts", 1)
				w.mount(n, c.Name+"/inner/", "verifrec", false)
			}
		}
	}
	for _, m := range w.liveMounts(c12User) {
		if rng.Chance(1, 6) && m.NS.Depth < 3 {
			first := strings.SplitN(m.Path, "/", 2)[0]
			if w.findNS(m.NS.Path+first+"/") == nil {
				w.r.Count("topology_conflict_attempts", 1)
				w.createNS(m.NS, first, false)
			}
		}
	}
	w.sync()
	for _, a := range w.nss {
		for _, b := range w.nss {
			if a != b && a.Parent == b.Parent && a.Parent != nil && strings.HasPrefix(a.Name, b.Name) {
				w.r.Count("sibling_namespaces_with_prefix_related_names", 1)
			}
		}
	}
	return w
}

// seedData writes a few canaries through every user mount.
func (w *c12World) seedData() {
	for _, m := range w.liveMounts(c12User) {
		for i := 0; i < 2; i++ {
			w.writeCanary(m, w.rootTok)
		}
	}
}

// writeCanary stores a fresh canary through mount m (API depends on the mount type).
func (w *c12World) writeCanary(m *c12Mount, tok *c12Tok) *c12Req {
	c := w.rng.Canary()
	q := &c12Req{Kind: "seed-write", Op: logical.UpdateOperation, Tok: tok, N: m.NS, M: m, Marker: m.Tag}
	p := ""
	switch m.Type {
	case "kv":
		q.Marker = "" // the lease id of a kv read legitimately carries the request path
		p = m.api() + m.Tag + "-k" + fmt.Sprint(len(m.Data))
		q.Data = map[string]any{"v": c, "ttl": "1h"}
	default:
		p = m.api() + "data/" + m.Tag + "-k" + fmt.Sprint(len(m.Data))
		q.Data = map[string]any{"v": c}
	}
	q.Form, q.Header, q.Path = "header", m.NS.Path, p
	w.do(q)
	if q.ok() {
		w.canary[c] = c12Owner{Mount: m}
		m.Data = append(m.Data, strings.TrimPrefix(p, m.api()))
	}
	return q
}
