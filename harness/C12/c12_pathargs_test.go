//go:build verif

package vault

// C12 monitor 10: PATH ARGUMENTS of sys operations.
//
// sys/remount (from, to), sys/mounts/<path> and sys/auth/<path> take a mount
// path that the core resolves relative to the namespace of the request (longest
// namespace prefix, then the mount). The argument is a client-supplied string:
// '../sibling/x', '../../x', 'child/../../sibling/x', './x', 'a//b', an absolute
// '/sibling/x', percent-escaped dots, a trailing '/..', or simply the path of an
// ancestor. Issued by a namespace's own administrator (policy path "*" with sudo
// defined in that namespace) such a request may only ever change the mount
// tables and the storage of that namespace and the namespaces below it.
//
// Verdict from effects: the in-memory mount and auth tables of every namespace
// outside the issuing namespace's subtree are identical before and after (after
// the remount migration has finished), the stored bytes of their mounts and of
// their mount-table records are identical, the request's own goroutine wrote
// nothing outside the subtree, a mount that moved lies inside the subtree, and
// the data that moved is served only there.

import (
	"crypto/sha256"
	"fmt"
	"sort"
	"strings"
	"testing"
	"time"

	kit "github.com/openbao/openbao/sdk/v2/helper/verifkit"
	"github.com/openbao/openbao/sdk/v2/logical"
)

const (
	c12ClsRemountEsc = "C12-remount-argument-escaped-the-issuing-namespace"
	c12ClsPathArgEsc = "C12-mount-path-argument-escaped-the-issuing-namespace"
)

func TestVerif_C12_PathArguments(t *testing.T) {
	seed := kit.Seed(12)
	shard, shards := kit.Shard()
	r := kit.NewResult(t, "c12-path-arguments", seed,
		"in every generated world every namespace has a recording mount pa/ and a recording auth mount paauth/ with canaries; the administrator of every namespace A other than the root (policy path \"*\" incl. sudo defined in A) sends, to A in a random spelling, sys/remount with hostile 'to' arguments (relative '../sibling/x', via the root '../../sibling/x', '../x' into the parent, up to the root, 'child/../../sibling/x', './x', 'a//x', 'x/..', absolute '/sibling/x', percent-escaped and backslash forms, the plain path of a sibling / ancestor) and hostile 'from' arguments naming the equally named mount pa/ of a sibling, the parent and the root, and the same arguments as the path of sys/mounts/<path> and sys/auth/<path> (create, tune, delete); after every request (and after the remount migration it started has left the in-progress state) the mount and auth tables and the stored bytes of the mounts and mount-table records of every namespace outside A's subtree must be unchanged, the request must not have written outside the subtree, a moved mount must lie inside the subtree and its data must be served only there; remounts inside A and into a child of A are the positive control; every hostile request is non-trivial, distinct by (operation, argument form, relation of the named namespace, depth)")
	defer r.Write(t)
	topos := kit.N(3, 32)
	for ti := 0; ti < topos; ti++ {
		if ti%shards != shard {
			continue
		}
		caseID := fmt.Sprintf("pathargs:%d", ti)
		if !kit.WantCase(caseID) {
			continue
		}
		rng := kit.NewRand(seed, 0x12900+uint64(ti))
		c12PathArgsCase(t, r, rng, caseID, ti%2 == 1)
		if c12Generic(r) > 30 {
			break
		}
	}
	r.Require("hostile_requests", 1000)
	r.Require("hostile_requests:remount-to", 250)
	r.Require("hostile_requests:remount-from", 100)
	r.Require("hostile_requests:mounts", 400)
	r.Require("hostile_requests:auth", 250)
	r.Require("hostile_arguments_naming:sibling-or-unrelated", 600)
	r.Require("hostile_arguments_naming:parent", 100)
	r.Require("hostile_arguments_naming:root", 120)
	r.Require("hostile_requests_refused", 700)
	r.Require("foreign_state_comparisons", 1000)
	r.Require("foreign_keys_compared", 90000)
	r.Require("positive:remount_inside_own_namespace", 8)
	r.Require("positive:remount_into_child_namespace", 3)
	r.Require("positive:moved_data_served_at_new_place", 100)
}

type c12PARun struct {
	*c12World
	adm map[*c12NS]*c12Tok
	n   int
	// something outside an issuing namespace changed: the model of the world no longer
	// holds, the rest of this world is not explored
	broken bool
}

// tables: the in-memory mount and auth tables by namespace id.
func (s *c12PARun) tables() map[string][]string {
	out := map[string][]string{}
	c := s.v.Core
	c.mountsLock.RLock()
	if c.mounts != nil {
		for _, e := range c.mounts.Entries {
			out[e.NamespaceID] = append(out[e.NamespaceID], fmt.Sprintf("mounts|%s|%s|%s|%s", e.Path, e.Type, e.UUID, e.Accessor))
		}
	}
	c.mountsLock.RUnlock()
	c.authLock.RLock()
	if c.auth != nil {
		for _, e := range c.auth.Entries {
			out[e.NamespaceID] = append(out[e.NamespaceID], fmt.Sprintf("auth|%s|%s|%s|%s", e.Path, e.Type, e.UUID, e.Accessor))
		}
	}
	c.authLock.RUnlock()
	for k := range out {
		sort.Strings(out[k])
	}
	return out
}

type c12PAState struct {
	tables map[string][]string
	keys   map[string][32]byte
}

// foreign: what belongs to namespaces outside A's subtree: their mount / auth
// tables, the stored bytes of their user mounts and of their mount-table records.
func (s *c12PARun) foreign(A *c12NS) c12PAState {
	st := c12PAState{tables: map[string][]string{}, keys: map[string][32]byte{}}
	for id, t := range s.tables() {
		var owner *c12NS
		for _, n := range s.nss {
			if c12NSID(n) == id {
				owner = n
			}
		}
		if owner != nil && !owner.under(A) {
			st.tables[id] = t
		}
	}
	for k, v := range s.v.Probe.Snapshot() {
		g := s.classify(k)
		if g.NS == nil || g.NS.under(A) {
			continue
		}
		rest := strings.TrimPrefix(k, g.NS.Prefix)
		if (g.Mount != nil && !g.Mount.Core) || strings.HasPrefix(rest, "core/mounts") || strings.HasPrefix(rest, "core/auth") || strings.HasPrefix(rest, "logical/") || strings.HasPrefix(rest, "auth/") {
			st.keys[k] = sha256.Sum256(v)
		}
	}
	return st
}

func (a c12PAState) diff(b c12PAState, nameOf func(id string) string) []string {
	var out []string
	ids := map[string]bool{}
	for id := range a.tables {
		ids[id] = true
	}
	for id := range b.tables {
		ids[id] = true
	}
	for id := range ids {
		x, y := strings.Join(a.tables[id], "\n"), strings.Join(b.tables[id], "\n")
		if x == y {
			continue
		}
		in := map[string]bool{}
		for _, e := range a.tables[id] {
			in[e] = true
		}
		for _, e := range b.tables[id] {
			if !in[e] {
				out = append(out, fmt.Sprintf("the mount table of namespace %q gained the entry %s", nameOf(id), e))
			}
			delete(in, e)
		}
		for e := range in {
			out = append(out, fmt.Sprintf("the mount table of namespace %q lost the entry %s", nameOf(id), e))
		}
	}
	for k, h := range a.keys {
		h2, ok := b.keys[k]
		switch {
		case !ok:
			out = append(out, fmt.Sprintf("the stored key %q was deleted", k))
		case h != h2:
			out = append(out, fmt.Sprintf("the stored key %q was rewritten", k))
		}
	}
	for k := range b.keys {
		if _, ok := a.keys[k]; !ok {
			out = append(out, fmt.Sprintf("the stored key %q appeared", k))
		}
	}
	sort.Strings(out)
	if len(out) > 12 {
		out = append(out[:12], fmt.Sprintf("... and %d more", len(out)-12))
	}
	return out
}

func c12PathArgsCase(t *testing.T, r *kit.Result, rng *kit.Rand, caseID string, transactional bool) {
	w := c12Build(t, r, rng, caseID, transactional)
	defer w.v.Close()
	s := &c12PARun{c12World: w, adm: map[*c12NS]*c12Tok{}}
	if hx := w.createNS(w.root, "hx", false); hx != nil && len(w.nss) < 8 {
		w.createNS(hx, "hy", false)
	}
	w.sync()
	var open []*c12NS
	for _, n := range append([]*c12NS(nil), w.nss...) {
		if n.effSealed() {
			continue
		}
		open = append(open, n)
		w.policy(n, "c12-all", []string{"*"})
		s.adm[n] = w.token(n, "adm@"+n.Path, "all", []string{"c12-all"}, []string{"*"}, nil)
		s.ensure(n, "pa/", false)
		s.ensure(n, "paauth/", true)
	}
	for _, A := range open {
		if A == w.root {
			continue
		}
		s.namespace(A, open)
		if s.broken || (w.failed && c12Generic(r) > 25) {
			break
		}
	}
	r.Eval(1)
	r.Sample(map[string]any{"case": caseID, "namespaces": w.nss})
}

// ensure: namespace n has a live recording mount at p holding a canary.
func (s *c12PARun) ensure(n *c12NS, p string, auth bool) *c12Mount {
	for _, m := range s.liveMounts(c12Rec) {
		if m.NS == n && m.Path == p && m.Auth == auth {
			return m
		}
	}
	m := s.mount(n, p, "verifrec", auth)
	if m == nil {
		return nil
	}
	if !auth {
		c := s.rng.Canary()
		q := &c12Req{Kind: "pathargs-seed", Op: logical.UpdateOperation, Tok: s.rootTok, N: n, M: m, Form: "header", Header: n.Path, Path: m.api() + "data/foo", Data: map[string]any{"v": c}}
		s.do(q)
		if q.ok() {
			s.canary[c] = c12Owner{Mount: m}
			m.Data = append(m.Data, "data/foo")
		}
	}
	return m
}

type c12PAArg struct {
	Form  string
	Arg   string
	Names *c12NS // the namespace the argument tries to reach (nil: none)
}

// args: hostile forms of a mount path "leaf" inside namespace X as seen from A.
func (s *c12PARun) args(A, X *c12NS, leaf string) []c12PAArg {
	up := strings.Repeat("../", A.Depth)
	var out []c12PAArg
	add := func(form, arg string) { out = append(out, c12PAArg{form, arg, X}) }
	add("up-to-root-then-down", up+X.Path+leaf)
	add("absolute", "/"+X.Path+leaf)
	add("plain-namespace-path", X.Path+leaf)
	if X.Path != "" {
		add("percent-escaped-dots", strings.Repeat("%2e%2e/", A.Depth)+X.Path+leaf)
		add("percent-escaped-slash", strings.Repeat("..%2f", A.Depth)+strings.ReplaceAll(X.Path, "/", "%2f")+leaf)
		add("backslash", strings.Repeat("..\\", A.Depth)+strings.ReplaceAll(X.Path, "/", "\\")+leaf)
		add("double-slash", up+strings.TrimSuffix(X.Path, "/")+"//"+leaf)
		add("dot-segments", "./"+up+"./"+X.Path+leaf)
	}
	if X.Parent == A.Parent && X != A {
		add("sibling-relative", "../"+X.Name+"/"+leaf)
		add("self-then-sibling", "../"+A.Name+"/../"+X.Name+"/"+leaf)
		for _, c := range s.children(A) {
			add("child-then-up", c.Name+"/../../"+X.Name+"/"+leaf)
			break
		}
		add("unknown-then-up", "zz/../../"+X.Name+"/"+leaf)
	}
	if X == A.Parent {
		add("parent-relative", "../"+leaf)
		add("unknown-then-up-twice", "zz/../../"+leaf)
	}
	return out
}

func (s *c12PARun) namespace(A *c12NS, open []*c12NS) {
	// the namespaces named: a sibling (or an unrelated one), the parent, the root
	var others []*c12NS
	for _, n := range open {
		if n != A && !n.under(A) && !A.under(n) && n.Parent == A.Parent {
			others = append(others, n)
			break
		}
	}
	for _, n := range open {
		if n != A && !n.under(A) && !A.under(n) && n.Parent != A.Parent && len(others) < 2 {
			others = append(others, n)
		}
	}
	if A.Parent != nil && A.Parent != s.root && !A.Parent.effSealed() {
		others = append(others, A.Parent)
	}
	others = append(others, s.root)
	// positive controls first
	s.positive(A)
	for _, X := range others {
		rel := c12Rel(A, X)
		kind := "sibling-or-unrelated"
		switch {
		case X == s.root:
			kind = "root"
		case X == A.Parent:
			kind = "parent"
		}
		for _, a := range s.args(A, X, "") {
			if s.broken {
				return
			}
			s.n++
			leaf := fmt.Sprintf("esc%d", s.n)
			// remount: to
			src := s.ensure(A, "pa/", false)
			if src == nil {
				continue
			}
			s.hostile(A, X, rel, kind, a.Form, "remount-to", logical.UpdateOperation, "sys/remount", map[string]any{"from": "pa", "to": a.Arg + leaf}, src)
			// remount: from (the equally named mount of X)
			if X != A && s.rng.Chance(1, 2) {
				s.hostile(A, X, rel, kind, a.Form, "remount-from", logical.UpdateOperation, "sys/remount", map[string]any{"from": a.Arg + "pa", "to": fmt.Sprintf("got%d", s.n)}, nil)
			}
			// mounts and auth: the argument as the mount path
			s.hostile(A, X, rel, kind, a.Form, "mounts", logical.UpdateOperation, "sys/mounts/"+a.Arg+leaf, map[string]any{"type": "verifrec"}, nil)
			if s.rng.Chance(1, 2) {
				s.hostile(A, X, rel, kind, a.Form, "auth", logical.UpdateOperation, "sys/auth/"+a.Arg+leaf, map[string]any{"type": "verifrec"}, nil)
			}
			if X != A {
				switch s.rng.Intn(4) {
				case 0:
					s.hostile(A, X, rel, kind, a.Form, "mounts", logical.DeleteOperation, "sys/mounts/"+a.Arg+"pa", nil, nil)
				case 1:
					s.hostile(A, X, rel, kind, a.Form, "mounts", logical.UpdateOperation, "sys/mounts/"+a.Arg+"pa/tune", map[string]any{"description": "c12 path argument"}, nil)
				case 2:
					s.hostile(A, X, rel, kind, a.Form, "auth", logical.DeleteOperation, "sys/auth/"+a.Arg+"paauth", nil, nil)
				case 3:
					s.hostile(A, X, rel, kind, a.Form, "auth", logical.UpdateOperation, "sys/auth/"+a.Arg+"paauth/tune", map[string]any{"description": "c12 path argument"}, nil)
				}
			}
		}
	}
}

// waitMigration: a remount that was accepted runs in the background.
func (s *c12PARun) waitMigration(q *c12Req) string {
	if !q.ok() || q.resp == nil {
		return ""
	}
	id, _ := q.resp.Data["migration_id"].(string)
	if id == "" {
		return ""
	}
	status := ""
	for i := 0; i < 2000; i++ {
		if info := s.v.Core.readMigrationStatus(id); info != nil {
			status = info.MigrationStatus
			if status != MigrationInProgressStatus.String() {
				return status
			}
		}
		time.Sleep(5 * time.Millisecond)
	}
	s.r.Inconc("[%s] remount migration %s still in progress after the wait", s.caseID, id)
	return status
}

func (s *c12PARun) hostile(A, X *c12NS, rel, kind, form, opKind string, op logical.Operation, path string, data map[string]any, src *c12Mount) {
	if s.broken {
		return
	}
	before := s.foreign(A)
	q := &c12Req{Kind: "path-argument:" + opKind, Op: op, Tok: s.adm[A], N: A, Data: data}
	s.pickForm(q, A, path)
	s.do(q)
	status := s.waitMigration(q)
	s.r.Eval(1)
	s.r.Count("hostile_requests", 1)
	s.r.Count("hostile_requests:"+opKind, 1)
	s.r.Count("hostile_arguments_naming:"+kind, 1)
	s.r.Nontrivial(fmt.Sprintf("patharg|%s|%s|%s|%s|%d|%s", opKind, op, form, rel, A.Depth, q.Form))
	if q.ok() {
		s.r.Count("hostile_requests_accepted", 1)
	} else {
		s.r.Count("hostile_requests_refused", 1)
	}
	class := c12ClsPathArgEsc
	if strings.HasPrefix(opKind, "remount") {
		class = c12ClsRemountEsc
	}
	arg := path
	if data != nil && strings.HasPrefix(opKind, "remount") {
		arg = fmt.Sprintf("from=%q to=%q", data["from"], data["to"])
	}
	what := fmt.Sprintf("the administrator of namespace %q (token %s, policy path \"*\" of %q only) sent %s %q %s with header %q (argument form %s, naming namespace %q, %s of %q)", A.Path, s.adm[A].Name, A.Path, op, q.Path, arg, q.Header, form, X.Path, c12RelWord(rel), A.Path)
	ev := map[string]any{"request": q, "issuing_namespace": A.Path, "named_namespace": X.Path, "argument_form": form, "outcome": c12Short(q.outcome()), "migration_status": status}
	// 1. the request's own writes
	for _, e := range q.events {
		if e.Op != "put" && e.Op != "delete" {
			continue
		}
		ck, _ := c12Clean(e.Key)
		if g := s.classify(ck); g.NS != nil && !g.NS.under(A) {
			ev["event"] = e.String()
			s.violate(class, what+fmt.Sprintf("; the request performed %s on %q, storage of namespace %q", e.Op, e.Key, g.NS.Path), ev)
		}
	}
	// 2. everything outside A's subtree
	after := s.foreign(A)
	s.r.Count("foreign_state_comparisons", 1)
	s.r.Count("foreign_keys_compared", len(before.keys))
	nameOf := func(id string) string {
		for _, n := range s.nss {
			if c12NSID(n) == id {
				return n.Path
			}
		}
		return id
	}
	if d := before.diff(after, nameOf); len(d) > 0 {
		ev["changes_outside_the_issuing_namespace"] = d
		s.violate(class, what+"; afterwards (migration "+status+") outside the subtree of the issuing namespace: "+strings.Join(d[:min(len(d), 3)], "; "), ev)
		s.broken = true
		s.r.Count("worlds_abandoned_after_a_change_outside_the_issuing_namespace", 1)
		return
	}
	// 3. where things are now
	if q.ok() || status != "" {
		s.sync()
		if src != nil && !src.Dead && src.NS != nil {
			switch {
			case !src.NS.under(A):
				s.violate(class, what+fmt.Sprintf("; the mount %s now belongs to namespace %q", src, src.NS.Path), ev)
			case src.Path != "pa/":
				s.r.Count("hostile_arguments_resolved_inside_the_issuing_namespace", 1)
				s.servedOnlyInside(A, src, what, class, ev)
			}
		}
	}
}

// servedOnlyInside: the moved mount's canary is read through the mount's new
// place by the root token, and the old place no longer serves it.
func (s *c12PARun) servedOnlyInside(A *c12NS, m *c12Mount, what, class string, ev map[string]any) {
	if len(m.Data) == 0 {
		return
	}
	q := &c12Req{Kind: "path-argument-readback", Op: logical.ReadOperation, Tok: s.rootTok, N: m.NS, M: m, Marker: m.Tag, Form: "header", Header: m.NS.Path, Path: m.api() + m.Data[0]}
	s.do(q)
	s.checkStorage(q)
	if s.scanResponse(q, false) > 0 {
		s.r.Count("positive:moved_data_served_at_new_place", 1)
	} else {
		s.r.Count("moved_data_not_served_at_new_place", 1)
	}
	if !m.NS.under(A) || !strings.HasPrefix(m.Prefix, m.NS.Prefix) {
		s.violate(class, what+fmt.Sprintf("; the moved mount %s (storage %q) now belongs to namespace %q, outside the subtree of the issuing namespace %q", m, m.Prefix, m.NS.Path, A.Path), ev)
	}
}

func (s *c12PARun) positive(A *c12NS) {
	ev := map[string]any{}
	try := func(to, counter string) {
		src := s.ensure(A, "pa/", false)
		if src == nil {
			return
		}
		q := &c12Req{Kind: "path-argument-positive", Op: logical.UpdateOperation, Tok: s.adm[A], N: A, Data: map[string]any{"from": "pa", "to": to}}
		s.pickForm(q, A, "sys/remount")
		s.do(q)
		status := s.waitMigration(q)
		s.sync()
		if status == MigrationSuccessStatus.String() && !src.Dead && src.NS != nil && src.NS.under(A) && src.Path != "pa/" {
			s.r.Count(counter, 1)
			s.servedOnlyInside(A, src, "positive control", "C12-foreign-mount-storage", ev)
		} else {
			s.r.Count(counter+"_not_effective", 1)
			s.step("positive remount pa -> %q in %q: %s, migration %q", to, A.Path, c12Short(q.outcome()), status)
		}
	}
	s.n++
	try(fmt.Sprintf("mv%d", s.n), "positive:remount_inside_own_namespace")
	for _, c := range s.children(A) {
		if !c.effSealed() && s.nsObj(c) != nil {
			s.n++
			try(fmt.Sprintf("%sin%d", c.Path[len(A.Path):], s.n), "positive:remount_into_child_namespace")
			break
		}
	}
}
