//go:build verif

package vault

// C12 monitor 9: the token id as PRESENTED.
//
// The id a client presents is a string: it carries a '.<namespace id>' suffix
// that the client can rewrite, remove, append or double. Policies with the same
// NAME exist in every namespace (with different rules - each grants its own
// namespace's mount pt/). Whatever the presented id looks like, the token
// behind it authorises only in the namespace it was issued in and below; a
// mutated id may simply be refused.

import (
	"fmt"
	"testing"

	kit "github.com/openbao/openbao/sdk/v2/helper/verifkit"
	"github.com/openbao/openbao/sdk/v2/logical"
)

const c12ClsBatchSuffix = "C12-batch-token-authorised-in-namespace-named-by-presented-suffix"

func TestVerif_C12_PresentedTokenIDs(t *testing.T) {
	seed := kit.Seed(12)
	shard, shards := kit.Shard()
	r := kit.NewResult(t, "c12-presented-token-ids", seed,
		"in every generated world every namespace has a recording mount pt/ with a canary and a policy of the SAME name c12-same granting its own pt/ (plus the stock default policy); every namespace issues a batch token through auth/token/create, a batch token through a login on its recording auth mount and a service token (control), all holding c12-same; every token id is then presented as issued, with its namespace suffix removed, replaced by the id of every other namespace and by 'root', doubled (own.other, other.own) and, for service tokens, also in the form found inside the signed wrapper with the same mutations, in requests to pt/data/foo of EVERY namespace (random spelling): the request may be served only in the namespace the token was issued in; a presentation is non-trivial when the id is mutated or the request namespace differs from the token's")
	defer r.Write(t)
	topos := kit.N(3, 32)
	for ti := 0; ti < topos; ti++ {
		if ti%shards != shard {
			continue
		}
		caseID := fmt.Sprintf("presented:%d", ti)
		if !kit.WantCase(caseID) {
			continue
		}
		rng := kit.NewRand(seed, 0x12800+uint64(ti))
		c12PresentedCase(t, r, rng, caseID, ti%2 == 1)
		if c12Generic(r) > 30 {
			break
		}
	}
	r.Require("presentations", 1000)
	r.Require("presentations:batch", 500)
	r.Require("presentations:service", 400)
	r.Require("batch_tokens_issued", 12)
	r.Require("batch_tokens_issued_by_login", 6)
	r.Require("mutated_ids_naming_the_request_namespace", 100)
	r.Require("mutated_ids_refused", 800)
	r.Require("genuine_ids_served_in_own_namespace", 25)
	r.Require("genuine_ids_refused_in_other_namespaces", 80)
	r.Require("root_namespace_batch_tokens_with_appended_suffix", 40)
}

type c12PTok struct {
	*c12Tok
	batch bool
	how   string
	inner string // service tokens: the id inside the signed wrapper
}

func c12PresentedCase(t *testing.T, r *kit.Result, rng *kit.Rand, caseID string, transactional bool) {
	w := c12Build(t, r, rng, caseID, transactional)
	defer w.v.Close()
	pt := map[*c12NS]*c12Mount{}
	var open []*c12NS
	var toks []*c12PTok
	for _, n := range append([]*c12NS(nil), w.nss...) {
		if n.effSealed() {
			continue
		}
		m := w.mount(n, "pt/", "verifrec", false)
		am := w.mount(n, "ptauth/", "verifrec", true)
		if m == nil || am == nil {
			t.Fatalf("verif: cannot create pt/ and ptauth/ in %q", n.Path)
		}
		c := rng.Canary()
		q := &c12Req{Kind: "presented-seed", Op: logical.UpdateOperation, Tok: w.rootTok, N: n, M: m, Form: "header", Header: n.Path, Path: "pt/data/foo", Data: map[string]any{"v": c}}
		w.do(q)
		if !q.ok() {
			t.Fatalf("verif: cannot seed pt/ of %q: %s", n.Path, q.outcome())
		}
		w.canary[c] = c12Owner{Mount: m}
		pt[n] = m
		open = append(open, n)
		// the same policy name in every namespace, each granting its own pt/
		w.policy(n, "c12-same", []string{"pt/data/*"})
		mk := func(how string, batch bool, resp *logical.Response, err error) {
			if !vOK(resp, err) || resp == nil || resp.Auth == nil {
				r.Count("tokens_not_issued:"+how, 1)
				w.step("%s in %q refused: %s", how, n.Path, c12Short(vErrStr(resp, err)))
				return
			}
			tk := &c12PTok{c12Tok: &c12Tok{Name: how + "@" + n.Path, ID: resp.Auth.ClientToken, NS: n, NSPath: n.Path, Kind: how}, batch: batch, how: how}
			if batch {
				r.Count("batch_tokens_issued", 1)
				if how == "batch-login" {
					r.Count("batch_tokens_issued_by_login", 1)
				}
			} else if ctx := w.nsCtx(n); ctx != nil {
				if te, err := w.v.Core.tokenStore.Lookup(ctx, tk.ID); err == nil && te != nil {
					tk.inner = te.ID
				}
			}
			toks = append(toks, tk)
		}
		resp, err := w.v.Do(vReq{Op: logical.UpdateOperation, Path: "auth/token/create", Token: w.v.Root, NS: n.Path, Data: map[string]any{"type": "batch", "policies": []string{"c12-same"}, "ttl": "1h", "no_default_policy": true}})
		mk("batch-create", true, resp, err)
		resp, err = w.v.Do(vReq{Op: logical.UpdateOperation, Path: "auth/ptauth/login/u", NS: n.Path, Data: map[string]any{"token_type": "batch", "policies": []string{"c12-same"}, "ttl": "1h", "no_default_policy": true}})
		mk("batch-login", true, resp, err)
		resp, err = w.v.Do(vReq{Op: logical.UpdateOperation, Path: "auth/token/create", Token: w.v.Root, NS: n.Path, Data: map[string]any{"policies": []string{"c12-same"}, "ttl": "1h", "no_default_policy": true}})
		mk("service", false, resp, err)
	}
	w.sync()
	for _, tk := range toks {
		for _, f := range c12PresentedForms(tk, open) {
			for _, T := range open {
				c12Present(w, tk, f, T, pt[T])
			}
			if w.failed && c12Generic(r) > 25 {
				break
			}
		}
	}
	r.Eval(1)
	r.Sample(map[string]any{"case": caseID, "namespaces": w.nss, "tokens": len(toks)})
}

type c12PForm struct {
	Form  string
	ID    string
	Names *c12NS // the namespace the presented suffix names (nil: none / unknown)
}

func c12PresentedForms(tk *c12PTok, nss []*c12NS) []c12PForm {
	A := tk.NS
	out := []c12PForm{{"as-issued", tk.ID, A}}
	seen := map[string]bool{tk.ID: true}
	add := func(form, id string, names *c12NS) {
		if !seen[id] {
			seen[id] = true
			out = append(out, c12PForm{form, id, names})
		}
	}
	mutate := func(prefix, id string) {
		base := c12HBase(id, A)
		add(prefix+"suffix-removed", base, nil)
		var rootNS *c12NS
		for _, b := range nss {
			if b.Path == "" {
				rootNS = b
			}
		}
		add(prefix+"suffix-root", base+".root", rootNS)
		for _, b := range nss {
			if b == A || b.Path == "" {
				continue
			}
			add(prefix+"suffix-replaced", base+"."+b.ID, b)
			add(prefix+"suffix-doubled-own-other", id+"."+b.ID, b)
			if A.Path != "" {
				add(prefix+"suffix-doubled-other-own", base+"."+b.ID+"."+A.ID, A)
			}
		}
	}
	mutate("", tk.ID)
	if tk.inner != "" && tk.inner != tk.ID {
		add("unwrapped", tk.inner, A)
		mutate("unwrapped-", tk.inner)
	}
	return out
}

func c12Present(w *c12World, tk *c12PTok, f c12PForm, T *c12NS, M *c12Mount) {
	A := tk.NS
	presented := &c12Tok{Name: tk.Name + "[" + f.Form + "]", ID: f.ID, NS: A, NSPath: A.Path, Kind: tk.how}
	q := &c12Req{Kind: "presented:" + f.Form, Op: logical.ReadOperation, Tok: presented, N: T, M: M, Marker: M.Tag}
	w.pickForm(q, T, "pt/data/foo")
	w.do(q)
	w.r.Count("presentations", 1)
	if tk.batch {
		w.r.Count("presentations:batch", 1)
	} else {
		w.r.Count("presentations:service", 1)
	}
	genuine := f.Form == "as-issued" || f.Form == "unwrapped"
	if !genuine || T != A {
		w.r.Eval(1)
		w.r.Nontrivial(fmt.Sprintf("presented|%s|%s|%s|%v|%s", tk.how, f.Form, c12Rel(A, T), f.Names == T, q.Form))
	}
	if !genuine && f.Names == T && T != A {
		w.r.Count("mutated_ids_naming_the_request_namespace", 1)
	}
	if tk.batch && A.Path == "" && f.Names != nil && f.Names != A {
		w.r.Count("root_namespace_batch_tokens_with_appended_suffix", 1)
	}
	if genuine {
		w.checkStorage(q)
	} else {
		// a presented suffix names the namespace whose token store is asked for the id:
		// reads of sys/token/ (and of the token's lease) there are the lookup itself; writes
		// outside the request's and the issuing namespace are not
		for _, e := range q.events {
			if e.Op != "put" && e.Op != "delete" {
				continue
			}
			ck, _ := c12Clean(e.Key)
			if g := w.classify(ck); g.NS != nil && !T.under(g.NS) && !A.under(g.NS) {
				w.violate("C12-foreign-namespace-storage", fmt.Sprintf("request in namespace %q with the %s token of %q presented as %q performed %s on %q, storage of namespace %q", T.Path, tk.how, A.Path, f.ID, e.Op, e.Key, g.NS.Path), map[string]any{"request": q})
			}
		}
	}
	handled, _ := q.handled()
	// c12-same of A grants A's pt/ only
	expected := T == A
	ev := map[string]any{"request": q, "token_issued_in": A.Path, "token_kind": tk.how, "presented_form": f.Form, "presented_id": f.ID, "request_namespace": T.Path, "outcome": c12Short(q.outcome())}
	switch {
	case handled && !expected:
		class := "C12-cross-namespace-access"
		if tk.batch && !genuine && f.Names == T {
			class = c12ClsBatchSuffix
		}
		w.violate(class, fmt.Sprintf("%s token issued in namespace %q (policy c12-same of %q) presented as %q (%s) was served read %q header %q in namespace %q, %s of the issuing namespace; the equally named policy c12-same of %q grants that path", tk.how, A.Path, A.Path, f.ID, f.Form, q.Path, q.Header, T.Path, c12RelWord(c12Rel(A, T)), T.Path), ev)
	case handled:
		if genuine {
			w.r.Count("genuine_ids_served_in_own_namespace", 1)
		} else {
			w.r.Count("mutated_ids_served_in_the_issuing_namespace", 1)
		}
		w.scanResponse(q, false)
	case genuine && expected:
		w.r.Count("genuine_ids_refused_in_own_namespace", 1)
		w.r.Inconc("[%s] the genuine %s token of %q was refused in its own namespace: %s", w.caseID, tk.how, A.Path, c12Short(q.outcome()))
	case genuine:
		w.r.Count("genuine_ids_refused_in_other_namespaces", 1)
	default:
		w.r.Count("mutated_ids_refused", 1)
	}
}
