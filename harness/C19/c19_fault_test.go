//go:build verif

package vault

// C19, clause "after its last use the token is revoked together with the leases issued under
// it", under single storage faults: a use-limited token obtains 1..3 leases from the recording
// backend on its earlier uses and then makes its final use. A fault-free reference run on the
// same core gives the storage operations of the final-use request and of the revocation it
// queues (the expiration workers' part included); every one of them - gets, puts, deletes,
// lists, transaction begins and commits - is then failed once, in a run of its own.
//
// Oracle (decided from storage and from the recording backend, never from the clock): the
// token's own lease is what drives (and retries) the token's revocation. Once that lease record
// is gone - and a fortiori once the token's record is gone - nothing will come back for the
// leases issued under the token, so each of them must by then be gone (and then revoked at the
// backend) or be marked as expired (ExpireTime not in the future). A lease that still carries
// its original expiry at that point outlives its token.

import (
	"context"
	"encoding/json"
	"fmt"
	"os"
	"sort"
	"strings"
	"testing"
	"time"

	kit "github.com/openbao/openbao/sdk/v2/helper/verifkit"
	"github.com/openbao/openbao/sdk/v2/helper/jsonutil"
	"github.com/openbao/openbao/sdk/v2/logical"
	"github.com/openbao/openbao/v2/internal/helper/namespace"
)

// c19Target names one storage operation of the reference run: the occ-th operation op on a key
// of the given shape (keys with the per-case random parts replaced).
type c19Target struct {
	Op    string `json:"op"`
	Shape string `json:"key"`
	Occ   int    `json:"occurrence"`
	Tag   string `json:"by,omitempty"` // "final" = the final-use request's own goroutine, "" = expiration workers
}

func (g c19Target) String() string { return fmt.Sprintf("%s %s #%d", g.Op, g.Shape, g.Occ) }

// c19Shape removes what differs from token to token: the token's salted id, its accessor, the
// random tail of lease ids, the hashed lease names of the by-token index and the cubbyhole id.
func c19Shape(key, salted, cubby string) string {
	k := key
	if salted != "" {
		k = strings.ReplaceAll(k, salted, "<tok>")
	}
	if cubby != "" {
		k = strings.ReplaceAll(k, cubby, "<cubbyhole>")
	}
	const leases = "sys/expire/id/rec/lease/"
	switch {
	case strings.HasPrefix(k, leases):
		// rec/lease/<case>/<name>/<random>
		if parts := strings.Split(k[len(leases):], "/"); len(parts) == 3 {
			k = leases + "*/" + parts[1] + "/*"
		}
	case strings.HasPrefix(k, "sys/expire/token/<tok>/") && len(k) > len("sys/expire/token/<tok>/"):
		k = "sys/expire/token/<tok>/*"
	case strings.HasPrefix(k, "sys/token/accessor/") && len(k) > len("sys/token/accessor/"):
		k = "sys/token/accessor/*"
	case strings.HasPrefix(k, "sys/token/parent/") && strings.HasSuffix(k, "/<tok>"):
		k = "sys/token/parent/*/<tok>"
	}
	return k
}

type c19FaultOutcome struct {
	Config       string       `json:"config"`
	Target       *c19Target   `json:"fault,omitempty"`
	FailedOp     string       `json:"failed_operation,omitempty"`
	FinalResult  string       `json:"final_use_result"`
	TokenRecord  string       `json:"token_record"`    // gone | pending | uses-left:<k>
	TokenLease   string       `json:"token_own_lease"` // gone | queued | live
	Leases       []c19FLease  `json:"leases"`
	Ops          []c19Target  `json:"-"`
	opsEvents    []kit.Event
	Settled      bool         `json:"settled"`
}

type c19FLease struct {
	Name     string `json:"name"`
	LeaseID  string `json:"lease_id,omitempty"`
	SecretID string `json:"secret_id,omitempty"`
	State    string `json:"state"` // gone | queued | live | error | never-registered
	Revoked  bool   `json:"revoked_at_backend"`
	Expire   string `json:"expire_time,omitempty"`
}

func c19PhysHas(v *vCore, key string) bool {
	e, err := v.Probe.Inner().Get(context.Background(), key)
	return err == nil && e != nil
}

func c19PhysKeys(v *vCore, prefix string) []string {
	var out []string
	var walk func(p string)
	walk = func(p string) {
		names, err := v.Probe.Inner().List(context.Background(), p)
		if err != nil {
			return
		}
		for _, n := range names {
			if strings.HasSuffix(n, "/") {
				walk(p + n)
			} else {
				out = append(out, p+n)
			}
		}
	}
	walk(prefix)
	sort.Strings(out)
	return out
}

const c19SettleMax = 20 * time.Second

func c19Wait(max time.Duration, cond func() bool) bool {
	deadline := time.Now().Add(max)
	for {
		if cond() {
			return true
		}
		if time.Now().After(deadline) {
			return false
		}
		time.Sleep(time.Millisecond)
	}
}

// c19StoredUses reads the token's record straight from the id view (no token-store lookup, which
// for a record without lease would carry out the revocation itself).
func c19StoredUses(v *vCore, salted string) (present bool, uses int, err error) {
	ctx := namespace.RootContext(context.Background())
	e, err := v.Core.tokenStore.idView(namespace.RootNamespace).Get(ctx, salted)
	if err != nil || e == nil {
		return false, 0, err
	}
	te := new(logical.TokenEntry)
	if err := jsonutil.DecodeJSON(e.Value, te); err != nil {
		return true, 0, err
	}
	return true, te.NumUses, nil
}

// c19FaultRun: fresh token with nLeases+1 uses, nLeases leased reads, then the final use of the
// given kind with (target != nil) one storage fault. Returns what was observed.
func c19FaultRun(t *testing.T, v *vCore, r *kit.Result, caseID, config string, nLeases int, lastKind string, target *c19Target) (*c19FaultOutcome, bool) {
	ctx := namespace.RootContext(context.Background())
	out := &c19FaultOutcome{Config: config, Target: target}
	tok, _, err := v.CreateToken(v.Root, map[string]any{"policies": []string{"c19"}, "ttl": "1h", "num_uses": nLeases + 1}, false, "")
	if err != nil || tok == nil {
		t.Fatalf("verif: cannot create use-limited token: %v", err)
	}
	te0, err := v.Core.tokenStore.Lookup(ctx, tok.ID)
	if err != nil || te0 == nil {
		t.Fatalf("verif: cannot look up fresh token: %v", err)
	}
	salted, err := v.Core.tokenStore.SaltID(ctx, te0.ID)
	if err != nil {
		t.Fatal(err)
	}
	idKey := "sys/token/id/" + salted
	tokLeaseKey := "sys/expire/id/auth/token/create/" + salted
	if !c19PhysHas(v, idKey) || !c19PhysHas(v, tokLeaseKey) {
		t.Fatalf("verif: harness assumption broken: token record %s / lease %s not found at the physical level", idKey, tokLeaseKey)
	}
	recStart := v.Rec.Len()
	uniq := strings.NewReplacer(":", "-", "/", "-").Replace(caseID)
	for i := 0; i < nLeases; i++ {
		name := fmt.Sprintf("e%d", i)
		resp, err := v.Do(vReq{Op: logical.ReadOperation, Path: "rec/lease/" + uniq + "/l-" + name, Token: tok.ID})
		if !vOK(resp, err) || resp == nil || resp.Secret == nil || resp.Secret.LeaseID == "" {
			t.Fatalf("verif: leased read %d of %d with a %d-use token failed: %s", i+1, nLeases, nLeases+1, vErrStr(resp, err))
		}
		sid, _ := resp.Data["secret_id"].(string)
		out.Leases = append(out.Leases, c19FLease{Name: name, LeaseID: resp.Secret.LeaseID, SecretID: sid})
	}
	v.WaitQuiet(4*time.Millisecond, time.Second)

	hit := 0
	if target != nil {
		seen := 0
		v.Probe.FailNth(func(e kit.Event) bool {
			if e.Tag == "harness" || e.Op != target.Op || c19Shape(e.Key, salted, te0.CubbyholeID) != target.Shape {
				return false
			}
			seen++
			if seen == target.Occ {
				hit++
				return true
			}
			return false
		}, 1)
	}
	v.Probe.StartLog(false)
	var resp *logical.Response
	switch lastKind {
	case "lease":
		resp, err = v.Do(vReq{Tag: "final", Op: logical.ReadOperation, Path: "rec/lease/" + uniq + "/l-fin", Token: tok.ID})
	default:
		resp, err = c19Req(v, lastKind, "fin", "final", tok.ID)
	}
	out.FinalResult = vErrStr(resp, err)
	served := vOK(resp, err) && resp != nil && (resp.Data != nil || resp.Secret != nil || resp.Auth != nil)
	if lastKind == "lease" && vOK(resp, err) && resp != nil && resp.Secret != nil && resp.Secret.LeaseID != "" {
		r.Violate("C19-leased-secret-returned-on-final-use", caseID, "the request that took the token's last use was handed a leased secret", map[string]any{"config": config, "fault": target, "lease": resp.Secret.LeaseID})
	}

	// the harness's own reads below go through the probe too: tagged, so that neither the fault
	// nor the enumeration counts them
	v.Probe.Tag("harness")
	defer v.Probe.Untag()

	// Bounded waits; none of them decides anything. Has the revocation been carried to the
	// point where the token's own lease is gone? (Not waited for when the request has returned
	// and no revocation can be under way: the use was never stored, or the token's own lease
	// was not marked due.)
	tokLeaseGone := false
	if present, uses, serr := c19StoredUses(v, salted); serr == nil && present && uses > 0 {
		// nothing to wait for
	} else if c19LeaseState(v, "auth/token/create/"+salted) == "live" {
		// nothing to wait for
	} else {
		tokLeaseGone = c19Wait(c19SettleMax, func() bool { return !c19PhysHas(v, tokLeaseKey) })
	}
	leasesGone := func() bool {
		return len(c19PhysKeys(v, "sys/expire/id/rec/lease/")) == 0
	}
	if tokLeaseGone {
		// drain: let the leases' own revocations (and their retries) finish so that the next
		// case starts on a quiet core
		c19Wait(3*time.Second, func() bool {
			for _, k := range c19PhysKeys(v, "sys/expire/id/rec/lease/") {
				if c19LeaseState(v, strings.TrimPrefix(k, "sys/expire/id/")) == "queued" {
					return false // marked due, its own revocation (or a retry of it) is still to come
				}
			}
			return true
		})
		c19Wait(150*time.Millisecond, func() bool { return !c19PhysHas(v, idKey) })
	}
	if target == nil {
		// reference run: everything must be finished before the log is taken
		c19Wait(5*time.Second, func() bool { return leasesGone() && !c19PhysHas(v, idKey) })
		v.WaitQuiet(20*time.Millisecond, 2*time.Second)
	}
	if target != nil {
		v.Probe.ClearFaults()
	}
	evs := v.Probe.StopLog()
	out.opsEvents = evs
	occ := map[string]int{}
	for _, e := range evs {
		if e.Tag == "harness" {
			continue
		}
		sh := c19Shape(e.Key, salted, te0.CubbyholeID)
		k := e.Op + " " + sh
		occ[k]++
		out.Ops = append(out.Ops, c19Target{Op: e.Op, Shape: sh, Occ: occ[k], Tag: e.Tag})
		if e.Err != "" && strings.Contains(e.Err, kit.ErrInjected.Error()) && out.FailedOp == "" {
			out.FailedOp = fmt.Sprintf("%s %s (by %q)", e.Op, e.Key, e.Tag)
		}
	}

	// ---- state, read after the faults are disarmed
	present, uses, serr := c19StoredUses(v, salted)
	switch {
	case serr != nil:
		out.TokenRecord = "error:" + serr.Error()
	case !present:
		out.TokenRecord = "gone"
	case uses < 0:
		out.TokenRecord = "pending"
	default:
		out.TokenRecord = fmt.Sprintf("uses-left:%d", uses)
	}
	out.TokenLease = c19LeaseState(v, "auth/token/create/"+salted)
	issuedAt, revoked := map[string]string{}, map[string]bool{}
	for _, e := range v.Rec.Since(recStart) {
		switch e.Kind {
		case "issued":
			issuedAt[e.Path] = e.ID
		case "revoked":
			revoked[e.ID] = true
		}
	}
	if lastKind == "lease" {
		fl := c19FLease{Name: "fin", State: "never-registered"}
		if sid, ok := issuedAt["lease/"+uniq+"/l-fin"]; ok {
			fl.SecretID = sid
			fl.State = "gone"
		}
		for _, k := range c19PhysKeys(v, "sys/expire/id/rec/lease/"+uniq+"/l-fin/") {
			fl.LeaseID = strings.TrimPrefix(k, "sys/expire/id/")
		}
		out.Leases = append(out.Leases, fl)
	}
	for i := range out.Leases {
		l := &out.Leases[i]
		l.Revoked = revoked[l.SecretID]
		if l.LeaseID == "" {
			continue
		}
		l.State = c19LeaseState(v, l.LeaseID)
		if l.State == "live" || l.State == "queued" {
			if e, gerr := v.Core.expiration.leaseView(namespace.RootNamespace).Get(ctx, l.LeaseID); gerr == nil && e != nil {
				if le, derr := decodeLeaseEntry(e.Value); derr == nil {
					l.Expire = time.Until(le.ExpireTime).Round(time.Second).String() + " from now"
				}
			}
		}
	}
	out.Settled = out.TokenLease == "gone" || out.TokenRecord == "gone"

	wit := map[string]any{"outcome": out, "num_uses": nLeases + 1, "final_use": lastKind}
	cont := true
	switch {
	case strings.HasPrefix(out.TokenRecord, "error"):
		r.Inconc("%s: cannot read the token record: %s", caseID, out.TokenRecord)
	case strings.HasPrefix(out.TokenRecord, "uses-left"):
		// the fault hit before the final use was stored: the request must not have been served
		r.Count("fault_before_the_final_use_was_stored", 1)
		if served {
			r.Violate("C19-success-without-use", caseID, "the final-use request was served although its use was never stored ("+out.TokenRecord+")", wit)
		}
	case !out.Settled && out.TokenLease == "live":
		// use stored, but the request could not queue the revocation (its own lease could not be
		// read / rewritten): the request must have failed; the token stays unusable and its
		// leases go when its own lease runs out. Not judged here beyond the request's answer.
		r.Count("fault_kept_the_request_from_queueing_the_revocation", 1)
		if vOK(resp, err) {
			r.Violate("C19-final-use-did-not-queue-revocation", caseID, "the final-use request reported success although the token's revocation was not queued (token record pending, own lease neither gone nor due)", wit)
		}
	case !out.Settled:
		r.Inconc("%s: the token's own lease is still due %s after the final use (revocation keeps failing?) - not judged", caseID, c19SettleMax)
	default:
		r.Count("revocations_carried_past_the_tokens_own_lease", 1)
		if out.TokenRecord == "gone" {
			r.Count("token_record_gone", 1)
		} else {
			r.Count("token_record_left_pending_without_lease", 1)
		}
		bad := false
		for _, l := range out.Leases {
			switch l.State {
			case "live":
				bad = true
				r.Violate("C19-lease-outlives-revoked-token-after-storage-fault", caseID,
					fmt.Sprintf("token with num_uses=%d, %d leases, final use %q, one fault on [%v] -> %s: the token's own lease is gone (token record: %s) so nothing drives its revocation any more, but lease %s issued under it keeps its original expiry (%s)",
						nLeases+1, nLeases, lastKind, target, out.FailedOp, out.TokenRecord, l.LeaseID, l.Expire), wit)
			case "gone":
				if !l.Revoked && l.SecretID != "" {
					bad = true
					r.Violate("C19-lease-record-dropped-without-backend-revocation", caseID,
						fmt.Sprintf("lease %s (%s) of the revoked token is gone from storage but the backend was never asked to revoke secret %s", l.Name, l.LeaseID, l.SecretID), wit)
				}
			case "error":
				r.Inconc("%s: cannot read lease %s", caseID, l.LeaseID)
			}
		}
		if !bad {
			r.Count("all_leases_gone_or_marked_expired_once_the_token_lease_was_gone", 1)
		}
	}
	if target != nil {
		if hit == 0 {
			r.Count("fault_not_hit", 1)
		} else {
			r.Count("faults_fired", 1)
			r.Nontrivial(config + "|" + target.String())
			if target.Op == "put" && strings.HasPrefix(target.Shape, "sys/expire/id/rec/lease/") && target.Tag == "" {
				r.Count("faults_on_a_lease_marking_write", 1)
			}
			if target.Op == "get" && strings.HasPrefix(target.Shape, "sys/expire/id/rec/lease/") && target.Tag == "" {
				r.Count("faults_on_a_lease_record_read", 1)
			}
			if target.Op == "delete" {
				r.Count("faults_on_a_delete", 1)
			}
			if target.Op == "commit" || target.Op == "begin" || target.Op == "beginro" {
				r.Count("faults_on_a_transaction_boundary", 1)
			}
		}
	}
	// the used-up token must not authorise anything, whatever failed
	if !strings.HasPrefix(out.TokenRecord, "uses-left") {
		if v.TokenUsable(tok.ID, "") {
			r.Violate("C19-token-usable-after-exhaustion", caseID, "token still usable after its final use (one storage fault injected)", wit)
		}
	}
	// clean up whatever the fault left behind so that it does not leak into the next case
	if out.TokenRecord != "gone" {
		_, _ = v.Do(vReq{Op: logical.UpdateOperation, Path: "auth/token/revoke", Token: v.Root, Data: map[string]any{"token": tok.ID}})
		c19Wait(3*time.Second, func() bool { return !c19PhysHas(v, idKey) && leasesGone() })
	} else if !leasesGone() {
		for _, l := range out.Leases {
			if l.LeaseID != "" {
				cr, cerr := v.Do(vReq{Op: logical.UpdateOperation, Path: "sys/leases/revoke", Token: v.Root, Data: map[string]any{"lease_id": l.LeaseID, "sync": true}})
				if os.Getenv("VERIF_C19_DUMP") != "" {
					t.Logf("cleanup revoke %s: %s", l.LeaseID, vErrStr(cr, cerr))
				}
			}
		}
		c19Wait(3*time.Second, leasesGone)
	}
	if len(r.Samples) < 6 && target != nil && hit > 0 {
		r.Sample(wit)
	}
	if os.Getenv("VERIF_C19_DUMP") != "" {
		js, _ := json.Marshal(out)
		t.Logf("%s: %s", caseID, js)
		if target == nil {
			for _, e := range evs {
				t.Logf("   %s", e.String())
			}
		}
	}
	return out, cont && r.NViolations() < 40
}

func TestVerif_C19_LastUseRevocationFaults(t *testing.T) {
	seed := kit.Seed(19)
	shard, shards := kit.Shard()
	r := kit.NewResult(t, "c19-last-use-revocation-faults", seed, "single-fault enumeration over the last-use revocation: a token with L+1 uses (L in 1..3) takes L leases from the recording backend, then makes its final use (lookup-self, read, policy-denied read or another leased read); a fault-free reference run on the same core lists the storage operations of that request and of the revocation it queues; each of them (get/put/delete/list/begin/commit, addressed as the k-th operation of its kind on a key shape) is failed once in a run of its own, retries left to the expiration manager (retry base lowered to 5ms); oracle from storage + recording backend: once the token's own lease (or the token record) is gone every lease issued under the token is gone-and-revoked-at-the-backend or marked expired; distinct by (config, failed operation)")
	defer r.Write(t)
	type cfg struct {
		tx   bool
		L    int
		last string
	}
	var cfgs []cfg
	if kit.Tier() == "quick" {
		cfgs = []cfg{{false, 1, "lookup-self"}, {false, 2, "lease"}, {false, 3, "denied"}, {true, 2, "read"}}
	} else {
		for _, tx := range []bool{false, true} {
			for L := 1; L <= 3; L++ {
				for _, last := range []string{"lookup-self", "read", "denied", "lease", "existfail"} {
					cfgs = append(cfgs, cfg{tx, L, last})
				}
			}
		}
	}
	cores := map[bool]*vCore{}
	for ci, c := range cfgs {
		if ci%shards != shard {
			continue
		}
		v := cores[c.tx]
		if v == nil {
			v = c19Boot(t, c.tx)
			v.Core.expiration.revokeRetryBase = 5 * time.Millisecond
			cores[c.tx] = v
		}
		config := fmt.Sprintf("tx=%v leases=%d final=%s", c.tx, c.L, c.last)
		refID := fmt.Sprintf("flt:%v:%d:%s:ref", c.tx, c.L, c.last)
		ref, _ := c19FaultRun(t, v, r, refID, config, c.L, c.last, nil)
		if !ref.Settled || ref.TokenRecord != "gone" {
			r.Inconc("%s: the fault-free reference run did not finish the revocation (token record %s, own lease %s)", refID, ref.TokenRecord, ref.TokenLease)
			continue
		}
		r.Count("reference_runs", 1)
		r.Count("operations_enumerated", len(ref.Ops))
		for i, g := range ref.Ops {
			g := g
			if g.Op == "rollback" {
				continue // the probe cannot fail a rollback
			}
			caseID := fmt.Sprintf("flt:%v:%d:%s:%d", c.tx, c.L, c.last, i)
			if !kit.WantCase(caseID) {
				continue
			}
			r.Eval(1)
			if _, cont := c19FaultRun(t, v, r, caseID, config, c.L, c.last, &g); !cont {
				return
			}
		}
	}
	for _, v := range cores {
		v.Close()
	}
	r.Require("faults_fired", 150)
	r.Require("faults_on_a_lease_marking_write", 6)
	r.Require("faults_on_a_lease_record_read", 6)
	r.Require("faults_on_a_delete", 10)
	r.Require("all_leases_gone_or_marked_expired_once_the_token_lease_was_gone", 100)
}
