//go:build verif

package vault

// C19 when the request is addressed to ANOTHER namespace than the token's own. A token works in
// the namespaces below its own (its policies name the child paths) and can be presented - and is
// then refused - to sibling or parent namespaces. Every such presentation is a presentation like
// any other: one use, and the final one revokes the token, its leases (which live in the
// namespaces of the mounts that issued them) and its cubbyhole. The token's record and its own
// lease live in the TOKEN's namespace, whatever namespace the request went to.
//
// Sequential histories of m > n presentations of an n-use token (n in 1..3) of the root
// namespace / of namespace ns1/, each addressed to the token's own namespace, a child (ns1/,
// ns1/sub/), a sibling (ns2/) or the parent, by namespace header, by path prefix, or by both.
// Oracle, from storage and from the expiration manager's schedule (no waiting): the stored use
// count falls by one per presentation; when the n-th has returned, the token's record is gone, or
// its own lease is gone, or that lease is due both in storage and in the expiration manager's
// timer set; afterwards nothing is served; when the token's record is gone every lease issued
// under it is gone or due.

import (
	"context"
	"fmt"
	"strings"
	"testing"
	"time"

	kit "github.com/openbao/openbao/sdk/v2/helper/verifkit"
	"github.com/openbao/openbao/sdk/v2/helper/jsonutil"
	"github.com/openbao/openbao/sdk/v2/logical"
	"github.com/openbao/openbao/v2/internal/helper/namespace"
)

const c19ClassOtherNS = "C19-final-use-addressed-to-other-namespace-left-token-unrevoked"

var c19NSAll = []string{"", "ns1/", "ns1/sub/", "ns2/"}

func c19NSPolicy(prefixes []string) string {
	var b strings.Builder
	for _, p := range prefixes {
		fmt.Fprintf(&b, "path %q { capabilities = [\"read\",\"update\",\"create\"] }\n", p+"rec/data/*")
		fmt.Fprintf(&b, "path %q { capabilities = [\"read\"] }\n", p+"rec/lease/*")
		fmt.Fprintf(&b, "path %q { capabilities = [\"deny\"] }\n", p+"rec/data/denied/*")
		fmt.Fprintf(&b, "path %q { capabilities = [\"read\"] }\n", p+"auth/token/lookup-self")
	}
	return b.String()
}

func c19NSBoot(t *testing.T, tx bool) *vCore {
	v := vBoot(t, vOpts{Transactional: tx})
	v.Rec.seq = v.Probe.NextSeq
	v.MustDo(vReq{Op: logical.UpdateOperation, Path: "sys/namespaces/ns1", Token: v.Root})
	v.MustDo(vReq{Op: logical.UpdateOperation, Path: "sys/namespaces/sub", Token: v.Root, NS: "ns1/"})
	v.MustDo(vReq{Op: logical.UpdateOperation, Path: "sys/namespaces/ns2", Token: v.Root})
	for _, ns := range c19NSAll {
		v.Mount("rec", "verifrec", ns, nil)
		v.MustDo(vReq{Op: logical.UpdateOperation, Path: "rec/data/item", Token: v.Root, NS: ns, Data: map[string]any{"v": "x"}})
	}
	v.Policy("c19ns", c19NSPolicy(c19NSAll), "")
	v.Policy("c19ns", c19NSPolicy([]string{"", "sub/"}), "ns1/")
	return v
}

func c19NSObj(t *testing.T, v *vCore, path string) *namespace.Namespace {
	if path == "" {
		return namespace.RootNamespace
	}
	ns, err := v.Core.namespaceStore.GetNamespaceByPath(namespace.RootContext(context.Background()), path)
	if err != nil || ns == nil || ns.ID == namespace.RootNamespaceID {
		t.Fatalf("verif: namespace %q not found: %v", path, err)
	}
	return ns
}

// c19NSPres is one presentation: a request kind, the namespace it is addressed to and how.
type c19NSPres struct {
	Kind   string `json:"kind"`   // read | lease | denied | lookup-self
	Target string `json:"target"` // absolute namespace path, "" = root
	Mode   string `json:"mode"`   // header | path | mixed
}

func (p c19NSPres) String() string { return p.Kind + "@" + p.Target + "(" + p.Mode + ")" }

// c19NSReq builds the request. tokenNS is only needed to know which targets exist; the address
// is always absolute (the harness context carries no namespace).
func c19NSReq(v *vCore, p c19NSPres, name, tag, token string) (*logical.Response, error) {
	rel := ""
	op := logical.ReadOperation
	switch p.Kind {
	case "read":
		rel = "rec/data/item"
	case "lease":
		rel = "rec/lease/l-" + name
	case "denied":
		rel = "rec/data/denied/x"
	case "lookup-self":
		rel = "auth/token/lookup-self"
	default:
		panic(p.Kind)
	}
	header, path := "", rel
	switch p.Mode {
	case "header":
		header = p.Target
	case "path":
		path = p.Target + rel
	case "mixed":
		// first segment in the header, the rest in the path
		i := strings.Index(p.Target, "/")
		header, path = p.Target[:i+1], p.Target[i+1:]+rel
	}
	return v.Do(vReq{Tag: tag, Op: op, Path: path, Token: token, NS: header})
}

func c19NSModes(target string) []string {
	switch strings.Count(target, "/") {
	case 0:
		return []string{"header"} // the root namespace: nothing to say
	case 1:
		return []string{"header", "path"}
	}
	return []string{"header", "path", "mixed"}
}

func c19StoredUsesNS(v *vCore, ns *namespace.Namespace, salted string) (present bool, uses int, err error) {
	ctx := namespace.ContextWithNamespace(context.Background(), ns)
	e, err := v.Core.tokenStore.idView(ns).Get(ctx, salted)
	if err != nil || e == nil {
		return false, 0, err
	}
	te := new(logical.TokenEntry)
	if err := jsonutil.DecodeJSON(e.Value, te); err != nil {
		return true, 0, err
	}
	return true, te.NumUses, nil
}

// c19LeaseStateNS: gone | queued (expiry not in the future) | live | error, read in the lease's namespace.
func c19LeaseStateNS(v *vCore, leaseID string) string {
	ctx := namespace.RootContext(context.Background())
	ns, err := v.Core.expiration.getNamespaceFromLeaseID(ctx, leaseID)
	if err != nil {
		if err == namespace.ErrNoNamespace {
			return "gone"
		}
		return "error"
	}
	e, err := v.Core.expiration.leaseView(ns).Get(namespace.ContextWithNamespace(ctx, ns), leaseID)
	if err != nil {
		return "error"
	}
	if e == nil {
		return "gone"
	}
	le, err := decodeLeaseEntry(e.Value)
	if err != nil {
		return "error"
	}
	if !le.ExpireTime.After(time.Now()) {
		return "queued"
	}
	return "live"
}

// c19Scheduled: what the expiration manager's timer set says about a lease: none | due | later.
func c19Scheduled(v *vCore, leaseID string) string {
	m := v.Core.expiration
	m.pendingLock.RLock()
	defer m.pendingLock.RUnlock()
	raw, ok := m.pending.Load(leaseID)
	if !ok {
		return "none"
	}
	pi, ok := raw.(pendingInfo)
	if !ok || pi.cachedLeaseInfo == nil {
		return "none"
	}
	if pi.cachedLeaseInfo.ExpireTime.After(time.Now()) {
		return "later (" + time.Until(pi.cachedLeaseInfo.ExpireTime).Round(time.Second).String() + ")"
	}
	return "due"
}

type c19NSStep struct {
	Pres       string `json:"presentation"`
	Result     string `json:"result"`
	UsesBefore string `json:"stored_uses_before"`
	UsesAfter  string `json:"stored_uses_after"`
	Handler    bool   `json:"handler_ran,omitempty"`
	OwnLease   string `json:"token_own_lease_after_final_use,omitempty"`
}

func c19NSCase(t *testing.T, v *vCore, r *kit.Result, caseID string, tokenNSPath string, n int, pres []c19NSPres) bool {
	tokenNS := c19NSObj(t, v, tokenNSPath)
	tok, _, err := v.CreateToken(v.Root, map[string]any{"policies": []string{"c19ns"}, "ttl": "1h", "num_uses": n}, false, tokenNSPath)
	if err != nil || tok == nil {
		t.Fatalf("verif: cannot create use-limited token in %q: %v", tokenNSPath, err)
	}
	nsCtx := namespace.ContextWithNamespace(context.Background(), tokenNS)
	te0, err := v.Core.tokenStore.Lookup(nsCtx, tok.ID)
	if err != nil || te0 == nil {
		t.Fatalf("verif: cannot look up fresh token: %v", err)
	}
	if te0.NamespaceID != tokenNS.ID {
		t.Fatalf("verif: harness assumption broken: token created with header %q lives in namespace %s", tokenNSPath, te0.NamespaceID)
	}
	salted, err := v.Core.tokenStore.SaltID(nsCtx, te0.ID)
	if err != nil {
		t.Fatal(err)
	}
	ownLease := "auth/token/create/" + salted
	if tokenNS.ID != namespace.RootNamespaceID {
		ownLease += "." + tokenNS.ID
	}
	if st := c19LeaseStateNS(v, ownLease); st != "live" {
		t.Fatalf("verif: harness assumption broken: own lease %s of a fresh token is %s", ownLease, st)
	}
	r.Eval(1)
	var strs []string
	for _, p := range pres {
		strs = append(strs, p.String())
	}
	var steps []c19NSStep
	wit := map[string]any{"n": n, "token_namespace": tokenNSPath, "presentations": strs}
	var leases []string
	left := n
	unrevoked := false
	for i, p := range pres {
		tag := fmt.Sprintf("q%d", i)
		bp, bu, berr := c19StoredUsesNS(v, tokenNS, salted)
		recStart := v.Rec.Len()
		resp, rerr := c19NSReq(v, p, tag, tag, tok.ID)
		ap, au, aerr := c19StoredUsesNS(v, tokenNS, salted)
		st := c19NSStep{Pres: p.String(), Result: vErrStr(resp, rerr), UsesBefore: c19UsesStr(bp, bu, berr), UsesAfter: c19UsesStr(ap, au, aerr)}
		for _, e := range v.Rec.Since(recStart) {
			if e.Kind == "handler" {
				st.Handler = true
			}
		}
		served := vOK(resp, rerr) && resp != nil && (resp.Data != nil || resp.Secret != nil || resp.Auth != nil)
		if p.Kind == "lease" && vOK(resp, rerr) && resp != nil && resp.Secret != nil && resp.Secret.LeaseID != "" {
			leases = append(leases, resp.Secret.LeaseID)
		}
		other := p.Target != tokenNSPath
		what := fmt.Sprintf("token of namespace %q with num_uses=%d, presentation %d of %v: ", tokenNSPath, n, i+1, strs)
		if berr != nil || aerr != nil {
			r.Inconc("%s: cannot read the token record", caseID)
			return true
		}
		r.Count("presentations", 1)
		if other {
			r.Count("presentations_addressed_to_another_namespace", 1)
		}
		if left > 0 {
			consumed := (left > 1 && ap && au == left-1) || (left == 1 && (!ap || au < 0))
			if !consumed {
				steps = append(steps, st)
				wit["steps"] = steps
				class := "C19-presentation-consumed-no-use"
				if ap && au != left {
					class = "C19-use-count-changed-by-other-than-one"
				}
				r.Violate(class, caseID, what+"answered "+st.Result+"; stored num_uses went from "+st.UsesBefore+" to "+st.UsesAfter, wit)
				return c19Budget(r, 30)
			}
			left--
			r.Count("presentations_that_took_a_use", 1)
			if other {
				r.Count("uses_taken_by_requests_addressed_to_another_namespace", 1)
			}
			if served || st.Handler {
				r.Count("presentations_served", 1)
			}
			if left == 0 {
				// The final use. When the request has returned the token is revoked or its
				// revocation is queued: its own lease (in the token's namespace) is gone, or due
				// in storage AND due in the expiration manager's timer set.
				r.Count("final_uses", 1)
				if other {
					r.Count("final_uses_addressed_to_another_namespace", 1)
				}
				if ap {
					stor, sched := c19LeaseStateNS(v, ownLease), c19Scheduled(v, ownLease)
					st.OwnLease = "storage:" + stor + " timer:" + sched
					if stor2 := c19LeaseStateNS(v, ownLease); stor2 == "gone" {
						stor = stor2 // the revocation got there in between
					}
					if stor != "gone" && (stor != "queued" || sched != "due") {
						unrevoked = true
						steps = append(steps, st)
						wit["steps"] = steps
						var lst []string
						for _, l := range leases {
							lst = append(lst, l+"="+c19LeaseStateNS(v, l))
						}
						wit["leases"] = lst
						class := "C19-final-use-did-not-queue-revocation"
						if other {
							class = c19ClassOtherNS
						}
						r.Violate(class, caseID, what+p.String()+" took the final use ("+st.Result+"); the token's record is stored as "+st.UsesAfter+" and its own lease "+ownLease+" is "+st.OwnLease+": the token's revocation (with its leases "+fmt.Sprint(lst)+") is not queued", wit)
						steps = steps[:len(steps)-1]
					}
				}
			}
		} else {
			r.Count("presentations_after_the_token_was_used_up", 1)
			if ap && au >= 0 {
				steps = append(steps, st)
				wit["steps"] = steps
				r.Violate("C19-use-count-increased", caseID, what+"the token was used up, stored num_uses is "+st.UsesAfter+" afterwards", wit)
				return c19Budget(r, 30)
			}
			if served || st.Handler {
				steps = append(steps, st)
				wit["steps"] = steps
				r.Violate("C19-request-served-after-n-presentations", caseID, what+p.String()+" was served although the token had been presented "+fmt.Sprint(i)+" times before", wit)
				return c19Budget(r, 30)
			}
		}
		steps = append(steps, st)
		wit["steps"] = steps
	}
	revoke := func() {
		_, _ = v.Do(vReq{Op: logical.UpdateOperation, Path: "auth/token/revoke", Token: v.Root, NS: tokenNSPath, Data: map[string]any{"token": tok.ID}})
	}
	if unrevoked {
		revoke()
		return c19Budget(r, 30)
	}
	gone := c19Wait(15*time.Second, func() bool { p, _, e := c19StoredUsesNS(v, tokenNS, salted); return e == nil && !p })
	if !gone {
		r.Inconc("%s: token record still present 15s after its last use although its revocation was queued", caseID)
		revoke()
		return true
	}
	r.Count("token_records_gone", 1)
	for _, l := range leases {
		r.Count("leases_returned", 1)
		if _, nsID := namespace.SplitIDFromString(l); nsID != "" && nsID != tokenNS.ID {
			r.Count("leases_issued_in_another_namespace", 1)
		}
		if st := c19LeaseStateNS(v, l); st == "live" {
			r.Violate("C19-lease-live-after-exhaustion", caseID, "lease "+l+" returned under the token is still live after the token was used up and its record removed", wit)
		}
	}
	if resp, err := c19NSReq(v, c19NSPres{Kind: "lookup-self", Target: tokenNSPath, Mode: "header"}, "x", "", tok.ID); vOK(resp, err) && resp != nil && resp.Data != nil {
		r.Violate("C19-token-usable-after-exhaustion", caseID, fmt.Sprintf("token with num_uses=%d still usable after %d presentations", n, len(pres)), wit)
	}
	r.Nontrivial(fmt.Sprintf("%s|%d|%v", tokenNSPath, n, strs))
	if len(r.Samples) < 6 && len(leases) > 0 {
		r.Sample(wit)
	}
	return c19Budget(r, 30)
}

func TestVerif_C19_OtherNamespace(t *testing.T) {
	seed := kit.Seed(19)
	shard, _ := kit.Shard()
	r := kit.NewResult(t, "c19-other-namespace", seed, "sequential histories of m>n presentations of an n-use token (n in 1..3) of the root namespace / of ns1/, each a read, leased read, policy-denied read or lookup-self addressed to the token's own namespace, a child (ns1/, ns1/sub/), a sibling (ns2/) or the parent namespace by header, by path prefix or by both; systematically every (target, addressing, kind) as the final use after leased reads in other namespaces, plus seeded mixes; oracle from storage and the expiration manager's timer set: one use per presentation, after the n-th the token's record is gone or its own lease (in the token's namespace) is gone or due in storage and in the timer set, nothing served afterwards, leases of every namespace gone or due once the record is gone; distinct by (token namespace, n, presentations)")
	defer r.Write(t)
	kinds := []string{"read", "lease", "denied", "lookup-self"}
	for _, tx := range []bool{false, true} {
		if kit.Tier() == "quick" && tx {
			continue
		}
		v := c19NSBoot(t, tx)
		for _, tokenNS := range []string{"", "ns1/"} {
			// where this token's policy reaches (leases can be taken there)
			reach := []string{"", "ns1/", "ns1/sub/", "ns2/"}
			if tokenNS == "ns1/" {
				reach = []string{"ns1/", "ns1/sub/"}
			}
			for n := 1; n <= 3; n++ {
				c := 0
				rng := kit.NewRand(seed, uint64(shard*100000+n*1000)*4+b2u(tx)*2+b2u(tokenNS != "")+15_000_000)
				run := func(pres []c19NSPres) bool {
					caseID := fmt.Sprintf("ns:%v:%d:%s:%d:%d", tx, shard, strings.TrimSuffix(tokenNS, "/"), n, c)
					c++
					if !kit.WantCase(caseID) {
						return true
					}
					return c19NSCase(t, v, r, caseID, tokenNS, n, pres)
				}
				pick := func(targets []string) c19NSPres {
					tg := kit.Pick(rng, targets)
					return c19NSPres{Kind: kit.Pick(rng, kinds), Target: tg, Mode: kit.Pick(rng, c19NSModes(tg))}
				}
				for _, target := range c19NSAll {
					for _, mode := range c19NSModes(target) {
						for _, k := range kinds {
							if kit.Tier() == "quick" && n == 3 && (k == "denied" || k == "read") {
								continue
							}
							var pres []c19NSPres
							for i := 0; i < n-1; i++ {
								tg := kit.Pick(rng, reach)
								pres = append(pres, c19NSPres{Kind: "lease", Target: tg, Mode: kit.Pick(rng, c19NSModes(tg))})
							}
							pres = append(pres, c19NSPres{Kind: k, Target: target, Mode: mode}, pick(c19NSAll))
							if !run(pres) {
								return
							}
						}
					}
				}
				for x := 0; x < kit.N(6, 40); x++ {
					m := n + 1 + rng.Intn(3)
					pres := make([]c19NSPres, m)
					for i := range pres {
						pres[i] = pick(c19NSAll)
					}
					if !run(pres) {
						return
					}
				}
			}
		}
		v.Close()
	}
	r.Require("final_uses_addressed_to_another_namespace", 80)
	r.Require("uses_taken_by_requests_addressed_to_another_namespace", 150)
	r.Require("leases_issued_in_another_namespace", 30)
	r.Require("token_records_gone", 150)
}
