//go:build verif

package vault

// C19 for a use-limited token that is NAMED IN THE REQUEST BODY instead of being presented as the
// client token. The only tokens whose uses are spent that way (TokenStore.UseTokenByID) are
// response-wrapping tokens - use limit 1 - consumed by a third party through sys/wrapping/unwrap
// or sys/wrapping/rewrap (sys/wrapping/lookup does not count a use). The policy of a wrapping
// token cannot be assigned to an ordinary token, so n = 1 is the whole family.
//
// m > 1 requests are run against one wrapping token, sequentially and concurrently under the
// storage-operation gate (gate points: the token's record, its lease, its cubbyhole - so the
// winner's cubbyhole teardown is a scheduling point): third-party unwrap / rewrap / lookup mixed
// with first-party presentations of the same token (unwrap, read of its cubbyhole, a request
// its policy refuses). Oracle: the token authorises one request. A request was authorised when it
// was handed the wrapped payload (unwrap, cubbyhole read) or a successor token carrying it
// (rewrap); at most one request is, at most one request's use is stored, and afterwards the
// record is gone or marked used up.

import (
	"context"
	"encoding/json"
	"fmt"
	"strings"
	"sync"
	"testing"

	kit "github.com/openbao/openbao/sdk/v2/helper/verifkit"
	"github.com/openbao/openbao/sdk/v2/logical"
	"github.com/openbao/openbao/v2/internal/helper/namespace"
)

const c19ClassBodyNamed = "C19-body-named-token-served-more-often-than-its-use-limit"

var c19WrapKinds = []string{"unwrap-third", "rewrap-third", "lookup-third", "unwrap-first", "cubbyhole-first", "refused-first"}

func c19WrapThird(k string) bool { return strings.HasSuffix(k, "-third") }

func c19WrapReq(v *vCore, kind, tag, wrapTok string) (*logical.Response, error) {
	switch kind {
	case "unwrap-third":
		return v.Do(vReq{Tag: tag, Op: logical.UpdateOperation, Path: "sys/wrapping/unwrap", Token: v.Root, Data: map[string]any{"token": wrapTok}})
	case "rewrap-third":
		return v.Do(vReq{Tag: tag, Op: logical.UpdateOperation, Path: "sys/wrapping/rewrap", Token: v.Root, Data: map[string]any{"token": wrapTok}})
	case "lookup-third":
		return v.Do(vReq{Tag: tag, Op: logical.UpdateOperation, Path: "sys/wrapping/lookup", Token: v.Root, Data: map[string]any{"token": wrapTok}})
	case "unwrap-first":
		return v.Do(vReq{Tag: tag, Op: logical.UpdateOperation, Path: "sys/wrapping/unwrap", Token: wrapTok})
	case "cubbyhole-first":
		return v.Do(vReq{Tag: tag, Op: logical.ReadOperation, Path: "cubbyhole/response", Token: wrapTok})
	case "refused-first":
		return v.Do(vReq{Tag: tag, Op: logical.ReadOperation, Path: "rec/data/item", Token: wrapTok})
	}
	panic(kind)
}

// c19RespContains: does the response carry the canary anywhere in its data?
func c19RespContains(resp *logical.Response, canary string) bool {
	if resp == nil {
		return false
	}
	for _, val := range resp.Data {
		switch x := val.(type) {
		case []byte:
			if strings.Contains(string(x), canary) {
				return true
			}
		case string:
			if strings.Contains(x, canary) {
				return true
			}
		default:
			if b, err := json.Marshal(x); err == nil && strings.Contains(string(b), canary) {
				return true
			}
		}
	}
	return false
}

type c19WrapOut struct {
	Kind     string `json:"kind"`
	Result   string `json:"result"`
	Served   string `json:"served,omitempty"` // payload | successor-token
	UseWrite bool   `json:"use_write"`
}

var c19WrapSeq int

// c19WrapCase wraps a fresh payload and runs the requests against the wrapping token.
func c19WrapCase(t *testing.T, v *vCore, r *kit.Result, caseID string, kinds []string, pol kit.Policy) (kit.Schedule, bool) {
	ctx := namespace.RootContext(context.Background())
	c19WrapSeq++
	canary := fmt.Sprintf("cnry-c19-%d-%s", c19WrapSeq, strings.NewReplacer(":", "-").Replace(caseID))
	path := fmt.Sprintf("rec/data/wrapped-%d", c19WrapSeq)
	v.MustDo(vReq{Op: logical.UpdateOperation, Path: path, Token: v.Root, Data: map[string]any{"v": canary}})
	wresp, err := v.Do(vReq{Op: logical.ReadOperation, Path: path, Token: v.Root, WrapTTL: 5 * 60 * 1e9})
	if !vOK(wresp, err) || wresp == nil || wresp.WrapInfo == nil || wresp.WrapInfo.Token == "" {
		t.Fatalf("verif: wrapped read failed: %s", vErrStr(wresp, err))
	}
	if c19RespContains(wresp, canary) {
		t.Fatalf("verif: harness assumption broken: the wrapped read returned the payload itself")
	}
	wtok := wresp.WrapInfo.Token
	te, err := v.Core.tokenStore.Lookup(ctx, wtok)
	if err != nil || te == nil {
		t.Fatalf("verif: fresh wrapping token not found: %v", err)
	}
	if te.NumUses != 1 {
		t.Fatalf("verif: harness assumption broken: a wrapping token has num_uses=%d", te.NumUses)
	}
	salted, err := v.Core.tokenStore.SaltID(ctx, te.ID)
	if err != nil {
		t.Fatal(err)
	}
	cubby := te.CubbyholeID
	idKey := "sys/token/id/" + salted
	resps := make([]*logical.Response, len(kinds))
	errs := make([]error, len(kinds))
	v.Probe.StartLog(false)
	var sched kit.Schedule
	if pol == nil {
		for i, k := range kinds {
			resps[i], errs[i] = c19WrapReq(v, k, fmt.Sprintf("q%d", i), wtok)
		}
	} else {
		var mu sync.Mutex
		var reqs []kit.Req
		for i, k := range kinds {
			i, k := i, k
			reqs = append(reqs, kit.Req{Tag: fmt.Sprintf("q%d", i), Fn: func() {
				resp, err := c19WrapReq(v, k, "", wtok)
				mu.Lock()
				resps[i], errs[i] = resp, err
				mu.Unlock()
			}})
		}
		sched = v.Probe.RunGated(reqs, pol, kit.GateOpts{Filter: func(e kit.Event) bool {
			return strings.Contains(e.Key, salted) || (cubby != "" && strings.Contains(e.Key, "/"+cubby+"/"))
		}})
		if sched.TimedOut {
			v.Probe.StopLog()
			r.Inconc("%s: gate watchdog expired", caseID)
			return sched, false
		}
	}
	evs := v.Probe.StopLog()
	r.Eval(1)
	useBy := map[string]bool{}
	destroyGated := false
	for _, e := range evs {
		if e.Op == "put" && e.Key == idKey && e.Tag != "" && e.Err == "" {
			useBy[e.Tag] = true
		}
	}
	for _, s := range sched.Steps {
		if cubby != "" && strings.Contains(s.Key, "/"+cubby+"/") && (s.Op == "delete" || s.Op == "listpage" || s.Op == "list") {
			destroyGated = true
		}
	}
	outs := make([]c19WrapOut, len(kinds))
	served, servedThird, uses := 0, 0, 0
	var successors []string
	for i, k := range kinds {
		tag := fmt.Sprintf("q%d", i)
		o := c19WrapOut{Kind: k, Result: vErrStr(resps[i], errs[i]), UseWrite: useBy[tag]}
		if len(o.Result) > 200 {
			o.Result = o.Result[:200]
		}
		if useBy[tag] {
			uses++
		}
		ok := vOK(resps[i], errs[i])
		switch k {
		case "unwrap-third", "unwrap-first", "cubbyhole-first":
			if ok && c19RespContains(resps[i], canary) {
				o.Served = "payload"
			}
		case "rewrap-third":
			if ok && resps[i] != nil && resps[i].WrapInfo != nil && resps[i].WrapInfo.Token != "" {
				o.Served = "successor-token"
				successors = append(successors, resps[i].WrapInfo.Token)
			}
		case "lookup-third":
			if ok && c19RespContains(resps[i], canary) {
				r.Violate("C19-wrapping-lookup-revealed-payload", caseID, "sys/wrapping/lookup returned the wrapped payload", nil)
			}
			if useBy[tag] {
				r.Count("lookups_that_wrote_the_token_record", 1)
			}
		case "refused-first":
			if ok && resps[i] != nil && resps[i].Data != nil {
				r.Violate("C19-denied-allowed", caseID, "a wrapping token was served on a path outside its policy", nil)
			}
		}
		if o.Served != "" {
			served++
			if c19WrapThird(k) {
				servedThird++
			}
		}
		outs[i] = o
	}
	wit := map[string]any{"kinds": kinds, "outcomes": outs, "schedule": sched.String(), "use_limit": 1}
	r.Count("requests", len(kinds))
	if served > 1 {
		class := "C19-wrapping-token-served-more-often-than-its-use-limit"
		if servedThird > 0 {
			class = c19ClassBodyNamed
		}
		r.Violate(class, caseID, fmt.Sprintf("wrapping token (use limit 1): %d of the %d requests %v were handed the wrapped payload or a successor token carrying it (%d of them named the token in the request body); %d use(s) were stored", served, len(kinds), kinds, servedThird, uses), wit)
	} else if uses > 1 {
		r.Violate("C19-too-many-uses", caseID, fmt.Sprintf("wrapping token (use limit 1) had %d requests store a use", uses), wit)
	}
	if served == 1 {
		r.Count("exactly_one_request_served", 1)
		if servedThird == 1 {
			r.Count("served_request_named_the_token_in_the_body", 1)
		}
	}
	for i, k := range kinds {
		if outs[i].Served != "" && !outs[i].UseWrite && served <= 1 {
			class := "C19-success-without-use"
			if c19WrapThird(k) {
				class = "C19-body-named-token-served-without-a-stored-use"
			}
			r.Violate(class, caseID, fmt.Sprintf("request q%d (%s) was handed the payload without a use being stored", i, k), wit)
		}
	}
	// the record is gone or marked used up - unless nothing took the use (lookups only)
	present, left, serr := c19StoredUses(v, salted)
	if serr == nil && present && left >= 0 && uses > 0 {
		r.Violate("C19-use-count-increased", caseID, fmt.Sprintf("wrapping token: %d use(s) were stored, and its record reads num_uses=%d afterwards", uses, left), wit)
	}
	if serr == nil && present && left < 0 {
		r.Count("token_record_left_marked_used_up", 1) // residue is C18's business
	}
	// a later presentation of any kind gets nothing
	if uses > 0 || served > 0 {
		for _, k := range []string{"unwrap-third", "unwrap-first", "cubbyhole-first"} {
			resp, err := c19WrapReq(v, k, "", wtok)
			if vOK(resp, err) && c19RespContains(resp, canary) {
				r.Violate("C19-request-served-after-n-presentations", caseID, "the used-up wrapping token still yields its payload to a later "+k, wit)
			}
		}
	}
	if sched.Overlap() {
		r.Count("overlapping_schedules", 1)
		r.Nontrivial(fmt.Sprintf("%v|%s", kinds, sched.Hash()))
		if destroyGated {
			r.Count("schedules_with_the_cubbyhole_teardown_as_gate_point", 1)
		}
	} else if pol == nil {
		r.Nontrivial(fmt.Sprintf("seq|%v", kinds))
	}
	// clean up: successor tokens and anything left of the original
	for _, s := range successors {
		_, _ = v.Do(vReq{Op: logical.UpdateOperation, Path: "auth/token/revoke", Token: v.Root, Data: map[string]any{"token": s}})
	}
	if present {
		_, _ = v.Do(vReq{Op: logical.UpdateOperation, Path: "auth/token/revoke", Token: v.Root, Data: map[string]any{"token": te.ID}})
	}
	if len(r.Samples) < 6 && served == 1 && sched.Overlap() {
		r.Sample(wit)
	}
	return sched, c19Budget(r, 30)
}

// c19TwoPhase: request a runs i gate steps, then request b runs j gate steps, then a runs to
// completion, then everything else. Records when a prefix could not be followed.
type c19TwoPhase struct {
	a, b   string
	i, j   int
	aShort bool // a finished (or blocked) before its i steps
	bShort bool // b finished (or blocked) before its j steps
}

func (p *c19TwoPhase) Pick(step int, enabled []string, last string) (string, bool) {
	has := func(x string) bool {
		for _, e := range enabled {
			if e == x {
				return true
			}
		}
		return false
	}
	switch {
	case step < p.i:
		if has(p.a) {
			return p.a, false
		}
		p.aShort = true
	case step < p.i+p.j:
		if has(p.b) {
			return p.b, false
		}
		p.bShort = true
	}
	if has(p.a) {
		return p.a, false
	}
	if has(p.b) {
		return p.b, false
	}
	return enabled[0], false
}

func TestVerif_C19_BodyNamedToken(t *testing.T) {
	seed := kit.Seed(19)
	shard, shards := kit.Shard()
	r := kit.NewResult(t, "c19-body-named-token", seed, "m in 2..4 requests against one response-wrapping token (use limit 1): third-party sys/wrapping/unwrap, rewrap and lookup (token named in the request body; uses counted by UseTokenByID) mixed with first-party unwrap, cubbyhole read and a refused request presenting the token; sequential histories; for every ordered pair of consuming kinds every interleaving 'a runs i gate steps, b runs j gate steps, a finishes, b finishes' (gate points: the token's record, lease and cubbyhole keys, so the cubbyhole teardown of the winner is a scheduling point); interleavings with <=2 preemptions (capped) and seeded PCT schedules for mixes of 3..4; oracle: at most one request is handed the payload or a successor token, at most one use is stored, the record is gone or marked used up, nothing later is served; non-trivial = requests overlapped, distinct by (kinds, op-order hash)")
	defer r.Write(t)
	for _, tx := range []bool{false, true} {
		if kit.Tier() == "quick" && tx {
			continue
		}
		v := c19Boot(t, tx)
		// sequential
		rng := kit.NewRand(seed, uint64(shard)*2+b2u(tx)+16_000_000)
		for c := 0; c < kit.N(20, 80); c++ {
			caseID := fmt.Sprintf("wrap:%v:%d:seq:%d", tx, shard, c)
			m := 2 + rng.Intn(3)
			kinds := make([]string, m)
			for i := range kinds {
				kinds[i] = kit.Pick(rng, c19WrapKinds)
			}
			if !kit.WantCase(caseID) {
				continue
			}
			if _, cont := c19WrapCase(t, v, r, caseID, kinds, nil); !cont {
				return
			}
		}
		// the grid for ordered pairs
		consuming := []string{"unwrap-third", "rewrap-third", "unwrap-first", "cubbyhole-first", "refused-first"}
		pi := 0
		for _, a := range consuming {
			for _, b := range consuming {
				if !c19WrapThird(a) && !c19WrapThird(b) {
					continue // two first-party presentations: the other monitors' business
				}
				pi++
				if pi%shards != shard {
					continue
				}
				full := c19WrapThird(a) && c19WrapThird(b)
				if kit.Tier() == "quick" && !full && (a == "refused-first" || b == "refused-first" || a == "cubbyhole-first" || b == "cubbyhole-first") {
					continue
				}
				kinds := []string{a, b}
				for i := 0; i <= 40; i++ {
					aShort := false
					for j := 1; j <= 40; j++ {
						if kit.Tier() == "quick" && !full && (i+j)%3 != 0 {
							continue // a third of the grid for the mixed pairs
						}
						caseID := fmt.Sprintf("wrap:%v:grid:%s:%s:%d:%d", tx, a, b, i, j)
						if !kit.WantCase(caseID) {
							continue
						}
						p := &c19TwoPhase{a: "q0", b: "q1", i: i, j: j}
						if _, cont := c19WrapCase(t, v, r, caseID, kinds, p); !cont {
							return
						}
						r.Count("grid_schedules", 1)
						if p.aShort {
							aShort = true
							break
						}
						if p.bShort {
							break
						}
					}
					if aShort {
						break
					}
				}
			}
		}
		// mixes of 3..4 under bounded exploration and PCT
		for c := 0; c < kit.N(3, 12); c++ {
			mrng := kit.NewRand(seed, uint64(shard*1000+c)*2+b2u(tx)+17_000_000)
			m := 3 + mrng.Intn(2)
			kinds := make([]string, m)
			for i := range kinds {
				kinds[i] = kit.Pick(mrng, c19WrapKinds)
			}
			kinds[0] = kit.Pick(mrng, []string{"unwrap-third", "rewrap-third"})
			kinds[1] = kit.Pick(mrng, []string{"unwrap-third", "rewrap-third"})
			ex := &kit.Explorer{MaxPreempt: 2, MaxRuns: kit.N(15, 80)}
			idx := 0
			stop := false
			ex.Explore(func(pol kit.Policy) (kit.Schedule, bool) {
				idx++
				caseID := fmt.Sprintf("wrap:%v:%d:mix:%d:ex:%d", tx, shard, c, idx)
				if !kit.WantCase(caseID) {
					return kit.Schedule{Diverged: true}, true
				}
				s, cont := c19WrapCase(t, v, r, caseID, kinds, pol)
				if !cont {
					stop = true
				}
				return s, cont
			})
			if stop {
				return
			}
			for k := 0; k < kit.N(10, 40); k++ {
				caseID := fmt.Sprintf("wrap:%v:%d:mix:%d:pct:%d", tx, shard, c, k)
				if !kit.WantCase(caseID) {
					continue
				}
				tags := make([]string, m)
				for i := range tags {
					tags[i] = fmt.Sprintf("q%d", i)
				}
				prng := kit.NewRand(seed, uint64(shard*100000+c*100+k)*2+b2u(tx)+18_000_000)
				if _, cont := c19WrapCase(t, v, r, caseID, kinds, kit.NewPCT(prng, tags, 3, 20*m)); !cont {
					return
				}
			}
		}
		v.Close()
	}
	r.Require("overlapping_schedules", 200)
	r.Require("schedules_with_the_cubbyhole_teardown_as_gate_point", 100)
	r.Require("exactly_one_request_served", 200)
	r.Require("served_request_named_the_token_in_the_body", 100)
}
