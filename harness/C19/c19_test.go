//go:build verif

package vault

// C19: a use-limited token authorises at most its number of uses.

import (
	"fmt"
	"strings"
	"sync"
	"testing"
	"time"

	kit "github.com/openbao/openbao/sdk/v2/helper/verifkit"
	"github.com/openbao/openbao/sdk/v2/logical"
	"github.com/openbao/openbao/v2/internal/helper/namespace"
)

const c19Policy = `
path "rec/data/*" { capabilities = ["read","update","create"] }
path "rec/lease/*" { capabilities = ["read"] }
path "rec/data/denied/*" { capabilities = ["deny"] }
path "auth/token/create" { capabilities = ["update","sudo"] }
path "auth/token/create-orphan" { capabilities = ["update","sudo"] }
`

type c19Outcome struct {
	Kind     string `json:"kind"`
	Result   string `json:"result"`
	UseWrite bool   `json:"use_write"`
	Handler  bool   `json:"handler_ran"`
	LeaseID  string `json:"lease_id,omitempty"`
	GotData  bool   `json:"got_data,omitempty"`
}

var c19Kinds = []string{"read", "write", "denied", "lease", "lookup-self", "create-child", "create-orphan", "existfail"}

func c19Boot(t *testing.T, tx bool) *vCore {
	v := vBoot(t, vOpts{Transactional: tx})
	v.Rec.seq = v.Probe.NextSeq
	v.Mount("rec", "verifrec", "", nil)
	v.Policy("c19", c19Policy, "")
	v.MustDo(vReq{Op: logical.UpdateOperation, Path: "rec/data/item", Token: v.Root, Data: map[string]any{"v": "x"}})
	return v
}

func c19Req(v *vCore, kind, name, tag, token string) (*logical.Response, error) {
	switch kind {
	case "read":
		return v.Do(vReq{Tag: tag, Op: logical.ReadOperation, Path: "rec/data/item", Token: token})
	case "write":
		return v.Do(vReq{Tag: tag, Op: logical.UpdateOperation, Path: "rec/data/w-" + name, Token: token, Data: map[string]any{"v": name}})
	case "denied":
		return v.Do(vReq{Tag: tag, Op: logical.ReadOperation, Path: "rec/data/denied/x", Token: token})
	case "existfail":
		// a write whose create-or-update existence check fails in the backend: refused with an
		// error, but it presented the token and counts as a use
		return v.Do(vReq{Tag: tag, Op: logical.UpdateOperation, Path: "rec/data/existfail/" + name, Token: token, Data: map[string]any{"v": name}})
	case "lease":
		return v.Do(vReq{Tag: tag, Op: logical.ReadOperation, Path: "rec/lease/l-" + name, Token: token})
	case "lookup-self":
		return v.Do(vReq{Tag: tag, Op: logical.ReadOperation, Path: "auth/token/lookup-self", Token: token})
	case "create-child":
		return v.Do(vReq{Tag: tag, Op: logical.UpdateOperation, Path: "auth/token/create", Token: token, Data: map[string]any{"policies": []string{"default"}, "ttl": "1h"}})
	case "create-orphan":
		return v.Do(vReq{Tag: tag, Op: logical.UpdateOperation, Path: "auth/token/create-orphan", Token: token, Data: map[string]any{"policies": []string{"default"}, "ttl": "1h"}})
	}
	if c19IsOperatorKind(kind) {
		// the operator endpoints that are served outside the ordinary request pipeline
		return nil, c19OperatorReq(v, kind, tag, token)
	}
	panic(kind)
}

// c19Case runs m requests of the given kinds against a fresh n-use token under pol (nil = sequential).
func c19Case(t *testing.T, v *vCore, r *kit.Result, caseID string, n int, kinds []string, pol kit.Policy) (kit.Schedule, bool) {
	tok, _, err := v.CreateToken(v.Root, map[string]any{"policies": []string{"c19"}, "ttl": "1h", "num_uses": n}, false, "")
	if err != nil || tok == nil {
		t.Fatalf("verif: cannot create use-limited token: %v", err)
	}
	ctx := namespace.RootContext(t.Context())
	te0, err := v.Core.tokenStore.Lookup(ctx, tok.ID)
	if err != nil || te0 == nil {
		t.Fatalf("verif: cannot look up fresh token: %v", err)
	}
	salted, err := v.Core.tokenStore.SaltID(ctx, te0.ID)
	if err != nil {
		t.Fatal(err)
	}
	idKey := "sys/token/id/" + salted
	recStart := v.Rec.Len()
	v.Probe.StartLog(false)
	outs := make([]c19Outcome, len(kinds))
	resps := make([]*logical.Response, len(kinds))
	errs := make([]error, len(kinds))
	var sched kit.Schedule
	if pol == nil {
		// sequential history: stored num_uses must never increase
		prev := n
		for i, k := range kinds {
			resps[i], errs[i] = c19Req(v, k, fmt.Sprintf("q%d", i), fmt.Sprintf("q%d", i), tok.ID)
			te, lerr := v.Core.tokenStore.lookupTainted(ctx, tok.ID)
			if lerr == nil && te != nil {
				cur := te.NumUses
				if cur > prev && cur > 0 {
					r.Violate("C19-use-count-increased", caseID, fmt.Sprintf("stored num_uses went from %d to %d", prev, cur), map[string]any{"n": n, "kinds": kinds})
				}
				if cur > 0 {
					prev = cur
				}
			}
		}
	} else {
		var reqs []kit.Req
		var mu sync.Mutex
		for i, k := range kinds {
			i, k := i, k
			reqs = append(reqs, kit.Req{Tag: fmt.Sprintf("q%d", i), Fn: func() {
				resp, err := c19Req(v, k, fmt.Sprintf("q%d", i), "", tok.ID) // tag is set by RunGated
				mu.Lock()
				resps[i], errs[i] = resp, err
				mu.Unlock()
			}})
		}
		sched = v.Probe.RunGated(reqs, pol, kit.GateOpts{Filter: func(e kit.Event) bool {
			return strings.HasPrefix(e.Key, "sys/token/id/") || strings.HasPrefix(e.Key, "sys/expire/")
		}})
		if sched.TimedOut {
			v.Probe.StopLog()
			r.Inconc("%s: gate watchdog expired", caseID)
			return sched, false
		}
	}
	evs := v.Probe.StopLog()
	recs := v.Rec.Since(recStart)
	r.Eval(1)

	// use-writes: tagged puts of the token's own id record
	useSeq := map[string]uint64{}
	for _, e := range evs {
		if e.Op == "put" && e.Key == idKey && e.Tag != "" && e.Err == "" {
			if _, ok := useSeq[e.Tag]; !ok {
				useSeq[e.Tag] = e.Seq
			} else {
				r.Count("second_id_write_in_one_request", 1)
			}
		}
	}
	handlerSeq := map[string]uint64{}
	for _, e := range recs {
		if e.Kind == "handler" {
			// map handler to request through its path suffix / kind
			for i, k := range kinds {
				tag := fmt.Sprintf("q%d", i)
				switch k {
				case "write":
					if e.Path == "data/w-"+tag {
						handlerSeq[tag] = e.Seq
					}
				case "lease":
					if e.Path == "lease/l-"+tag {
						handlerSeq[tag] = e.Seq
					}
				}
			}
		}
	}
	// reads share a path: count them
	readHandlers := 0
	for _, e := range recs {
		if e.Kind == "handler" && e.Path == "data/item" && e.Op == "read" {
			readHandlers++
		}
	}
	uses := 0
	okReads := 0
	var uncountedExistfail []string
	var uncountedOperator []string
	var leasesIssued []string
	for i, k := range kinds {
		tag := fmt.Sprintf("q%d", i)
		_, used := useSeq[tag]
		o := c19Outcome{Kind: k, Result: vErrStr(resps[i], errs[i]), UseWrite: used}
		if used {
			uses++
		}
		if hs, ok := handlerSeq[tag]; ok {
			o.Handler = true
			if !used {
				r.Violate("C19-handler-without-use", caseID, fmt.Sprintf("request %s (%s) reached the backend handler without a use being accounted", tag, k), map[string]any{"n": n, "kinds": kinds, "schedule": sched.String()})
			} else if useSeq[tag] > hs {
				r.Violate("C19-handler-before-use", caseID, fmt.Sprintf("request %s (%s): handler ran (seq %d) before the use was stored (seq %d)", tag, k, hs, useSeq[tag]), nil)
			}
		}
		ok := vOK(resps[i], errs[i])
		switch k {
		case "read":
			if ok && resps[i] != nil && resps[i].Data != nil {
				okReads++
				o.GotData = true
				if !used {
					r.Violate("C19-success-without-use", caseID, fmt.Sprintf("request %s (read) returned data without a use being accounted", tag), map[string]any{"n": n, "kinds": kinds, "schedule": sched.String()})
				}
			}
		case "lookup-self":
			if ok && resps[i] != nil && resps[i].Data != nil && !used {
				r.Violate("C19-success-without-use", caseID, fmt.Sprintf("request %s (lookup-self) succeeded without a use being accounted", tag), nil)
			}
		case "lease":
			if ok && resps[i] != nil && resps[i].Secret != nil && resps[i].Secret.LeaseID != "" {
				o.LeaseID = resps[i].Secret.LeaseID
				leasesIssued = append(leasesIssued, o.LeaseID)
			}
		case "create-child", "create-orphan":
			if ok && resps[i] != nil && resps[i].Auth != nil {
				r.Violate("C19-child-created", caseID, fmt.Sprintf("use-limited token (n=%d) created a child token", n), map[string]any{"kinds": kinds})
			}
		case "denied":
			if ok {
				r.Violate("C19-denied-allowed", caseID, "policy-denied path was served", nil)
			}
		case "existfail":
			r.Count("requests_failing_in_the_backend_existence_check", 1)
			if ok {
				r.Violate("C19-harness-existfail-served", caseID, "the failing-existence-check write was served", nil)
			}
			if !used {
				uncountedExistfail = append(uncountedExistfail, tag)
			}
		default:
			if c19IsOperatorKind(k) {
				// presented with a token that lacks the privilege: must be refused, and counts
				r.Count("operator_requests_with_an_unprivileged_token", 1)
				if errs[i] == nil {
					r.Violate("C19-unprivileged-operator-request-took-effect", caseID, fmt.Sprintf("request %s (%s) with a token without sudo on the path was not refused", tag, k), map[string]any{"n": n, "kinds": kinds})
				}
				if !used {
					uncountedOperator = append(uncountedOperator, tag+":"+k)
				}
			}
		}
		outs[i] = o
	}
	wit := map[string]any{"n": n, "kinds": kinds, "outcomes": outs, "schedule": sched.String()}
	// A request that fails inside the backend's existence check presented the token like any
	// other: as long as the token had uses left it must have been counted. (When the other
	// requests spent all n uses first, an uncounted one is simply a refused one.)
	// Sequential history: the requests are presented one after the other, so the first n of them
	// (whatever their outcome: served, denied by policy, failed in the backend) use the token up
	// and every later one must be refused without reaching a handler.
	// Refused seal / step-down requests present the token like any other request: while the token
	// had uses left they must have been counted.
	explained := false
	if uses < n && len(uncountedOperator) > 0 {
		explained = true
		r.Violate("C19-refused-operator-request-consumed-no-use", caseID, fmt.Sprintf("token with num_uses=%d: only %d uses were accounted although %d refused operator request(s) %v also presented it", n, uses, len(uncountedOperator), uncountedOperator), wit)
	}
	if pol == nil && !explained {
		for i := n; i < len(kinds); i++ {
			tag := fmt.Sprintf("q%d", i)
			_, used := useSeq[tag]
			_, handled := handlerSeq[tag]
			served := vOK(resps[i], errs[i]) && resps[i] != nil && (resps[i].Data != nil || resps[i].Secret != nil || resps[i].Auth != nil)
			if used || handled || served {
				r.Violate("C19-request-served-after-n-presentations", caseID, fmt.Sprintf("token with num_uses=%d: request %d of the sequence (%s) was %s although %d requests had presented the token before it", n, i+1, kinds[i], map[bool]string{true: "accounted as a use", false: "served"}[used], i), wit)
				break
			}
		}
	}
	if uses < n && len(uncountedExistfail) > 0 {
		r.Violate("C19-failed-request-not-counted", caseID, fmt.Sprintf("token with num_uses=%d: only %d uses were accounted although %d request(s) %v whose existence check fails in the backend also presented it", n, uses, len(uncountedExistfail), uncountedExistfail), wit)
	}
	if uses > n {
		r.Violate("C19-too-many-uses", caseID, fmt.Sprintf("token with num_uses=%d had %d requests accounted/authorised", n, uses), wit)
	}
	if len(kinds) >= n && uses < n && !explained {
		r.Violate("C19-too-few-uses", caseID, fmt.Sprintf("token with num_uses=%d: only %d of %d requests were accounted (a use was lost)", n, uses, len(kinds)), wit)
	}
	if readHandlers > okReads+0 && readHandlers > n {
		r.Violate("C19-too-many-uses", caseID, fmt.Sprintf("backend served %d reads for a %d-use token", readHandlers, n), wit)
	}
	// the request that took the final use must not hand out a leased secret: every returned lease
	// must belong to a request that was not the last accounted one -> after exhaustion all are revoked
	// The revocation after the last use is handed to the expiration workers (LazyRevoke), so it
	// is asynchronous: wait (bounded, generous) until the token's record is gone before judging
	// what must have died with it. Not reached = inconclusive, never a violation.
	if uses >= n {
		// Decided from storage, no waiting: the request that took the final use queues the token's
		// revocation before it returns (the token's own lease is marked due). All requests have
		// returned here, so the token's record is either gone already or its lease is gone / due.
		if e, gerr := v.Core.tokenStore.idView(namespace.RootNamespace).Get(ctx, salted); gerr == nil && e != nil {
			r.Count("final_use_revocation_queue_checks", 1)
			if st := c19LeaseState(v, "auth/token/create/"+salted); st == "live" {
				// which request took the final use? (the last use-write)
				lastTag, lastSeq := "", uint64(0)
				for tg, sq := range useSeq {
					if sq >= lastSeq {
						lastTag, lastSeq = tg, sq
					}
				}
				lastKind := ""
				for i, k := range kinds {
					if fmt.Sprintf("q%d", i) == lastTag {
						lastKind = k
					}
				}
				if c19IsOperatorKind(lastKind) {
					var lst []string
					for _, l := range leasesIssued {
						lst = append(lst, l+"="+c19LeaseState(v, l))
					}
					r.Violate(c19ClassRefusedFinal, caseID, fmt.Sprintf("token with num_uses=%d: the final use was taken by request %s (%s), which was refused by policy; every request has returned, the token's record is stored as revocation-pending and its own lease is neither gone nor due: the revocation of the token (with its leases %v and its cubbyhole) was never queued and will only happen when the token's TTL runs out", n, lastTag, lastKind, lst), wit)
					c19RootRevoke(v, tok.ID)
					if sched.Overlap() {
						r.Count("overlapping_schedules", 1)
						r.Nontrivial(fmt.Sprintf("%d|%v|%s", n, kinds, sched.Hash()))
					}
					if uses == n {
						r.Count("exactly_n_uses", 1)
					}
					return sched, c19Budget(r, 50)
				}
				r.Violate("C19-final-use-did-not-queue-revocation", caseID, fmt.Sprintf("token with num_uses=%d: all %d uses are spent and every request has returned, but the token's record is present and its own lease is neither gone nor due: its revocation (with its leases and cubbyhole) was never queued", n, uses), wit)
				return sched, true
			}
		}
		gone := false
		for i := 0; i < 3000 && !gone; i++ {
			e, gerr := v.Core.tokenStore.idView(namespace.RootNamespace).Get(ctx, salted)
			gone = gerr == nil && e == nil
			if !gone {
				time.Sleep(5 * time.Millisecond)
			}
		}
		if !gone {
			r.Inconc("%s: token record still present 15s after its last use (revocation worker did not finish)", caseID)
			return sched, true
		}
	}
	v.WaitQuiet(10*time.Millisecond, 2*time.Second)
	if usable := v.TokenUsable(tok.ID, ""); usable && !explained {
		r.Violate("C19-token-usable-after-exhaustion", caseID, fmt.Sprintf("token with num_uses=%d still usable after %d requests", n, len(kinds)), wit)
	}
	for _, l := range leasesIssued {
		if explained {
			break // the token was never used up (reported above)
		}
		r.Count("leases_returned", 1)
		if st := c19LeaseState(v, l); st == "live" {
			r.Violate("C19-lease-live-after-exhaustion", caseID, "lease "+l+" returned under the token is still live after the token was exhausted", wit)
		}
	}
	// a lease created by the backend but not returned (final use) must be revoked at the backend
	issued, revoked := map[string]bool{}, map[string]bool{}
	for _, e := range v.Rec.Since(recStart) {
		if e.Kind == "issued" {
			issued[e.ID] = true
		}
		if e.Kind == "revoked" {
			revoked[e.ID] = true
		}
	}
	for id := range issued {
		if !revoked[id] {
			r.Count("backend_secret_not_yet_revoked", 1)
		}
	}
	if sched.Overlap() {
		r.Count("overlapping_schedules", 1)
		r.Nontrivial(fmt.Sprintf("%d|%v|%s", n, kinds, sched.Hash()))
	} else if pol == nil {
		r.Nontrivial(fmt.Sprintf("seq|%d|%v", n, kinds))
	}
	if uses == n {
		r.Count("exactly_n_uses", 1)
	}
	r.Count("requests", len(kinds))
	r.Sample(wit)
	return sched, c19Budget(r, 50)
}

// c19Settle wraps a scheduling policy: before every decision it lets the goroutines that are
// not under the gate - the expiration workers that carry out a queued token revocation - run
// until the store has been quiet for a moment, so that "the revocation ran to completion between
// two storage operations of a request" is a schedule that is explored on purpose and not only
// when the machine happens to be fast. Scheduling only; no verdict depends on it.
type c19Settle struct {
	inner kit.Policy
	v     *vCore
}

func (s c19Settle) Pick(step int, enabled []string, last string) (string, bool) {
	lastN, since := s.v.Probe.LogLen(), time.Now()
	deadline := since.Add(20 * time.Millisecond)
	for time.Now().Before(deadline) {
		time.Sleep(100 * time.Microsecond)
		if n := s.v.Probe.LogLen(); n != lastN {
			lastN, since = n, time.Now()
		} else if time.Since(since) >= 400*time.Microsecond {
			break
		}
	}
	return s.inner.Pick(step, enabled, last)
}

func c19LeaseState(v *vCore, leaseID string) string {
	ctx := namespace.RootContext(nil)
	e, err := v.Core.expiration.leaseView(namespace.RootNamespace).Get(ctx, leaseID)
	if err != nil {
		return "error"
	}
	if e == nil {
		return "gone"
	}
	le, err := decodeLeaseEntry(e.Value)
	if err != nil {
		return "error"
	}
	if !le.ExpireTime.After(time.Now()) {
		return "queued"
	}
	return "live"
}

func TestVerif_C19_Sequential(t *testing.T) {
	seed := kit.Seed(19)
	r := kit.NewResult(t, "c19-sequential", seed, "sequential histories of m>n mixed requests (read, write, policy-denied, lease-generating, lookup-self, create-child) with an n-use token, n in 1..4: use accounting observed as the request's tagged write of the token's id record; uses<=n and ==n, handler only after its use-write, stored num_uses never increases, token refused afterwards, returned leases not live, child creation always refused; distinct by (n, kinds)")
	defer r.Write(t)
	for _, tx := range []bool{false, true} {
		v := c19Boot(t, tx)
		for n := 1; n <= 4; n++ {
			for c := 0; c < kit.N(6, 40); c++ {
				caseID := fmt.Sprintf("seq:%v:%d:%d", tx, n, c)
				if !kit.WantCase(caseID) {
					continue
				}
				rng := kit.NewRand(seed, uint64(n*1000+c)*2+b2u(tx))
				m := n + 1 + rng.Intn(4)
				kinds := make([]string, m)
				for i := range kinds {
					kinds[i] = kit.Pick(rng, c19Kinds)
				}
				if _, cont := c19Case(t, v, r, caseID, n, kinds, nil); !cont {
					return
				}
			}
		}
		v.Close()
	}
	r.Require("exactly_n_uses", 20)
}

func b2u(b bool) uint64 {
	if b {
		return 1
	}
	return 0
}

func TestVerif_C19_Schedules(t *testing.T) {
	seed := kit.Seed(19)
	shard, _ := kit.Shard()
	r := kit.NewResult(t, "c19-schedules", seed, "m>n concurrent mixed requests presenting one n-use token (n in 1..4, m in n+1..n+4) under the storage-operation gate (gate points: sys/token/id/*, sys/expire/*): interleavings with <=2 preemptions (capped) and seeded PCT schedules; same oracle as the sequential monitor; non-trivial = requests overlapped, distinct by (n, kinds, op-order hash)")
	defer r.Write(t)
	for _, tx := range []bool{false, true} {
		v := c19Boot(t, tx)
		for n := 1; n <= 4; n++ {
			for c := 0; c < kit.N(2, 8); c++ {
				rng := kit.NewRand(seed, uint64(shard*100000+n*1000+c)*2+b2u(tx))
				m := n + 1 + rng.Intn(3)
				kinds := make([]string, m)
				for i := range kinds {
					kinds[i] = kit.Pick(rng, c19Kinds)
				}
				if c == 0 {
					for i := range kinds {
						kinds[i] = "read"
					}
				}
				ex := &kit.Explorer{MaxPreempt: 2, MaxRuns: kit.N(12, 60)}
				idx := 0
				stop := false
				ex.Explore(func(pol kit.Policy) (kit.Schedule, bool) {
					idx++
					caseID := fmt.Sprintf("sch:%v:%d:%d:%d:ex:%d", tx, shard, n, c, idx)
					if !kit.WantCase(caseID) {
						return kit.Schedule{Diverged: true}, true
					}
					var p kit.Policy = pol
					if kit.Tier() != "quick" && idx%2 == 0 {
						p = c19Settle{pol, v}
					}
					s, cont := c19Case(t, v, r, caseID, n, kinds, p)
					if !cont {
						stop = true
					}
					return s, cont
				})
				if stop {
					return
				}
				for k := 0; k < kit.N(8, 40); k++ {
					caseID := fmt.Sprintf("sch:%v:%d:%d:%d:pct:%d", tx, shard, n, c, k)
					if !kit.WantCase(caseID) {
						continue
					}
					tags := make([]string, m)
					for i := range tags {
						tags[i] = fmt.Sprintf("q%d", i)
					}
					prng := kit.NewRand(seed, uint64(shard*100000+n*1000+c*100+k)*2+b2u(tx)+7_000_000)
					var pol kit.Policy = kit.NewPCT(prng, tags, 3, 12*m)
					if k%2 == 0 {
						pol = c19Settle{pol, v}
					}
					if _, cont := c19Case(t, v, r, caseID, n, kinds, pol); !cont {
						return
					}
				}
			}
		}
		v.Close()
	}
	r.Require("overlapping_schedules", 100)
	r.Require("exactly_n_uses", 100)
}

// TestVerif_C19_LeaseVsFinalUse: the race between a request that holds a non-final use and
// generates a leased secret, and the request(s) that spend the remaining uses - whose queued
// revocation lists the token's leases. Directed enumeration of every single-preemption
// interleaving: the lease-generating request q0 runs j gate steps (j = 0, 1, 2, ... until it
// would have finished), then the other request(s) run to completion one after the other, the
// expiration workers are given time to carry out the revocation (c19Settle), then q0 finishes.
// And the mirror image (the others first for j steps). Same oracle as the schedules monitor: a
// lease that was returned must not be live once the token is used up and gone.
func TestVerif_C19_LeaseVsFinalUse(t *testing.T) {
	seed := kit.Seed(19)
	if shard, _ := kit.Shard(); shard != 0 {
		t.Skip("directed enumeration without randomness: shard 0 runs it")
	}
	r := kit.NewResult(t, "c19-lease-vs-final-use", seed, "n in 2..3, requests [lease, (lease,) X] with X in read/lookup-self/denied/lease/write presenting one n-use token plus one request too many; every interleaving with a single preemption of the first request after j gate steps (gate points sys/token/id/*, sys/expire/*), in both orders, expiration workers settled before every scheduling decision; oracle of the schedules monitor; non-trivial = requests overlapped, distinct by (n, kinds, op-order hash)")
	defer r.Write(t)
	for _, tx := range []bool{false, true} {
		if kit.Tier() == "quick" && tx {
			continue
		}
		v := c19Boot(t, tx)
		for n := 2; n <= 3; n++ {
			for xi, x := range []string{"read", "lookup-self", "denied", "lease", "write"} {
				if kit.Tier() == "quick" && n == 3 && xi%2 == 1 {
					continue
				}
				kinds := []string{"lease"}
				for i := 0; i < n-2; i++ {
					kinds = append(kinds, "lease")
				}
				kinds = append(kinds, x, "lookup-self") // n requests use the token up, one more is refused
				for _, first := range []int{0, len(kinds) - 2} {
					ftag := fmt.Sprintf("q%d", first)
					for j := 0; j <= 24; j++ {
						caseID := fmt.Sprintf("lvf:%v:%d:%s:%d:%d", tx, n, x, first, j)
						if !kit.WantCase(caseID) {
							continue
						}
						var choices []string
						for i := 0; i < j; i++ {
							choices = append(choices, ftag)
						}
						// then the others, in tag order, each to completion; the first request last
						for i := range kinds {
							if i != first {
								choices = append(choices, fmt.Sprintf("q%d", i))
								break
							}
						}
						sched, cont := c19Case(t, v, r, caseID, n, kinds, c19Settle{c19RunOthersFirst{choices: choices, hold: ftag}, v})
						if !cont {
							return
						}
						if sched.Diverged {
							break // q0 had fewer than j steps: all preemption points are covered
						}
					}
				}
			}
		}
		v.Close()
	}
	r.Require("overlapping_schedules", 60)
	r.Require("exactly_n_uses", 60)
	r.Require("leases_returned", 30)
}

// c19RunOthersFirst follows choices, then runs every request other than hold to completion
// (keeping the last one while it is enabled), and hold only when nothing else is enabled.
type c19RunOthersFirst struct {
	choices []string
	hold    string
}

func (s c19RunOthersFirst) Pick(step int, enabled []string, last string) (string, bool) {
	if step < len(s.choices) {
		for _, e := range enabled {
			if e == s.choices[step] {
				return e, false
			}
		}
		// the scripted request is not enabled (finished or blocked): report divergence only when
		// it was the held request's own prefix that ran out
		div := s.choices[step] == s.hold
		return s.rest(enabled, last), div
	}
	return s.rest(enabled, last), false
}

func (s c19RunOthersFirst) rest(enabled []string, last string) string {
	if last != s.hold {
		for _, e := range enabled {
			if e == last {
				return e
			}
		}
	}
	for _, e := range enabled {
		if e != s.hold {
			return e
		}
	}
	return enabled[0]
}
