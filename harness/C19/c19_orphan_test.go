//go:build verif

package vault

// C19 under a concurrent change of the token's own record by somebody else: the parent of
// the use-limited token is revoked with revoke-orphan while requests present the token.
// Orphaning rewrites the child's record (parent cleared); it must not give uses back.

import (
	"fmt"
	"strings"
	"sync"
	"testing"

	kit "github.com/openbao/openbao/sdk/v2/helper/verifkit"
	"github.com/openbao/openbao/sdk/v2/logical"
	"github.com/openbao/openbao/v2/internal/helper/namespace"
)

func c19OrphanCase(t *testing.T, v *vCore, r *kit.Result, caseID string, n, m int, pol kit.Policy) (kit.Schedule, bool) {
	parent, _, err := v.CreateToken(v.Root, map[string]any{"policies": []string{"c19"}, "ttl": "1h"}, false, "")
	if err != nil || parent == nil {
		t.Fatalf("verif: parent token: %v", err)
	}
	tok, _, err := v.CreateToken(parent.ID, map[string]any{"policies": []string{"c19"}, "ttl": "1h", "num_uses": n}, false, "")
	if err != nil || tok == nil {
		t.Fatalf("verif: use-limited child token: %v", err)
	}
	ctx := namespace.RootContext(t.Context())
	te0, err := v.Core.tokenStore.Lookup(ctx, tok.ID) // tok.ID is the signed form; the record is keyed by the inner id
	if err != nil || te0 == nil {
		t.Fatalf("verif: cannot look up fresh token: %v", err)
	}
	salted, err := v.Core.tokenStore.SaltID(ctx, te0.ID)
	if err != nil {
		t.Fatal(err)
	}
	recStart := v.Rec.Len()
	resps := make([]*logical.Response, m+1)
	errs := make([]error, m+1)
	var mu sync.Mutex
	var reqs []kit.Req
	for i := 0; i < m; i++ {
		i := i
		reqs = append(reqs, kit.Req{Tag: fmt.Sprintf("q%d", i), Fn: func() {
			resp, err := c19Req(v, "read", fmt.Sprintf("q%d", i), "", tok.ID)
			mu.Lock()
			resps[i], errs[i] = resp, err
			mu.Unlock()
		}})
	}
	reqs = append(reqs, kit.Req{Tag: "orphan", Fn: func() {
		resp, err := v.Do(vReq{Op: logical.UpdateOperation, Path: "auth/token/revoke-orphan", Token: v.Root, Data: map[string]any{"token": parent.ID}})
		mu.Lock()
		resps[m], errs[m] = resp, err
		mu.Unlock()
	}})
	sched := v.Probe.RunGated(reqs, pol, kit.GateOpts{Filter: func(e kit.Event) bool {
		return strings.HasPrefix(e.Key, "sys/token/id/"+salted) || strings.HasPrefix(e.Key, "sys/token/parent/")
	}})
	if sched.TimedOut {
		r.Inconc("%s: gate watchdog expired", caseID)
		return sched, false
	}
	r.Eval(1)
	served, okReads := 0, 0
	for _, e := range v.Rec.Since(recStart) {
		if e.Kind == "handler" && e.Path == "data/item" && e.Op == "read" {
			served++
		}
	}
	var outs []string
	for i := 0; i < m; i++ {
		if vOK(resps[i], errs[i]) && resps[i] != nil && resps[i].Data != nil {
			okReads++
		}
		outs = append(outs, vErrStr(resps[i], errs[i]))
	}
	orphaned := vOK(resps[m], errs[m])
	if orphaned {
		r.Count("parent_orphan_revocations_succeeded", 1)
	}
	// sequentially spend whatever the record still grants: the total must not exceed n
	extra := 0
	for i := 0; i < n+2; i++ {
		resp, err := c19Req(v, "read", "x", "", tok.ID)
		if vOK(resp, err) && resp != nil && resp.Data != nil {
			extra++
		}
	}
	wit := map[string]any{"n": n, "concurrent_reads": m, "served_concurrently": okReads, "served_afterwards": extra, "orphan_parent": vErrStr(resps[m], errs[m]), "outcomes": outs, "schedule": sched.String()}
	if okReads+extra > n || served > n && okReads+extra > n {
		r.Violate("C19-uses-restored-by-concurrent-orphaning", caseID, fmt.Sprintf("token with num_uses=%d served %d reads (%d concurrently with the orphaning of its parent, %d afterwards)", n, okReads+extra, okReads, extra), wit)
	}
	if okReads+extra == n {
		r.Count("exactly_n_uses", 1)
	}
	if len(r.Samples) < 6 {
		r.Sample(wit)
	}
	if sched.Overlap() {
		r.Count("overlapping_schedules", 1)
		r.Nontrivial(fmt.Sprintf("%d|%d|%s", n, m, sched.Hash()))
	}
	return sched, r.NViolations() < 20
}

func TestVerif_C19_ParentOrphaned(t *testing.T) {
	seed := kit.Seed(19)
	shard, _ := kit.Shard()
	r := kit.NewResult(t, "c19-parent-orphaned", seed, "m reads (m in 1..n+1) presenting an n-use token (n in 1..3) run concurrently with auth/token/revoke-orphan of the token's parent (which rewrites the child's record) under the storage-operation gate (gate points: the token's id record, sys/token/parent/*): interleavings with <=2 preemptions (capped) and seeded PCT schedules; afterwards the remaining uses are spent sequentially; reads served in total must not exceed n; non-trivial = requests overlapped, distinct by (n, m, op-order hash)")
	defer r.Write(t)
	for _, tx := range []bool{false, true} {
		v := c19Boot(t, tx)
		for n := 1; n <= 3; n++ {
			for m := 1; m <= n+1; m++ {
				if kit.Tier() == "quick" && m != 1 && m != n {
					continue
				}
				ex := &kit.Explorer{MaxPreempt: 2, MaxRuns: kit.N(10, 60)}
				idx := 0
				stop := false
				ex.Explore(func(pol kit.Policy) (kit.Schedule, bool) {
					idx++
					caseID := fmt.Sprintf("orph:%v:%d:%d:%d:ex:%d", tx, shard, n, m, idx)
					if !kit.WantCase(caseID) {
						return kit.Schedule{Diverged: true}, true
					}
					s, cont := c19OrphanCase(t, v, r, caseID, n, m, pol)
					if !cont {
						stop = true
					}
					return s, cont
				})
				if stop {
					return
				}
				for k := 0; k < kit.N(6, 40); k++ {
					caseID := fmt.Sprintf("orph:%v:%d:%d:%d:pct:%d", tx, shard, n, m, k)
					if !kit.WantCase(caseID) {
						continue
					}
					tags := []string{"orphan"}
					for i := 0; i < m; i++ {
						tags = append(tags, fmt.Sprintf("q%d", i))
					}
					prng := kit.NewRand(seed, uint64(shard*100000+n*1000+m*100+k)*2+b2u(tx)+9_000_000)
					if _, cont := c19OrphanCase(t, v, r, caseID, n, m, kit.NewPCT(prng, tags, 3, 12*(m+1))); !cont {
						return
					}
				}
			}
		}
		v.Close()
	}
	r.Require("overlapping_schedules", 30)
	r.Require("parent_orphan_revocations_succeeded", 30)
}
