//go:build verif

package vault

// C19 at the request entry points that do their own token accounting. Core.SealWithRequest /
// Core.Seal (sys/seal) and Core.StepDown (sys/step-down) do not go through handleRequest: they
// resolve the token, audit, count a use and check the policy themselves. A presentation of a
// use-limited token to one of them is a presentation like any other: it takes one of the n uses
// whether it is then refused by policy or carried out, a final use revokes the token, and after n
// presentations of any kind to any entry point every further one is rejected.
//
// The monitor runs on an HA-capable core (in-memory HA backend, a single node) because StepDown
// is a no-op that never looks at the token on a core without HA.
//
//   sequential: n in 1..4, m > n presentations drawn from the ordinary request kinds plus the
//   operator kinds, with a token that lacks sudo on sys/seal / sys/step-down (every operator
//   request refused) and with a token that has it (the core really seals / steps down: the
//   harness unseals it again / waits for it to take the lock back). Oracle from storage: the
//   stored use count falls by exactly one per presentation until it is used up, and from then on
//   nothing is served, sealed or stepped down.
//
//   concurrent: the same mixes with the unprivileged token under the storage-operation gate
//   (c19Case; a use is the request's own tagged write of the token's id record).

import (
	"context"
	"fmt"
	"sync/atomic"
	"testing"
	"time"

	kit "github.com/openbao/openbao/sdk/v2/helper/verifkit"
	"github.com/openbao/openbao/sdk/v2/logical"
	"github.com/openbao/openbao/sdk/v2/physical"
	"github.com/openbao/openbao/sdk/v2/physical/inmem"
	"github.com/openbao/openbao/v2/internal/helper/namespace"
	"github.com/openbao/openbao/v2/internal/vault/seal"
)

const c19OperatorPolicy = c19Policy + `
path "sys/seal" { capabilities = ["update","sudo"] }
path "sys/step-down" { capabilities = ["update","sudo"] }
`

// operator kinds: seal through a request (what the HTTP handler does), seal by token string
// (Core.Seal), step-down
var c19OperatorKinds = []string{"op-seal-request", "op-seal-token", "op-step-down"}

// c19ClassRefusedFinal: sealInitCommon / StepDown count the use, then check the policy, and only
// a request that passes the check reaches the "final use: revoke the token now" step.
const c19ClassRefusedFinal = "C19-refused-operator-request-on-final-use-leaves-token-unrevoked"

// c19Budget: stop a monitor after max violations, not counting the ones of c19ClassRefusedFinal
// (which fire in every case of that shape and must not cut the exploration short).
func c19Budget(r *kit.Result, max int) bool {
	return r.NViolations()-int(r.Get("violations:"+c19ClassRefusedFinal)) < max
}

func c19RootRevoke(v *vCore, token string) {
	_, _ = v.Do(vReq{Op: logical.UpdateOperation, Path: "auth/token/revoke", Token: v.Root, Data: map[string]any{"token": token}})
}

func c19IsOperatorKind(k string) bool {
	for _, o := range c19OperatorKinds {
		if o == k {
			return true
		}
	}
	return false
}

// c19OperatorReq presents token to an operator entry point on the calling goroutine.
func c19OperatorReq(v *vCore, kind, tag, token string) error {
	if tag != "" && v.Probe != nil {
		v.Probe.Tag(tag)
		defer v.Probe.Untag()
	}
	ctx := namespace.RootContext(context.Background())
	switch kind {
	case "op-seal-request":
		return v.Core.SealWithRequest(ctx, &logical.Request{Operation: logical.UpdateOperation, Path: "sys/seal", ClientToken: token, Connection: &logical.Connection{RemoteAddr: "127.0.0.1"}})
	case "op-seal-token":
		return v.Core.Seal(token)
	case "op-step-down":
		return v.Core.StepDown(ctx, &logical.Request{Operation: logical.UpdateOperation, Path: "sys/step-down", ClientToken: token, Connection: &logical.Connection{RemoteAddr: "127.0.0.1"}})
	}
	panic(kind)
}

// ---------------------------------------------------------------- an HA-capable single core

type c19HALocks struct {
	physical.HABackend
	acquired *atomic.Int32
}

func (b *c19HALocks) LockWith(key, value string) (physical.Lock, error) {
	l, err := b.HABackend.LockWith(key, value)
	if err != nil {
		return nil, err
	}
	return &c19HALock{inner: l, acquired: b.acquired}, nil
}

type c19HALock struct {
	inner    physical.Lock
	acquired *atomic.Int32
}

func (l *c19HALock) Unlock() error                { return l.inner.Unlock() }
func (l *c19HALock) Value() (bool, string, error) { return l.inner.Value() }
func (l *c19HALock) Lock(stopCh <-chan struct{}) (<-chan struct{}, error) {
	ch, err := l.inner.Lock(stopCh)
	if err == nil && ch != nil {
		l.acquired.Add(1)
	}
	return ch, err
}

type c19HA struct {
	*vCore
	acquired atomic.Int32 // how often this node took the HA lock (= became active)
}

func c19IsActive(c *Core) bool {
	if c.Sealed() || c.Standby() {
		return false
	}
	c.stateLock.RLock()
	ok := !c.standby.Load() && c.namespaceStore != nil && c.tokenStore != nil && c.expiration != nil
	c.stateLock.RUnlock()
	return ok
}

func (h *c19HA) waitActive(max time.Duration) bool {
	return c19Wait(max, func() bool { return c19IsActive(h.Core) })
}

// c19HABoot is vBoot with an HA backend (the common helper has no option for one).
func c19HABoot(t *testing.T, tx bool) *c19HA {
	manualStepDownSleepPeriod = 10 * time.Millisecond
	h := &c19HA{}
	v := &vCore{t: t, Opts: vOpts{Transactional: tx}}
	v.Phys, v.Probe = kit.NewInmemProbe(tx)
	logger := vLogger()
	conf := testCoreConfig(&vT{t}, v.Phys, logger)
	conf.DisableCache = true
	conf.NumExpirationWorkers = numExpirationWorkersTest
	hb, err := inmem.NewInmemHA(nil, logger)
	if err != nil {
		t.Fatalf("verif: NewInmemHA: %v", err)
	}
	conf.HAPhysical = &c19HALocks{HABackend: hb.(physical.HABackend), acquired: &h.acquired}
	conf.RedirectAddr = "http://127.0.0.1:8200"
	v.Rec = newVRec()
	conf.LogicalBackends["verifrec"] = v.Rec.Factory(logical.TypeLogical)
	conf.CredentialBackends["verifrec"] = v.Rec.Factory(logical.TypeCredential)
	v.Access, _ = seal.NewTestSeal(&seal.TestSealOpts{Logger: logger})
	s, err := NewAutoSeal(v.Access)
	if err != nil {
		t.Fatalf("verif: NewAutoSeal: %v", err)
	}
	conf.Seal = s
	core, err := NewCore(conf)
	if err != nil {
		t.Fatalf("verif: NewCore: %v", err)
	}
	v.Core = core
	v.Keys, v.Root = TestCoreInit(&vT{t}, core)
	if err := core.UnsealWithStoredKeys(namespace.RootContext(context.Background())); err != nil {
		t.Fatalf("verif: unseal with stored keys: %v", err)
	}
	h.vCore = v
	t.Cleanup(v.Close)
	if !h.waitActive(30 * time.Second) {
		t.Fatalf("verif: HA core did not become active")
	}
	v.Rec.seq = v.Probe.NextSeq
	v.Mount("rec", "verifrec", "", nil)
	v.Policy("c19", c19Policy, "")
	v.Policy("c19op", c19OperatorPolicy, "")
	v.MustDo(vReq{Op: logical.UpdateOperation, Path: "rec/data/item", Token: v.Root, Data: map[string]any{"v": "x"}})
	return h
}

// unseal brings the core back after a seal that took effect.
func (h *c19HA) unseal() bool {
	if err := h.Core.UnsealWithStoredKeys(namespace.RootContext(context.Background())); err != nil {
		return false
	}
	return h.waitActive(30 * time.Second)
}

// ---------------------------------------------------------------- sequential monitor

type c19OpStep struct {
	Kind      string `json:"kind"`
	Result    string `json:"result"`
	UsesBefore string `json:"stored_uses_before"`
	UsesAfter  string `json:"stored_uses_after"`
	Effect    string `json:"effect,omitempty"` // sealed | stepped-down
	Handler   bool   `json:"handler_ran,omitempty"`
}

func c19UsesStr(present bool, uses int, err error) string {
	switch {
	case err != nil:
		return "error:" + err.Error()
	case !present:
		return "gone"
	case uses < 0:
		return "revocation-pending"
	}
	return fmt.Sprint(uses)
}

func c19OperatorSeqCase(t *testing.T, h *c19HA, r *kit.Result, caseID string, n int, privileged bool, kinds []string) bool {
	v := h.vCore
	pol := "c19"
	if privileged {
		pol = "c19op"
	}
	tok, _, err := v.CreateToken(v.Root, map[string]any{"policies": []string{pol}, "ttl": "1h", "num_uses": n}, false, "")
	if err != nil || tok == nil {
		t.Fatalf("verif: cannot create use-limited token: %v", err)
	}
	ctx := namespace.RootContext(context.Background())
	te0, err := v.Core.tokenStore.Lookup(ctx, tok.ID)
	if err != nil || te0 == nil {
		t.Fatalf("verif: cannot look up fresh token: %v", err)
	}
	salted, err := v.Core.tokenStore.SaltID(ctx, te0.ID)
	if err != nil {
		t.Fatal(err)
	}
	r.Eval(1)
	steps := make([]c19OpStep, 0, len(kinds))
	wit := map[string]any{"n": n, "token_policy": pol, "kinds": kinds}
	var leases []string
	unrevoked := false
	left := n // reference: uses the token has left
	for i, k := range kinds {
		tag := fmt.Sprintf("q%d", i)
		bp, bu, berr := c19StoredUses(v, salted)
		st := c19OpStep{Kind: k, UsesBefore: c19UsesStr(bp, bu, berr)}
		recStart := v.Rec.Len()
		acq := h.acquired.Load()
		var resp *logical.Response
		var rerr error
		op := c19IsOperatorKind(k)
		if op {
			rerr = c19OperatorReq(v, k, tag, tok.ID)
		} else {
			resp, rerr = c19Req(v, k, tag, tag, tok.ID)
		}
		st.Result = vErrStr(resp, rerr)
		// what did the request bring about?
		if op {
			if v.Core.Sealed() {
				st.Effect = "sealed"
				if !h.unseal() {
					r.Inconc("%s: core did not come back after a seal", caseID)
					return false
				}
			} else if k == "op-step-down" && rerr == nil {
				// queued: wait until this node has taken the lock again
				if !c19Wait(30*time.Second, func() bool { return h.acquired.Load() > acq && c19IsActive(v.Core) }) {
					r.Inconc("%s: core did not become active again after a step-down", caseID)
					return false
				}
				st.Effect = "stepped-down"
			} else if rerr == nil {
				st.Effect = "reported-success"
			}
		}
		for _, e := range v.Rec.Since(recStart) {
			if e.Kind == "handler" {
				st.Handler = true
			}
		}
		served := !op && vOK(resp, rerr) && resp != nil && (resp.Data != nil || resp.Secret != nil || resp.Auth != nil)
		if !op && k == "lease" && vOK(resp, rerr) && resp != nil && resp.Secret != nil && resp.Secret.LeaseID != "" {
			leases = append(leases, resp.Secret.LeaseID)
		}
		ap, au, aerr := c19StoredUses(v, salted)
		st.UsesAfter = c19UsesStr(ap, au, aerr)
		steps = append(steps, st)
		wit["steps"] = steps
		if berr != nil || aerr != nil {
			r.Inconc("%s: cannot read the token record", caseID)
			return true
		}
		r.Count("presentations", 1)
		if op {
			r.Count("presentations_to_operator_endpoints", 1)
		}
		what := fmt.Sprintf("token with num_uses=%d (policy %s), presentation %d of %v (%s): ", n, pol, i+1, kinds, k)
		if left > 0 {
			// the token has uses left: this presentation takes exactly one
			consumed := false
			switch {
			case left > 1:
				consumed = ap && au == left-1
			default:
				consumed = !ap || au < 0
			}
			switch {
			case consumed:
				left--
				r.Count("presentations_that_took_a_use", 1)
				if left == 0 && ap {
					// The final use. Decided from storage, no waiting: whichever entry point took
					// it has, by the time it returns, revoked the token or queued its revocation
					// (the token's own lease is gone or due).
					r.Count("final_use_revocation_queue_checks", 1)
					if c19LeaseState(v, "auth/token/create/"+salted) == "live" {
						unrevoked = true
						var lst []string
						for _, l := range leases {
							lst = append(lst, l+"="+c19LeaseState(v, l))
						}
						if op && st.Effect == "" {
							r.Violate(c19ClassRefusedFinal, caseID, what+"took the final use and was refused by policy ("+st.Result+"); the token's record is stored as revocation-pending and its own lease is neither gone nor due: the revocation of the token (with its leases "+fmt.Sprint(lst)+" and its cubbyhole) was never queued and will only happen when the token's TTL runs out", wit)
						} else {
							r.Violate("C19-final-use-did-not-queue-revocation", caseID, what+"took the final use; the token's record is present and its own lease is neither gone nor due: its revocation was never queued", wit)
						}
					}
				}
				if op && st.Effect == "" {
					r.Count("refused_operator_requests_that_took_a_use", 1)
				}
				if op && (st.Effect == "sealed" || st.Effect == "stepped-down") {
					r.Count("authorised_operator_requests_that_took_a_use", 1)
					if left == 0 {
						r.Count("operator_request_took_the_final_use", 1)
					}
				}
			case ap && au == left && op && st.Effect == "":
				r.Violate("C19-refused-operator-request-consumed-no-use", caseID, what+"was refused ("+st.Result+") and the stored use count stayed at "+st.UsesAfter+": a refused request to this entry point is free", wit)
				return c19Budget(r, 30)
			case ap && au == left && op:
				r.Violate("C19-authorised-operator-request-consumed-no-use", caseID, what+"took effect ("+st.Effect+") and the stored use count stayed at "+st.UsesAfter, wit)
				return c19Budget(r, 30)
			case ap && au == left:
				r.Violate("C19-presentation-consumed-no-use", caseID, what+"answered "+st.Result+" and the stored use count stayed at "+st.UsesAfter, wit)
				return c19Budget(r, 30)
			case ap && au > left:
				r.Violate("C19-use-count-increased", caseID, what+"stored num_uses went from "+st.UsesBefore+" to "+st.UsesAfter, wit)
				return c19Budget(r, 30)
			default:
				r.Violate("C19-presentation-consumed-more-than-one-use", caseID, what+"stored num_uses went from "+st.UsesBefore+" to "+st.UsesAfter, wit)
				return c19Budget(r, 30)
			}
			if op && !privileged && st.Effect != "" {
				r.Violate("C19-unprivileged-operator-request-took-effect", caseID, what+"with a token without sudo on the path: "+st.Effect, wit)
			}
			if op && privileged && st.Effect == "" {
				// authorised, uses left, and yet refused: the harness's assumption about the policy is off
				r.Violate("C19-harness-privileged-operator-request-refused", caseID, what+"was refused ("+st.Result+") although the token has update+sudo on the path", wit)
			}
		} else {
			// used up: rejected, whatever the entry point
			r.Count("presentations_after_the_token_was_used_up", 1)
			if op {
				r.Count("operator_presentations_after_the_token_was_used_up", 1)
			}
			if ap && au >= 0 {
				r.Violate("C19-use-count-increased", caseID, what+"the token was used up, stored num_uses is "+st.UsesAfter+" afterwards", wit)
				return c19Budget(r, 30)
			}
			if op && (st.Effect != "" || rerr == nil) {
				r.Violate("C19-operator-request-served-after-n-presentations", caseID, what+"the token had been presented "+fmt.Sprint(i)+" times before, and the request was not rejected ("+st.Result+", effect: "+st.Effect+")", wit)
				return c19Budget(r, 30)
			}
			if !op && (served || st.Handler) {
				r.Violate("C19-request-served-after-n-presentations", caseID, what+"the token had been presented "+fmt.Sprint(i)+" times before, and the request was served", wit)
				return c19Budget(r, 30)
			}
		}
	}
	// all n uses are spent: the token goes (the revocation after a final use through the ordinary
	// pipeline is handed to the expiration workers: bounded wait, not a verdict)
	if unrevoked {
		// already reported; nothing will revoke the token before its TTL runs out
		c19RootRevoke(v, tok.ID)
		return c19Budget(r, 30)
	}
	gone := c19Wait(15*time.Second, func() bool { p, _, e := c19StoredUses(v, salted); return e == nil && !p })
	if !gone {
		r.Inconc("%s: token record still present 15s after its last use", caseID)
		return true
	}
	v.WaitQuiet(10*time.Millisecond, 2*time.Second)
	if v.TokenUsable(tok.ID, "") {
		r.Violate("C19-token-usable-after-exhaustion", caseID, fmt.Sprintf("token with num_uses=%d still usable after %d presentations", n, len(kinds)), wit)
	}
	for _, l := range leases {
		r.Count("leases_returned", 1)
		if st := c19LeaseState(v, l); st == "live" {
			r.Violate("C19-lease-live-after-exhaustion", caseID, "lease "+l+" returned under the token is still live after the token was used up and revoked", wit)
		}
	}
	r.Nontrivial(fmt.Sprintf("%d|%v|%v", n, privileged, kinds))
	r.Sample(wit)
	return c19Budget(r, 30)
}

func c19OperatorMix(rng *kit.Rand, m int, force string, at int) []string {
	all := append(append([]string(nil), c19Kinds...), c19OperatorKinds...)
	kinds := make([]string, m)
	for i := range kinds {
		if rng.Chance(1, 2) {
			kinds[i] = kit.Pick(rng, c19OperatorKinds)
		} else {
			kinds[i] = kit.Pick(rng, all)
		}
	}
	if force != "" {
		kinds[at] = force
	}
	return kinds
}

func TestVerif_C19_OperatorEndpoints(t *testing.T) {
	seed := kit.Seed(19)
	shard, _ := kit.Shard()
	r := kit.NewResult(t, "c19-operator-endpoints", seed, "sequential histories of m>n presentations of an n-use token (n in 1..4) to the ordinary pipeline (read, write, policy-denied, lease, lookup-self, create-child, failing existence check) AND to the entry points that account for the token themselves (Core.SealWithRequest, Core.Seal, Core.StepDown) on an HA-capable core; token without sudo on sys/seal / sys/step-down (refused) and with it (the core really seals / steps down; it is unsealed again / takes the lock back before the history goes on); oracle: the stored use count falls by exactly one per presentation, a final use revokes, afterwards nothing is served, sealed or stepped down; every operator kind is placed at least once on a use before the last, on the last use and after the last use; distinct by (n, privilege, kinds)")
	defer r.Write(t)
	for _, tx := range []bool{false, true} {
		if kit.Tier() == "quick" && tx {
			continue // the accounting of these entry points does not depend on the storage flavour; thorough covers both
		}
		h := c19HABoot(t, tx)
		for _, privileged := range []bool{false, true} {
			for n := 1; n <= 4; n++ {
				c := 0
				run := func(kinds []string) bool {
					caseID := fmt.Sprintf("ops:%v:%d:%v:%d:%d", tx, shard, privileged, n, c)
					c++
					if !kit.WantCase(caseID) {
						return true
					}
					return c19OperatorSeqCase(t, h, r, caseID, n, privileged, kinds)
				}
				rng := kit.NewRand(seed, uint64(shard*100000+n*1000)*4+b2u(tx)*2+b2u(privileged)+11_000_000)
				// systematic: every operator kind as an early use, as the final use, after the final use
				for _, k := range c19OperatorKinds {
					for _, at := range []int{0, n - 1, n} {
						m := n + 1 + rng.Intn(2)
						if !run(c19OperatorMix(rng, m, k, at)) {
							return
						}
					}
				}
				// leases taken on the earlier uses, the operator request takes the final use
				for _, k := range c19OperatorKinds {
					kinds := make([]string, 0, n+1)
					for i := 0; i < n-1; i++ {
						kinds = append(kinds, "lease")
					}
					kinds = append(kinds, k, "lookup-self")
					if !run(kinds) {
						return
					}
				}
				// n refused/authorised operator requests in a row, then ordinary ones
				for _, k := range c19OperatorKinds {
					kinds := make([]string, 0, n+2)
					for i := 0; i < n; i++ {
						kinds = append(kinds, k)
					}
					kinds = append(kinds, "lookup-self", "read")
					if !run(kinds) {
						return
					}
				}
				for x := 0; x < kit.N(3, 20); x++ {
					m := n + 1 + rng.Intn(4)
					if !run(c19OperatorMix(rng, m, "", 0)) {
						return
					}
				}
			}
		}
		h.Close()
	}
	r.Require("refused_operator_requests_that_took_a_use", 40)
	r.Require("authorised_operator_requests_that_took_a_use", 20)
	r.Require("operator_request_took_the_final_use", 6)
	r.Require("operator_presentations_after_the_token_was_used_up", 20)
}

func TestVerif_C19_OperatorSchedules(t *testing.T) {
	seed := kit.Seed(19)
	shard, _ := kit.Shard()
	r := kit.NewResult(t, "c19-operator-schedules", seed, "m>n concurrent presentations of one n-use token without operator privileges (n in 1..4, m in n+1..n+3): refused sys/seal (by request and by token) and sys/step-down requests mixed with the ordinary request kinds, on an HA-capable core under the storage-operation gate (gate points: sys/token/id/*, sys/expire/*): interleavings with <=2 preemptions (capped) and seeded PCT schedules; same oracle as the schedules monitor (a use = the request's own write of the token's id record; exactly n uses; refused operator requests are counted); non-trivial = requests overlapped, distinct by (n, kinds, op-order hash)")
	defer r.Write(t)
	h := c19HABoot(t, false)
	v := h.vCore
	acq0 := h.acquired.Load()
	for n := 1; n <= 4; n++ {
		for c := 0; c < kit.N(2, 8); c++ {
			rng := kit.NewRand(seed, uint64(shard*100000+n*1000+c)+12_000_000)
			m := n + 1 + rng.Intn(3)
			kinds := c19OperatorMix(rng, m, "", 0)
			if c == 0 {
				// only refused operator requests race for the uses
				for i := range kinds {
					kinds[i] = c19OperatorKinds[i%len(c19OperatorKinds)]
				}
			}
			ex := &kit.Explorer{MaxPreempt: 2, MaxRuns: kit.N(8, 50)}
			idx := 0
			stop := false
			ex.Explore(func(pol kit.Policy) (kit.Schedule, bool) {
				idx++
				caseID := fmt.Sprintf("opsch:%d:%d:%d:ex:%d", shard, n, c, idx)
				if !kit.WantCase(caseID) {
					return kit.Schedule{Diverged: true}, true
				}
				s, cont := c19Case(t, v, r, caseID, n, kinds, pol)
				if !cont {
					stop = true
				}
				return s, cont
			})
			if stop {
				return
			}
			for k := 0; k < kit.N(6, 30); k++ {
				caseID := fmt.Sprintf("opsch:%d:%d:%d:pct:%d", shard, n, c, k)
				if !kit.WantCase(caseID) {
					continue
				}
				tags := make([]string, m)
				for i := range tags {
					tags[i] = fmt.Sprintf("q%d", i)
				}
				prng := kit.NewRand(seed, uint64(shard*100000+n*1000+c*100+k)+13_000_000)
				if _, cont := c19Case(t, v, r, caseID, n, kinds, kit.NewPCT(prng, tags, 3, 12*m)); !cont {
					return
				}
			}
		}
	}
	if c19IsActive(v.Core) == false {
		r.Violate("C19-unprivileged-operator-request-took-effect", "opsch:end", "the core is sealed or standby after a workload in which no token had operator privileges", nil)
	}
	if got := h.acquired.Load(); got != acq0 {
		r.Violate("C19-unprivileged-operator-request-took-effect", "opsch:end", fmt.Sprintf("the node took the HA lock %d more times: it stepped down during a workload in which no token had operator privileges", got-acq0), nil)
	}
	h.Close()
	r.Require("overlapping_schedules", 60)
	r.Require("exactly_n_uses", 60)
	r.Require("operator_requests_with_an_unprivileged_token", 100)
}

// ---------------------------------------------------------------- unauthenticated paths that answer from the token's ACL

// sys/internal/ui/mounts, sys/internal/ui/mounts/<path> and sys/internal/ui/namespaces are
// declared unauthenticated, so they are served by handleLoginRequest, which never counts a use.
// Their handlers nevertheless resolve the presented token (fetchACLTokenEntryAndEntity) and
// answer from its ACL: the same request without a token, or with a token that is used up, is
// refused. A request that is answered only because of the token is a request the token
// authorises, and so it must take one of its uses.
const c19ClassUnauthUI = "C19-unauthenticated-ui-path-answered-from-token-acl-without-use"

func TestVerif_C19_UnauthenticatedPaths(t *testing.T) {
	seed := kit.Seed(19)
	if shard, _ := kit.Shard(); shard != 0 {
		t.Skip("small fixed workload: shard 0 runs it")
	}
	r := kit.NewResult(t, "c19-unauthenticated-paths", seed, "an n-use token (n in 1..3) is presented m>n times to the unauthenticated sys/internal/ui paths whose handlers resolve the token themselves (mount details of a mount the token's policy covers, the mount listing), mixed with ordinary requests; a presentation counts as authorised by the token when it is answered with content that the same request without a token does not get; oracle: the stored use count falls by one per authorised presentation and after n of them nothing is answered any more; distinct by (n, kinds)")
	defer r.Write(t)
	v := c19Boot(t, false)
	ctx := namespace.RootContext(context.Background())
	paths := map[string]string{"ui-mount": "sys/internal/ui/mounts/rec", "ui-mounts": "sys/internal/ui/mounts"}
	// answered on the strength of the token? (content that a token-less request does not get)
	authorised := func(kind string, resp *logical.Response, err error) bool {
		if !vOK(resp, err) || resp == nil || resp.Data == nil {
			return false
		}
		switch kind {
		case "ui-mount":
			return resp.Data["accessor"] != nil
		case "ui-mounts":
			sec, _ := resp.Data["secret"].(map[string]any)
			_, ok := sec["rec/"]
			return ok
		}
		return true
	}
	for kind, p := range paths {
		resp, err := v.Do(vReq{Op: logical.ReadOperation, Path: p})
		if authorised(kind, resp, err) {
			t.Fatalf("verif: harness assumption broken: %s is answered in full without any token", p)
		}
	}
	for n := 1; n <= 3; n++ {
		for c := 0; c < kit.N(4, 12); c++ {
			caseID := fmt.Sprintf("unauth:%d:%d", n, c)
			if !kit.WantCase(caseID) {
				continue
			}
			rng := kit.NewRand(seed, uint64(n*100+c)+14_000_000)
			m := n + 2 + rng.Intn(3)
			kinds := make([]string, m)
			for i := range kinds {
				switch rng.Intn(4) {
				case 0:
					kinds[i] = kit.Pick(rng, []string{"read", "lookup-self", "denied"})
				case 1:
					kinds[i] = "ui-mounts"
				default:
					kinds[i] = "ui-mount"
				}
			}
			tok, _, err := v.CreateToken(v.Root, map[string]any{"policies": []string{"c19"}, "ttl": "1h", "num_uses": n}, false, "")
			if err != nil || tok == nil {
				t.Fatalf("verif: cannot create use-limited token: %v", err)
			}
			te0, err := v.Core.tokenStore.Lookup(ctx, tok.ID)
			if err != nil || te0 == nil {
				t.Fatalf("verif: cannot look up fresh token: %v", err)
			}
			salted, _ := v.Core.tokenStore.SaltID(ctx, te0.ID)
			r.Eval(1)
			left := n
			var steps []c19OpStep
			free := 0
			bad := false
			for i, k := range kinds {
				bp, bu, berr := c19StoredUses(v, salted)
				var resp *logical.Response
				var rerr error
				ui := paths[k] != ""
				if ui {
					resp, rerr = v.Do(vReq{Tag: fmt.Sprintf("q%d", i), Op: logical.ReadOperation, Path: paths[k], Token: tok.ID})
				} else {
					resp, rerr = c19Req(v, k, fmt.Sprintf("q%d", i), fmt.Sprintf("q%d", i), tok.ID)
				}
				ap, au, aerr := c19StoredUses(v, salted)
				st := c19OpStep{Kind: k, Result: vErrStr(resp, rerr), UsesBefore: c19UsesStr(bp, bu, berr), UsesAfter: c19UsesStr(ap, au, aerr)}
				if ui && authorised(k, resp, rerr) {
					st.Effect = "answered-from-the-tokens-acl"
				}
				steps = append(steps, st)
				if berr != nil || aerr != nil {
					r.Inconc("%s: cannot read the token record", caseID)
					bad = true
					break
				}
				if !ui {
					if left > 0 {
						left--
					}
					continue
				}
				r.Count("presentations_to_unauthenticated_ui_paths", 1)
				if st.Effect == "" {
					r.Count("ui_presentations_not_answered_from_the_token", 1)
					if left > 0 {
						// a live token that covers the mount: the harness expects an answer
						r.Note("%s: %s with a token that has %d uses left was not answered in full: %s", caseID, paths[k], left, st.Result)
					}
					continue
				}
				r.Count("ui_presentations_answered_from_the_tokens_acl", 1)
				consumed := (bp && bu > 0) && ((bu > 1 && ap && au == bu-1) || (bu == 1 && (!ap || au < 0)))
				if left == 0 || !bp || bu < 0 {
					bad = true
					r.Violate("C19-request-served-after-n-presentations", caseID, fmt.Sprintf("token with num_uses=%d is used up, and %s is still answered from its ACL", n, paths[k]), map[string]any{"n": n, "kinds": kinds, "steps": steps})
					break
				}
				if consumed {
					left--
					r.Count("ui_presentations_that_took_a_use", 1)
				} else {
					free++
				}
			}
			if bad {
				continue
			}
			if free > 0 {
				r.Violate(c19ClassUnauthUI, caseID, fmt.Sprintf("token with num_uses=%d: %d of %d presentations went to sys/internal/ui/mounts[/rec]; each was answered with what only the token's policy unlocks (a request without token is refused / gets less) and none took a use: the token answers such requests without limit while it has a use left", n, free, len(kinds)), map[string]any{"n": n, "kinds": kinds, "steps": steps})
			}
			r.Nontrivial(fmt.Sprintf("%d|%v", n, kinds))
			r.Sample(map[string]any{"n": n, "kinds": kinds, "steps": steps})
			c19RootRevoke(v, tok.ID)
		}
	}
	v.Close()
	r.Require("ui_presentations_answered_from_the_tokens_acl", 12)
	r.Require("ui_presentations_not_answered_from_the_token", 6)
}
