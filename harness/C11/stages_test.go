//go:build verif

package vault

// C11 (ordering half, every stage of the broker loop): a device can drop out of
// a broker pass before its LogRequest / LogResponse is ever called - while the
// broker applies the audited-headers configuration with the device's GetHash
// (salt unavailable, panic), or inside the device before it writes (formatter
// failure, formatter panic). The at-least-one rule has to count a device that
// was skipped for whatever reason as not having accepted the entry.
//
// Monitor: k <= 3 programmable devices, every assignment of one of 8 stage
// outcomes {ok, write error, write panic, GetHash error, GetHash panic,
// formatter error, formatter panic, salt unavailable} to every (device, phase)
// for k <= 2 and a seeded sample for k = 3, crossed with request kinds and with
// what the request carries (a header audited with hmac=true, only a header
// audited in plaintext, no header). The oracle is the one of the ordering
// monitor: a device accepted an entry only if it recorded it.

import (
	"fmt"
	"sort"
	"strings"
	"testing"

	kit "github.com/openbao/openbao/sdk/v2/helper/verifkit"
	"github.com/openbao/openbao/sdk/v2/logical"
)

var (
	c11StageKinds = []string{"read", "write", "login", "kvwrite", "tokencreate", "wrap", "lklogin", "lkloginfail", "lklocked"}
	c11StageHdrs  = []string{"hmac-header", "hmac-header", "plain-header", "no-header"}
)

func c11PatternBase(k, p, base int) []int {
	out := make([]int, 2*k)
	for i := range out {
		out[i] = p % base
		p /= base
	}
	return out
}

func c11PowN(b, n int) int {
	p := 1
	for i := 0; i < n; i++ {
		p *= b
	}
	return p
}

type c11StageCase struct {
	c11Case
	Hdr string
}

func c11StageCases(seed int64) []*c11StageCase {
	var out []*c11StageCase
	nOut := len(c11OutcomeName)
	group := 0
	add := func(k, p int, kind, hdr string) {
		out = append(out, &c11StageCase{c11Case: c11Case{ID: fmt.Sprintf("stg:k%d:p%d:%s:%s", k, p, kind, hdr), K: k, P: p, Pattern: c11PatternBase(k, p, nOut), Kind: kind, Group: group}, Hdr: hdr})
	}
	// k = 1: everything
	for p := 0; p < c11PowN(nOut, 2); p++ {
		for _, kind := range c11StageKinds {
			for _, hdr := range c11StageHdrs[1:] {
				add(1, p, kind, hdr)
			}
		}
		group++
	}
	// k = 2: every assignment, kind and header mode rotate (seeded)
	rng := kit.NewRand(seed, 0x1157)
	for p := 0; p < c11PowN(nOut, 4); p++ {
		add(2, p, kit.Pick(rng, c11StageKinds), kit.Pick(rng, c11StageHdrs))
		group++
	}
	// k = 3: seeded sample
	total := c11PowN(nOut, 6)
	seen := map[int]bool{}
	var ps []int
	for n := kit.N(1200, 40000); len(ps) < n; {
		p := rng.Intn(total)
		if !seen[p] {
			seen[p] = true
			ps = append(ps, p)
		}
	}
	sort.Ints(ps)
	for _, p := range ps {
		add(3, p, kit.Pick(rng, c11StageKinds), kit.Pick(rng, c11StageHdrs))
		group++
	}
	return out
}

func c11ParseStageCase(id string) *c11StageCase {
	parts := strings.Split(id, ":")
	if len(parts) != 5 || parts[0] != "stg" {
		return nil
	}
	var k, p int
	if _, err := fmt.Sscanf(parts[1], "k%d", &k); err != nil {
		return nil
	}
	if _, err := fmt.Sscanf(parts[2], "p%d", &p); err != nil {
		return nil
	}
	if k < 1 || k > 3 || p < 0 || p >= c11PowN(len(c11OutcomeName), 2*k) {
		return nil
	}
	return &c11StageCase{c11Case: c11Case{ID: id, K: k, P: p, Pattern: c11PatternBase(k, p, len(c11OutcomeName)), Kind: parts[3]}, Hdr: parts[4]}
}

func (w *c11World) runStageCase(seed int64, sc *c11StageCase) {
	r := w.r
	cs := &sc.c11Case
	rng := kit.NewRand(seed, c11Hash(cs.ID))
	j := &c11Judge{w: w, cs: cs, tokens: []string{w.root}}
	w.dropEvents()
	w.setScript(nil)
	respData, respSecs := c11GenData(rng, "response.data", "exempt_resp", "exempt_req")
	reqData, reqSecs := c11GenData(rng, "request.data", "exempt_req", "exempt_resp")
	w.mu.Lock()
	w.respData, w.listKeys, w.writeNil, w.loginMeta = respData, []string{"k-" + rng.Canary()}, rng.Chance(1, 2), "m"+rng.Canary()
	w.mu.Unlock()
	for _, s := range respSecs {
		if !strings.HasPrefix(s.Canary, `"`) {
			j.backend = append(j.backend, s.Canary)
		}
	}
	name := fmt.Sprintf("s%d", rng.Intn(1000000))
	var req *logical.Request
	switch cs.Kind {
	case "read":
		req = &logical.Request{Operation: logical.ReadOperation, Path: "vrec/data/" + name, ClientToken: w.root}
	case "write":
		req = &logical.Request{Operation: logical.UpdateOperation, Path: "vrec/data/" + name, ClientToken: w.root, Data: reqData}
	case "login":
		req = &logical.Request{Operation: logical.UpdateOperation, Path: "auth/vcred/login", Data: reqData}
	case "lklogin", "lkloginfail", "lklocked": // auth mount of a type name with user lockout: the core calls the backend for the alias name first
		path := "auth/v" + c11LockType(cs) + "/login"
		user := "u" + rng.Canary()
		reqData["username"], reqData["password"] = user, "good"+rng.Canary()
		if cs.Kind == "lkloginfail" {
			reqData["password"] = "bad" + rng.Canary()
		}
		if cs.Kind == "lklocked" {
			for i := 0; i < c11LockoutThreshold; i++ {
				fres := w.do(&logical.Request{Operation: logical.UpdateOperation, Path: path, Data: map[string]any{"username": user, "password": "bad" + rng.Canary()}}, "")
				if ra, rp := j.order(fres, fmt.Sprintf("setup: failing login %d", i+1)); !fres.isErr() || !ra || !rp {
					r.Inconc("case %s: failing login %d with all devices healthy: error=%v accepted=%v/%v", cs.ID, i+1, fres.isErr(), ra, rp)
					return
				}
			}
			w.dropEvents()
		}
		req = &logical.Request{Operation: logical.UpdateOperation, Path: path, Data: reqData}
	case "kvwrite":
		req = &logical.Request{Operation: logical.UpdateOperation, Path: "secret/c11s-" + name, ClientToken: w.root, Data: map[string]any{"value": reqSecs[0].Value}}
	case "tokencreate":
		req = &logical.Request{Operation: logical.UpdateOperation, Path: "auth/token/create", ClientToken: w.root, Data: map[string]any{"policies": []string{"default"}, "ttl": "1h"}}
	case "wrap":
		req = &logical.Request{Operation: logical.ReadOperation, Path: "vrec/data/" + name, ClientToken: w.root, WrapInfo: &logical.RequestWrapInfo{TTL: 300e9}}
	default:
		r.Inconc("unknown kind %s", cs.Kind)
		return
	}
	hv := "hdr" + rng.Canary()
	switch sc.Hdr {
	case "hmac-header": // X-Verif-Secret is configured with hmac=true: the broker consults every device's GetHash
		req.Headers = map[string][]string{"X-Verif-Secret": {hv}, "X-Verif-Plain": {"plain-header-value"}}
	case "plain-header":
		req.Headers = map[string][]string{"X-Verif-Plain": {"plain-header-value"}, "X-Verif-Unlisted": {hv}}
	}
	w.setScript(cs.Pattern)
	res := w.do(req, "")
	w.setScript(nil)
	reqAcc, respAcc := j.order(res, "main, "+sc.Hdr)

	// what the stages did
	skippedReq, skippedResp, hashConsulted := 0, 0, false
	for _, e := range w.eventsFor(res.ID) {
		if e.Kind != "audit" {
			continue
		}
		switch e.Outcome {
		case "hash-err", "hash-panic", "format-err", "format-panic":
			r.Count("stage_events:"+e.Outcome, 1)
			if strings.HasPrefix(e.Outcome, "hash") {
				hashConsulted = true
				if e.Phase == "request" {
					skippedReq++
				} else {
					skippedResp++
				}
			}
		}
	}
	if hashConsulted {
		r.Count("cases_with_device_dropped_at_header_stage", 1)
	}
	if skippedReq > 0 && reqAcc {
		r.Count("request_accepted_by_other_device_while_one_was_skipped", 1)
	}
	if skippedReq > 0 && !reqAcc && res.isErr() {
		r.Count("refused_after_devices_skipped_at_header_stage", 1)
	}
	if skippedResp > 0 && reqAcc && !respAcc && res.isErr() {
		r.Count("response_refused_after_devices_skipped_at_header_stage", 1)
	}
	if cs.K == 1 && (cs.Pattern[0] == c11HashErr || cs.Pattern[0] == c11SaltDown) && sc.Hdr == "hmac-header" {
		r.Count("single_device_skipped_at_header_stage", 1)
	}
	if reqAcc && respAcc && !res.isErr() {
		r.Count("delivered_after_both_accepted", 1)
		r.Count("delivered:"+cs.Kind, 1)
	}
	if cs.Kind == "kvwrite" {
		chk := w.do(&logical.Request{Operation: logical.ReadOperation, Path: req.Path, ClientToken: w.root}, "")
		stored := strings.Contains(chk.Rendered, reqSecs[0].Canary)
		switch {
		case !reqAcc && stored:
			r.Violate("C11-effect-without-request-audit", cs.ID, fmt.Sprintf("kv write was applied to storage although no audit device accepted its request entry (k=%d, %s, %s)", cs.K, c11PatternString(cs.Pattern), sc.Hdr), j.witness(res, map[string]any{"read_back": chk.Rendered, "request_carries": sc.Hdr}))
		case !reqAcc:
			r.Count("kv_write_blocked_not_stored", 1)
		case stored:
			r.Count("kv_write_audited_and_stored", 1)
		}
	}
	allOK := true
	for _, o := range cs.Pattern {
		allOK = allOK && o == c11OK
	}
	if strings.HasPrefix(cs.Kind, "lk") {
		for _, e := range w.eventsFor(res.ID) {
			if e.Kind == "backend" && strings.HasPrefix(e.Op, "internal:") {
				r.Count("lockout_alias_lookahead_calls_observed", 1)
			}
		}
	}
	if allOK && res.isErr() && cs.Kind != "lkloginfail" && cs.Kind != "lklocked" {
		r.Inconc("case %s: with every stage healthy the request failed: %s", cs.ID, res.Rendered)
	}
}

func TestVerif_C11_BrokerStages(t *testing.T) {
	seed := kit.Seed(11)
	r := kit.NewResult(t, "c11-broker-stages", seed, "a case is (k <= 3 devices, one of 8 stage outcomes - ok, write error, write panic, GetHash error, GetHash panic, formatter error, formatter panic, salt unavailable - for every (device, phase), request kind, what the request carries: a header audited with hmac=true / only a plaintext-audited header / none) run against a real Core; all 8^(2k) assignments for k <= 2, a seeded sample for k = 3; non-trivial = at least one stage outcome other than ok")
	defer r.Write(t)
	r.Assume("a device accepted an entry only if its LogRequest / LogResponse ran to the point where the device records the formatted entry; a device the broker skipped while applying the audited-headers configuration (its GetHash failed) or that failed while formatting accepted nothing; GetHash is failed per broker pass (request / response), recognised from the call stack")
	var cases []*c11StageCase
	if oc := kit.OnlyCase(); oc != "" {
		sc := c11ParseStageCase(oc)
		if sc == nil {
			t.Skipf("case %q is not a broker-stage case", oc)
			return
		}
		cases = []*c11StageCase{sc}
	} else {
		cases = c11StageCases(seed)
	}
	shard, shards := kit.Shard()
	worlds := map[int]*c11World{}
	mine, mineK1 := 0, 0 // mineK1: single-device cases skipped at the header stage that fell to this shard
	for _, sc := range cases {
		if sc.Group%shards != shard {
			continue
		}
		mine++
		if sc.K == 1 && sc.Hdr == "hmac-header" && (sc.Pattern[0] == c11HashErr || sc.Pattern[0] == c11SaltDown) {
			mineK1++
		}
		w := worlds[sc.K]
		if w == nil {
			w = c11Boot(t, r, sc.K, "")
			w.tag = fmt.Sprintf("stg%d", sc.K)
			worlds[sc.K] = w
		}
		r.Eval(1)
		r.Count("cases", 1)
		r.Count(fmt.Sprintf("cases_k:%d", sc.K), 1)
		r.Count("cases_request_carries:"+sc.Hdr, 1)
		for _, o := range sc.Pattern {
			if o != c11OK {
				r.Nontrivial(sc.ID)
				break
			}
		}
		w.runStageCase(seed, sc)
	}
	r.Require("cases", int64(mine))
	r.Require("backend_entries_observed", 500)
	r.Require("stage_events:hash-err", 1000)
	r.Require("stage_events:hash-panic", 300)
	r.Require("stage_events:format-err", 1000)
	r.Require("stage_events:format-panic", 300)
	r.Require("cases_with_device_dropped_at_header_stage", 1000)
	r.Require("request_accepted_by_other_device_while_one_was_skipped", 100)
	r.Require("refused_after_devices_skipped_at_header_stage", 300)
	r.Require("response_refused_after_devices_skipped_at_header_stage", 50)
	if mineK1 > 0 || shards == 1 {
		// these cases fall into few case groups: every one that fell to this shard must have been judged,
		// a shard that got none of them has nothing to show here
		want := int64(mineK1)
		if shards == 1 && want < 30 {
			want = 30
		}
		r.Require("single_device_skipped_at_header_stage", want)
	}
	r.Require("request_phase_no_device_accepted", 500)
	r.Require("blocked_before_backend_with_error", 500)
	r.Require("response_phase_no_device_accepted", 100)
	r.Require("error_without_secret_after_audit_failure", 500)
	r.Require("delivered_after_both_accepted", 100)
	r.Require("kv_write_blocked_not_stored", 50)
	r.Require("kv_write_audited_and_stored", 10)
	r.Require("lockout_alias_lookahead_calls_observed", 100)
}
