//go:build verif

package vault

// C11 (ordering half): with >= 1 audit device enabled a request reaches a
// backend only after one device accepted its request entry, response data
// reaches the client only after one device accepted its response entry, and if
// no device accepts the client gets an error without secret material.
//
// Monitor: a real Core with k programmable audit devices (each formats with the
// real AuditFormatter, then succeeds / fails / panics as scripted), recording
// logical + credential backends, and recording proxies in front of the sys,
// token and cubbyhole backends. One sequence counter orders device outcomes,
// backend handler entries and client receipts. Entries accepted by devices are
// additionally searched for planted canaries and learned tokens.

import (
	"bytes"
	"context"
	"crypto/hmac"
	"crypto/sha256"
	"encoding/hex"
	"encoding/json"
	"errors"
	"fmt"
	"os"
	"path/filepath"
	"runtime"
	"sort"
	"strconv"
	"strings"
	"sync"
	"testing"
	"time"

	hclog "github.com/hashicorp/go-hclog"
	"github.com/mitchellh/copystructure"

	"github.com/openbao/openbao/sdk/v2/helper/salt"
	kit "github.com/openbao/openbao/sdk/v2/helper/verifkit"
	"github.com/openbao/openbao/sdk/v2/logical"
	"github.com/openbao/openbao/v2/internal/audit"
	auditFile "github.com/openbao/openbao/v2/internal/builtin/audit/file"
	auditSocket "github.com/openbao/openbao/v2/internal/builtin/audit/socket"
	"github.com/openbao/openbao/v2/internal/command/server"
	"github.com/openbao/openbao/v2/internal/helper/namespace"
)

const (
	c11OK    = 0
	c11Err   = 1
	c11Panic = 2
	// outcomes of the stages that come before the device's own write (broker-stage monitor)
	c11HashErr   = 3 // GetHash fails while the broker applies the audited-headers configuration for this device
	c11HashPanic = 4
	c11FmtErr    = 5 // the formatter fails inside the device
	c11FmtPanic  = 6
	c11SaltDown  = 7 // the device's salt is unavailable: GetHash fails if it is consulted, otherwise the formatter does
)

var c11OutcomeName = []string{"ok", "err", "panic", "hash-err", "hash-panic", "format-err", "format-panic", "salt-down"}

type c11Event struct {
	Seq     int64  `json:"seq"`
	Kind    string `json:"kind"` // audit | backend | client
	Dev     string `json:"dev,omitempty"`
	Phase   string `json:"phase,omitempty"`
	Outcome string `json:"outcome,omitempty"`
	ReqID   string `json:"req_id"`
	Mount   string `json:"mount,omitempty"`
	Path    string `json:"path,omitempty"`
	Op      string `json:"op,omitempty"`
	Note    string `json:"note,omitempty"`
	entry   []byte
}

// c11Sec is one planted secret string.
type c11Sec struct {
	Where  string `json:"where"`
	Value  string `json:"value"`
	Canary string `json:"canary"`
	Exempt bool   `json:"exempt,omitempty"` // under a key listed in audit_non_hmac_*_keys of the mount
	Elide  bool   `json:"elide,omitempty"`  // list key: may be replaced by a count on devices with elide_list_responses
}

func c11Ref(saltVal, v string) string {
	m := hmac.New(sha256.New, []byte(saltVal))
	m.Write([]byte(v))
	return "hmac-sha256:" + hex.EncodeToString(m.Sum(nil))
}

// ---------------------------------------------------------------- world

type c11World struct {
	t    *testing.T
	r    *kit.Result
	core *Core
	root string
	k    int

	mu      sync.Mutex
	seq     int64
	events  []c11Event
	script  map[string]int
	devices map[string]*c11Device
	reqN    int
	tag     string
	cur     string // id of the client request in flight
	ns      string // namespace header of the requests do() sends ("" = root)

	// atBackend, when set, is evaluated on the handler's goroutine at handler entry (device-fault monitor:
	// "does any device hold the request entry right now?"); its answer is kept in the backend event
	atBackend func(reqID string) string

	// what the recording backends answer with (set per case)
	respData  map[string]any
	listKeys  []string
	writeNil  bool
	loginMeta string
}

func (w *c11World) add(e c11Event) int64 {
	w.mu.Lock()
	defer w.mu.Unlock()
	w.seq++
	e.Seq = w.seq
	w.events = append(w.events, e)
	return e.Seq
}

func (w *c11World) inFlight() string {
	w.mu.Lock()
	defer w.mu.Unlock()
	return w.cur
}

func (w *c11World) handlerNote(reqID string) string {
	w.mu.Lock()
	h := w.atBackend
	w.mu.Unlock()
	if h == nil {
		return ""
	}
	return h(reqID)
}

func (w *c11World) outcome(dev, phase string) int {
	w.mu.Lock()
	defer w.mu.Unlock()
	return w.script[dev+"/"+phase]
}

func (w *c11World) setScript(pattern []int) {
	w.mu.Lock()
	defer w.mu.Unlock()
	w.script = map[string]int{}
	for i, o := range pattern {
		ph := "request"
		if i%2 == 1 {
			ph = "response"
		}
		w.script[fmt.Sprintf("d%d/%s", i/2, ph)] = o
	}
}

func (w *c11World) eventsFor(id string) []c11Event {
	w.mu.Lock()
	defer w.mu.Unlock()
	var out []c11Event
	for _, e := range w.events {
		if e.ReqID == id {
			out = append(out, e)
		}
	}
	return out
}

func (w *c11World) dropEvents() {
	w.mu.Lock()
	w.events = w.events[:0]
	w.mu.Unlock()
}

// ---------------------------------------------------------------- device

type c11Device struct {
	w         *c11World
	name      string
	cfg       *audit.BackendConfig
	fcfg      audit.FormatterConfig
	formatter audit.AuditFormatter
	saltMu    sync.Mutex
	salt      *salt.Salt
}

var _ audit.Backend = (*c11Device)(nil)

func (d *c11Device) Salt(ctx context.Context) (*salt.Salt, error) {
	d.saltMu.Lock()
	defer d.saltMu.Unlock()
	if d.salt != nil {
		return d.salt, nil
	}
	s, err := salt.NewSalt(ctx, d.cfg.SaltView, d.cfg.SaltConfig)
	if err != nil {
		return nil, err
	}
	d.salt = s
	return s, nil
}

// saltValue reads the raw salt from the device's storage view for the oracle's own HMAC.
func (d *c11Device) saltValue(ctx context.Context) (string, error) {
	if _, err := d.Salt(ctx); err != nil {
		return "", err
	}
	e, err := d.cfg.SaltView.Get(ctx, salt.DefaultLocation)
	if err != nil {
		return "", err
	}
	if e == nil {
		return "", errors.New("no salt stored")
	}
	return string(e.Value), nil
}

func (d *c11Device) log(ctx context.Context, phase string, in *logical.LogInput) error {
	id := ""
	if in != nil && in.Request != nil {
		id = in.Request.ID
	}
	switch d.w.outcome(d.name, phase) {
	case c11Panic:
		d.w.add(c11Event{Kind: "audit", Dev: d.name, Phase: phase, Outcome: "panic", ReqID: id})
		panic("verif C11: injected audit device panic")
	case c11Err:
		d.w.add(c11Event{Kind: "audit", Dev: d.name, Phase: phase, Outcome: "err", ReqID: id})
		return errors.New("verif C11: injected audit device failure")
	case c11FmtErr, c11SaltDown:
		d.w.add(c11Event{Kind: "audit", Dev: d.name, Phase: phase, Outcome: "format-err", ReqID: id})
		return errors.New("verif C11: injected formatter failure (salt unavailable)")
	case c11FmtPanic:
		d.w.add(c11Event{Kind: "audit", Dev: d.name, Phase: phase, Outcome: "format-panic", ReqID: id})
		panic("verif C11: injected formatter panic")
	}
	// c11HashErr / c11HashPanic reaching this point: the broker did not consult GetHash for this
	// request (no HMAC-configured header in it), so nothing fails and the device works
	var buf bytes.Buffer
	var err error
	if phase == "request" {
		err = d.formatter.FormatRequest(ctx, &buf, d.fcfg, in)
	} else {
		err = d.formatter.FormatResponse(ctx, &buf, d.fcfg, in)
	}
	if err != nil {
		d.w.add(c11Event{Kind: "audit", Dev: d.name, Phase: phase, Outcome: "format-error", ReqID: id, Note: err.Error(), entry: buf.Bytes()})
		return err
	}
	d.w.add(c11Event{Kind: "audit", Dev: d.name, Phase: phase, Outcome: "ok", ReqID: id, entry: buf.Bytes()})
	return nil
}

func (d *c11Device) LogRequest(ctx context.Context, in *logical.LogInput) error {
	return d.log(ctx, "request", in)
}

func (d *c11Device) LogResponse(ctx context.Context, in *logical.LogInput) error {
	return d.log(ctx, "response", in)
}

func (d *c11Device) LogTestMessage(context.Context, *logical.LogInput, map[string]string) error {
	return nil
}

// c11BrokerPhase tells from the call stack which broker loop is consulting the device.
func c11BrokerPhase() string {
	var pcs [48]uintptr
	n := runtime.Callers(2, pcs[:])
	frames := runtime.CallersFrames(pcs[:n])
	for {
		f, more := frames.Next()
		switch {
		case strings.HasSuffix(f.Function, "(*AuditBroker).LogRequest"):
			return "request"
		case strings.HasSuffix(f.Function, "(*AuditBroker).LogResponse"):
			return "response"
		}
		if !more {
			return ""
		}
	}
}

func (d *c11Device) GetHash(ctx context.Context, data string) (string, error) {
	d.w.mu.Lock()
	scripted, id := len(d.w.script) > 0, d.w.cur
	d.w.mu.Unlock()
	if scripted {
		if phase := c11BrokerPhase(); phase != "" {
			switch d.w.outcome(d.name, phase) {
			case c11HashErr, c11SaltDown:
				d.w.add(c11Event{Kind: "audit", Dev: d.name, Phase: phase, Outcome: "hash-err", ReqID: id})
				return "", errors.New("verif C11: injected GetHash failure (salt unavailable)")
			case c11HashPanic:
				d.w.add(c11Event{Kind: "audit", Dev: d.name, Phase: phase, Outcome: "hash-panic", ReqID: id})
				panic("verif C11: injected GetHash panic")
			}
		}
	}
	s, err := d.Salt(ctx)
	if err != nil {
		return "", err
	}
	return s.GetIdentifiedHMAC(data), nil
}
func (d *c11Device) Reload(context.Context) error { return nil }
func (d *c11Device) Invalidate(context.Context) {
	d.saltMu.Lock()
	d.salt = nil
	d.saltMu.Unlock()
}

func (w *c11World) deviceFactory(_ context.Context, conf *audit.BackendConfig) (audit.Backend, error) {
	name := conf.Config["name"]
	if name == "" {
		return nil, errors.New("verifdev: name option required")
	}
	d := &c11Device{w: w, name: name, cfg: conf}
	d.fcfg.HMACAccessor = conf.Config["hmac_accessor"] != "false"
	d.fcfg.ElideListResponses = conf.Config["elide_list_responses"] == "true"
	d.formatter.AuditFormatWriter = &audit.JSONFormatWriter{SaltFunc: d.Salt}
	w.mu.Lock()
	w.devices[name] = d
	w.mu.Unlock()
	return d, nil
}

// ---------------------------------------------------------------- backends

type c11Backend struct {
	w     *c11World
	name  string
	typ   logical.BackendType
	login []string
}

func (b *c11Backend) HandleRequest(ctx context.Context, req *logical.Request) (*logical.Response, error) {
	switch req.Operation {
	case logical.RollbackOperation, logical.RevokeOperation, logical.RenewOperation:
		return nil, nil
	}
	// Calls the core makes into the backend on its own account (alias look-ahead of the user-lockout
	// check, role resolution) carry no request id: they belong to the client request in flight.
	id, internal := req.ID, ""
	if id == "" {
		id, internal = b.w.inFlight(), "internal:"
	}
	b.w.add(c11Event{Kind: "backend", Mount: b.name, ReqID: id, Path: req.Path, Op: internal + string(req.Operation), Note: b.w.handlerNote(id)})
	w := b.w
	w.mu.Lock()
	data, keys, writeNil, meta := w.respData, w.listKeys, w.writeNil, w.loginMeta
	w.mu.Unlock()
	cp := func() map[string]any {
		if data == nil {
			return nil
		}
		c, err := copystructure.Copy(data)
		if err != nil {
			panic(err)
		}
		return c.(map[string]any)
	}
	if b.typ == logical.TypeCredential {
		if strings.HasPrefix(req.Path, "info/") { // authenticated path of the auth mount answering with data
			return &logical.Response{Data: cp()}, nil
		}
		if req.Path != "login" {
			return nil, logical.ErrUnsupportedPath
		}
		user, _ := req.Data["username"].(string)
		switch req.Operation {
		case logical.AliasLookaheadOperation:
			if user == "" {
				return nil, nil
			}
			return &logical.Response{Auth: &logical.Auth{Alias: &logical.Alias{Name: user}}}, nil
		case logical.ResolveRoleOperation:
			return &logical.Response{Data: map[string]any{"role": "c11role"}}, nil
		}
		if pw, _ := req.Data["password"].(string); strings.HasPrefix(pw, "bad") {
			return nil, logical.ErrInvalidCredentials
		}
		a := &logical.Auth{
			Policies:     []string{"default"},
			DisplayName:  "c11user",
			Metadata:     map[string]string{"meta": meta},
			InternalData: cp(),
		}
		a.TTL = time.Hour
		a.Renewable = true
		return &logical.Response{Auth: a}, nil
	}
	switch {
	case strings.HasPrefix(req.Path, "data/"), req.Path == "data":
		switch req.Operation {
		case logical.ListOperation:
			return logical.ListResponse(append([]string(nil), keys...)), nil
		case logical.UpdateOperation, logical.CreateOperation:
			if writeNil {
				return nil, nil
			}
		}
		return &logical.Response{Data: cp()}, nil
	case strings.HasPrefix(req.Path, "raw/"):
		body, _ := json.Marshal(map[string]any{"data": data})
		return &logical.Response{Data: map[string]any{
			logical.HTTPRawBody:     body,
			logical.HTTPContentType: "application/json",
			logical.HTTPStatusCode:  200,
		}}, nil
	case strings.HasPrefix(req.Path, "both/"):
		return &logical.Response{Data: cp()}, errors.New("verifrec: backend failed after producing data")
	}
	return nil, logical.ErrUnsupportedPath
}

func (b *c11Backend) HandleExistenceCheck(_ context.Context, req *logical.Request) (bool, bool, error) {
	id := req.ID
	if id == "" {
		id = b.w.inFlight()
	}
	b.w.add(c11Event{Kind: "existence", Mount: b.name, ReqID: id, Path: req.Path, Op: string(req.Operation)})
	return false, false, nil
}

func (b *c11Backend) SpecialPaths() *logical.Paths {
	return &logical.Paths{Unauthenticated: b.login}
}

func (b *c11Backend) System() logical.SystemView {
	return logical.StaticSystemView{DefaultLeaseTTLVal: 24 * time.Hour, MaxLeaseTTLVal: 32 * 24 * time.Hour}
}
func (b *c11Backend) Logger() hclog.Logger                                             { return hclog.NewNullLogger() }
func (b *c11Backend) Cleanup(context.Context)                                          {}
func (b *c11Backend) InvalidateKey(context.Context, string)                            {}
func (b *c11Backend) Setup(context.Context, *logical.BackendConfig) error              { return nil }
func (b *c11Backend) Initialize(context.Context, *logical.InitializationRequest) error { return nil }
func (b *c11Backend) Type() logical.BackendType                                        { return b.typ }

// c11Proxy records handler entry of a built-in backend and delegates.
type c11Proxy struct {
	logical.Backend
	w    *c11World
	name string
}

func (p *c11Proxy) HandleRequest(ctx context.Context, req *logical.Request) (*logical.Response, error) {
	switch req.Operation {
	case logical.RollbackOperation, logical.RevokeOperation, logical.RenewOperation:
	default:
		p.w.add(c11Event{Kind: "backend", Mount: p.name, ReqID: req.ID, Path: req.Path, Op: string(req.Operation), Note: p.w.handlerNote(req.ID)})
	}
	return p.Backend.HandleRequest(ctx, req)
}

// ---------------------------------------------------------------- boot

var c11DevOpts = []map[string]string{
	{"name": "d0", "hmac_accessor": "true"},
	{"name": "d1", "hmac_accessor": "false", "elide_list_responses": "true"},
	{"name": "d2", "hmac_accessor": "true", "elide_list_responses": "true"},
	{"name": "d3", "hmac_accessor": "false"},
	{"name": "d4", "hmac_accessor": "true"},
}

func c11Ctx() context.Context { return namespace.RootContext(context.Background()) }

func c11Boot(t *testing.T, r *kit.Result, k int, withFile string) *c11World {
	w := &c11World{t: t, r: r, k: k, script: map[string]int{}, devices: map[string]*c11Device{}, tag: fmt.Sprintf("k%d", k)}
	conf := &CoreConfig{
		RawConfig:     &server.Config{UnsafeAllowAPIAuditCreation: true},
		Logger:        hclog.NewNullLogger(),
		AuditBackends: map[string]audit.Factory{"verifdev": w.deviceFactory, "file": auditFile.Factory, "socket": auditSocket.Factory},
		LogicalBackends: map[string]logical.Factory{"verifrec": func(context.Context, *logical.BackendConfig) (logical.Backend, error) {
			return &c11Backend{w: w, name: "vrec/", typ: logical.TypeLogical}, nil
		}},
		CredentialBackends: map[string]logical.Factory{"verifcred": func(context.Context, *logical.BackendConfig) (logical.Backend, error) {
			return &c11Backend{w: w, name: "auth/vcred/", typ: logical.TypeCredential, login: []string{"login"}}, nil
		}},
	}
	// The core treats auth mounts by their TYPE NAME: user lockout (and with it the alias look-ahead
	// call into the backend) exists only for these. The recording backend is registered under each.
	for _, typ := range c11LockTypes {
		conf.CredentialBackends[typ] = func(context.Context, *logical.BackendConfig) (logical.Backend, error) {
			return &c11Backend{w: w, name: "auth/v" + typ + "/", typ: logical.TypeCredential, login: []string{"login"}}, nil
		}
	}
	core, _, root := TestCoreUnsealedWithConfig(t, conf)
	w.core, w.root = core, root

	must := func(what string, req *logical.Request) {
		req.ClientToken = root
		resp, err := core.HandleRequest(c11Ctx(), req)
		if err != nil || (resp != nil && resp.IsError()) {
			t.Fatalf("C11 setup %s: resp=%v err=%v", what, resp, err)
		}
	}
	must("mount vrec", &logical.Request{Operation: logical.UpdateOperation, Path: "sys/mounts/vrec", Data: map[string]any{"type": "verifrec"}})
	must("tune vrec", &logical.Request{Operation: logical.UpdateOperation, Path: "sys/mounts/vrec/tune", Data: map[string]any{
		"audit_non_hmac_request_keys": []string{"exempt_req"}, "audit_non_hmac_response_keys": []string{"exempt_resp"},
	}})
	must("enable vcred", &logical.Request{Operation: logical.UpdateOperation, Path: "sys/auth/vcred", Data: map[string]any{"type": "verifcred"}})
	for _, typ := range c11LockTypes {
		must("enable v"+typ, &logical.Request{Operation: logical.UpdateOperation, Path: "sys/auth/v" + typ, Data: map[string]any{"type": typ}})
		me := core.router.MatchingMountEntry(c11Ctx(), "auth/v"+typ+"/login")
		if me == nil {
			t.Fatalf("C11 setup: no mount entry for auth/v%s", typ)
		}
		if off, err := core.isUserLockoutDisabled(me); err != nil || off {
			t.Fatalf("C11 setup: user lockout is not in effect on auth/v%s (disabled=%v err=%v)", typ, off, err)
		}
	}
	must("audited header hmac", &logical.Request{Operation: logical.UpdateOperation, Path: "sys/config/auditing/request-headers/X-Verif-Secret", Data: map[string]any{"hmac": true}})
	must("audited header plain", &logical.Request{Operation: logical.UpdateOperation, Path: "sys/config/auditing/request-headers/X-Verif-Plain", Data: map[string]any{"hmac": false}})
	for i := 0; i < k; i++ {
		must("enable device", &logical.Request{Operation: logical.UpdateOperation, Path: "sys/audit/" + c11DevOpts[i]["name"], Data: map[string]any{"type": "verifdev", "options": c11DevOpts[i]}})
	}
	if withFile != "" {
		must("enable file device", &logical.Request{Operation: logical.UpdateOperation, Path: "sys/audit/vfile", Data: map[string]any{"type": "file", "options": map[string]string{"file_path": withFile, "hmac_accessor": "true"}}})
	}
	if got := core.auditBroker.Count(); got != k+map[bool]int{true: 1, false: 0}[withFile != ""] {
		t.Fatalf("C11 setup: %d audit devices registered, want %d", got, k)
	}
	c11InstallProxies(t, w, core)
	w.dropEvents()
	return w
}

// c11InstallProxies puts recording proxies in front of the built-in backends of a core.
func c11InstallProxies(t *testing.T, w *c11World, core *Core) {
	for _, p := range []string{"sys/", "auth/token/", "cubbyhole/"} {
		re, ok := core.router.Get(p)
		if !ok || re.Backend == nil {
			t.Fatalf("C11 setup: no route entry for %s", p)
		}
		re.Lock()
		if _, done := re.Backend.(*c11Proxy); !done {
			re.Backend = &c11Proxy{Backend: re.Backend, w: w, name: p}
		}
		re.Unlock()
	}
}

// ---------------------------------------------------------------- client

type c11Result struct {
	ID        string
	Resp      *logical.Response
	Err       error
	ClientSeq int64
	Rendered  string
}

func c11RenderVal(sb *strings.Builder, v any, depth int) {
	if depth > 12 {
		return
	}
	switch x := v.(type) {
	case nil:
	case string:
		sb.WriteString(x)
		sb.WriteByte(' ')
	case []byte:
		sb.Write(x)
		sb.WriteByte(' ')
	case error:
		sb.WriteString(x.Error())
		sb.WriteByte(' ')
	case map[string]any:
		for k, e := range x {
			sb.WriteString(k)
			sb.WriteByte('=')
			c11RenderVal(sb, e, depth+1)
		}
	case map[string]string:
		for k, e := range x {
			sb.WriteString(k + "=" + e + " ")
		}
	case []any:
		for _, e := range x {
			c11RenderVal(sb, e, depth+1)
		}
	case []string:
		sb.WriteString(strings.Join(x, " ") + " ")
	default:
		b, err := json.Marshal(x)
		if err == nil {
			sb.Write(b)
		} else {
			fmt.Fprintf(sb, "%+v", x)
		}
		sb.WriteByte(' ')
	}
}

// c11Render is everything a client could read out of (resp, err).
func c11Render(resp *logical.Response, err error) string {
	var sb strings.Builder
	if err != nil {
		sb.WriteString("ERR:" + err.Error() + " ")
	}
	if resp != nil {
		c11RenderVal(&sb, resp.Data, 0)
		c11RenderVal(&sb, resp.Warnings, 0)
		sb.WriteString(resp.Redirect + " ")
		if resp.Auth != nil {
			c11RenderVal(&sb, resp.Auth, 0)
		}
		if resp.WrapInfo != nil {
			c11RenderVal(&sb, resp.WrapInfo, 0)
		}
		if resp.Secret != nil {
			c11RenderVal(&sb, resp.Secret, 0)
		}
		c11RenderVal(&sb, map[string]any{"h": resp.Headers}, 0)
	}
	return sb.String()
}

func (w *c11World) do(req *logical.Request, hdrSecret string, extraHdrs ...string) *c11Result {
	w.mu.Lock()
	w.reqN++
	id := fmt.Sprintf("vreq-%s-%d", w.tag, w.reqN)
	w.mu.Unlock()
	req.ID = id
	w.mu.Lock()
	w.cur = id
	w.mu.Unlock()
	if hdrSecret != "" {
		req.Headers = map[string][]string{"X-Verif-Secret": {hdrSecret}, "X-Verif-Plain": {"plain-header-value"}, "X-Verif-Unlisted": {"unl" + hdrSecret}}
		for i := 0; i+1 < len(extraHdrs); i += 2 {
			req.Headers[extraHdrs[i]] = []string{extraHdrs[i+1]}
		}
	}
	ctx := c11Ctx()
	if w.ns != "" {
		ctx = namespace.ContextWithNamespaceHeader(context.Background(), w.ns)
	}
	resp, err := w.core.HandleRequest(ctx, req)
	w.mu.Lock()
	w.cur = ""
	w.mu.Unlock()
	rendered := c11Render(resp, err)
	outcome := "data"
	if err != nil || (resp != nil && resp.IsError()) {
		outcome = "error"
	} else if resp == nil {
		outcome = "empty"
	}
	seq := w.add(c11Event{Kind: "client", ReqID: id, Outcome: outcome, Path: req.Path, Op: string(req.Operation)})
	return &c11Result{ID: id, Resp: resp, Err: err, ClientSeq: seq, Rendered: rendered}
}

func (res *c11Result) isErr() bool {
	return res.Err != nil || (res.Resp != nil && res.Resp.IsError())
}

// carries: the client got something beyond an error message.
func (res *c11Result) carries() bool {
	r := res.Resp
	if r == nil {
		return false
	}
	if r.Auth != nil || r.WrapInfo != nil || r.Secret != nil {
		return true
	}
	for k := range r.Data {
		if k != "error" {
			return true
		}
	}
	return false
}

// ---------------------------------------------------------------- cases

// c11LockTypes: the auth method type names for which the core runs the user-lockout logic
// (configutil.GetSupportedUserLockoutsAuthMethods).
var c11LockTypes = []string{"userpass", "approle", "ldap"}

const c11LockoutThreshold = 5 // configutil.UserLockoutThresholdDefault

func c11LockType(cs *c11Case) string {
	return c11LockTypes[c11Hash(fmt.Sprintf("locktype:%d:%d", cs.K, cs.P))%3]
}

var c11Kinds = []string{"read", "write", "list", "rawbody", "both", "login", "wrap", "unwrap", "unwrap3p", "denied", "badtoken", "tokencreate", "wraptokencreate", "kvwrite", "lklogin", "lkloginfail", "lklocked", "mfavalidate"}

type c11Case struct {
	ID      string
	K       int
	P       int
	Pattern []int
	Kind    string
	Group   int // ordinal of the (k, pattern) pair: shards partition on it so that every shard sees every kind
}

func c11Pow3(n int) int {
	p := 1
	for i := 0; i < n; i++ {
		p *= 3
	}
	return p
}

func c11Pattern(k, p int) []int {
	out := make([]int, 2*k)
	for i := range out {
		out[i] = p % 3
		p /= 3
	}
	return out
}

func c11PatternString(pat []int) string {
	var sb strings.Builder
	for i := 0; i < len(pat); i += 2 {
		fmt.Fprintf(&sb, "d%d:%s/%s ", i/2, c11OutcomeName[pat[i]], c11OutcomeName[pat[i+1]])
	}
	return strings.TrimSpace(sb.String())
}

func c11Hash(s string) uint64 {
	h := sha256.Sum256([]byte(s))
	var v uint64
	for i := 0; i < 8; i++ {
		v = v<<8 | uint64(h[i])
	}
	return v
}

// c11GenData plants canaries in a nested structure.
func c11GenData(rng *kit.Rand, where string, exemptKey, otherSideExemptKey string) (map[string]any, []c11Sec) {
	var secs []c11Sec
	s := func(path string, exempt bool) string {
		c := rng.Canary()
		v := kit.Pick(rng, []string{"", "", "s.", "pw ", "\"q\" <", "ünï "}) + c
		secs = append(secs, c11Sec{Where: where + "." + path, Value: v, Canary: c, Exempt: exempt})
		return v
	}
	// digit-only secrets (one-time codes, PINs, epoch-like numbers): no room for a canary, so the
	// complete JSON string token identifies them
	d := func(path string, width int, sign string) string {
		b := make([]byte, width)
		for i := range b {
			b[i] = byte('0' + rng.Intn(10))
		}
		v := sign + string(b)
		secs = append(secs, c11Sec{Where: where + "." + path, Value: v, Canary: `"` + v + `"`})
		return v
	}
	m := map[string]any{"value": s("value", false), "n": rng.Intn(100), "flag": true}
	if rng.Chance(2, 3) {
		m["otp"] = d("otp", 8, "")
	}
	if rng.Chance(1, 3) {
		m["codes"] = []any{d("codes[0]", 6, "0"), map[string]any{"epoch": d("codes[1].epoch", 9, "1"), "adjust": d("codes[1].adjust", 7, "-")}}
	}
	if rng.Chance(1, 2) {
		// a key exempted for the *other* half of the exchange is not exempt here
		m[otherSideExemptKey] = s(otherSideExemptKey, false)
	}
	if rng.Chance(2, 3) {
		m["nested"] = map[string]any{"inner": s("nested.inner", false), "list": []any{s("nested.list[0]", false), map[string]any{"deep": s("nested.list[1].deep", false)}, 7}}
	}
	if rng.Chance(1, 2) {
		m["typed"] = []string{s("typed[0]", false), s("typed[1]", false)}
	}
	if rng.Chance(1, 2) {
		m["strmap"] = map[string]string{"x": s("strmap.x", false)}
	}
	if rng.Chance(1, 2) {
		m[exemptKey] = s(exemptKey, true)
	}
	if rng.Chance(1, 3) {
		m["empty"] = ""
		m["nil"] = nil
		m["when"] = "2022-02-02T02:02:02Z"
	}
	return m, secs
}

// ---------------------------------------------------------------- oracle

type c11Judge struct {
	w        *c11World
	cs       *c11Case
	backend  []string // secrets only the backend / the server knows (must never reach an error)
	tokens   []string // bearer tokens seen in this case (never plaintext in entries)
	access   []string // accessors (never plaintext on hmac_accessor devices)
	reqSecs  []c11Sec
	respSecs []c11Sec
	hdrs     []string // header values that must not appear in plaintext (HMAC-configured or not configured)
	hdrHMAC  []string // header values whose salted HMAC must stand in (currently configured with hmac=true)
	hdrPlain string   // value of a header currently configured with hmac=false (plaintext permitted)
	hdrHist  string   // configuration history of this case's own header
	ids      []string
}

func (j *c11Judge) witness(res *c11Result, extra map[string]any) map[string]any {
	evs := j.w.eventsFor(res.ID)
	m := map[string]any{"k": j.cs.K, "pattern": c11PatternString(j.cs.Pattern), "kind": j.cs.Kind, "request_id": res.ID, "events": evs}
	r := res.Rendered
	if len(r) > 500 {
		r = r[:500] + "…"
	}
	m["client_saw"] = r
	for k, v := range extra {
		m[k] = v
	}
	return m
}

// order applies the ordering / error clauses to one client request.
func (j *c11Judge) order(res *c11Result, label string) (reqAccepted, respAccepted bool) {
	r := j.w.r
	evs := j.w.eventsFor(res.ID)
	var reqOK, respOK int64 = -1, -1
	sawAudit := map[string]int{}
	for _, e := range evs {
		if e.Kind != "audit" {
			continue
		}
		sawAudit[e.Phase+":"+e.Outcome]++
		if e.Outcome == "ok" {
			if e.Phase == "request" && reqOK < 0 {
				reqOK = e.Seq
			}
			if e.Phase == "response" && respOK < 0 {
				respOK = e.Seq
			}
		}
	}
	r.Count("requests_judged", 1)
	r.Count("audit_events:panic", sawAudit["request:panic"]+sawAudit["response:panic"])
	r.Count("audit_events:err", sawAudit["request:err"]+sawAudit["response:err"])
	r.Count("audit_events:ok", sawAudit["request:ok"]+sawAudit["response:ok"])
	if n := sawAudit["request:format-error"] + sawAudit["response:format-error"]; n > 0 {
		r.Count("audit_events:format-error", n)
	}
	nBackend := 0
	for _, e := range evs {
		if e.Kind == "existence" {
			// the documented exception (see the assumption): counted, not judged
			r.Count("existence_checks_observed", 1)
			if reqOK < 0 || reqOK > e.Seq {
				r.Count("existence_checks_before_request_entry", 1)
			}
			continue
		}
		if e.Kind != "backend" {
			continue
		}
		nBackend++
		r.Count("backend_entries_observed", 1)
		r.Count("backend_entries:"+e.Mount, 1)
		if strings.HasPrefix(e.Op, "internal:") {
			r.Count("backend_calls_by_the_core_itself:"+strings.TrimPrefix(e.Op, "internal:"), 1)
			if reqOK < 0 || reqOK > e.Seq {
				r.Violate("C11-backend-called-before-request-audited", j.cs.ID, fmt.Sprintf("%s (%s): the core called into backend %s (%s %s, a call of its own on behalf of this request, carrying the request's data) although no audit device had accepted the request entry before (k=%d, %s)", j.cs.Kind, label, e.Mount, e.Op, e.Path, j.cs.K, c11PatternString(j.cs.Pattern)), j.witness(res, nil))
			}
			continue
		}
		if reqOK < 0 || reqOK > e.Seq {
			r.Violate("C11-routed-before-request-audited", j.cs.ID, fmt.Sprintf("%s (%s): backend %s was invoked (%s %s) although no audit device had accepted the request entry before (k=%d, %s)", j.cs.Kind, label, e.Mount, e.Op, e.Path, j.cs.K, c11PatternString(j.cs.Pattern)), j.witness(res, nil))
		}
	}
	leaked := ""
	for _, s := range j.backend {
		if strings.Contains(res.Rendered, s) {
			leaked = s
			break
		}
	}
	if (res.carries() && !res.isErr()) || leaked != "" {
		r.Count("client_received_data", 1)
		if respOK < 0 || respOK > res.ClientSeq {
			r.Violate("C11-returned-before-response-audited", j.cs.ID, fmt.Sprintf("%s (%s): the client received response data although no audit device had accepted the response entry (k=%d, %s)", j.cs.Kind, label, j.cs.K, c11PatternString(j.cs.Pattern)), j.witness(res, map[string]any{"secret_seen_by_client": leaked}))
		}
	}
	if reqOK < 0 {
		r.Count("request_phase_no_device_accepted", 1)
		if nBackend == 0 && res.isErr() {
			r.Count("blocked_before_backend_with_error", 1)
		}
	}
	if reqOK < 0 || respOK < 0 {
		which := "request"
		if reqOK >= 0 {
			which = "response"
			r.Count("response_phase_no_device_accepted", 1)
		}
		if !res.isErr() {
			r.Violate("C11-no-error-after-audit-failure", j.cs.ID, fmt.Sprintf("%s (%s): no audit device accepted the %s entry, yet the client did not receive an error (k=%d, %s)", j.cs.Kind, label, which, j.cs.K, c11PatternString(j.cs.Pattern)), j.witness(res, nil))
		} else if leaked != "" {
			r.Violate("C11-secret-in-error-after-audit-failure", j.cs.ID, fmt.Sprintf("%s (%s): no audit device accepted the %s entry and the error handed to the client carries secret material", j.cs.Kind, label, which), j.witness(res, map[string]any{"secret_seen_by_client": leaked}))
		} else {
			r.Count("error_without_secret_after_audit_failure", 1)
		}
	}
	if reqOK >= 0 && (sawAudit["request:panic"] > 0) {
		r.Count("accepted_then_other_device_panicked", 1)
	}
	return reqOK >= 0, respOK >= 0
}

var c11TokenFields = [][]string{{"auth", "client_token"}, {"request", "client_token"}, {"response", "auth", "client_token"}, {"response", "wrap_info", "token"}}
var c11AccessorFields = [][]string{{"auth", "accessor"}, {"request", "client_token_accessor"}, {"response", "auth", "accessor"}, {"response", "wrap_info", "accessor"}, {"response", "wrap_info", "wrapped_accessor"}}

func c11Dig(m map[string]any, path []string) (string, bool) {
	var cur any = m
	for _, p := range path {
		mm, ok := cur.(map[string]any)
		if !ok {
			return "", false
		}
		cur, ok = mm[p]
		if !ok {
			return "", false
		}
	}
	s, ok := cur.(string)
	return s, ok
}

// entries searches every entry accepted by a device for this case's secrets.
func (j *c11Judge) entries(main *c11Result, expectReqData, expectRespData bool) {
	r := j.w.r
	ctx := c11Ctx()
	for _, id := range j.ids {
		for _, e := range j.w.eventsFor(id) {
			if e.Kind != "audit" || len(e.entry) == 0 {
				continue
			}
			dev := j.w.devices[e.Dev]
			r.Count("entries_scanned", 1)
			bad := func(class, what, needle string) {
				ex := string(e.entry)
				if i := strings.Index(ex, needle); i >= 0 {
					lo, hi := i-200, i+len(needle)+60
					if lo < 0 {
						lo = 0
					}
					if hi > len(ex) {
						hi = len(ex)
					}
					ex = "…" + ex[lo:hi] + "…"
				} else if len(ex) > 600 {
					ex = ex[:600] + "…"
				}
				r.Violate(class, j.cs.ID, fmt.Sprintf("%s: %s entry accepted by device %s (hmac_accessor=%v) %s", j.cs.Kind, e.Phase, e.Dev, dev.fcfg.HMACAccessor, what),
					map[string]any{"k": j.cs.K, "pattern": c11PatternString(j.cs.Pattern), "kind": j.cs.Kind, "request_id": id, "device": e.Dev, "phase": e.Phase, "entry_excerpt": ex})
			}
			for _, t := range j.tokens {
				if t != "" && bytes.Contains(e.entry, []byte(t)) {
					bad("C11-plaintext-token-in-entry", "contains a bearer token in plaintext", t)
				}
			}
			if dev.fcfg.HMACAccessor {
				for _, a := range j.access {
					if a != "" && bytes.Contains(e.entry, []byte(a)) {
						bad("C11-plaintext-accessor-in-entry", "contains a token accessor in plaintext", a)
					}
				}
			}
			for _, h := range j.hdrs {
				if bytes.Contains(e.entry, []byte(h)) {
					bad("C11-plaintext-header-in-entry", "contains the value of a request header whose current audit configuration is hmac=true or that is not configured for auditing (history of the case's own header: "+j.hdrHist+")", h)
				}
			}
			for _, s := range append(append([]c11Sec{}, j.reqSecs...), j.respSecs...) {
				if !s.Exempt && bytes.Contains(e.entry, []byte(s.Canary)) {
					bad("C11-plaintext-data-in-entry", "contains the plaintext of data value "+s.Where, s.Canary)
				}
			}
			// structural: token-bearing fields hold an HMAC or nothing
			var parsed map[string]any
			if err := json.Unmarshal(e.entry, &parsed); err != nil {
				r.Note("entry of %s is not JSON: %v", id, err)
				continue
			}
			for _, f := range c11TokenFields {
				if v, ok := c11Dig(parsed, f); ok && v != "" {
					r.Count("token_fields_checked", 1)
					if !strings.HasPrefix(v, "hmac-sha256:") {
						bad("C11-plaintext-token-in-entry", "field "+strings.Join(f, ".")+" holds a value that is not a salted HMAC", v)
					}
				}
			}
			if dev.fcfg.HMACAccessor {
				for _, f := range c11AccessorFields {
					if v, ok := c11Dig(parsed, f); ok && v != "" {
						r.Count("accessor_fields_checked", 1)
						if !strings.HasPrefix(v, "hmac-sha256:") {
							bad("C11-plaintext-accessor-in-entry", "field "+strings.Join(f, ".")+" holds a value that is not a salted HMAC", v)
						}
					}
				}
			}
			// presence of the HMAC (entry vouches for the values) - main request only
			if id != main.ID {
				continue
			}
			saltVal, err := dev.saltValue(ctx)
			if err != nil {
				r.Note("cannot read salt of %s: %v", e.Dev, err)
				continue
			}
			check := func(secs []c11Sec) {
				for _, s := range secs {
					if !s.Exempt && bytes.Contains(e.entry, []byte(s.Canary)) {
						continue // already reported as plaintext
					}
					switch {
					case bytes.Contains(e.entry, []byte(c11Ref(saltVal, s.Value))):
						r.Count("data_hmacs_verified", 1)
					case s.Exempt && bytes.Contains(e.entry, []byte(s.Canary)):
						r.Count("exempt_plain_seen", 1)
					case s.Elide && dev.fcfg.ElideListResponses:
						r.Count("list_keys_elided", 1)
					default:
						bad("C11-hmac-missing-in-entry", "holds neither the salted HMAC nor (where exempt) the plaintext of "+s.Where+": the value was dropped or altered", "\x00")
					}
				}
			}
			if expectReqData {
				check(j.reqSecs)
			}
			if expectRespData && e.Phase == "response" {
				check(j.respSecs)
			}
			for _, hv := range j.hdrHMAC {
				if bytes.Contains(e.entry, []byte(hv)) {
					continue // already reported as plaintext
				}
				if bytes.Contains(e.entry, []byte(c11Ref(saltVal, hv))) {
					r.Count("header_hmacs_verified", 1)
				} else {
					bad("C11-hmac-missing-in-entry", "lacks the salted HMAC of a request header whose current audit configuration is hmac=true", "\x00")
				}
			}
			if j.hdrPlain != "" {
				if bytes.Contains(e.entry, []byte(j.hdrPlain)) {
					r.Count("plain_configured_header_seen_plain", 1)
				} else {
					r.Count("plain_configured_header_not_plain", 1)
				}
			}
		}
	}
}

func (j *c11Judge) learn(res *c11Result) {
	if res.Resp == nil {
		return
	}
	if a := res.Resp.Auth; a != nil {
		if a.ClientToken != "" {
			j.tokens = append(j.tokens, a.ClientToken)
			if inner, err := j.w.core.DecodeSSCToken(a.ClientToken); err == nil && inner != "" && inner != a.ClientToken {
				j.tokens = append(j.tokens, inner)
			}
		}
		if a.Accessor != "" {
			j.access = append(j.access, a.Accessor)
		}
	}
	if wi := res.Resp.WrapInfo; wi != nil {
		if wi.Token != "" {
			j.tokens = append(j.tokens, wi.Token)
		}
		if wi.Accessor != "" {
			j.access = append(j.access, wi.Accessor)
		}
		if wi.WrappedAccessor != "" {
			j.access = append(j.access, wi.WrappedAccessor)
		}
	}
}

// ---------------------------------------------------------------- one case

func (w *c11World) runCase(seed int64, cs *c11Case) *c11Judge {
	r := w.r
	rng := kit.NewRand(seed, c11Hash(cs.ID))
	j := &c11Judge{w: w, cs: cs, tokens: []string{w.root}}
	w.dropEvents()
	w.setScript(nil)

	respData, respSecs := c11GenData(rng, "response.data", "exempt_resp", "exempt_req")
	reqData, reqSecs := c11GenData(rng, "request.data", "exempt_req", "exempt_resp")
	var keys []string
	var keySecs []c11Sec
	for i, n := 0, 1+rng.Intn(3); i < n; i++ {
		c := rng.Canary()
		keys = append(keys, "k-"+c)
		keySecs = append(keySecs, c11Sec{Where: fmt.Sprintf("response.data.keys[%d]", i), Value: "k-" + c, Canary: c, Elide: true})
	}
	metaCanary := rng.Canary()
	w.mu.Lock()
	w.respData, w.listKeys, w.writeNil, w.loginMeta = respData, keys, rng.Chance(1, 2), "m"+metaCanary
	w.mu.Unlock()
	for _, s := range respSecs {
		j.backend = append(j.backend, s.Canary)
	}
	for _, s := range keySecs {
		j.backend = append(j.backend, s.Canary)
	}
	hdr := "hdr" + rng.Canary()
	j.hdrs = []string{hdr, "unl" + hdr}
	j.hdrHMAC = []string{hdr}

	setup := func(label string, req *logical.Request) *c11Result {
		res := w.do(req, "")
		j.ids = append(j.ids, res.ID)
		j.learn(res)
		ra, rp := j.order(res, "setup:"+label)
		if res.isErr() || !ra || !rp {
			r.Inconc("case %s: setup request %s failed with all devices healthy: %s", cs.ID, label, res.Rendered)
			return nil
		}
		return res
	}
	wrapIt := func() string {
		res := setup("wrap", &logical.Request{Operation: logical.ReadOperation, Path: "vrec/data/w", ClientToken: w.root, WrapInfo: &logical.RequestWrapInfo{TTL: 5 * time.Minute}})
		if res == nil || res.Resp == nil || res.Resp.WrapInfo == nil {
			return ""
		}
		return res.Resp.WrapInfo.Token
	}

	// Generated configuration history of a header owned by this case: the
	// audited-headers API is create-or-overwrite, so what counts for the
	// entries of the main request is the last successfully applied setting.
	dynName := fmt.Sprintf("X-Verif-Dyn-%08x", uint32(c11Hash(cs.ID)))
	dynVal := "dyn" + rng.Canary()
	dynState := "absent"
	var hist []string
	for i, n := 0, 1+rng.Intn(3); i < n; i++ {
		var hreq *logical.Request
		next := ""
		switch rng.Intn(7) {
		case 0, 1, 2:
			hreq, next = &logical.Request{Operation: logical.UpdateOperation, Path: "sys/config/auditing/request-headers/" + dynName, ClientToken: w.root, Data: map[string]any{"hmac": false}}, "plain"
		case 3, 4, 5:
			hreq, next = &logical.Request{Operation: logical.UpdateOperation, Path: "sys/config/auditing/request-headers/" + dynName, ClientToken: w.root, Data: map[string]any{"hmac": true}}, "hmac"
		default:
			hreq, next = &logical.Request{Operation: logical.DeleteOperation, Path: "sys/config/auditing/request-headers/" + dynName, ClientToken: w.root}, "absent"
		}
		if setup("header-config:"+next, hreq) == nil {
			return j
		}
		r.Count("header_config_transition:"+dynState+"->"+next, 1)
		dynState = next
		hist = append(hist, next)
	}
	j.hdrHist = strings.Join(hist, " -> ")
	r.Count("header_final_state:"+dynState, 1)
	switch dynState {
	case "hmac":
		j.hdrs = append(j.hdrs, dynVal)
		j.hdrHMAC = append(j.hdrHMAC, dynVal)
	case "absent":
		j.hdrs = append(j.hdrs, dynVal)
	default:
		j.hdrPlain = dynVal
	}
	defer func() {
		// keep the audited-headers table small; not judged
		w.setScript(nil)
		w.do(&logical.Request{Operation: logical.DeleteOperation, Path: "sys/config/auditing/request-headers/" + dynName, ClientToken: w.root}, "")
	}()

	var req *logical.Request
	expectReqData, expectRespData := false, false
	name := fmt.Sprintf("c%d", rng.Intn(1000000))
	switch cs.Kind {
	case "read":
		req = &logical.Request{Operation: logical.ReadOperation, Path: "vrec/data/" + name, ClientToken: w.root}
		expectRespData = true
	case "write":
		req = &logical.Request{Operation: logical.UpdateOperation, Path: "vrec/data/" + name, ClientToken: w.root, Data: reqData}
		expectReqData, expectRespData = true, !w.writeNil
	case "list":
		req = &logical.Request{Operation: logical.ListOperation, Path: "vrec/data/", ClientToken: w.root}
		respSecs, expectRespData = keySecs, true
	case "rawbody":
		req = &logical.Request{Operation: logical.ReadOperation, Path: "vrec/raw/" + name, ClientToken: w.root}
	case "both":
		req = &logical.Request{Operation: logical.ReadOperation, Path: "vrec/both/" + name, ClientToken: w.root}
		expectRespData = true
	case "login":
		req = &logical.Request{Operation: logical.UpdateOperation, Path: "auth/vcred/login", Data: reqData}
		expectReqData = true
	case "wrap":
		req = &logical.Request{Operation: logical.ReadOperation, Path: "vrec/data/" + name, ClientToken: w.root, WrapInfo: &logical.RequestWrapInfo{TTL: 5 * time.Minute}}
	case "unwrap":
		tok := wrapIt()
		if tok == "" {
			return j
		}
		req = &logical.Request{Operation: logical.UpdateOperation, Path: "sys/wrapping/unwrap", ClientToken: tok}
		expectRespData = true
	case "unwrap3p":
		tok := wrapIt()
		if tok == "" {
			return j
		}
		req = &logical.Request{Operation: logical.UpdateOperation, Path: "sys/wrapping/unwrap", ClientToken: w.root, Data: map[string]any{"token": tok}}
		expectRespData = true
	case "denied":
		res := setup("token", &logical.Request{Operation: logical.UpdateOperation, Path: "auth/token/create", ClientToken: w.root, Data: map[string]any{"policies": []string{"default"}, "ttl": "1h"}})
		if res == nil || res.Resp == nil || res.Resp.Auth == nil {
			return j
		}
		req = &logical.Request{Operation: logical.ReadOperation, Path: "vrec/data/" + name, ClientToken: res.Resp.Auth.ClientToken}
	case "badtoken":
		bogus := "s." + rng.Canary()
		j.tokens = append(j.tokens, bogus)
		req = &logical.Request{Operation: logical.ReadOperation, Path: "vrec/data/" + name, ClientToken: bogus}
	case "wraptokencreate":
		req = &logical.Request{Operation: logical.UpdateOperation, Path: "auth/token/create", ClientToken: w.root, Data: map[string]any{"policies": []string{"default"}, "ttl": "1h"}, WrapInfo: &logical.RequestWrapInfo{TTL: 5 * time.Minute}}
	case "tokencreate":
		req = &logical.Request{Operation: logical.UpdateOperation, Path: "auth/token/create", ClientToken: w.root, Data: map[string]any{"policies": []string{"default"}, "ttl": "1h", "meta": map[string]any{"note": "plain-meta"}}}
	case "kvwrite":
		req = &logical.Request{Operation: logical.UpdateOperation, Path: "secret/c11-" + name, ClientToken: w.root, Data: map[string]any{"value": reqSecs[0].Value}}
		reqSecs = reqSecs[:1]
		expectReqData = true
	case "lklogin", "lkloginfail", "lklocked":
		// logins on an auth mount whose type name makes the core run the user-lockout logic: before
		// routing the login the core asks the backend for the alias name (a call carrying the login data)
		path := "auth/v" + c11LockType(cs) + "/login"
		user := "u" + rng.Canary()
		pwc := rng.Canary()
		reqData["username"] = user
		reqData["password"] = "good" + pwc
		reqSecs = append(reqSecs, c11Sec{Where: "request.data.password", Value: "good" + pwc, Canary: pwc})
		if cs.Kind == "lklocked" {
			// trip the lockout with every device healthy: threshold failing logins in a row
			for i := 0; i < c11LockoutThreshold; i++ {
				bad := map[string]any{"username": user, "password": "bad" + rng.Canary()}
				fres := w.do(&logical.Request{Operation: logical.UpdateOperation, Path: path, Data: bad}, "")
				j.ids = append(j.ids, fres.ID)
				ra, rp := j.order(fres, fmt.Sprintf("setup: failing login %d", i+1))
				if !fres.isErr() || !ra || !rp {
					r.Inconc("case %s: failing login %d with all devices healthy: error=%v accepted=%v/%v: %s", cs.ID, i+1, fres.isErr(), ra, rp, fres.Rendered)
					return j
				}
				r.Count("failing_logins_to_trip_lockout", 1)
			}
		}
		if cs.Kind == "lkloginfail" {
			badc := rng.Canary()
			reqData["password"] = "bad" + badc
			reqSecs[len(reqSecs)-1] = c11Sec{Where: "request.data.password", Value: "bad" + badc, Canary: badc}
		}
		req = &logical.Request{Operation: logical.UpdateOperation, Path: path, Data: reqData}
		expectReqData = true
	case "mfavalidate":
		// the second leg of a login subject to MFA: an unauthenticated request handled on the login path
		req = &logical.Request{Operation: logical.UpdateOperation, Path: "sys/mfa/validate", Data: map[string]any{"mfa_request_id": "mfa" + rng.Canary(), "mfa_payload": map[string]any{}}}
	default:
		r.Inconc("unknown kind %s", cs.Kind)
		return j
	}
	j.reqSecs, j.respSecs = reqSecs, respSecs
	if !expectReqData {
		j.reqSecs = nil
	}

	w.setScript(cs.Pattern)
	res := w.do(req, hdr, dynName, dynVal)
	w.setScript(nil)
	j.ids = append(j.ids, res.ID)
	j.learn(res)
	reqAcc, respAcc := j.order(res, "main")

	// kind-specific expectations that follow from the property
	switch cs.Kind {
	case "denied", "badtoken":
		for _, e := range w.eventsFor(res.ID) {
			if e.Kind == "backend" && e.Mount == "vrec/" {
				r.Note("case %s: unauthorised request reached the backend (C02 territory): %+v", cs.ID, e)
			}
		}
		if res.isErr() {
			r.Count("denied_got_error", 1)
		}
	case "lklogin", "lkloginfail", "lklocked":
		look, login := 0, 0
		for _, e := range w.eventsFor(res.ID) {
			if e.Kind == "backend" && e.Op == "internal:"+string(logical.AliasLookaheadOperation) {
				look++
			} else if e.Kind == "backend" && !strings.HasPrefix(e.Op, "internal:") {
				login++
			}
		}
		if look > 0 {
			r.Count("lockout_alias_lookahead_calls_observed", look)
		}
		// (a panicking device makes the broker fail the whole request entry although another device accepted it)
		reqPhasePanic := false
		for i := 0; i < len(cs.Pattern); i += 2 {
			reqPhasePanic = reqPhasePanic || cs.Pattern[i] == c11Panic
		}
		if reqAcc && !reqPhasePanic && look == 0 {
			r.Inconc("case %s: the request entry was accepted but the core never asked the backend for the alias name: user lockout is not in effect on this mount", cs.ID)
		}
		if cs.Kind == "lklocked" && reqAcc && !reqPhasePanic {
			if login == 0 && res.isErr() {
				r.Count("locked_user_login_refused_without_routing", 1)
			} else {
				r.Inconc("case %s: the user was not locked out after %d failing logins (login handler calls: %d, error: %v)", cs.ID, c11LockoutThreshold, login, res.isErr())
			}
		}
	case "kvwrite":
		// effect oracle independent of the proxies: a write whose request entry nobody accepted must not be stored
		chk := w.do(&logical.Request{Operation: logical.ReadOperation, Path: req.Path, ClientToken: w.root}, "")
		stored := strings.Contains(chk.Rendered, reqSecs[0].Canary)
		switch {
		case !reqAcc && stored:
			r.Violate("C11-effect-without-request-audit", cs.ID, fmt.Sprintf("kv write was applied to storage although no audit device accepted its request entry (k=%d, %s)", cs.K, c11PatternString(cs.Pattern)), j.witness(res, map[string]any{"read_back": chk.Rendered}))
		case !reqAcc:
			r.Count("kv_write_blocked_not_stored", 1)
		case stored:
			r.Count("kv_write_audited_and_stored", 1)
		}
	}
	if reqAcc && respAcc && !res.isErr() {
		r.Count("delivered_after_both_accepted", 1)
		r.Count("delivered:"+cs.Kind, 1)
	}
	// with everything healthy the workload must actually do its job, else the case exercises nothing
	allOK := true
	for _, o := range cs.Pattern {
		if o != c11OK {
			allOK = false
		}
	}
	if allOK {
		wantErr := cs.Kind == "denied" || cs.Kind == "badtoken" || cs.Kind == "both" || cs.Kind == "lkloginfail" || cs.Kind == "lklocked" || cs.Kind == "mfavalidate"
		if res.isErr() != wantErr {
			r.Inconc("case %s: with all devices healthy the %s request gave error=%v: %s", cs.ID, cs.Kind, res.isErr(), res.Rendered)
		}
		switch cs.Kind {
		case "read", "unwrap", "unwrap3p", "rawbody", "both":
			if !strings.Contains(res.Rendered, respSecs[0].Canary) {
				r.Inconc("case %s: healthy %s did not deliver the backend's data: %s", cs.ID, cs.Kind, res.Rendered)
			}
		}
	}
	// the response entry can only vouch for backend data if the backend ran for this request
	backendRan := false
	for _, e := range w.eventsFor(res.ID) {
		if e.Kind == "backend" {
			backendRan = true
		}
	}
	j.entries(res, expectReqData, expectRespData && backendRan)

	if r.NViolations() == 0 && cs.K >= 2 && !allOK {
		r.Sample(map[string]any{"case": cs.ID, "pattern": c11PatternString(cs.Pattern), "kind": cs.Kind, "request_accepted": reqAcc, "response_accepted": respAcc, "client_error": res.isErr(), "events": w.eventsFor(res.ID)})
	}
	return j
}

// ---------------------------------------------------------------- tests

func c11CaseList(seed int64) []*c11Case {
	var out []*c11Case
	group := 0
	add := func(k, p int) {
		for _, kind := range c11Kinds {
			out = append(out, &c11Case{ID: fmt.Sprintf("ord:k%d:p%d:%s", k, p, kind), K: k, P: p, Pattern: c11Pattern(k, p), Kind: kind, Group: group})
		}
		group++
	}
	// every assignment for k <= 3 (k <= 4 in the thorough tier), a seeded sample of the next k
	full := kit.N(3, 4)
	for k := 1; k <= full; k++ {
		for p := 0; p < c11Pow3(2*k); p++ {
			add(k, p)
		}
	}
	rng := kit.NewRand(seed, 0x1130)
	total := c11Pow3(2 * (full + 1))
	n := kit.N(150, 1500)
	seen := map[int]bool{}
	var ps []int
	for len(ps) < n {
		p := rng.Intn(total)
		if !seen[p] {
			seen[p] = true
			ps = append(ps, p)
		}
	}
	sort.Ints(ps)
	for _, p := range ps {
		add(full+1, p)
	}
	return out
}

func c11ParseCase(id string) *c11Case {
	parts := strings.Split(id, ":")
	if len(parts) != 4 || parts[0] != "ord" {
		return nil
	}
	k, err1 := strconv.Atoi(strings.TrimPrefix(parts[1], "k"))
	p, err2 := strconv.Atoi(strings.TrimPrefix(parts[2], "p"))
	if err1 != nil || err2 != nil || k < 1 || k > len(c11DevOpts) || p < 0 || p >= c11Pow3(2*k) {
		return nil
	}
	return &c11Case{ID: id, K: k, P: p, Pattern: c11Pattern(k, p), Kind: parts[3]}
}

func TestVerif_C11_Order(t *testing.T) {
	seed := kit.Seed(11)
	r := kit.NewResult(t, "c11-order", seed, "a case is (k devices, one assignment of ok/err/panic to every (device, phase), request kind) run against a real Core; kinds: read, write, list, raw-body, data+error, login, wrapped response, unwrap (own token / third party), denied, bogus token, token create, wrapped token create, kv write with read-back; it is non-trivial when at least one device call is scripted to fail or panic; all 3^(2k) assignments for k<=3 (k<=4 thorough) and a seeded sample of k+1")
	defer r.Write(t)
	r.Assume("'accepted' = the device's LogRequest/LogResponse returned nil; 'routed to a backend' = HandleRequest of the mounted backend was entered: for the own recording backends (logical, credential under its own type name and under userpass / approle / ldap) EVERY HandleRequest call of any operation counts, also the calls the core makes on its own account while it serves the request (alias look-ahead of the user-lockout check, role resolution; they carry no request id and are attributed to the client request in flight); for the proxies in front of sys/, auth/token/, cubbyhole/ calls with the client's request id count")
	r.Assume("HandleExistenceCheck is the one call into a backend that precedes the request entry by design: Core.CheckToken asks the backend whether the resource exists to turn a write into create or update before anything else happens ('we ask the backend to give us the real skinny', request_handling.go), and the operation so determined is part of the request entry; existence checks are recorded and counted, not judged")
	r.Assume("extension beyond the statement's list: values of request headers whose current audit configuration (last successfully applied create-or-overwrite / delete call, generated histories of 1..3 steps per case) is hmac=true, or that are not configured, must not appear in entries (anchor audited_headers.go)")

	var cases []*c11Case
	if oc := kit.OnlyCase(); oc != "" {
		cs := c11ParseCase(oc)
		if cs == nil {
			t.Skipf("case %q is not an ordering case", oc)
			return
		}
		cases = []*c11Case{cs}
	} else {
		cases = c11CaseList(seed)
	}
	shard, shards := kit.Shard()
	worlds := map[int]*c11World{}
	patterns := map[string]bool{}
	mine := 0
	for _, cs := range cases {
		if cs.Group%shards != shard {
			continue
		}
		mine++
		w := worlds[cs.K]
		if w == nil {
			w = c11Boot(t, r, cs.K, "")
			worlds[cs.K] = w
		}
		r.Eval(1)
		r.Count("cases", 1)
		r.Count("cases_kind:"+cs.Kind, 1)
		r.Count(fmt.Sprintf("cases_k:%d", cs.K), 1)
		nonOK := false
		for _, o := range cs.Pattern {
			if o != c11OK {
				nonOK = true
			}
		}
		if nonOK {
			r.Nontrivial(cs.ID)
		}
		pk := fmt.Sprintf("%d:%d", cs.K, cs.P)
		if !patterns[pk] {
			patterns[pk] = true
			r.Count("fault_patterns", 1)
		}
		w.runCase(seed, cs)
	}
	r.Require("cases", int64(mine))
	r.Require("backend_entries_observed", 500)
	r.Require("backend_entries:vrec/", 200)
	r.Require("backend_entries:sys/", 50)
	r.Require("backend_entries:auth/token/", 50)
	r.Require("backend_entries:auth/vcred/", 20)
	r.Require("request_phase_no_device_accepted", 200)
	r.Require("blocked_before_backend_with_error", 200)
	r.Require("response_phase_no_device_accepted", 200)
	r.Require("error_without_secret_after_audit_failure", 400)
	r.Require("delivered_after_both_accepted", 200)
	r.Require("accepted_then_other_device_panicked", 20)
	r.Require("audit_events:panic", 200)
	r.Require("audit_events:err", 200)
	r.Require("kv_write_blocked_not_stored", 20)
	r.Require("kv_write_audited_and_stored", 20)
	r.Require("entries_scanned", 2000)
	r.Require("token_fields_checked", 2000)
	r.Require("data_hmacs_verified", 1000)
	r.Require("header_hmacs_verified", 500)
	r.Require("header_config_transition:plain->hmac", 100)
	r.Require("header_config_transition:hmac->plain", 100)
	r.Require("header_config_transition:hmac->absent", 20)
	r.Require("header_final_state:hmac", 500)
	r.Require("header_final_state:absent", 100)
	r.Require("plain_configured_header_seen_plain", 200)
	r.Require("list_keys_elided", 5)
	r.Require("lockout_alias_lookahead_calls_observed", 300)
	r.Require("backend_calls_by_the_core_itself:"+string(logical.AliasLookaheadOperation), 300)
	r.Require("locked_user_login_refused_without_routing", 50)
	r.Require("failing_logins_to_trip_lockout", 1000)
	r.Require("existence_checks_observed", 200)
	for _, typ := range c11LockTypes {
		r.Require("backend_entries:auth/v"+typ+"/", 100)
	}
	for _, kind := range []string{"read", "write", "list", "rawbody", "login", "wrap", "unwrap", "unwrap3p", "tokencreate", "wraptokencreate", "kvwrite", "lklogin"} {
		r.Require("delivered:"+kind, 5)
	}
}

// TestVerif_C11_FileDevice drives the same request kinds through the real file
// audit device (plus one programmable device) and searches the file's bytes.
func TestVerif_C11_FileDevice(t *testing.T) {
	seed := kit.Seed(11)
	r := kit.NewResult(t, "c11-file-device", seed, "a case is one request of a generated kind sent to a Core whose audit devices are the built-in file device and one healthy programmable device; afterwards every line the file device wrote is searched for all canaries, tokens and accessors of the whole run; non-trivial = distinct (kind, payload) pair")
	defer r.Write(t)
	if oc := kit.OnlyCase(); oc != "" && !strings.HasPrefix(oc, "file:") {
		t.Skip("not a file-device case")
		return
	}
	if s, _ := kit.Shard(); s != 0 {
		r.Eval(0)
		r.Note("file-device scenario runs on shard 0 only")
		return
	}
	dir := t.TempDir()
	path := filepath.Join(dir, "audit.log")
	w := c11Boot(t, r, 1, path)
	w.tag = "file"
	n := kit.N(150, 1500)
	var allTokens, allAccess []string
	var allSecs []c11Sec
	var hdrs []string
	allTokens = append(allTokens, w.root)
	for i := 0; i < n; i++ {
		kind := c11Kinds[i%len(c11Kinds)]
		cs := &c11Case{ID: fmt.Sprintf("file:%d", i), K: 1, P: 0, Pattern: []int{0, 0}, Kind: kind}
		r.Eval(1)
		r.Nontrivial(cs.ID)
		r.Count("cases", 1)
		// run through the ordering oracle as well (two devices, both healthy)
		j := w.runCase(seed, cs)
		allTokens = append(allTokens, j.tokens...)
		allAccess = append(allAccess, j.access...)
		allSecs = append(allSecs, j.reqSecs...)
		allSecs = append(allSecs, j.respSecs...)
		hdrs = append(hdrs, j.hdrs...)
	}
	raw, err := os.ReadFile(path)
	if err != nil {
		r.Inconc("cannot read audit file: %v", err)
		return
	}
	lines := bytes.Split(bytes.TrimSpace(raw), []byte("\n"))
	r.Count("file_lines", len(lines))
	r.Count("file_bytes", len(raw))
	excerpt := func(needle string) string {
		i := bytes.Index(raw, []byte(needle))
		lo, hi := i-200, i+len(needle)+60
		if lo < 0 {
			lo = 0
		}
		if hi > len(raw) {
			hi = len(raw)
		}
		return "…" + string(raw[lo:hi]) + "…"
	}
	seen := map[string]bool{}
	for _, tkn := range allTokens {
		if tkn == "" || seen[tkn] {
			continue
		}
		seen[tkn] = true
		r.Count("file_tokens_searched", 1)
		if bytes.Contains(raw, []byte(tkn)) {
			r.Violate("C11-plaintext-token-in-entry", "", "the file audit device wrote a bearer token in plaintext", map[string]any{"excerpt": excerpt(tkn)})
		}
	}
	for _, a := range allAccess {
		if a == "" || seen[a] {
			continue
		}
		seen[a] = true
		r.Count("file_accessors_searched", 1)
		if bytes.Contains(raw, []byte(a)) {
			r.Violate("C11-plaintext-accessor-in-entry", "", "the file audit device (hmac_accessor=true) wrote an accessor in plaintext", map[string]any{"excerpt": excerpt(a)})
		}
	}
	for _, s := range allSecs {
		r.Count("file_data_canaries_searched", 1)
		if !s.Exempt && bytes.Contains(raw, []byte(s.Canary)) {
			r.Violate("C11-plaintext-data-in-entry", "", "the file audit device wrote the plaintext of data value "+s.Where, map[string]any{"excerpt": excerpt(s.Canary)})
		}
	}
	for _, h := range hdrs {
		if bytes.Contains(raw, []byte(h)) {
			r.Violate("C11-plaintext-header-in-entry", "", "the file audit device wrote a header value that must be hashed or omitted", map[string]any{"excerpt": excerpt(h)})
		}
	}
	for _, ln := range lines {
		var parsed map[string]any
		if json.Unmarshal(ln, &parsed) != nil {
			r.Count("file_lines_not_json", 1)
			continue
		}
		for _, f := range c11TokenFields {
			if v, ok := c11Dig(parsed, f); ok && v != "" {
				r.Count("file_token_fields_checked", 1)
				if !strings.HasPrefix(v, "hmac-sha256:") {
					r.Violate("C11-plaintext-token-in-entry", "", "file device: field "+strings.Join(f, ".")+" is not a salted HMAC", map[string]any{"line": string(ln[:min(len(ln), 800)])})
				}
			}
		}
		for _, f := range c11AccessorFields {
			if v, ok := c11Dig(parsed, f); ok && v != "" {
				r.Count("file_accessor_fields_checked", 1)
				if !strings.HasPrefix(v, "hmac-sha256:") {
					r.Violate("C11-plaintext-accessor-in-entry", "", "file device: field "+strings.Join(f, ".")+" is not a salted HMAC", map[string]any{"line": string(ln[:min(len(ln), 800)])})
				}
			}
		}
	}
	if len(lines) > 3 {
		s := string(lines[len(lines)/2])
		if len(s) > 600 {
			s = s[:600] + "…"
		}
		r.Sample(map[string]any{"file_line": s})
	}
	r.Require("file_lines", int64(n))
	r.Require("file_token_fields_checked", int64(n))
	r.Require("file_data_canaries_searched", int64(n))
	if nj := r.Get("file_lines_not_json"); nj > 0 {
		r.Inconc("%d lines of the audit file are not JSON", nj)
	}
}

// Replay support: see the note in format_test.go. The formatter monitor lives
// in internal/audit; replaying one of its witnesses must not make this package
// look broken.
func TestVerif_C11_FormatCanary(t *testing.T) {
	if kit.OnlyCase() == "" {
		t.Skip("replay stub: the real monitor lives in internal/audit")
		return
	}
	r := kit.NewResult(t, "c11-replay-stub-vault-format", kit.Seed(11), "replay stub (the monitor of this name lives in the other package of the plan)")
	r.Write(t)
}
