//go:build verif

package http

// C11 through the real HTTP handler. The handler chain in front of
// Core.HandleRequest is part of the server: whatever it does with a request
// before the core has offered the request entry to the audit devices happens
// "before the request entry was accepted". The rate-limit-quota wrapper
// (rateLimitQuotaWrapping) asks the credential backend of the mount to resolve
// the login role - a HandleRequest call carrying the decoded request body -
// whenever a role-based quota exists for the mount.
//
// Monitor: a real core behind the real handler (TestServer), k <= 2 programmable
// audit devices (real formatter; scripted accept / fail / panic per phase),
// recording credential backends (own type name and the lockout-typed names, root
// and a child namespace) and a recording secret backend; rate-limit quotas
// created through sys/quotas/rate-limit (none, global, namespace, mount without
// role, mount with role, exhausted). Requests go over net/http, one at a time:
// every recorded call belongs to the client request in flight.
//
// Oracle (same as the core-level ordering monitor): every HandleRequest call
// into a recording backend, of any operation, must be preceded by an accepted
// request entry of the request in flight; if no device accepts it the backends
// must not be called at all and the client gets an error without secret
// material; response data reaches the client only after an accepted response
// entry.

import (
	"bytes"
	"context"
	"encoding/json"
	"errors"
	"fmt"
	"io"
	nethttp "net/http"
	"regexp"
	"runtime"
	"sort"
	"strings"
	"sync"
	"testing"
	"time"

	hclog "github.com/hashicorp/go-hclog"

	"github.com/openbao/openbao/sdk/v2/helper/salt"
	kit "github.com/openbao/openbao/sdk/v2/helper/verifkit"
	"github.com/openbao/openbao/sdk/v2/logical"
	"github.com/openbao/openbao/v2/internal/audit"
	"github.com/openbao/openbao/v2/internal/command/server"
	"github.com/openbao/openbao/v2/internal/helper/configutil"
	"github.com/openbao/openbao/v2/internal/vault"
)

type c11hEvent struct {
	Seq      int64    `json:"seq"`
	Kind     string   `json:"kind"` // audit | backend | existence | client
	Req      string   `json:"client_request"`
	Dev      string   `json:"dev,omitempty"`
	Phase    string   `json:"phase,omitempty"`
	Outcome  string   `json:"outcome,omitempty"`
	Mount    string   `json:"mount,omitempty"`
	Op       string   `json:"op,omitempty"`
	Path     string   `json:"path,omitempty"`
	DataKeys []string `json:"data_keys,omitempty"`
	Password bool     `json:"carries_the_password,omitempty"`
	Site     string   `json:"call_site,omitempty"`
	ViaCore  bool     `json:"inside_core_handle_request,omitempty"`
}

type c11hWorld struct {
	mu     sync.Mutex
	seq    int64
	events []c11hEvent
	script map[string]int // dev/phase -> 0 ok, 1 err, 2 panic
	cur    string         // label of the client request in flight
	curPW  string
	respC  string // canary the backends put into their answers
}

func (w *c11hWorld) add(e c11hEvent) int64 {
	w.mu.Lock()
	defer w.mu.Unlock()
	w.seq++
	e.Seq = w.seq
	e.Req = w.cur
	w.events = append(w.events, e)
	return e.Seq
}

func (w *c11hWorld) take() []c11hEvent {
	w.mu.Lock()
	defer w.mu.Unlock()
	e := w.events
	w.events = nil
	return e
}

// c11hSite describes where a backend call comes from: the HTTP-layer function (if the call is made
// outside Core.HandleRequest) and the core entry point it used.
func c11hSite() (site string, viaCore bool) {
	var pcs [64]uintptr
	n := runtime.Callers(3, pcs[:])
	frames := runtime.CallersFrames(pcs[:n])
	var coreFn, httpFn string
	for {
		f, more := frames.Next()
		fn := f.Function
		switch {
		case strings.HasSuffix(fn, "vault.(*Core).HandleRequest"):
			viaCore = true
		case strings.Contains(fn, "/internal/vault.(*Core).") && httpFn == "":
			coreFn = fn[strings.LastIndex(fn, "(*Core).")+len("(*Core)."):]
		case strings.Contains(fn, "/internal/http.") && httpFn == "" && !strings.Contains(fn, "c11h") && !strings.Contains(fn, "TestVerif"):
			httpFn = fn[strings.LastIndex(fn, "/internal/http.")+len("/internal/http."):]
		}
		if !more {
			break
		}
	}
	httpFn = regexp.MustCompile(`\.func\d+(\.\d+)*$`).ReplaceAllString(httpFn, "")
	if viaCore {
		return "Core.HandleRequest", true
	}
	return httpFn + "->Core." + coreFn, false
}

// ---- recording backends

type c11hBackend struct {
	w    *c11hWorld
	name string
	typ  logical.BackendType
}

func (b *c11hBackend) HandleRequest(ctx context.Context, req *logical.Request) (*logical.Response, error) {
	switch req.Operation {
	case logical.RollbackOperation, logical.RevokeOperation, logical.RenewOperation:
		return nil, nil
	}
	var keys []string
	for k := range req.Data {
		keys = append(keys, k)
	}
	sort.Strings(keys)
	b.w.mu.Lock()
	pw, rc := b.w.curPW, b.w.respC
	b.w.mu.Unlock()
	got, _ := req.Data["password"].(string)
	site, via := c11hSite()
	b.w.add(c11hEvent{Kind: "backend", Mount: b.name, Op: string(req.Operation), Path: req.Path, DataKeys: keys, Password: pw != "" && got == pw, Site: site, ViaCore: via})
	if req.Operation == logical.HelpOperation {
		return logical.HelpResponse("help of the recording backend", nil, nil), nil
	}
	if b.typ == logical.TypeCredential {
		if strings.HasPrefix(req.Path, "info/") {
			return &logical.Response{Data: map[string]any{"value": "info " + rc}}, nil
		}
		if req.Path != "login" {
			return nil, logical.ErrUnsupportedPath
		}
		user, _ := req.Data["username"].(string)
		switch req.Operation {
		case logical.AliasLookaheadOperation:
			if user == "" {
				return nil, nil
			}
			return &logical.Response{Auth: &logical.Auth{Alias: &logical.Alias{Name: user}}}, nil
		case logical.ResolveRoleOperation:
			role, _ := req.Data["role"].(string)
			if role == "" {
				role = "c11role"
			}
			return &logical.Response{Data: map[string]any{"role": role}}, nil
		}
		if strings.HasPrefix(got, "bad") {
			return nil, logical.ErrInvalidCredentials
		}
		a := &logical.Auth{Policies: []string{"default"}, DisplayName: "c11huser", Metadata: map[string]string{"meta": "m" + rc}}
		a.TTL = time.Hour
		return &logical.Response{Auth: a}, nil
	}
	if strings.HasPrefix(req.Path, "data/") {
		return &logical.Response{Data: map[string]any{"value": "data " + rc}}, nil
	}
	return nil, logical.ErrUnsupportedPath
}

func (b *c11hBackend) HandleExistenceCheck(context.Context, *logical.Request) (bool, bool, error) {
	site, via := c11hSite()
	b.w.add(c11hEvent{Kind: "existence", Mount: b.name, Site: site, ViaCore: via})
	return false, false, nil
}
func (b *c11hBackend) SpecialPaths() *logical.Paths {
	if b.typ == logical.TypeCredential {
		return &logical.Paths{Unauthenticated: []string{"login"}}
	}
	return nil
}
func (b *c11hBackend) System() logical.SystemView {
	return logical.StaticSystemView{DefaultLeaseTTLVal: 24 * time.Hour, MaxLeaseTTLVal: 32 * 24 * time.Hour}
}
func (b *c11hBackend) Logger() hclog.Logger                                             { return hclog.NewNullLogger() }
func (b *c11hBackend) Cleanup(context.Context)                                          {}
func (b *c11hBackend) InvalidateKey(context.Context, string)                            {}
func (b *c11hBackend) Setup(context.Context, *logical.BackendConfig) error              { return nil }
func (b *c11hBackend) Initialize(context.Context, *logical.InitializationRequest) error { return nil }
func (b *c11hBackend) Type() logical.BackendType                                        { return b.typ }

// ---- programmable audit device (real formatter)

type c11hDevice struct {
	w         *c11hWorld
	name      string
	cfg       *audit.BackendConfig
	formatter audit.AuditFormatter
	mu        sync.Mutex
	salt      *salt.Salt
}

func (d *c11hDevice) Salt(ctx context.Context) (*salt.Salt, error) {
	d.mu.Lock()
	defer d.mu.Unlock()
	if d.salt != nil {
		return d.salt, nil
	}
	s, err := salt.NewSalt(ctx, d.cfg.SaltView, d.cfg.SaltConfig)
	if err != nil {
		return nil, err
	}
	d.salt = s
	return s, nil
}

func (d *c11hDevice) log(ctx context.Context, phase string, in *logical.LogInput) error {
	d.w.mu.Lock()
	o := d.w.script[d.name+"/"+phase]
	d.w.mu.Unlock()
	switch o {
	case 2:
		d.w.add(c11hEvent{Kind: "audit", Dev: d.name, Phase: phase, Outcome: "panic"})
		panic("verif C11: injected audit device panic")
	case 1:
		d.w.add(c11hEvent{Kind: "audit", Dev: d.name, Phase: phase, Outcome: "err"})
		return errors.New("verif C11: injected audit device failure")
	}
	var buf bytes.Buffer
	var err error
	if phase == "request" {
		err = d.formatter.FormatRequest(ctx, &buf, audit.FormatterConfig{HMACAccessor: true}, in)
	} else {
		err = d.formatter.FormatResponse(ctx, &buf, audit.FormatterConfig{HMACAccessor: true}, in)
	}
	if err != nil {
		d.w.add(c11hEvent{Kind: "audit", Dev: d.name, Phase: phase, Outcome: "format-error"})
		return err
	}
	path := ""
	if in != nil && in.Request != nil {
		path = in.Request.Path
	}
	d.w.add(c11hEvent{Kind: "audit", Dev: d.name, Phase: phase, Outcome: "ok", Path: path})
	return nil
}

func (d *c11hDevice) LogRequest(ctx context.Context, in *logical.LogInput) error {
	return d.log(ctx, "request", in)
}
func (d *c11hDevice) LogResponse(ctx context.Context, in *logical.LogInput) error {
	return d.log(ctx, "response", in)
}
func (d *c11hDevice) LogTestMessage(context.Context, *logical.LogInput, map[string]string) error {
	return nil
}
func (d *c11hDevice) GetHash(ctx context.Context, data string) (string, error) {
	s, err := d.Salt(ctx)
	if err != nil {
		return "", err
	}
	return s.GetIdentifiedHMAC(data), nil
}
func (d *c11hDevice) Reload(context.Context) error { return nil }
func (d *c11hDevice) Invalidate(context.Context) {
	d.mu.Lock()
	d.salt = nil
	d.mu.Unlock()
}

// ---- client

type c11hRun struct {
	t      *testing.T
	r      *kit.Result
	w      *c11hWorld
	addr   string
	root   string
	k      int
	client *nethttp.Client
	n      int
}

type c11hResp struct {
	Label  string
	Status int
	Body   string
	Seq    int64
	Events []c11hEvent
}

func (x *c11hRun) send(method, path, token, ns string, body map[string]any, pw string) *c11hResp {
	x.n++
	label := fmt.Sprintf("http-k%d-%d %s %s", x.k, x.n, method, path)
	var rd io.Reader
	if body != nil {
		b, _ := json.Marshal(body)
		rd = bytes.NewReader(b)
	}
	req, err := nethttp.NewRequest(method, x.addr+"/v1/"+path, rd)
	if err != nil {
		x.t.Fatalf("verif: %v", err)
	}
	if token != "" {
		req.Header.Set("X-Vault-Token", token)
	}
	if ns != "" {
		req.Header.Set("X-Vault-Namespace", ns)
	}
	x.w.take()
	x.w.mu.Lock()
	x.w.cur, x.w.curPW = label, pw
	x.w.mu.Unlock()
	resp, err := x.client.Do(req)
	if err != nil {
		x.t.Fatalf("verif: http %s %s: %v", method, path, err)
	}
	raw, _ := io.ReadAll(resp.Body)
	resp.Body.Close()
	seq := x.w.add(c11hEvent{Kind: "client", Outcome: fmt.Sprint(resp.StatusCode)})
	x.w.mu.Lock()
	x.w.cur, x.w.curPW = "", ""
	x.w.mu.Unlock()
	return &c11hResp{Label: label, Status: resp.StatusCode, Body: string(raw), Seq: seq, Events: x.w.take()}
}

func (x *c11hRun) must(method, path, ns string, body map[string]any) *c11hResp {
	res := x.send(method, path, x.root, ns, body, "")
	if res.Status/100 != 2 {
		x.t.Fatalf("verif C11 http setup %s %s (ns %q) -> %d %s", method, path, ns, res.Status, res.Body)
	}
	return res
}

func (x *c11hRun) setScript(pat []int) {
	x.w.mu.Lock()
	x.w.script = map[string]int{}
	for i, o := range pat {
		ph := "request"
		if i%2 == 1 {
			ph = "response"
		}
		x.w.script[fmt.Sprintf("hd%d/%s", i/2, ph)] = o
	}
	x.w.mu.Unlock()
}

var c11hOutcome = []string{"ok", "err", "panic"}

func c11hPatStr(p []int) string {
	var sb strings.Builder
	for i := 0; i < len(p); i += 2 {
		fmt.Fprintf(&sb, "hd%d:%s/%s ", i/2, c11hOutcome[p[i]], c11hOutcome[p[i+1]])
	}
	return strings.TrimSpace(sb.String())
}

var c11hClassRe = regexp.MustCompile(`[^A-Za-z0-9.>()*-]+`)

// judge applies the order clause to one HTTP request.
func (x *c11hRun) judge(caseID, quota string, pat []int, kind string, res *c11hResp, secrets []string) {
	r := x.r
	var reqOK, respOK int64 = -1, -1
	for _, e := range res.Events {
		if e.Kind == "audit" && e.Outcome == "ok" {
			if e.Phase == "request" && reqOK < 0 {
				reqOK = e.Seq
			}
			if e.Phase == "response" && respOK < 0 {
				respOK = e.Seq
			}
		}
	}
	r.Count("requests_judged", 1)
	wit := func(extra map[string]any) map[string]any {
		b := res.Body
		if len(b) > 300 {
			b = b[:300] + "…"
		}
		m := map[string]any{"k": x.k, "audit_pattern": c11hPatStr(pat), "quota_configuration": quota, "request_kind": kind, "request": res.Label, "http_status": res.Status, "response_body": b, "events": res.Events}
		for k, v := range extra {
			m[k] = v
		}
		return m
	}
	nBackend := 0
	for _, e := range res.Events {
		if e.Kind == "existence" {
			r.Count("existence_checks_observed", 1) // the code-documented exception, see the ordering monitor
			continue
		}
		if e.Kind != "backend" {
			continue
		}
		nBackend++
		r.Count("backend_calls_observed", 1)
		r.Count("backend_calls:"+e.Op+":via:"+e.Site, 1)
		if reqOK >= 0 && reqOK < e.Seq {
			r.Count("backend_calls_after_accepted_request_entry", 1)
			continue
		}
		none := reqOK < 0
		what := "before any audit device had been offered the request entry"
		if none {
			what = "although no audit device accepted a request entry for this request at all"
		}
		detail := fmt.Sprintf("%s (quota configuration: %s; k=%d, %s): backend %s was called (%s %s, data keys %v, carries the password: %v) from %s %s", kind, quota, x.k, c11hPatStr(pat), e.Mount, e.Op, e.Path, e.DataKeys, e.Password, e.Site, what)
		switch {
		case !e.ViaCore && e.Op == string(logical.ResolveRoleOperation) && e.Site == "rateLimitQuotaWrapping->Core.DetermineRoleFromLoginRequestFromReader":
			r.Count("http_quota_role_resolution_before_request_entry", 1)
			if e.Password {
				r.Count("http_quota_role_resolution_carrying_the_password", 1)
			}
			if none {
				r.Count("http_quota_role_resolution_with_no_entry_at_all", 1)
			}
			r.Count("http_quota_role_resolution_under:"+quota, 1)
			r.Count("http_quota_role_resolution_for_request_kind:"+kind, 1)
			if res.Status == nethttp.StatusTooManyRequests {
				r.Count("http_quota_role_resolution_for_a_request_the_rate_limiter_then_rejected", 1)
			}
			r.Violate("C11-credential-backend-asked-to-resolve-role-before-request-audited-(http-quota-path)", caseID, detail, wit(nil))
		case !e.ViaCore:
			r.Violate("C11-backend-called-at-http-layer-before-request-audited:"+c11hClassRe.ReplaceAllString(e.Op+"@"+e.Site, "_"), caseID, detail, wit(nil))
		case e.Op == string(logical.AliasLookaheadOperation) || e.Op == string(logical.ResolveRoleOperation):
			r.Violate("C11-backend-called-before-request-audited", caseID, detail, wit(nil))
		default:
			r.Violate("C11-routed-before-request-audited", caseID, detail, wit(nil))
		}
	}
	leaked := ""
	for _, s := range secrets {
		if s != "" && strings.Contains(res.Body, s) {
			leaked = s
			break
		}
	}
	isErr := res.Status >= 400
	gotData := leaked != "" || (!isErr && (strings.Contains(res.Body, `"client_token"`) || strings.Contains(res.Body, `"value"`) || strings.Contains(res.Body, `"help"`)))
	if gotData {
		r.Count("client_received_data", 1)
		if respOK < 0 {
			r.Violate("C11-returned-before-response-audited", caseID, fmt.Sprintf("%s (quota configuration: %s; k=%d, %s): the client received response data although no audit device accepted the response entry", kind, quota, x.k, c11hPatStr(pat)), wit(map[string]any{"secret_seen_by_client": leaked}))
		}
	}
	if reqOK < 0 {
		r.Count("request_phase_no_device_accepted", 1)
		if nBackend == 0 && isErr {
			r.Count("blocked_before_backend_with_error", 1)
		}
	}
	if (reqOK < 0 || respOK < 0) && res.Status != nethttp.StatusTooManyRequests {
		switch {
		case !isErr:
			r.Violate("C11-no-error-after-audit-failure", caseID, fmt.Sprintf("%s (quota configuration: %s; k=%d, %s): no audit device accepted the entry, yet the client got HTTP %d", kind, quota, x.k, c11hPatStr(pat), res.Status), wit(nil))
		case leaked != "":
			r.Violate("C11-secret-in-error-after-audit-failure", caseID, fmt.Sprintf("%s: the error body carries secret material", kind), wit(map[string]any{"secret_seen_by_client": leaked}))
		default:
			r.Count("error_without_secret_after_audit_failure", 1)
		}
	}
	if reqOK >= 0 && respOK >= 0 && !isErr {
		r.Count("delivered_after_both_accepted", 1)
		r.Count("delivered:"+kind, 1)
	}
	if res.Status == nethttp.StatusTooManyRequests {
		r.Count("rejected_by_rate_limit", 1)
	}
}

// ---- scenarios

type c11hQuota struct {
	Name string
	Desc string
	Set  []map[string]any // sys/quotas/rate-limit/<name> bodies ("name" inside)
}

var c11hQuotas = []c11hQuota{
	{"none", "no quota", nil},
	{"global", "global rate-limit quota (no path, no role)", []map[string]any{{"name": "g", "rate": 100000}}},
	{"mount", "rate-limit quota on auth/huserpass without role", []map[string]any{{"name": "m", "rate": 100000, "path": "auth/huserpass/"}}},
	{"mount+role", "rate-limit quota on auth/huserpass with role=c11role", []map[string]any{{"name": "mr", "rate": 100000, "path": "auth/huserpass/", "role": "c11role"}}},
	{"role-on-approle-and-own-type", "rate-limit quotas with a role on auth/happrole and auth/hcred", []map[string]any{{"name": "ar", "rate": 100000, "path": "auth/happrole/", "role": "c11role"}, {"name": "cr", "rate": 100000, "path": "auth/hcred/", "role": "other"}}},
	{"namespace", "rate-limit quota on namespace hns1 (no role)", []map[string]any{{"name": "n", "rate": 100000, "path": "hns1/"}}},
	{"namespace-mount+role", "rate-limit quota on hns1/auth/nuserpass with role=c11role", []map[string]any{{"name": "nr", "rate": 100000, "path": "hns1/auth/nuserpass/", "role": "c11role"}}},
	{"mount+role-exhausted", "rate-limit quota on auth/huserpass with role=c11role, 1 request per hour (requests after the first are rejected with 429)", []map[string]any{{"name": "mx", "rate": 1, "interval": 3600, "path": "auth/huserpass/", "role": "c11role"}}},
}

type c11hKind struct {
	Name   string
	Method string
	Path   string
	NS     string
	Auth   bool   // send the root token
	Login  string // "" | good | bad | otherrole
	Body   bool
}

var c11hKinds = []c11hKind{
	{"login-userpass-good", "POST", "auth/huserpass/login", "", false, "good", true},
	{"login-userpass-bad", "POST", "auth/huserpass/login", "", false, "bad", true},
	{"login-userpass-other-role", "POST", "auth/huserpass/login", "", false, "otherrole", true},
	{"login-approle-good", "POST", "auth/happrole/login", "", false, "good", true},
	{"login-own-type-good", "POST", "auth/hcred/login", "", false, "good", true},
	{"login-namespace-userpass-good", "POST", "auth/nuserpass/login", "hns1", false, "good", true},
	{"login-namespace-by-path-good", "POST", "hns1/auth/nuserpass/login", "", false, "good", true},
	{"authenticated-write-on-auth-mount", "POST", "auth/huserpass/info/x", "", true, "good", true},
	{"authenticated-read-on-auth-mount", "GET", "auth/huserpass/info/x", "", true, "", false},
	{"secret-read", "GET", "hrec/data/x", "", true, "", false},
	{"secret-write", "POST", "hrec/data/x", "", true, "good", true},
	{"help-on-auth-mount", "GET", "auth/huserpass/info/x?help=1", "", true, "", false},
	{"help-on-secret-mount", "GET", "hrec/data/x?help=1", "", true, "", false},
}

func c11hBoot(t *testing.T, r *kit.Result, k int) *c11hRun {
	w := &c11hWorld{script: map[string]int{}}
	cred := func(name string) logical.Factory {
		return func(context.Context, *logical.BackendConfig) (logical.Backend, error) {
			return &c11hBackend{w: w, name: name, typ: logical.TypeCredential}, nil
		}
	}
	conf := &vault.CoreConfig{
		RawConfig: &server.Config{UnsafeAllowAPIAuditCreation: true, SharedConfig: &configutil.SharedConfig{}},
		Logger:    hclog.NewNullLogger(),
		AuditBackends: map[string]audit.Factory{"c11hdev": func(_ context.Context, c *audit.BackendConfig) (audit.Backend, error) {
			d := &c11hDevice{w: w, name: c.Config["name"], cfg: c}
			d.formatter.AuditFormatWriter = &audit.JSONFormatWriter{SaltFunc: d.Salt}
			return d, nil
		}},
		LogicalBackends: map[string]logical.Factory{"c11hrec": func(context.Context, *logical.BackendConfig) (logical.Backend, error) {
			return &c11hBackend{w: w, name: "hrec/", typ: logical.TypeLogical}, nil
		}},
		// the recording credential backend under its own type name and under the names the core special-cases (user lockout)
		CredentialBackends: map[string]logical.Factory{"c11hcred": cred("auth(c11hcred)"), "userpass": cred("auth(userpass)"), "approle": cred("auth(approle)")},
	}
	core, _, root := vault.TestCoreUnsealedWithConfig(t, conf)
	ln, addr := TestServer(t, core)
	t.Cleanup(func() { ln.Close() })
	x := &c11hRun{t: t, r: r, w: w, addr: addr, root: root, k: k, client: &nethttp.Client{Timeout: 30 * time.Second}}
	x.must("POST", "sys/namespaces/hns1", "", nil)
	x.must("POST", "sys/mounts/hrec", "", map[string]any{"type": "c11hrec"})
	x.must("POST", "sys/auth/hcred", "", map[string]any{"type": "c11hcred"})
	x.must("POST", "sys/auth/huserpass", "", map[string]any{"type": "userpass"})
	x.must("POST", "sys/auth/happrole", "", map[string]any{"type": "approle"})
	x.must("POST", "sys/auth/nuserpass", "hns1", map[string]any{"type": "userpass"})
	for i := 0; i < k; i++ {
		x.must("POST", fmt.Sprintf("sys/audit/hd%d", i), "", map[string]any{"type": "c11hdev", "options": map[string]string{"name": fmt.Sprintf("hd%d", i)}})
	}
	return x
}

func TestVerif_C11H_QuotaRoleResolution(t *testing.T) {
	seed := kit.Seed(11)
	r := kit.NewResult(t, "c11-http-pre-audit", seed, "a case is one HTTP request (logins with good / bad credentials / another role on auth mounts of type userpass, approle and the recording backend's own type, in the root and in a child namespace by header and by path; authenticated writes and reads on an auth mount; reads and writes on a secret mount; path help) sent through the real handler to a core with k <= 2 programmable audit devices under an accept / fail / panic pattern per (device, phase) and one of 8 rate-limit quota configurations (none, global, namespace, mount, mount with role, role quotas on other mounts, role quota in the child namespace, exhausted role quota); non-trivial = distinct (quota configuration, k, pattern, request kind) with a quota or a failing device")
	defer r.Write(t)
	r.Assume("the server starts at the HTTP handler: a HandleRequest call into a mounted backend made by the handler chain before Core.HandleRequest offered the request entry to the audit devices counts as 'routed to a backend before the request entry was accepted'; requests are sent one at a time and every recorded call is attributed to the request in flight (the handler assigns its own request ids); HandleExistenceCheck is the code-documented exception (see the ordering monitor) and only counted; a request the rate limiter rejects (429) is not required to have audit entries (rate-limit audit logging is off by default), but the backend calls made for it are judged all the same")
	if oc := kit.OnlyCase(); oc != "" && !strings.HasPrefix(oc, "http:") {
		t.Skip("not an HTTP case")
		return
	}
	if s, _ := kit.Shard(); s != 0 {
		r.Eval(0)
		return
	}
	rng := kit.NewRand(seed, 0x1177)
	for k := 1; k <= 2; k++ {
		x := c11hBoot(t, r, k)
		// patterns: all 9 for k=1; for k=2 all-ok, all-fail and a seeded sample
		var pats [][]int
		total := 9
		if k == 2 {
			total = 81
		}
		pick := map[int]bool{0: true}
		if k == 1 {
			for p := 0; p < 9; p++ {
				pick[p] = true
			}
		} else {
			pick[40] = true // err/err err/err
			pick[80] = true
			pick[4] = true // d0 err/err, d1 ok/ok
			for len(pick) < kit.N(10, 81) {
				pick[rng.Intn(total)] = true
			}
		}
		var ps []int
		for p := range pick {
			ps = append(ps, p)
		}
		sort.Ints(ps)
		for _, p := range ps {
			pat := make([]int, 2*k)
			for i, q := 0, p; i < len(pat); i++ {
				pat[i] = q % 3
				q /= 3
			}
			pats = append(pats, pat)
		}
		for qi, q := range c11hQuotas {
			for _, body := range q.Set {
				x.must("POST", "sys/quotas/rate-limit/"+body["name"].(string), "", body)
			}
			r.Count("quota_configurations", 1)
			for pi, pat := range pats {
				for ki, kind := range c11hKinds {
					if q.Name == "mount+role-exhausted" && !strings.Contains(kind.Path, "huserpass") {
						continue
					}
					caseID := fmt.Sprintf("http:k%d:q%d:p%d:%d", k, qi, pi, ki)
					if !kit.WantCase(caseID) {
						continue
					}
					r.Eval(1)
					r.Count("cases", 1)
					nonOK := false
					for _, o := range pat {
						nonOK = nonOK || o != 0
					}
					if nonOK || q.Set != nil {
						r.Nontrivial(caseID)
					}
					canary, pwc := rng.Canary(), rng.Canary()
					x.w.mu.Lock()
					x.w.respC = canary
					x.w.mu.Unlock()
					var body map[string]any
					pw := ""
					if kind.Body {
						pw = "good" + pwc
						if kind.Login == "bad" {
							pw = "bad" + pwc
						}
						body = map[string]any{"username": "u" + rng.Canary(), "password": pw, "extra": map[string]any{"note": "n" + rng.Canary()}}
						if kind.Login == "otherrole" {
							body["role"] = "someone-else"
						}
					}
					tok := ""
					if kind.Auth {
						tok = x.root
					}
					x.setScript(pat)
					res := x.send(kind.Method, kind.Path, tok, kind.NS, body, pw)
					x.setScript(nil)
					x.judge(caseID, q.Desc, pat, kind.Name, res, []string{canary, pwc})
					if !nonOK && res.Status >= 400 && kind.Login != "bad" && res.Status != nethttp.StatusTooManyRequests {
						r.Inconc("case %s: %s with every device healthy -> HTTP %d %s", caseID, kind.Name, res.Status, res.Body)
					}
				}
			}
			for _, body := range q.Set {
				x.must("DELETE", "sys/quotas/rate-limit/"+body["name"].(string), "", nil)
			}
		}
	}
	if kit.OnlyCase() != "" {
		return
	}
	r.Require("cases", 1000)
	r.Require("backend_calls_observed", 1000)
	r.Require("backend_calls_after_accepted_request_entry", 500)
	r.Require("request_phase_no_device_accepted", 200)
	r.Require("error_without_secret_after_audit_failure", 200)
	r.Require("delivered_after_both_accepted", 200)
	r.Require("rejected_by_rate_limit", 20)
	r.Require("delivered:login-userpass-good", 20)
	r.Require("delivered:login-namespace-userpass-good", 20)
	r.Require("delivered:secret-read", 20)
	r.Require("delivered:help-on-auth-mount", 10)
	r.Require("delivered:help-on-secret-mount", 10)
	r.Require("backend_calls:help:via:Core.HandleRequest", 20)
}
