//go:build verif

package vault

// C11 (secrecy half, which fields are exempted): "... any string value inside
// request or response data other than fields explicitly exempted". The
// exemptions are mount configuration (audit_non_hmac_request_keys /
// audit_non_hmac_response_keys) changed with sys/mounts/<m>/tune and
// sys/auth/<m>/tune. A tune that was refused exempts nothing.
//
// Monitor: histories of tunes (set, extend, shrink, clear; request keys,
// response keys, both) on secret and auth mounts in the root and in a child
// namespace. Every tune is run without fault, with the n-th storage operation of
// the tune request failing (every n) and up to a crash after every prefix of its
// durable writes. After each, the live core, a restarted copy of its store (what
// is persisted) and the crashed-and-restarted cores are probed with requests
// whose request and response bodies carry a canary under every field name of the
// universe (top level, nested in a map, in a list).
//
// Reference: the model of the acknowledged tunes. After a tune that succeeded the
// new sets are in force; after a tune the client saw fail the OLD sets are in
// force - or the new ones if (and only if) they were made durable before the
// failure (a restarted copy of the store reads them back). The mount's own
// tune read-back must be one of these; a canary under a field outside the sets in
// force must not be readable in any entry of any device; one under an exempted
// field is expected to be readable (control).

import (
	"bytes"
	"context"
	"fmt"
	"os"
	"path/filepath"
	"sort"
	"strings"
	"testing"

	kit "github.com/openbao/openbao/sdk/v2/helper/verifkit"
	"github.com/openbao/openbao/sdk/v2/logical"
	"github.com/openbao/openbao/v2/internal/audit"
	auditFile "github.com/openbao/openbao/v2/internal/builtin/audit/file"
)

var c11TuneUniverse = []string{"alpha", "bravo", "charlie", "delta"}

type c11TuneMount struct {
	Name string `json:"name"`
	Auth bool   `json:"auth_mount"`
	Type string `json:"type"` // c11rec | c11cred | kv
	NS   string `json:"namespace"`
}

func (m c11TuneMount) tunePath() string {
	if m.Auth {
		return "sys/auth/" + m.Name + "/tune"
	}
	return "sys/mounts/" + m.Name + "/tune"
}

type c11TuneOp struct {
	Mount int      `json:"mount"`
	Kind  string   `json:"kind"`          // set | extend | shrink | clear
	Req   []string `json:"request_keys"`  // nil = not part of the tune
	Resp  []string `json:"response_keys"` // nil = not part of the tune
}

type c11TuneSets struct {
	Req  []string `json:"audit_non_hmac_request_keys"`
	Resp []string `json:"audit_non_hmac_response_keys"`
}

func c11SetStr(s []string) string {
	c := append([]string(nil), s...)
	sort.Strings(c)
	return "{" + strings.Join(c, ",") + "}"
}

func (a c11TuneSets) eq(b c11TuneSets) bool {
	return c11SetStr(a.Req) == c11SetStr(b.Req) && c11SetStr(a.Resp) == c11SetStr(b.Resp)
}

func (a c11TuneSets) String() string {
	return "request_keys=" + c11SetStr(a.Req) + " response_keys=" + c11SetStr(a.Resp)
}

func c11Has(set []string, k string) bool {
	for _, s := range set {
		if s == k {
			return true
		}
	}
	return false
}

type c11TuneScenario struct {
	ID     string         `json:"id"`
	Mounts []c11TuneMount `json:"mounts"`
	Ops    []c11TuneOp    `json:"tunes"`
	Tx     bool           `json:"transactional_storage"`
}

var c11TuneMounts = []c11TuneMount{
	{"tsec", false, "c11rec", ""}, {"tauth", true, "c11cred", ""}, {"tkv", false, "kv", ""},
	{"nsec", false, "c11rec", "tns1"}, {"nauth", true, "c11cred", "tns1"},
}

func c11TuneScenarios(seed int64) []*c11TuneScenario {
	s0 := &c11TuneScenario{ID: "tune:0", Mounts: c11TuneMounts}
	for m := range c11TuneMounts {
		// set (request), set (response), extend both, shrink request, clear response
		s0.Ops = append(s0.Ops,
			c11TuneOp{m, "set", []string{"alpha"}, nil},
			c11TuneOp{m, "set", nil, []string{"bravo"}},
			c11TuneOp{m, "extend", []string{"alpha", "charlie"}, []string{"bravo", "delta"}},
			c11TuneOp{m, "shrink", []string{"charlie"}, nil},
			c11TuneOp{m, "clear", nil, []string{}},
		)
	}
	out := []*c11TuneScenario{s0}
	rng := kit.NewRand(seed, 0x117e)
	for g, n := 1, kit.N(1, 16); g <= n; g++ {
		sc := &c11TuneScenario{ID: fmt.Sprintf("tune:%d", g), Mounts: c11TuneMounts, Tx: g%2 == 1}
		cur := make([]c11TuneSets, len(c11TuneMounts))
		next := func(old []string) ([]string, string) {
			switch {
			case len(old) == 0:
				return []string{kit.Pick(rng, c11TuneUniverse)}, "set"
			case rng.Chance(1, 4):
				return []string{}, "clear"
			case rng.Chance(1, 2) && len(old) < len(c11TuneUniverse):
				for {
					k := kit.Pick(rng, c11TuneUniverse)
					if !c11Has(old, k) {
						return append(append([]string(nil), old...), k), "extend"
					}
				}
			case len(old) > 1:
				return append([]string(nil), old[1:]...), "shrink"
			}
			return []string{kit.Pick(rng, c11TuneUniverse)}, "set"
		}
		for i, n := 0, kit.N(10, 14); i < n; i++ {
			m := rng.Intn(len(c11TuneMounts))
			op := c11TuneOp{Mount: m}
			switch rng.Intn(3) {
			case 0:
				op.Req, op.Kind = next(cur[m].Req)
			case 1:
				op.Resp, op.Kind = next(cur[m].Resp)
			default:
				op.Req, op.Kind = next(cur[m].Req)
				op.Resp, _ = next(cur[m].Resp)
			}
			if op.Req != nil {
				cur[m].Req = op.Req
			}
			if op.Resp != nil {
				cur[m].Resp = op.Resp
			}
			sc.Ops = append(sc.Ops, op)
		}
		out = append(out, sc)
	}
	return out
}

// ---------------------------------------------------------------- world

type c11Tune struct {
	t    *testing.T
	r    *kit.Result
	w    *c11World
	sc   *c11TuneScenario
	life *c11Life // boot / clone helpers
	file string
}

func (x *c11Tune) opts() vOpts {
	w := x.w
	return vOpts{
		Transactional: x.sc.Tx,
		Audit:         map[string]audit.Factory{"verifdev": w.deviceFactory, "file": auditFile.Factory},
		Logical: map[string]logical.Factory{"c11rec": func(context.Context, *logical.BackendConfig) (logical.Backend, error) {
			return &c11Backend{w: w, name: "c11rec", typ: logical.TypeLogical}, nil
		}},
		Credential: map[string]logical.Factory{"c11cred": func(context.Context, *logical.BackendConfig) (logical.Backend, error) {
			return &c11Backend{w: w, name: "c11cred", typ: logical.TypeCredential, login: []string{"login"}}, nil
		}},
	}
}

func (x *c11Tune) do(v *vCore, ns string, req *logical.Request) *c11Result {
	x.w.core, x.w.root = v.Core, v.Root
	x.w.ns = ns
	defer func() { x.w.ns = "" }()
	if req.ClientToken == "" && !strings.HasSuffix(req.Path, "/login") {
		req.ClientToken = v.Root
	}
	return x.w.do(req, "")
}

func (x *c11Tune) clone(base *vCore, k int) (*vCore, error) { return x.life.clone(base, k) }

// apply sends the tune (tagged for the probe).
func (x *c11Tune) apply(v *vCore, op c11TuneOp) *c11Result {
	m := x.sc.Mounts[op.Mount]
	data := map[string]any{}
	if op.Req != nil {
		data["audit_non_hmac_request_keys"] = append([]string{}, op.Req...)
	}
	if op.Resp != nil {
		data["audit_non_hmac_response_keys"] = append([]string{}, op.Resp...)
	}
	v.Probe.Tag("op")
	defer v.Probe.Untag()
	return x.do(v, m.NS, &logical.Request{Operation: logical.UpdateOperation, Path: m.tunePath(), Data: data})
}

// readBack asks the mount's configuration which exemptions it holds.
func (x *c11Tune) readBack(v *vCore, m c11TuneMount) (c11TuneSets, bool) {
	res := x.do(v, m.NS, &logical.Request{Operation: logical.ReadOperation, Path: m.tunePath()})
	if res.isErr() || res.Resp == nil {
		return c11TuneSets{}, false
	}
	var out c11TuneSets
	if l, ok := res.Resp.Data["audit_non_hmac_request_keys"].([]string); ok {
		out.Req = l
	}
	if l, ok := res.Resp.Data["audit_non_hmac_response_keys"].([]string); ok {
		out.Resp = l
	}
	return out, true
}

// entries returns everything any device holds for the request id.
func (x *c11Tune) entries(id string) [][]byte {
	var out [][]byte
	for _, e := range x.w.eventsFor(id) {
		if e.Kind == "audit" && len(e.entry) > 0 {
			out = append(out, e.entry)
		}
	}
	if b, err := os.ReadFile(x.file); err == nil {
		needle := []byte(`"` + id + `"`)
		for _, ln := range c11SplitLines(b) {
			if bytes.Contains(ln, needle) {
				out = append(out, ln)
			}
		}
	}
	return out
}

type c11TuneLeaf struct {
	Key    string `json:"field"`
	Where  string `json:"where"`
	Side   string `json:"side"` // request | response
	Canary string `json:"canary"`
}

// payload builds a data object with a canary under every universe field name at the top level, nested and in a list.
func c11TunePayload(rng *kit.Rand, side string) (map[string]any, []c11TuneLeaf) {
	data := map[string]any{"n": rng.Intn(100)}
	var leaves []c11TuneLeaf
	nested := map[string]any{}
	var inList []any
	for _, k := range c11TuneUniverse {
		c1, c2, c3, c4 := rng.Canary(), rng.Canary(), rng.Canary(), rng.Canary()
		data[k] = "top " + c1
		nested[k] = "nested " + c2
		inList = append(inList, map[string]any{k: []any{"listed " + c3, "x" + c4}})
		leaves = append(leaves,
			c11TuneLeaf{k, side + "." + k, side, c1},
			c11TuneLeaf{k, side + ".wrap." + k, side, c2},
			c11TuneLeaf{k, side + ".items[]." + k + "[0]", side, c3},
			c11TuneLeaf{k, side + ".items[]." + k + "[1]", side, c4},
		)
	}
	data["wrap"] = nested
	data["items"] = inList
	return data, leaves
}

type c11TuneRef struct {
	InForce   c11TuneSets    `json:"sets_in_force_by_the_reference"`
	Old       c11TuneSets    `json:"sets_before_the_tune"`
	New       c11TuneSets    `json:"sets_the_tune_asked_for"`
	Persisted *c11TuneSets   `json:"sets_a_restarted_copy_reads_back,omitempty"`
	ReadBack  *c11TuneSets   `json:"sets_the_live_core_reads_back,omitempty"`
	Outcome   string         `json:"tune_outcome"` // ok | failed | none (other mount / restarted core)
	Info      map[string]any `json:"-"`
	History   []string       `json:"-"`
}

// probe sends requests to the mount and searches every entry for the canaries.
func (x *c11Tune) probe(v *vCore, caseID, label string, m c11TuneMount, ref c11TuneRef, seed int64) {
	r, w := x.r, x.w
	rng := kit.NewRand(seed, c11Hash(caseID+label+m.Name))
	reqData, reqLeaves := c11TunePayload(rng, "request")
	respData, respLeaves := c11TunePayload(rng, "response")
	w.mu.Lock()
	w.respData, w.listKeys, w.writeNil, w.loginMeta = respData, nil, false, "m"+rng.Canary()
	w.mu.Unlock()
	base := m.Name + "/"
	if m.Auth {
		base = "auth/" + m.Name + "/"
	}
	name := fmt.Sprintf("t%d", rng.Intn(1000000))
	type sent struct {
		req    *logical.Request
		leaves []c11TuneLeaf
	}
	var reqs []sent
	switch m.Type {
	case "c11rec":
		reqs = append(reqs, sent{&logical.Request{Operation: logical.UpdateOperation, Path: base + "data/" + name, Data: reqData}, append(append([]c11TuneLeaf(nil), reqLeaves...), respLeaves...)})
	case "c11cred":
		reqData["username"] = "u" + rng.Canary()
		reqs = append(reqs,
			sent{&logical.Request{Operation: logical.UpdateOperation, Path: base + "login", Data: reqData}, reqLeaves},
			sent{&logical.Request{Operation: logical.ReadOperation, Path: base + "info/" + name}, respLeaves})
	case "kv": // a real backend: what was written comes back in the response of the read
		var back []c11TuneLeaf
		for _, l := range reqLeaves {
			back = append(back, c11TuneLeaf{l.Key, strings.Replace(l.Where, "request", "response", 1), "response", l.Canary})
		}
		reqs = append(reqs,
			sent{&logical.Request{Operation: logical.UpdateOperation, Path: base + name, Data: reqData}, reqLeaves},
			sent{&logical.Request{Operation: logical.ReadOperation, Path: base + name}, back})
	}
	for _, s := range reqs {
		w.dropEvents()
		r.Eval(1)
		r.Count("probe_requests", 1)
		res := x.do(v, m.NS, s.req)
		ents := x.entries(res.ID)
		r.Count("entries_searched", len(ents))
		if len(ents) == 0 {
			r.Count("probe_requests_without_entries", 1)
			continue
		}
		for _, l := range s.leaves {
			set := ref.InForce.Req
			if l.Side == "response" {
				set = ref.InForce.Resp
			}
			exempt := c11Has(set, l.Key)
			var found []byte
			for _, e := range ents {
				if bytes.Contains(e, []byte(l.Canary)) {
					found = e
					break
				}
			}
			r.Count("canaries_searched", 1)
			switch {
			case exempt && found != nil:
				r.Count("canaries_under_exempted_field_readable", 1)
				r.Count("control_readable:"+l.Side+":"+m.Type, 1)
			case exempt:
				if res.isErr() && l.Side == "response" {
					continue // no response data was produced
				}
				r.Count("canaries_under_exempted_field_not_readable", 1)
			case found == nil:
				r.Count("canaries_under_non_exempted_field_hashed", 1)
			default:
				oldSet, newSet := ref.Old.Req, ref.New.Req
				var pers []string
				if l.Side == "response" {
					oldSet, newSet = ref.Old.Resp, ref.New.Resp
				}
				if ref.Persisted != nil {
					pers = ref.Persisted.Req
					if l.Side == "response" {
						pers = ref.Persisted.Resp
					}
				}
				class := "C11-plaintext-field-not-exempted-by-mount-config"
				if ref.Outcome == "failed" && c11Has(newSet, l.Key) && !c11Has(oldSet, l.Key) && !c11Has(pers, l.Key) {
					class = "C11-plaintext-field-exempted-only-by-a-failed-tune"
				}
				i := bytes.Index(found, []byte(l.Canary))
				lo, hi := max(0, i-160), min(len(found), i+len(l.Canary)+40)
				wit := map[string]any{"scenario": x.sc.ID, "mount": m, "probed": label, "history": ref.History, "reference": ref, "leaf": l, "request_path": s.req.Path, "request_id": res.ID, "entry_excerpt": "…" + string(found[lo:hi]) + "…"}
				for k, v := range ref.Info {
					wit[k] = v
				}
				r.Violate(class, caseID, fmt.Sprintf("%s: an audit entry of %s %s shows the plaintext of %s field %q (%s), which is not exempted: in force %s (tune outcome: %s; before the tune %s; asked for %s)", label, s.req.Operation, s.req.Path, l.Side, l.Key, l.Where, ref.InForce, ref.Outcome, ref.Old, ref.New), wit)
			}
		}
	}
}

func (x *c11Tune) run(seed int64) {
	r, sc := x.r, x.sc
	w := &c11World{t: x.t, r: r, script: map[string]int{}, devices: map[string]*c11Device{}, tag: strings.ReplaceAll(sc.ID, ":", "")}
	x.w = w
	x.life = &c11Life{t: x.t, r: r, w: w, sc: &c11LifeScenario{Tx: sc.Tx}}
	tmp, err := os.MkdirTemp("", "c11t")
	if err != nil {
		r.Inconc("scenario %s: %v", sc.ID, err)
		return
	}
	defer os.RemoveAll(tmp)
	x.file = filepath.Join(tmp, "audit.log")

	main := vBoot(x.t, x.opts())
	defer main.Close()
	x.life.adopt(main)
	setup := func(what, ns string, req *logical.Request) bool {
		if res := x.do(main, ns, req); res.isErr() {
			r.Inconc("scenario %s: setup %s failed: %s", sc.ID, what, res.Rendered)
			return false
		}
		return true
	}
	if !setup("namespace", "", &logical.Request{Operation: logical.UpdateOperation, Path: "sys/namespaces/tns1"}) {
		return
	}
	for _, m := range sc.Mounts {
		p := "sys/mounts/" + m.Name
		if m.Auth {
			p = "sys/auth/" + m.Name
		}
		if !setup("mount "+m.Name, m.NS, &logical.Request{Operation: logical.UpdateOperation, Path: p, Data: map[string]any{"type": m.Type}}) {
			return
		}
	}
	if !setup("programmable device", "", &logical.Request{Operation: logical.UpdateOperation, Path: "sys/audit/td0", Data: map[string]any{"type": "verifdev", "options": map[string]string{"name": "td0", "hmac_accessor": "true"}}}) ||
		!setup("file device", "", &logical.Request{Operation: logical.UpdateOperation, Path: "sys/audit/tfile", Data: map[string]any{"type": "file", "options": map[string]string{"file_path": x.file}}}) {
		return
	}

	model := make([]c11TuneSets, len(sc.Mounts))
	var history []string
	for i, op := range sc.Ops {
		m := sc.Mounts[op.Mount]
		old := model[op.Mount]
		nw := old
		if op.Req != nil {
			nw.Req = op.Req
		}
		if op.Resp != nil {
			nw.Resp = op.Resp
		}
		loc := "root namespace"
		if m.NS != "" {
			loc = "namespace " + m.NS
		}
		opStr := fmt.Sprintf("tune %s (%s, %s): %s -> %s", m.tunePath(), loc, op.Kind, old, nw)
		caseBase := fmt.Sprintf("%s:s%d", sc.ID, i)
		other := sc.Mounts[(op.Mount+1+i)%len(sc.Mounts)]
		otherSets := model[(op.Mount+1+i)%len(sc.Mounts)]
		if other.Name == m.Name {
			otherSets = nw
		}

		// main line (no fault): journal = the durable writes of the tune
		main.Probe.StartJournal()
		res := x.apply(main, op)
		journal := main.Probe.StopJournal()
		if res.isErr() {
			r.Inconc("scenario %s step %d: %s failed without any fault: %s", sc.ID, i, opStr, res.Rendered)
			return
		}
		r.Count("tunes:"+op.Kind, 1)
		if m.Auth {
			r.Count("tunes_on_auth_mounts", 1)
		}
		if m.NS != "" {
			r.Count("tunes_in_child_namespace", 1)
		}

		// judgeLive: the core that ran the tune (outcome known), plus a restarted copy of its store
		judgeLive := func(v *vCore, id, what, outcome string, h []string, info map[string]any) {
			rb, rbOK := x.readBack(v, m)
			var pers *c11TuneSets
			if vp, err := x.clone(v, 1<<30); err == nil {
				r.Count("restarts", 1)
				if p, ok := x.readBack(vp, m); ok {
					pers = &p
					if !p.eq(old) && !p.eq(nw) {
						r.Count("persisted_sets_neither_old_nor_new", 1)
						r.Note("%s: a restarted copy reads back %s, neither the old %s nor the new %s", id, p, old, nw)
					}
					x.probe(vp, id, "after "+what+" and a restart", m, c11TuneRef{InForce: p, Old: old, New: nw, Persisted: pers, Outcome: "none", History: append(h, "restart"), Info: info}, seed)
				}
				vp.Close()
			} else {
				r.Count("restart_refused", 1)
			}
			ref := c11TuneRef{Old: old, New: nw, Persisted: pers, Outcome: outcome, History: h, Info: info}
			if rbOK {
				ref.ReadBack = &rb
			}
			switch outcome {
			case "ok":
				ref.InForce = nw
				if rbOK && !rb.eq(nw) {
					r.Count("successful_tune_reads_back_something_else", 1)
					r.Note("%s: the tune succeeded but reads back %s instead of %s", id, rb, nw)
				}
			default:
				// a refused tune leaves the old sets in force, unless the new ones had become durable before the failure
				ref.InForce = old
				durable := pers != nil && pers.eq(nw)
				switch {
				case rbOK && rb.eq(old):
					r.Count("failed_tunes_reading_back_the_old_sets", 1)
				case rbOK && rb.eq(nw) && durable:
					ref.InForce = nw
					r.Count("failed_tunes_applied_durably_before_the_failure", 1)
				case rbOK:
					r.Count("failed_tunes_reading_back_unpersisted_sets", 1)
					r.Note("%s: the tune failed, a restarted copy reads back %v, yet the live core reads back %s (old %s)", id, pers, rb, old)
				}
			}
			x.probe(v, id, "after "+what, m, ref, seed)
			if other.Name != m.Name {
				x.probe(v, id, "after "+what+" (another mount)", other, c11TuneRef{InForce: otherSets, Old: otherSets, New: otherSets, Outcome: "none", History: h, Info: info}, seed)
			}
		}

		// (1) no fault, on a restarted copy of the state before the tune: operation count + baseline
		v0, err := x.clone(main, 0)
		if err != nil {
			r.Inconc("scenario %s step %d: cannot restart on the state before the tune: %v", sc.ID, i, err)
			return
		}
		v0.Probe.StartJournal()
		v0.Probe.StartLog(false)
		x.apply(v0, op)
		nOps := 0
		for _, e := range v0.Probe.StopLog() {
			if e.Tag == "op" {
				nOps++
			}
		}
		v0.Probe.StopJournal()
		r.Count("storage_operations_of_tunes", nOps)
		if kit.WantCase(caseBase + ":nofault") {
			judgeLive(v0, caseBase+":nofault", opStr+" (no fault)", "ok", append(append([]string(nil), history...), opStr), nil)
		}
		v0.Close()

		// (2) every single storage fault
		for f := 1; f <= nOps; f++ {
			id := fmt.Sprintf("%s:f%d", caseBase, f)
			if !kit.WantCase(id) {
				continue
			}
			v, err := x.clone(main, 0)
			if err != nil {
				r.Inconc("%s: cannot restart on the state before the tune: %v", id, err)
				continue
			}
			var hit kit.Event
			v.Probe.StartJournal()
			v.Probe.FailNth(func(e kit.Event) bool {
				if e.Tag != "op" {
					return false
				}
				hit = e
				return true
			}, f)
			fres := x.apply(v, op)
			fired := v.Probe.ClearFaults()
			v.Probe.StopJournal()
			if fired == 0 {
				r.Count("fault_points_not_reached", 1)
				v.Close()
				continue
			}
			outcome := "ok"
			if fres.isErr() {
				outcome = "failed"
			}
			what := fmt.Sprintf("%s with storage fault #%d (%s %s) -> client %s", opStr, f, hit.Op, hit.Key, outcome)
			r.Count("single_fault_cases", 1)
			r.Count("single_fault_tunes:client_"+outcome, 1)
			if hit.Op == "put" || hit.Op == "commit" {
				r.Count("faults_on_a_write_of_the_tune:client_"+outcome, 1)
			}
			r.Nontrivial(fmt.Sprintf("%s|%v|%s|%s|%s|%s|%s", op.Kind, m.Auth, m.NS, m.Type, hit.Op, c11KeyClass(hit.Key), outcome))
			judgeLive(v, id, what, outcome, append(append([]string(nil), history...), what), map[string]any{"failed_storage_operation": hit.String()})
			v.Close()
		}

		// (3) crash after every prefix of the durable writes
		for k := 0; k <= len(journal); k++ {
			id := fmt.Sprintf("%s:c%d", caseBase, k)
			if !kit.WantCase(id) {
				continue
			}
			v, err := x.clone(main, k)
			if err != nil {
				r.Count("restart_refused", 1)
				continue
			}
			r.Count("crash_prefix_cases", 1)
			what := fmt.Sprintf("crash after %d of %d durable writes of %s, restart", k, len(journal), opStr)
			if p, ok := x.readBack(v, m); ok {
				if !p.eq(old) && !p.eq(nw) {
					r.Count("persisted_sets_neither_old_nor_new", 1)
					r.Note("%s: reads back %s, neither the old %s nor the new %s", id, p, old, nw)
				}
				x.probe(v, id, "after "+what, m, c11TuneRef{InForce: p, Old: old, New: nw, Persisted: &p, Outcome: "none", History: append(append([]string(nil), history...), what)}, seed)
			}
			v.Close()
		}
		model[op.Mount] = nw
		history = append(history, opStr)
	}
}

func TestVerif_C11_TuneExemptions(t *testing.T) {
	seed := kit.Seed(11)
	r := kit.NewResult(t, "c11-tune-exemptions", seed, "a case is one probe request (write / login / read with a canary under each of four field names at the top level, nested in a map and inside a list, in the request body and in the response body) on a mount (recording secret and auth backends, the real kv backend; root and child namespace) after a tune of audit_non_hmac_request_keys / audit_non_hmac_response_keys (set, extend, shrink, clear) that ran without fault, with the n-th storage operation of the tune failing (every n), or up to a crash after every prefix of its durable writes; the live core, a restarted copy of its store and another mount are probed; non-trivial = distinct (tune kind, auth/secret, namespace, backend, failed operation, kind of key, client outcome)")
	defer r.Write(t)
	r.Assume("the exemptions in force on a mount are those of the acknowledged tunes: after a tune the client saw fail, the sets from before the tune - or the requested ones if, and only if, a restarted copy of the store reads them back (they were durable before the failure); after a restart, what the mount's tune endpoint reads back; the formatter's rule 'a string is exempt when the map key that holds it (or holds the list it sits in) is listed' is taken as given, canaries sit under exactly one field name of the universe")
	if oc := kit.OnlyCase(); oc != "" && !strings.HasPrefix(oc, "tune:") {
		t.Skip("not a tune case")
		return
	}
	shard, shards := kit.Shard()
	for i, sc := range c11TuneScenarios(seed) {
		if i%shards != shard {
			continue
		}
		if oc := kit.OnlyCase(); oc != "" && !strings.HasPrefix(oc, sc.ID+":") {
			continue
		}
		r.Count("scenarios", 1)
		(&c11Tune{t: t, r: r, sc: sc}).run(seed)
	}
	if kit.OnlyCase() != "" || shard != 0 {
		return
	}
	r.Require("single_fault_cases", 200)
	r.Require("single_fault_tunes:client_failed", 100)
	r.Require("faults_on_a_write_of_the_tune:client_failed", 30)
	r.Require("failed_tunes_reading_back_the_old_sets", 100)
	r.Require("crash_prefix_cases", 30)
	r.Require("restarts", 200)
	r.Require("tunes_on_auth_mounts", 10)
	r.Require("tunes_in_child_namespace", 10)
	for _, k := range []string{"set", "extend", "shrink", "clear"} {
		r.Require("tunes:"+k, 5)
	}
	r.Require("probe_requests", 1000)
	r.Require("entries_searched", 3000)
	r.Require("canaries_under_exempted_field_readable", 2000)
	r.Require("canaries_under_non_exempted_field_hashed", 5000)
	for _, s := range []string{"request", "response"} {
		for _, ty := range []string{"c11rec", "c11cred", "kv"} {
			r.Require("control_readable:"+s+":"+ty, 100)
		}
	}
}
