//go:build verif

package vault

// C11 (ordering half, audit device life cycle under storage faults): "at least
// one audit device is enabled" is what the operator can see - the devices
// sys/audit lists, and after a restart the devices the new core lists. Devices
// are enabled, disabled and re-enabled through the API while
//   * every single storage operation of the sys/audit request fails once, and
//   * the process dies after every prefix of the request's durable writes and is restarted.
// After each such step (and once more after a restart) probe requests are sent.
// Oracle: with a non-empty list a probe is either refused without any handler
// running, or every routed request / returned response has its entry held by a
// LISTED device (recorded entries of programmable devices, the file of the real
// file device); and a listed device must have been offered every served request.

import (
	"context"
	"fmt"
	"os"
	"path/filepath"
	"sort"
	"strings"
	"testing"
	"time"

	kit "github.com/openbao/openbao/sdk/v2/helper/verifkit"
	"github.com/openbao/openbao/sdk/v2/logical"
	"github.com/openbao/openbao/v2/internal/audit"
	auditFile "github.com/openbao/openbao/v2/internal/builtin/audit/file"
	"github.com/openbao/openbao/v2/internal/command/server"
	"github.com/openbao/openbao/v2/internal/helper/configutil"
)

type c11LifeDev struct {
	Name  string `json:"name"`
	Type  string `json:"type"` // prog | file
	Local bool   `json:"local"`
}

type c11LifeOp struct {
	Op  string `json:"op"` // enable | disable
	Dev int    `json:"device"`
}

type c11LifeScenario struct {
	ID   string       `json:"id"`
	Devs []c11LifeDev `json:"devices"`
	Ops  []c11LifeOp  `json:"operations"`
	Tx   bool         `json:"transactional_storage"`
}

func (s *c11LifeScenario) opString(i int) string {
	o := s.Ops[i]
	d := s.Devs[o.Dev]
	loc := ""
	if d.Local {
		loc = ",local"
	}
	return fmt.Sprintf("%s %s(%s%s)", o.Op, d.Name, d.Type, loc)
}

func c11LifeScenarios(seed int64) []*c11LifeScenario {
	out := []*c11LifeScenario{{
		ID:   "life:0",
		Devs: []c11LifeDev{{"la", "prog", false}, {"lb", "prog", true}, {"lc", "file", false}},
		// sole device disabled and re-enabled, a second (local) device next to it, a real file device, down to zero
		Ops: []c11LifeOp{{"enable", 0}, {"disable", 0}, {"enable", 0}, {"enable", 1}, {"disable", 0}, {"enable", 2}, {"disable", 1}, {"disable", 2}},
	}}
	rng := kit.NewRand(seed, 0x11fe)
	for g, n := 1, kit.N(6, 40); g <= n; g++ {
		sc := &c11LifeScenario{ID: fmt.Sprintf("life:%d", g), Tx: g%2 == 1}
		for d, nd := 0, 2+rng.Intn(2); d < nd; d++ {
			typ := "prog"
			if rng.Chance(1, 4) {
				typ = "file"
			}
			sc.Devs = append(sc.Devs, c11LifeDev{Name: fmt.Sprintf("l%c", 'a'+d), Type: typ, Local: rng.Chance(1, 3)})
		}
		on := map[int]bool{}
		for i, no := 0, 5+rng.Intn(3); i < no; i++ {
			d := rng.Intn(len(sc.Devs))
			if len(on) == 0 || (!on[d] && rng.Chance(2, 3)) {
				for on[d] {
					d = (d + 1) % len(sc.Devs)
				}
				on[d] = true
				sc.Ops = append(sc.Ops, c11LifeOp{"enable", d})
				continue
			}
			for !on[d] {
				d = (d + 1) % len(sc.Devs)
			}
			delete(on, d)
			sc.Ops = append(sc.Ops, c11LifeOp{"disable", d})
		}
		out = append(out, sc)
	}
	return out
}

// c11Life is the world of one life-cycle scenario.
type c11Life struct {
	t   *testing.T
	r   *kit.Result
	w   *c11World
	fw  *c11FWorld
	sc  *c11LifeScenario
	tmp string
	// result of the most recent life-cycle call per device name: "" (none yet) | "ok" | "failed"
	lastOp map[string]string
}

func (l *c11Life) opts() vOpts {
	w := l.w
	return vOpts{
		Transactional: l.sc.Tx,
		Audit:         map[string]audit.Factory{"verifdev": w.deviceFactory, "file": auditFile.Factory},
		Logical: map[string]logical.Factory{"c11rec": func(context.Context, *logical.BackendConfig) (logical.Backend, error) {
			return &c11Backend{w: w, name: "vrec/", typ: logical.TypeLogical}, nil
		}},
		Credential: map[string]logical.Factory{"c11cred": func(context.Context, *logical.BackendConfig) (logical.Backend, error) {
			return &c11Backend{w: w, name: "auth/vcred/", typ: logical.TypeCredential, login: []string{"login"}}, nil
		}, "userpass": func(context.Context, *logical.BackendConfig) (logical.Backend, error) { // a type name with user lockout
			return &c11Backend{w: w, name: "auth/vuserpass/", typ: logical.TypeCredential, login: []string{"login"}}, nil
		}},
	}
}

// adopt prepares a freshly booted / restarted core for the monitor.
func (l *c11Life) adopt(v *vCore) {
	v.Core.rawConfig.Store(&server.Config{UnsafeAllowAPIAuditCreation: true, SharedConfig: &configutil.SharedConfig{}})
	c11InstallProxies(l.t, l.w, v.Core)
	// Let the lease restore of a restarted core finish before anything else happens: shutting a core
	// down in the middle of it can hang (restore workers gone, distributor still sending), which is a
	// liveness matter of the expiration manager and not this property. Bounded; not a verdict.
	for i := 0; i < 2000 && v.Core.expiration != nil && v.Core.expiration.inRestoreMode(); i++ {
		time.Sleep(2 * time.Millisecond)
	}
}

func (l *c11Life) use(v *vCore) {
	l.w.core, l.w.root = v.Core, v.Root
}

// clone boots a core (same seal) on a copy of a store, as a restart of the process would.
func (l *c11Life) clone(base *vCore, phys any) (*vCore, error) {
	var v *vCore
	var err error
	switch p := phys.(type) {
	case *vCore: // restart in place
		v, err = p.Restart()
	default:
		pb, _ := kit.NewProbe(base.Probe.Materialise(phys.(int), l.sc.Tx))
		v, err = base.RestartOn(pb)
	}
	if err != nil {
		if v != nil {
			v.Close()
		}
		return nil, err
	}
	l.adopt(v)
	return v, nil
}

func (l *c11Life) filePath(name string) string { return filepath.Join(l.tmp, name+".log") }

// apply performs one life-cycle call on the core (tagged for the probe) and reports whether the client got an error.
func (l *c11Life) apply(v *vCore, i int) *c11Result {
	l.use(v)
	o := l.sc.Ops[i]
	d := l.sc.Devs[o.Dev]
	var req *logical.Request
	if o.Op == "enable" {
		data := map[string]any{"type": "verifdev", "local": d.Local, "options": map[string]string{"name": d.Name, "hmac_accessor": "true"}}
		if d.Type == "file" {
			data = map[string]any{"type": "file", "local": d.Local, "options": map[string]string{"file_path": l.filePath(d.Name), "hmac_accessor": "true"}}
		}
		req = &logical.Request{Operation: logical.UpdateOperation, Path: "sys/audit/" + d.Name, ClientToken: v.Root, Data: data}
	} else {
		req = &logical.Request{Operation: logical.DeleteOperation, Path: "sys/audit/" + d.Name, ClientToken: v.Root}
	}
	v.Probe.Tag("op")
	res := l.w.do(req, "")
	v.Probe.Untag()
	if res.isErr() {
		l.lastOp[d.Name] = "failed"
	} else {
		l.lastOp[d.Name] = "ok"
	}
	return res
}

// listed asks the core which audit devices are enabled.
func (l *c11Life) listed(v *vCore) ([]string, bool) {
	l.use(v)
	res := l.w.do(&logical.Request{Operation: logical.ReadOperation, Path: "sys/audit", ClientToken: v.Root}, "")
	var names []string
	if !res.isErr() && res.Resp != nil {
		for p := range res.Resp.Data {
			names = append(names, strings.TrimSuffix(p, "/"))
		}
		sort.Strings(names)
		return names, true
	}
	// the listing itself was refused (it is an audited request): fall back to the table the API would have rendered
	v.Core.auditLock.RLock()
	if v.Core.audit != nil {
		for _, e := range v.Core.audit.Entries {
			names = append(names, strings.TrimSuffix(e.Path, "/"))
		}
	}
	v.Core.auditLock.RUnlock()
	sort.Strings(names)
	return names, false
}

func (l *c11Life) holderOf(name string) c11Holder {
	for _, d := range l.sc.Devs {
		if d.Name == name && d.Type == "file" {
			p := l.filePath(name)
			return &c11FileTarget{fw: l.fw, mount: name, dir: l.tmp, link: p, real: p}
		}
	}
	return &c11ProgHolder{fw: l.fw, name: name}
}

// offered reports whether the device was given the request at all (any recorded call / any line).
func (l *c11Life) offered(h c11Holder, id string) bool {
	switch x := h.(type) {
	case *c11ProgHolder:
		for _, e := range l.w.eventsFor(id) {
			if e.Kind == "audit" && e.Dev == x.name {
				return true
			}
		}
		return false
	default:
		for _, ln := range h.Lines() {
			if strings.Contains(string(ln), `"`+id+`"`) {
				return true
			}
		}
		return false
	}
}

var c11LifeProbes = []string{"read", "write", "kvwrite", "tokencreate", "login", "lklogin"}

// probe sends the probe requests to the core and judges them against the devices the core lists.
func (l *c11Life) probe(v *vCore, caseID, label string, step int, history []string, seed int64) {
	l.probeHdr(v, caseID, label, step, history, seed, true, true)
}

// probeHdr: withHeader = the probes carry a header audited with hmac=true; checkOffered = every listed
// device is expected to work, so each of them must have been offered every served request.
func (l *c11Life) probeHdr(v *vCore, caseID, label string, step int, history []string, seed int64, withHeader, checkOffered bool) {
	r, w, fw := l.r, l.w, l.fw
	names, viaAPI := l.listed(v)
	if !viaAPI {
		r.Count("listing_refused_table_read_directly", 1)
	}
	r.Count("states_probed", 1)
	r.Count(fmt.Sprintf("states_probed_with_%d_listed", min(len(names), 3)), 1)
	if len(names) == 0 {
		r.Count("states_with_no_device_listed", 1)
		return
	}
	fw.holders = nil
	for _, n := range names {
		fw.holders = append(fw.holders, l.holderOf(n))
	}
	registered := 0
	for _, n := range names {
		if v.Core.auditBroker != nil && v.Core.auditBroker.IsRegistered(n+"/") {
			registered++
		}
	}
	w.mu.Lock()
	w.atBackend = func(id string) string {
		if by := fw.holding("request", id); len(by) > 0 {
			return "held-by:" + strings.Join(by, ",")
		}
		return "not-held"
	}
	w.mu.Unlock()
	defer func() {
		w.mu.Lock()
		w.atBackend = nil
		w.mu.Unlock()
	}()
	rng := kit.NewRand(seed, c11Hash(caseID+label))
	sc := &c11FaultScenario{ID: caseID}
	for _, n := range names {
		sc.Devices = append(sc.Devices, c11FaultDev{Type: "listed:" + n, Fault: l.lastOp[n]})
	}
	info := map[string]any{"scenario": l.sc, "history": history, "probed": label, "devices_listed_by_sys_audit": names, "listed_devices_registered_in_broker": registered}
	for pi, kind := range c11LifeProbes {
		w.dropEvents()
		respData, respSecs := c11GenData(rng, "response.data", "exempt_resp", "exempt_req")
		reqData, reqSecs := c11GenData(rng, "request.data", "exempt_req", "exempt_resp")
		var secrets []string
		for _, s := range respSecs {
			if !strings.HasPrefix(s.Canary, `"`) {
				secrets = append(secrets, s.Canary)
			}
		}
		w.mu.Lock()
		w.respData, w.listKeys, w.writeNil, w.loginMeta = respData, []string{"k-" + rng.Canary()}, false, "m"+rng.Canary()
		w.mu.Unlock()
		name := fmt.Sprintf("p%d", rng.Intn(1000000))
		var req *logical.Request
		switch kind {
		case "read":
			req = &logical.Request{Operation: logical.ReadOperation, Path: "vrec/data/" + name, ClientToken: v.Root}
		case "write":
			req = &logical.Request{Operation: logical.UpdateOperation, Path: "vrec/data/" + name, ClientToken: v.Root, Data: reqData}
		case "kvwrite":
			req = &logical.Request{Operation: logical.UpdateOperation, Path: "vkv/" + name, ClientToken: v.Root, Data: map[string]any{"value": reqSecs[0].Value}}
		case "tokencreate":
			req = &logical.Request{Operation: logical.UpdateOperation, Path: "auth/token/create", ClientToken: v.Root, Data: map[string]any{"policies": []string{"default"}, "ttl": "1h"}}
		case "login":
			req = &logical.Request{Operation: logical.UpdateOperation, Path: "auth/vcred/login", Data: reqData}
		case "lklogin":
			reqData["username"], reqData["password"] = "u"+rng.Canary(), "good"+rng.Canary()
			req = &logical.Request{Operation: logical.UpdateOperation, Path: "auth/vuserpass/login", Data: reqData}
		}
		fc := &c11FaultCtx{sc: sc, step: step, st: c11FaultStep{Kind: kind}, info: info}
		r.Eval(1)
		r.Count("probe_requests", 1)
		hv := "hdr" + rng.Canary()
		if !withHeader {
			hv = ""
		}
		res := w.do(req, hv)
		reqHeld, respHeld := fw.judge(fc, res, label, secrets)
		nBackend := 0
		for _, e := range w.eventsFor(res.ID) {
			if e.Kind == "backend" {
				nBackend++
			}
		}
		served := nBackend > 0 || !res.isErr()
		if served {
			r.Count("probe_requests_served", 1)
			for _, h := range fw.holders {
				if !checkOffered {
					break
				}
				n := h.Name()[strings.IndexByte(h.Name(), ':')+1:]
				if l.offered(h, res.ID) {
					r.Count("listed_device_offered_served_request", 1)
					continue
				}
				class := "C11-enabled-device-bypassed"
				if l.lastOp[n] == "failed" {
					class = "C11-enabled-device-bypassed-after-failed-config-change"
				}
				r.Violate(class, caseID, fmt.Sprintf("%s probe (%s, step %d): audit device %s is listed as enabled by sys/audit (last life-cycle call on it: %s) but was not offered the request, which was served (handlers entered: %d, client error: %v); %d of the %d listed devices are registered in the broker", kind, label, step, n, l.lastOp[n], nBackend, res.isErr(), registered, len(names)), fw.witness(fc, res, nil))
			}
		} else {
			r.Count("probe_requests_refused_without_handler", 1)
		}
		if reqHeld && respHeld && !res.isErr() {
			r.Count("probe_delivered_with_entries_on_listed_device", 1)
		}
		if kind == "kvwrite" {
			chk := w.do(&logical.Request{Operation: logical.ReadOperation, Path: req.Path, ClientToken: v.Root}, "")
			if strings.Contains(chk.Rendered, reqSecs[0].Canary) && !reqHeld {
				r.Violate(fw.class("C11-routed-without-persisted-request-entry"), caseID, fmt.Sprintf("kv write probe (%s, step %d) was applied to storage although no listed audit device holds its request entry", label, step), fw.witness(fc, res, map[string]any{"read_back": chk.Rendered}))
			}
		}
		if r.NViolations() == 0 && pi == 0 && len(names) > 1 && strings.Contains(label, "fault") && step == 3 {
			r.Sample(fw.witness(fc, res, nil))
		}
	}
}

func (l *c11Life) run(seed int64) {
	r, sc := l.r, l.sc
	w := &c11World{t: l.t, r: r, script: map[string]int{}, devices: map[string]*c11Device{}, tag: strings.ReplaceAll(sc.ID, ":", "")}
	l.w = w
	l.fw = &c11FWorld{t: l.t, r: r, w: w, fullFD: -1, roFD: -1, cls: map[string]string{
		"C11-routed-without-persisted-request-entry":    "C11-routed-without-entry-held-by-listed-device",
		"C11-returned-without-persisted-response-entry": "C11-returned-without-entry-held-by-listed-device",
		"C11-no-error-without-persisted-entry":          "C11-no-error-without-entry-held-by-listed-device",
	}}
	l.lastOp = map[string]string{}
	tmp, err := os.MkdirTemp("", "c11l")
	if err != nil {
		r.Inconc("scenario %s: %v", sc.ID, err)
		return
	}
	l.tmp = tmp
	defer os.RemoveAll(tmp)

	main := vBoot(l.t, l.opts())
	defer main.Close()
	l.adopt(main)
	l.use(main)
	for _, s := range []struct {
		what string
		req  *logical.Request
	}{
		{"mount vrec", &logical.Request{Operation: logical.UpdateOperation, Path: "sys/mounts/vrec", Data: map[string]any{"type": "c11rec"}}},
		{"mount vkv", &logical.Request{Operation: logical.UpdateOperation, Path: "sys/mounts/vkv", Data: map[string]any{"type": "kv"}}},
		{"enable vcred", &logical.Request{Operation: logical.UpdateOperation, Path: "sys/auth/vcred", Data: map[string]any{"type": "c11cred"}}},
		{"enable vuserpass", &logical.Request{Operation: logical.UpdateOperation, Path: "sys/auth/vuserpass", Data: map[string]any{"type": "userpass"}}},
		{"audited header", &logical.Request{Operation: logical.UpdateOperation, Path: "sys/config/auditing/request-headers/X-Verif-Secret", Data: map[string]any{"hmac": true}}},
	} {
		s.req.ClientToken = main.Root
		if res := w.do(s.req, ""); res.isErr() {
			r.Inconc("scenario %s: setup %s failed: %s", sc.ID, s.what, res.Rendered)
			return
		}
	}

	var history []string
	for i := range sc.Ops {
		opStr := sc.opString(i)
		// the main line: the call without any fault; its journal gives the crash prefixes
		main.Probe.StartJournal()
		lastBefore := map[string]string{}
		for k, v := range l.lastOp {
			lastBefore[k] = v
		}
		res := l.apply(main, i)
		journal := main.Probe.StopJournal()
		if res.isErr() {
			r.Inconc("scenario %s step %d: %s failed without any fault: %s", sc.ID, i, opStr, res.Rendered)
			return
		}
		mainLast := l.lastOp
		r.Count("lifecycle_calls:"+sc.Ops[i].Op, 1)

		// (1) the same call on a restarted copy of the state before it, without fault: learns the
		//     number of storage operations of the request and is the fault-free baseline
		l.lastOp = c11CopyMap(lastBefore)
		v0, err := l.clone(main, 0)
		if err != nil {
			r.Inconc("scenario %s step %d: cannot restart on the state before the call: %v", sc.ID, i, err)
			return
		}
		v0.Probe.StartLog(false)
		l.apply(v0, i)
		nOps := 0
		for _, e := range v0.Probe.StopLog() {
			if e.Tag == "op" {
				nOps++
			}
		}
		r.Count("storage_operations_of_lifecycle_calls", nOps)
		caseBase := fmt.Sprintf("%s:s%d", sc.ID, i)
		if kit.WantCase(caseBase + ":nofault") {
			l.probe(v0, caseBase+":nofault", "after "+opStr+" (no fault)", i, append(history, opStr), seed)
			l.saltStates(v0, caseBase, opStr, i, append(history, opStr), seed)
			if v1, err := l.clone(main, v0); err == nil {
				r.Count("restarts", 1)
				l.probe(v1, caseBase+":nofault", "after "+opStr+" (no fault) and a restart", i, append(history, opStr, "restart"), seed)
				v1.Close()
			} else {
				r.Count("restart_refused", 1)
			}
		}
		v0.Close()

		// (2) every single storage fault
		for f := 1; f <= nOps; f++ {
			id := fmt.Sprintf("%s:f%d", caseBase, f)
			if !kit.WantCase(id) {
				continue
			}
			l.lastOp = c11CopyMap(lastBefore)
			v, err := l.clone(main, 0)
			if err != nil {
				r.Inconc("%s: cannot restart on the state before the call: %v", id, err)
				continue
			}
			var hit kit.Event
			v.Probe.FailNth(func(e kit.Event) bool {
				if e.Tag != "op" {
					return false
				}
				hit = e
				return true
			}, f)
			fres := l.apply(v, i)
			if v.Probe.ClearFaults() == 0 {
				r.Count("fault_points_not_reached", 1)
				v.Close()
				continue
			}
			what := fmt.Sprintf("%s with storage fault #%d (%s %s)", opStr, f, hit.Op, hit.Key)
			outcome := "ok"
			if fres.isErr() {
				outcome = "error"
			}
			r.Count("single_fault_cases", 1)
			r.Count("single_fault_cases:"+sc.Ops[i].Op+":client_"+outcome, 1)
			if strings.HasPrefix(hit.Key, "core/audit") || strings.HasPrefix(hit.Key, "core/local-audit") {
				r.Count("faults_on_the_audit_table:"+sc.Ops[i].Op, 1)
			}
			r.Nontrivial(fmt.Sprintf("%s|%s|%s|%s|%d", sc.Ops[i].Op, hit.Op, c11KeyClass(hit.Key), outcome, len(lastBefore)))
			h := append(append([]string(nil), history...), what+" -> client "+outcome)
			l.probe(v, id, "after "+what, i, h, seed)
			if v2, err := l.clone(main, v); err == nil {
				r.Count("restarts", 1)
				l.probe(v2, id, "after "+what+" and a restart", i, append(h, "restart"), seed)
				v2.Close()
			} else {
				r.Count("restart_refused", 1)
				v.Close()
			}
		}

		// (3) crash after every prefix of the durable writes, restart, probe, then the client retries the call
		for k := 0; k <= len(journal); k++ {
			id := fmt.Sprintf("%s:c%d", caseBase, k)
			if !kit.WantCase(id) {
				continue
			}
			l.lastOp = c11CopyMap(lastBefore)
			v, err := l.clone(main, k)
			if err != nil {
				r.Count("restart_refused", 1)
				r.Note("%s: the core does not start on the store a crash after %d of %d durable writes of %q leaves: %v", id, k, len(journal), opStr, err)
				continue
			}
			r.Count("crash_prefix_cases", 1)
			r.Count("restarts", 1)
			what := fmt.Sprintf("crash after %d of %d durable writes of %s, restart", k, len(journal), opStr)
			h := append(append([]string(nil), history...), what)
			l.probe(v, id, "after "+what, i, h, seed)
			rres := l.apply(v, i)
			outcome := "ok"
			if rres.isErr() {
				outcome = "error"
			}
			r.Count("retries_after_crash:client_"+outcome, 1)
			l.probe(v, id, "after "+what+" and a retry of the call (client "+outcome+")", i, append(h, "retry -> client "+outcome), seed)
			v.Close()
		}
		l.lastOp = mainLast
		history = append(history, opStr)
	}
}

// saltStates: the salts of the enabled devices were invalidated (as a cluster invalidation does) and
// cannot be read back from storage - first the salt of one device, then of all of them. GetHash
// (audited-headers stage of the broker) and the formatter of such a device fail for real.
func (l *c11Life) saltStates(v *vCore, caseBase, opStr string, step int, history []string, seed int64) {
	r := l.r
	v.Core.auditLock.RLock()
	var uuids, paths []string
	if v.Core.audit != nil {
		for _, e := range v.Core.audit.Entries {
			uuids = append(uuids, e.UUID)
			paths = append(paths, e.Path)
		}
	}
	v.Core.auditLock.RUnlock()
	if len(uuids) == 0 {
		return
	}
	for vi, n := range []int{1, len(uuids)} {
		if vi == 1 && len(uuids) == 1 {
			break
		}
		id := fmt.Sprintf("%s:salt%d", caseBase, n)
		if !kit.WantCase(id) {
			continue
		}
		down := map[string]bool{}
		for _, u := range uuids[:n] {
			down[auditBarrierPrefix+u+"/salt"] = true
		}
		v.Core.auditBroker.Invalidate(c11Ctx(), "")
		v.Probe.FailAll(func(e kit.Event) bool { return down[e.Key] })
		what := fmt.Sprintf("salts invalidated, salt of %v unreadable", paths[:n])
		for _, hdr := range []bool{true, false} {
			lbl := "after " + opStr + ", " + what + map[bool]string{true: ", requests carry an HMAC-audited header", false: ", requests carry no audited header"}[hdr]
			before := r.Get("probe_requests_refused_without_handler")
			l.probeHdr(v, id, lbl, step, append(append([]string(nil), history...), what), seed, hdr, false)
			r.Count("salt_unavailable_states", 1)
			if n == len(uuids) {
				r.Count("probes_refused_with_every_salt_unavailable", int(r.Get("probe_requests_refused_without_handler")-before))
			}
		}
		if v.Probe.ClearFaults() > 0 {
			r.Count("salt_read_faults_fired", 1)
		}
		v.Core.auditBroker.Invalidate(c11Ctx(), "")
	}
}

func c11CopyMap(m map[string]string) map[string]string {
	out := map[string]string{}
	for k, v := range m {
		out[k] = v
	}
	return out
}

// c11KeyClass reduces a storage key to its kind for the non-triviality signature.
func c11KeyClass(k string) string {
	switch {
	case strings.HasPrefix(k, "core/audit"), strings.HasPrefix(k, "core/local-audit"):
		return k
	case strings.HasPrefix(k, "audit/"):
		return "audit/<uuid>/" + k[strings.LastIndexByte(k, '/')+1:]
	case strings.HasPrefix(k, "sys/token/"):
		return "sys/token/…"
	}
	if i := strings.IndexByte(k, '/'); i > 0 {
		return k[:i+1] + "…"
	}
	return k
}

func TestVerif_C11_Lifecycle(t *testing.T) {
	seed := kit.Seed(11)
	r := kit.NewResult(t, "c11-device-lifecycle", seed, "a case is one probe request (read, write, kv write with read-back, token create, login; all carrying a header audited with hmac=true) sent to a Core after an audit device life-cycle call (enable / disable / re-enable of programmable and real file devices, local and replicated) that ran (a) without fault, (b) with the n-th storage operation of the sys/audit request failing, for every n, (c) up to a crash after every prefix of its durable writes followed by a restart, and then a retry of the call; every state is probed again after a restart; non-trivial = distinct (call, failed storage operation, kind of key, client outcome, devices touched so far)")
	defer r.Write(t)
	r.Assume("'at least one audit device is enabled' = sys/audit of the running core lists at least one device (after a restart: of the restarted core); an entry counts only if a LISTED device holds it (entries a programmable device recorded, lines in the file of a file device); the audit API has no remount / tune call for devices, declaratively configured devices (audit stanza) are not exercised")
	r.Assume("'OpenBao will attempt to send the audit logs to all of them' (audit documentation, 'Enabling multiple devices'): a listed device that is not offered a request the core serves is reported, in its own class, also when another listed device holds the entries")
	if oc := kit.OnlyCase(); oc != "" && !strings.HasPrefix(oc, "life:") {
		t.Skip("not a life-cycle case")
		return
	}
	shard, shards := kit.Shard()
	for i, sc := range c11LifeScenarios(seed) {
		if i%shards != shard {
			continue
		}
		if oc := kit.OnlyCase(); oc != "" && !strings.HasPrefix(oc, sc.ID+":") {
			continue
		}
		r.Count("scenarios", 1)
		(&c11Life{t: t, r: r, sc: sc}).run(seed)
	}
	if kit.OnlyCase() != "" || shard != 0 {
		return
	}
	r.Require("single_fault_cases", 200)
	r.Require("faults_on_the_audit_table:enable", 10)
	r.Require("faults_on_the_audit_table:disable", 10)
	r.Require("single_fault_cases:disable:client_error", 20)
	r.Require("single_fault_cases:enable:client_error", 20)
	r.Require("crash_prefix_cases", 20)
	r.Require("restarts", 200)
	r.Require("probe_requests", 1000)
	r.Require("probe_requests_served", 500)
	r.Require("listed_device_offered_served_request", 500)
	r.Require("probe_delivered_with_entries_on_listed_device", 500)
	r.Require("states_with_no_device_listed", 20)
	r.Require("salt_unavailable_states", 20)
	r.Require("salt_read_faults_fired", 10)
	r.Require("probes_refused_with_every_salt_unavailable", 50)
	r.Require("states_probed_with_1_listed", 50)
	r.Require("states_probed_with_2_listed", 50)
	r.Require("request_entry_read_back_from:prog", 500)
	r.Require("request_entry_read_back_from:file", 50)
	r.Require("handler_entries_with_request_entry_already_persisted", 500)
}
