//go:build verif

package audit

// C11 (formatter half): audit entries produced in the default (non-raw) mode
// never hold the plaintext of client tokens, wrapping tokens, accessors (when
// hmac_accessor is on) or any string value inside request / response data,
// except under keys the operator exempted; the salted HMAC stands in instead.
//
// Monitor: generated payloads (nested maps / lists / typed Go containers /
// structs / marshaler types, depth <= 5) carry a unique canary in every string
// leaf and in every token / accessor field. The real AuditFormatter +
// JSONFormatWriter produce the bytes; the oracle searches the bytes for the
// canaries and for the HMACs it computed itself with crypto/hmac.

import (
	"bytes"
	"context"
	"crypto/ecdsa"
	"crypto/elliptic"
	"crypto/hmac"
	crand "crypto/rand"
	"crypto/sha256"
	"encoding/base64"
	"encoding/hex"
	"encoding/json"
	"errors"
	"fmt"
	"sort"
	"strings"
	"sync"
	"testing"
	"time"

	"github.com/go-jose/go-jose/v4"
	"github.com/go-jose/go-jose/v4/jwt"

	"github.com/openbao/openbao/sdk/v2/helper/salt"
	kit "github.com/openbao/openbao/sdk/v2/helper/verifkit"
	"github.com/openbao/openbao/sdk/v2/helper/wrapping"
	"github.com/openbao/openbao/sdk/v2/logical"
	"github.com/openbao/openbao/v2/internal/helper/namespace"
)

// ---------------------------------------------------------------- reference

// c11RefHMAC is the oracle's own "salted HMAC": hmac-sha256 keyed by the
// device salt, hex, with the documented type prefix.
func c11RefHMAC(saltVal, v string) string {
	m := hmac.New(sha256.New, []byte(saltVal))
	m.Write([]byte(v))
	return "hmac-sha256:" + hex.EncodeToString(m.Sum(nil))
}

// ---------------------------------------------------------------- leaves

const (
	c11KindData     = "data"      // string value inside request/response data
	c11KindToken    = "token"     // client token
	c11KindWrapTok  = "wraptoken" // wrapping token
	c11KindAccessor = "accessor"  // token / wrapping accessor
)

type c11Leaf struct {
	Kind     string   `json:"kind"`
	Side     string   `json:"side"` // "req": part of the request half (present in both entry kinds); "resp": response half only
	Path     string   `json:"path"`
	Keys     []string `json:"keys,omitempty"` // map keys (JSON names) on the way down inside the data object
	GoType   string   `json:"go_type"`
	Depth    int      `json:"depth"`
	Value    string   `json:"value"`               // string whose HMAC must stand in
	AltValue string   `json:"alt_value,omitempty"` // alternative pre-image accepted for the HMAC (JWT id)
	Plain    []string `json:"plain"`               // substrings that reveal the secret
	Silent   bool     `json:"silent,omitempty"`    // not marshalled at all (unexported / json:"-"): must simply never show up
	Shape    string   `json:"shape,omitempty"`     // shape class of the string value (data leaves)
	Quoted   []string `json:"quoted,omitempty"`    // shapes that cannot embed a canary: the complete value as a JSON string token, searched in value position and judged by count
	TimeOK   bool     `json:"rfc3339,omitempty"`   // the emitted string is an RFC 3339 timestamp and nothing else (left readable by design, see assumptions)
}

// typed values the payload generator sprinkles in
type (
	c11Named string
	c11Text  struct{ s string }
	c11JM    struct{ s string }
	c11Emb   struct {
		Emb string `json:"emb"`
	}
	c11StructB struct {
		Deep map[string]string `json:"deep"`
		When time.Time         `json:"when"`
		Ptr  *string           `json:"ptr"`
		c11Emb
	}
	c11StructA struct {
		Name    string      `json:"name"`
		Secret  string      `json:"secret_value"`
		N       int         `json:"n"`
		Tags    []string    `json:"tags,omitempty"`
		Sub     *c11StructB `json:"sub,omitempty"`
		hidden  string
		Skipped string `json:"-"`
		Any     any    `json:"any"`
	}
)

func (t c11Text) MarshalText() ([]byte, error) { return []byte(t.s), nil }
func (j c11JM) MarshalJSON() ([]byte, error) {
	return json.Marshal(map[string]any{"inner": j.s, "n": 1})
}

type c11Gen struct {
	rng      *kit.Rand
	side     string
	maxDepth int
	budget   int
	leaves   []c11Leaf
	keysUsed map[string]bool
	types    map[string]int
	ctr      *int // per-case leaf counter shared by the request and the response generator: makes short values unique within a case
	base     int  // per-case constant mixed into short values
	last     c11SV
}

var c11KeyPool = []string{"keys", "key_info", "token", "password", "data", "value", "secret", "id", "common_name", "metadata", "a", "b", "error", "ttl", "policies"}

func (g *c11Gen) key(used map[string]bool) string {
	for {
		var k string
		switch g.rng.Intn(10) {
		case 0:
			k = "k" + hex.EncodeToString(g.rng.Bytes(3))
		case 1:
			k = "key with space." + hex.EncodeToString(g.rng.Bytes(1))
		case 2:
			k = "clé-✓-" + hex.EncodeToString(g.rng.Bytes(1))
		default:
			k = kit.Pick(g.rng, c11KeyPool)
		}
		if !used[k] {
			used[k] = true
			g.keysUsed[k] = true
			return k
		}
	}
}

var c11Decor = []struct{ pre, post string }{
	{"", ""}, {"", ""}, {"", ""}, {"s.", ""}, {"hvs.", ".ns1"}, {"b.", ""}, {"pass word ", " !"}, {"\"quoted\" ", "\\ back"},
	{"<tag>&", "</tag>"}, {"line\n", "\ttab"}, {"ünï✓ ", " 日本"}, {"12345", ""}, {"2021-03-04T05:06:07Z ", ""}, {"", " 2021-03-04T05:06:07Z"},
	{" ", " "}, {"{\"json\":\"", "\"}"}, {"hmac-sha256:", ""}, {strings.Repeat("x", 300), ""},
}

// c11SV is one generated secret string.
type c11SV struct {
	val    string
	canary string // unique substring; "" when the shape has no room for one
	shape  string
}

var c11Epoch = time.Date(2001, 1, 1, 0, 0, 0, 0, time.UTC)

// c11IsRFC3339 is the oracle's own reading of RFC 3339 section 5.6 (date-time
// ABNF plus the field ranges of 5.7): the one string form the formatter is
// assumed to leave readable on purpose.
func c11IsRFC3339(s string) bool {
	isD := func(i int) bool { return i < len(s) && s[i] >= '0' && s[i] <= '9' }
	num := func(i, n int) (int, bool) {
		v := 0
		for k := 0; k < n; k++ {
			if !isD(i + k) {
				return 0, false
			}
			v = v*10 + int(s[i+k]-'0')
		}
		return v, true
	}
	if len(s) < len("2006-01-02T15:04:05Z") {
		return false
	}
	year, ok1 := num(0, 4)
	mon, ok2 := num(5, 2)
	day, ok3 := num(8, 2)
	hh, ok4 := num(11, 2)
	mm, ok5 := num(14, 2)
	ss, ok6 := num(17, 2)
	if !(ok1 && ok2 && ok3 && ok4 && ok5 && ok6) || s[4] != '-' || s[7] != '-' || (s[10] != 'T' && s[10] != 't') || s[13] != ':' || s[16] != ':' {
		return false
	}
	dim := []int{31, 28, 31, 30, 31, 30, 31, 31, 30, 31, 30, 31}
	if mon < 1 || mon > 12 {
		return false
	}
	maxDay := dim[mon-1]
	if mon == 2 && year%4 == 0 && (year%100 != 0 || year%400 == 0) {
		maxDay = 29
	}
	if day < 1 || day > maxDay || hh > 23 || mm > 59 || ss > 60 {
		return false
	}
	i := 19
	if i < len(s) && s[i] == '.' {
		i++
		if !isD(i) {
			return false
		}
		for isD(i) {
			i++
		}
	}
	rest := s[i:]
	if rest == "Z" || rest == "z" {
		return true
	}
	if len(rest) != len("+07:00") || (rest[0] != '+' && rest[0] != '-') || rest[3] != ':' {
		return false
	}
	zh, okh := num(i+1, 2)
	zm, okm := num(i+4, 2)
	return okh && okm && zh <= 23 && zm <= 59
}

// c11Shapes lists the shape classes of string values with their weights.
var c11Shapes = []struct {
	name string
	w    int
}{
	{"token", 40}, {"digits-pin", 4}, {"digits-otp", 5}, {"digits-epoch", 4}, {"digits-leading-zeros", 2}, {"digits-signed", 3}, {"digits-huge", 1},
	{"date-only", 2}, {"rfc3339-near", 4}, {"rfc3339-lenient", 2}, {"rfc3339-exact", 3}, {"keyword", 3}, {"number-string", 4}, {"json-looking", 3},
	{"base64", 3}, {"hex", 2}, {"uuid", 2}, {"hmac-lookalike", 1}, {"empty", 2}, {"whitespace", 2}, {"long", 1}, {"unicode", 3}, {"field-name", 4},
}

// shaped returns a fresh secret string of a randomly chosen shape class. Where
// the shape allows it the value is unique within the case (random canary, or
// digits / seconds derived from the per-case leaf counter).
func (g *c11Gen) shaped() c11SV {
	rng := g.rng
	n := 0
	if g.ctr != nil {
		n = *g.ctr
		*g.ctr++
	}
	total := 0
	for _, s := range c11Shapes {
		total += s.w
	}
	roll, shape := rng.Intn(total), "token"
	for _, s := range c11Shapes {
		if roll < s.w {
			shape = s.name
			break
		}
		roll -= s.w
	}
	if n >= 1000 || (shape == "digits-pin" && n >= 200) {
		shape = "token"
	}
	digits := func(w int) string { // w digits; the last three are the leaf counter
		b := make([]byte, w)
		for i := range b {
			b[i] = byte('0' + rng.Intn(10))
		}
		copy(b[w-3:], fmt.Sprintf("%03d", n))
		return string(b)
	}
	ts := c11Epoch.Add(time.Duration(g.base)*time.Hour + time.Duration(n)*time.Second)
	canary := rng.Canary()
	switch shape {
	case "digits-pin":
		return c11SV{fmt.Sprintf("%04d", (g.base%50)*200+n), "", shape}
	case "digits-otp":
		return c11SV{digits(6 + rng.Intn(3)), "", shape}
	case "digits-epoch":
		sec := int64(1600000000) + int64(rng.Intn(100000))*1000 + int64(n)
		switch rng.Intn(3) {
		case 0:
			return c11SV{fmt.Sprint(sec), "", shape} // 10 digits: seconds
		case 1:
			return c11SV{fmt.Sprintf("%d%03d", sec, rng.Intn(1000)), "", shape} // 13 digits: milliseconds
		}
		return c11SV{fmt.Sprintf("%d%09d", sec, rng.Intn(1000000000)), "", shape} // 19 digits: nanoseconds, still an int64
	case "digits-leading-zeros":
		return c11SV{strings.Repeat("0", 1+rng.Intn(3)) + digits(5), "", shape}
	case "digits-signed":
		return c11SV{kit.Pick(rng, []string{"-", "-", "+"}) + digits(4+rng.Intn(8)), "", shape}
	case "digits-huge":
		return c11SV{"9" + digits(24+rng.Intn(10)), "", shape} // exceeds every machine integer
	case "date-only":
		return c11SV{c11Epoch.AddDate(0, 0, g.base*1000+n).Format("2006-01-02"), "", shape}
	case "rfc3339-near": // looks like a timestamp, is not one
		f := ts.Format("2006-01-02T15:04:05")
		switch rng.Intn(9) {
		case 0:
			return c11SV{f, "", shape} // no zone
		case 1:
			return c11SV{ts.Format("2006-01-02 15:04:05") + "Z", "", shape}
		case 2:
			return c11SV{f + "Z tail", "", shape}
		case 3:
			return c11SV{" " + f + "Z", "", shape}
		case 4:
			return c11SV{f + "Z\n", "", shape}
		case 5:
			return c11SV{ts.Format("2006-13-02T15:04:05") + "Z", "", shape} // month 13
		case 6:
			return c11SV{ts.Format("2006-02-30T15:04:05") + "Z", "", shape} // 30 February
		case 7:
			return c11SV{ts.Format("2006-01-02T24:04:05") + "Z", "", shape} // hour 24
		}
		return c11SV{f + "+0530", "", shape}
	case "rfc3339-lenient": // not RFC 3339, but close enough for a lenient parser
		switch rng.Intn(4) {
		case 0:
			return c11SV{ts.Format("2006-01-02T") + "7" + ts.Format(":04:05Z"), "", shape} // one-digit hour
		case 1:
			return c11SV{ts.Format("2006-01-02T15:04:05") + ",5Z", "", shape} // comma as fraction separator
		case 2:
			return c11SV{ts.Format("2006-01-02T15:04:05") + "+24:00", "", shape} // zone hour out of range
		}
		return c11SV{ts.Format("2006-01-02T15:04:05") + "+23:60", "", shape} // zone minute out of range
	case "rfc3339-exact":
		switch rng.Intn(4) {
		case 0:
			return c11SV{ts.Format(time.RFC3339), "", shape}
		case 1:
			return c11SV{ts.Add(time.Duration(1 + rng.Intn(999999999))).Format(time.RFC3339Nano), "", shape}
		case 2:
			return c11SV{ts.In(time.FixedZone("", 5*3600+1800)).Format(time.RFC3339), "", shape}
		}
		return c11SV{ts.In(time.FixedZone("", -8*3600)).Format(time.RFC3339Nano), "", shape}
	case "keyword":
		return c11SV{kit.Pick(rng, []string{"true", "false", "null", "TRUE", "yes", "nil", "NaN", "undefined"}), "", shape}
	case "number-string":
		switch rng.Intn(5) {
		case 0:
			return c11SV{fmt.Sprintf("%d.5", 100+n), "", shape}
		case 1:
			return c11SV{fmt.Sprintf("0x%x", 4096+n*7+g.base*100000), "", shape}
		case 2:
			return c11SV{fmt.Sprintf("%de9", 1+n), "", shape}
		case 3:
			return c11SV{fmt.Sprintf("-%d.%03de-3", g.base, n), "", shape}
		}
		return c11SV{fmt.Sprintf("1_%03d_000", n), "", shape}
	case "json-looking":
		switch rng.Intn(4) {
		case 0:
			return c11SV{`{"password":"` + canary + `"}`, canary, shape}
		case 1:
			return c11SV{`["` + canary + `",1,null]`, canary, shape}
		case 2:
			return c11SV{`"` + canary + `"`, canary, shape}
		}
		return c11SV{`{"data":{"keys":["` + canary + `"]},"n":` + fmt.Sprint(n) + `}`, canary, shape}
	case "base64":
		b := rng.Bytes(12 + rng.Intn(24))
		v := kit.Pick(rng, []*base64.Encoding{base64.StdEncoding, base64.URLEncoding, base64.RawStdEncoding}).EncodeToString(b)
		return c11SV{v, v, shape}
	case "hex":
		v := hex.EncodeToString(rng.Bytes(16 + 16*rng.Intn(2)))
		if rng.Chance(1, 3) {
			v = strings.ToUpper(v)
		}
		return c11SV{v, v, shape}
	case "uuid":
		h := hex.EncodeToString(rng.Bytes(16))
		v := h[0:8] + "-" + h[8:12] + "-" + h[12:16] + "-" + h[16:20] + "-" + h[20:32]
		return c11SV{v, v, shape}
	case "hmac-lookalike":
		h := hex.EncodeToString(rng.Bytes(32))
		return c11SV{"hmac-sha256:" + h, h, shape}
	case "empty":
		return c11SV{"", "", shape}
	case "whitespace":
		return c11SV{kit.Pick(rng, []string{" ", "\t", "\n", "   ", " \r\n "}), "", shape}
	case "long":
		return c11SV{strings.Repeat(kit.Pick(rng, []string{"A", "0", "ab ", "é"}), kit.Pick(rng, []int{4096, 4096, 20000, 20000, 20000, 70000})) + canary, canary, shape}
	case "unicode":
		d := kit.Pick(rng, []struct{ pre, post string }{{"пароль-", "-密码"}, {"🔑", "🔒🔒"}, {"e\u0301\u0301", "\u200f\u202e"}, {"line\u2028sep", "\u2029"}, {"nul\x00", "\x7f"}, {"ＦＵＬＬ", "ｗｉｄｔｈ"}})
		return c11SV{d.pre + canary + d.post, canary, shape}
	case "field-name":
		return c11SV{kit.Pick(rng, []string{"client_token", "data", "keys", "password", "accessor", "wrap_info", "secret_value", "client_token_accessor", "hmac-sha256:"}), "", shape}
	}
	d := kit.Pick(rng, c11Decor)
	return c11SV{d.pre + canary + d.post, canary, "token"}
}

// secretString returns a fresh secret string; canary is the unique substring
// that identifies it ("" when the shape cannot carry one - addLeaf then
// arranges a search for the complete value).
func (g *c11Gen) secretString() (val, canary string) {
	g.last = g.shaped()
	return g.last.val, g.last.canary
}

func c11Quote(s string) string {
	b, _ := json.Marshal(s)
	return string(b)
}

func (g *c11Gen) addLeaf(l c11Leaf) {
	l.Side = g.side
	if l.Kind == "" {
		l.Kind = c11KindData
	}
	l.Shape = g.last.shape
	if g.last.canary == "" {
		// no room for a canary: look for the complete emitted string instead
		l.Plain = nil
		l.Quoted = []string{c11Quote(l.Value)}
	}
	l.TimeOK = c11IsRFC3339(l.Value)
	g.types[l.GoType]++
	g.types["shape:"+l.Shape]++
	g.leaves = append(g.leaves, l)
}

func c11Keys(keys []string, k ...string) []string {
	out := make([]string, 0, len(keys)+len(k))
	out = append(out, keys...)
	return append(out, k...)
}

// stringLeaf produces a secret-bearing leaf in one of several Go types.
func (g *c11Gen) stringLeaf(depth int, keys []string, path string) any {
	s, c := g.secretString()
	switch g.rng.Intn(12) {
	case 0:
		g.addLeaf(c11Leaf{Path: path, Keys: keys, GoType: "*string", Depth: depth, Value: s, Plain: []string{c}})
		return &s
	case 1:
		g.addLeaf(c11Leaf{Path: path, Keys: keys, GoType: "named-string", Depth: depth, Value: s, Plain: []string{c}})
		return c11Named(s)
	case 2:
		b64 := base64.StdEncoding.EncodeToString([]byte(s))
		g.addLeaf(c11Leaf{Path: path, Keys: keys, GoType: "[]byte", Depth: depth, Value: b64, Plain: []string{b64, c}})
		return []byte(s)
	case 3:
		g.addLeaf(c11Leaf{Path: path, Keys: keys, GoType: "TextMarshaler", Depth: depth, Value: s, Plain: []string{c}})
		return c11Text{s}
	case 4:
		g.addLeaf(c11Leaf{Path: path + ".inner", Keys: c11Keys(keys, "inner"), GoType: "json.Marshaler", Depth: depth + 1, Value: s, Plain: []string{c}})
		return c11JM{s}
	case 5:
		q, _ := json.Marshal(s)
		g.addLeaf(c11Leaf{Path: path + ".rk", Keys: c11Keys(keys, "rk"), GoType: "json.RawMessage", Depth: depth + 1, Value: s, Plain: []string{c}})
		return json.RawMessage(`{"rk":` + string(q) + `,"rn":[1,2.5,null,true]}`)
	default:
		g.addLeaf(c11Leaf{Path: path, Keys: keys, GoType: "string", Depth: depth, Value: s, Plain: []string{c}})
		return s
	}
}

func (g *c11Gen) plainScalar() any {
	switch g.rng.Intn(14) {
	case 0:
		return g.rng.Intn(1000)
	case 1:
		return int64(g.rng.Uint32())
	case 2:
		return uint8(g.rng.Intn(256))
	case 3:
		return g.rng.Float64()
	case 4:
		return float32(1.5)
	case 5:
		return g.rng.Intn(2) == 0
	case 6:
		return nil
	case 7:
		return json.Number("1234567")
	case 8:
		return time.Unix(1700000000+int64(g.rng.Intn(1000000)), 0).UTC()
	case 9:
		return time.Duration(g.rng.Intn(3600)) * time.Second
	case 10:
		return ""
	case 11:
		return "2021-03-04T05:06:07Z" // exempt from hashing by design, carries no secret
	case 12:
		return map[string]any{}
	default:
		return []any{}
	}
}

func (g *c11Gen) structA(depth int, keys []string, path string) any {
	a := c11StructA{N: g.rng.Intn(9)}
	var c string
	a.Name, c = g.secretString()
	g.addLeaf(c11Leaf{Path: path + ".name", Keys: c11Keys(keys, "name"), GoType: "struct-field", Depth: depth + 1, Value: a.Name, Plain: []string{c}})
	a.Secret, c = g.secretString()
	g.addLeaf(c11Leaf{Path: path + ".secret_value", Keys: c11Keys(keys, "secret_value"), GoType: "struct-field", Depth: depth + 1, Value: a.Secret, Plain: []string{c}})
	a.hidden, c = g.secretString()
	g.addLeaf(c11Leaf{Path: path + ".(hidden)", Keys: keys, GoType: "struct-unexported", Depth: depth + 1, Value: a.hidden, Plain: []string{c}, Silent: true})
	a.Skipped, c = g.secretString()
	g.addLeaf(c11Leaf{Path: path + ".(json:-)", Keys: keys, GoType: "struct-json-dash", Depth: depth + 1, Value: a.Skipped, Plain: []string{c}, Silent: true})
	if g.rng.Chance(1, 2) {
		n := 1 + g.rng.Intn(3)
		for i := 0; i < n; i++ {
			s, c := g.secretString()
			a.Tags = append(a.Tags, s)
			g.addLeaf(c11Leaf{Path: fmt.Sprintf("%s.tags[%d]", path, i), Keys: c11Keys(keys, "tags"), GoType: "struct-[]string", Depth: depth + 2, Value: s, Plain: []string{c}})
		}
	}
	if g.rng.Chance(1, 2) {
		b := &c11StructB{Deep: map[string]string{}, When: time.Unix(1600000000, 0).UTC()}
		s, c := g.secretString()
		b.Deep["dk"] = s
		g.addLeaf(c11Leaf{Path: path + ".sub.deep.dk", Keys: c11Keys(keys, "sub", "deep", "dk"), GoType: "struct-map[string]string", Depth: depth + 3, Value: s, Plain: []string{c}})
		if g.rng.Chance(1, 2) {
			s, c := g.secretString()
			b.Ptr = &s
			g.addLeaf(c11Leaf{Path: path + ".sub.ptr", Keys: c11Keys(keys, "sub", "ptr"), GoType: "struct-*string", Depth: depth + 2, Value: s, Plain: []string{c}})
		}
		b.Emb, c = g.secretString()
		g.addLeaf(c11Leaf{Path: path + ".sub.emb", Keys: c11Keys(keys, "sub", "emb"), GoType: "struct-embedded", Depth: depth + 2, Value: b.Emb, Plain: []string{c}})
		a.Sub = b
	}
	if depth+1 < g.maxDepth && g.rng.Chance(1, 2) {
		a.Any = g.value(depth+1, c11Keys(keys, "any"), path+".any")
	}
	if g.rng.Chance(1, 3) {
		return &a
	}
	return a
}

// value generates one JSON-able Go value below the data map.
func (g *c11Gen) value(depth int, keys []string, path string) any {
	g.budget--
	if depth >= g.maxDepth || g.budget <= 0 {
		if g.rng.Chance(3, 4) {
			return g.stringLeaf(depth, keys, path)
		}
		return g.plainScalar()
	}
	n := func() int { return g.rng.Intn(4) } // 0..3 children (empty containers included)
	switch g.rng.Intn(20) {
	case 0, 1, 2, 3, 4:
		return g.stringLeaf(depth, keys, path)
	case 5:
		return g.plainScalar()
	case 6, 7: // map[string]any
		m := map[string]any{}
		used := map[string]bool{}
		for i, c := 0, n(); i < c; i++ {
			k := g.key(used)
			m[k] = g.value(depth+1, c11Keys(keys, k), path+"."+k)
		}
		return m
	case 8, 9: // []any
		l := []any{}
		for i, c := 0, n(); i < c; i++ {
			l = append(l, g.value(depth+1, keys, fmt.Sprintf("%s[%d]", path, i)))
		}
		return l
	case 10: // []string
		var l []string
		for i, c := 0, n(); i < c; i++ {
			s, cn := g.secretString()
			l = append(l, s)
			g.addLeaf(c11Leaf{Path: fmt.Sprintf("%s[%d]", path, i), Keys: keys, GoType: "[]string", Depth: depth + 1, Value: s, Plain: []string{cn}})
		}
		return l
	case 11: // map[string]string
		m := map[string]string{}
		used := map[string]bool{}
		for i, c := 0, n(); i < c; i++ {
			k := g.key(used)
			s, cn := g.secretString()
			m[k] = s
			g.addLeaf(c11Leaf{Path: path + "." + k, Keys: c11Keys(keys, k), GoType: "map[string]string", Depth: depth + 1, Value: s, Plain: []string{cn}})
		}
		return m
	case 12: // map[string][]string
		m := map[string][]string{}
		used := map[string]bool{}
		for i, c := 0, 1+g.rng.Intn(2); i < c; i++ {
			k := g.key(used)
			for j, cc := 0, n(); j < cc; j++ {
				s, cn := g.secretString()
				m[k] = append(m[k], s)
				g.addLeaf(c11Leaf{Path: fmt.Sprintf("%s.%s[%d]", path, k, j), Keys: c11Keys(keys, k), GoType: "map[string][]string", Depth: depth + 2, Value: s, Plain: []string{cn}})
			}
		}
		return m
	case 13: // [][]string
		var l [][]string
		for i, c := 0, 1+g.rng.Intn(2); i < c; i++ {
			var in []string
			for j, cc := 0, n(); j < cc; j++ {
				s, cn := g.secretString()
				in = append(in, s)
				g.addLeaf(c11Leaf{Path: fmt.Sprintf("%s[%d][%d]", path, i, j), Keys: keys, GoType: "[][]string", Depth: depth + 2, Value: s, Plain: []string{cn}})
			}
			l = append(l, in)
		}
		return l
	case 14: // []map[string]any
		var l []map[string]any
		for i, c := 0, 1+g.rng.Intn(2); i < c; i++ {
			m := map[string]any{}
			used := map[string]bool{}
			for j, cc := 0, n(); j < cc; j++ {
				k := g.key(used)
				m[k] = g.value(depth+2, c11Keys(keys, k), fmt.Sprintf("%s[%d].%s", path, i, k))
			}
			l = append(l, m)
		}
		return l
	case 15: // fixed-size array
		var arr [2]string
		for i := range arr {
			s, cn := g.secretString()
			arr[i] = s
			g.addLeaf(c11Leaf{Path: fmt.Sprintf("%s[%d]", path, i), Keys: keys, GoType: "[2]string", Depth: depth + 1, Value: s, Plain: []string{cn}})
		}
		return arr
	case 16: // []*string with a nil inside
		var l []*string
		for i, c := 0, 1+g.rng.Intn(3); i < c; i++ {
			if g.rng.Chance(1, 4) {
				l = append(l, nil)
				continue
			}
			s, cn := g.secretString()
			l = append(l, &s)
			g.addLeaf(c11Leaf{Path: fmt.Sprintf("%s[%d]", path, i), Keys: keys, GoType: "[]*string", Depth: depth + 1, Value: s, Plain: []string{cn}})
		}
		return l
	case 17, 18:
		return g.structA(depth, keys, path)
	default: // []any holding a []any holding a string: slices inside interfaces
		s, cn := g.secretString()
		g.addLeaf(c11Leaf{Path: path + "[0][0]", Keys: keys, GoType: "[]any{[]any{string}}", Depth: depth + 2, Value: s, Plain: []string{cn}})
		return []any{[]any{s, g.plainScalar()}, g.value(depth+1, keys, path+"[1]")}
	}
}

// dataMap generates one request/response data object. shape selects special
// top-level layouts.
func (g *c11Gen) dataMap(shape string) map[string]any {
	m := map[string]any{}
	used := map[string]bool{}
	switch shape {
	case "nil":
		return nil
	case "empty":
		return m
	case "list":
		// the conventional list response: keys + key_info (+ sometimes extras)
		var keys []string
		ki := map[string]any{}
		for i, c := 0, 1+g.rng.Intn(4); i < c; i++ {
			s, cn := g.secretString()
			keys = append(keys, s)
			g.addLeaf(c11Leaf{Path: fmt.Sprintf("keys[%d]", i), Keys: []string{"keys"}, GoType: "[]string", Depth: 2, Value: s, Plain: []string{cn}})
			if g.rng.Chance(1, 2) {
				ik := fmt.Sprintf("entry%d", i)
				ki[ik] = g.value(2, []string{"key_info", ik}, "key_info."+ik)
			}
		}
		used["keys"], used["key_info"] = true, true
		g.keysUsed["keys"], g.keysUsed["key_info"] = true, true
		if g.rng.Chance(1, 2) {
			m["keys"] = keys
		} else {
			l := make([]any, len(keys))
			for i := range keys {
				l[i] = keys[i]
			}
			m["keys"] = l
		}
		if len(ki) > 0 || g.rng.Chance(1, 2) {
			m["key_info"] = ki
		}
		if g.rng.Chance(1, 3) {
			k := g.key(used)
			m[k] = g.value(1, []string{k}, k)
		}
		return m
	case "rawbody":
		body, c := g.secretString()
		if g.rng.Chance(1, 2) {
			q, _ := json.Marshal(body)
			body = `{"data":{"v":` + string(q) + `}}`
		}
		used[logical.HTTPRawBody] = true
		g.addLeaf(c11Leaf{Path: logical.HTTPRawBody, Keys: []string{logical.HTTPRawBody}, GoType: "raw-body-[]byte", Depth: 1, Value: body, Plain: []string{c, base64.StdEncoding.EncodeToString([]byte(body))}})
		if rl := &g.leaves[len(g.leaves)-1]; len(rl.Quoted) > 0 && body != "" {
			rl.Quoted = append(rl.Quoted, c11Quote(base64.StdEncoding.EncodeToString([]byte(body))))
		}
		m[logical.HTTPRawBody] = []byte(body)
		m[logical.HTTPContentType] = "application/json"
		m[logical.HTTPStatusCode] = 200
		return m
	}
	for i, c := 0, 1+g.rng.Intn(5); i < c; i++ {
		k := g.key(used)
		m[k] = g.value(1, []string{k}, k)
	}
	return m
}

// ---------------------------------------------------------------- case

type c11Case struct {
	ID          string
	In          *logical.LogInput
	Leaves      []c11Leaf
	ReqExempt   []string
	RespExempt  []string
	Shapes      [2]string
	Types       map[string]int
	MaxDepth    int
	HasResponse bool
	JWT         bool
}

var (
	c11JWTOnce sync.Once
	c11JWTKey  *ecdsa.PrivateKey
)

func c11MakeJWT(id string) (string, error) {
	c11JWTOnce.Do(func() { c11JWTKey, _ = ecdsa.GenerateKey(elliptic.P521(), crand.Reader) })
	if c11JWTKey == nil {
		return "", errors.New("no key")
	}
	sig, err := jose.NewSigner(jose.SigningKey{Algorithm: jose.ES512, Key: c11JWTKey}, (&jose.SignerOptions{}).WithType("JWT"))
	if err != nil {
		return "", err
	}
	return jwt.Signed(sig).Claims(jwt.Claims{ID: id, IssuedAt: jwt.NewNumericDate(time.Unix(1700000000, 0))}).Claims(map[string]any{"type": "wrapping"}).Serialize()
}

func c11PickExempt(rng *kit.Rand, used map[string]bool) []string {
	if rng.Chance(1, 2) {
		return nil
	}
	var names []string
	for k := range used {
		names = append(names, k)
	}
	sort.Strings(names)
	var out []string
	for i, c := 0, 1+rng.Intn(3); i < c && len(names) > 0; i++ {
		out = append(out, kit.Pick(rng, names))
	}
	if rng.Chance(1, 4) {
		out = append(out, "never_used_key")
	}
	return out
}

func c11BuildCase(seed int64, idx int) *c11Case {
	rng := kit.NewRand(seed, 0x11000000+uint64(idx))
	cs := &c11Case{ID: fmt.Sprintf("fmt:%d", idx), Types: map[string]int{}}
	maxDepth := 2 + rng.Intn(4) // 2..5
	cs.MaxDepth = maxDepth

	var leaves []c11Leaf
	hdr := func(kind, side, path string, tokenLike bool) string {
		c := rng.Canary()
		v := c
		if tokenLike {
			v = kit.Pick(rng, []string{"s.", "hvs.", "b.", ""}) + c
		}
		leaves = append(leaves, c11Leaf{Kind: kind, Side: side, Path: path, GoType: "field", Value: v, Plain: []string{c}})
		cs.Types["hdr:"+kind]++
		return v
	}

	ops := []logical.Operation{logical.ReadOperation, logical.UpdateOperation, logical.CreateOperation, logical.DeleteOperation, logical.ListOperation, logical.ListOperation, logical.PatchOperation, logical.ScanOperation}
	req := &logical.Request{
		ID:         fmt.Sprintf("req-%d", idx),
		Operation:  kit.Pick(rng, ops),
		Path:       "secret/data/app" + fmt.Sprint(rng.Intn(10)),
		MountPoint: "secret/", MountType: "kv",
	}
	if rng.Chance(9, 10) {
		req.ClientToken = hdr(c11KindToken, "req", "request.client_token", true)
		if rng.Chance(4, 5) {
			req.ClientTokenAccessor = hdr(c11KindAccessor, "req", "request.client_token_accessor", false)
		}
	}
	if rng.Chance(1, 3) {
		req.Connection = &logical.Connection{RemoteAddr: "10.1.2.3", RemotePort: 4242}
	}
	if rng.Chance(1, 4) {
		req.WrapInfo = &logical.RequestWrapInfo{TTL: time.Duration(1+rng.Intn(300)) * time.Second}
	}
	if rng.Chance(1, 4) {
		req.Headers = map[string][]string{"x-verif": {"plain-header"}}
	}

	// request data
	reqShape := kit.Pick(rng, []string{"gen", "gen", "gen", "gen", "nil", "empty"})
	leafCtr, base := 0, rng.Intn(1000)
	gq := &c11Gen{rng: rng, side: "req", maxDepth: maxDepth, budget: 40, keysUsed: map[string]bool{}, types: cs.Types, ctr: &leafCtr, base: base}
	req.Data = gq.dataMap(reqShape)
	leaves = append(leaves, gq.leaves...)
	cs.ReqExempt = c11PickExempt(rng, gq.keysUsed)
	cs.Shapes[0] = reqShape

	in := &logical.LogInput{Request: req, NonHMACReqDataKeys: cs.ReqExempt}
	if rng.Chance(5, 6) {
		a := &logical.Auth{DisplayName: "token-user", Policies: []string{"default", "app"}, TokenPolicies: []string{"default", "app"},
			Metadata: map[string]string{"role": "ci"}, EntityID: "entity-1234", TokenType: logical.TokenTypeService}
		a.TTL = time.Hour
		if req.ClientToken != "" && rng.Chance(4, 5) {
			a.ClientToken = req.ClientToken
			a.Accessor = req.ClientTokenAccessor
		} else {
			a.ClientToken = hdr(c11KindToken, "req", "auth.client_token", true)
			if rng.Chance(4, 5) {
				a.Accessor = hdr(c11KindAccessor, "req", "auth.accessor", false)
			}
		}
		if rng.Chance(1, 3) {
			a.PolicyResults = &logical.PolicyResults{Allowed: true, GrantingPolicies: []logical.PolicyInfo{{Name: "app", NamespaceId: "root", Type: "acl"}}}
		}
		if rng.Chance(1, 3) {
			a.IssueTime = time.Unix(1700000000, 0)
		}
		in.Auth = a
	}
	if rng.Chance(1, 6) {
		in.OuterErr = errors.New("permission denied")
	}

	// response
	if rng.Chance(9, 10) {
		cs.HasResponse = true
		resp := &logical.Response{}
		shapes := []string{"gen", "gen", "gen", "nil", "empty", "rawbody"}
		if req.Operation == logical.ListOperation {
			shapes = []string{"list", "list", "list", "gen", "empty"}
		}
		respShape := kit.Pick(rng, shapes)
		gp := &c11Gen{rng: rng, side: "resp", maxDepth: maxDepth, budget: 40, keysUsed: map[string]bool{}, types: cs.Types, ctr: &leafCtr, base: base}
		resp.Data = gp.dataMap(respShape)
		leaves = append(leaves, gp.leaves...)
		cs.RespExempt = c11PickExempt(rng, gp.keysUsed)
		in.NonHMACRespDataKeys = cs.RespExempt
		cs.Shapes[1] = respShape
		if rng.Chance(1, 3) {
			resp.Auth = &logical.Auth{DisplayName: "new-token", Policies: []string{"default"}, NumUses: rng.Intn(3), TokenType: logical.TokenTypeService}
			resp.Auth.ClientToken = hdr(c11KindToken, "resp", "response.auth.client_token", true)
			if rng.Chance(4, 5) {
				resp.Auth.Accessor = hdr(c11KindAccessor, "resp", "response.auth.accessor", false)
			}
		}
		if rng.Chance(1, 3) {
			wi := &wrapping.ResponseWrapInfo{TTL: 5 * time.Minute, CreationTime: time.Unix(1700000100, 0), CreationPath: "secret/data/app"}
			if rng.Chance(1, 4) {
				idc := rng.Canary()
				tok, err := c11MakeJWT("s." + idc)
				if err == nil {
					cs.JWT = true
					wi.Format = "jwt"
					wi.Token = tok
					leaves = append(leaves, c11Leaf{Kind: c11KindWrapTok, Side: "resp", Path: "response.wrap_info.token(jwt)", GoType: "field", Value: tok, AltValue: "s." + idc, Plain: []string{tok, idc}})
					cs.Types["hdr:wraptoken-jwt"]++
				}
			}
			if wi.Token == "" {
				wi.Token = hdr(c11KindWrapTok, "resp", "response.wrap_info.token", true)
			}
			wi.Accessor = hdr(c11KindAccessor, "resp", "response.wrap_info.accessor", false)
			if rng.Chance(1, 2) {
				wi.WrappedAccessor = hdr(c11KindAccessor, "resp", "response.wrap_info.wrapped_accessor", false)
			}
			resp.WrapInfo = wi
		}
		if rng.Chance(1, 5) {
			resp.Secret = &logical.Secret{LeaseID: "secret/data/app/lease-1"}
		}
		if rng.Chance(1, 5) {
			resp.Warnings = []string{"a warning"}
		}
		in.Response = resp
	}
	cs.In = in
	cs.Leaves = leaves
	return cs
}

// ---------------------------------------------------------------- oracle

type c11Cfg struct {
	HMACAccessor bool
	Elide        bool
	Raw          bool
	Prefix       string
}

func (c c11Cfg) String() string {
	return fmt.Sprintf("hmac_accessor=%v,elide_list_responses=%v,log_raw=%v,prefix=%q", c.HMACAccessor, c.Elide, c.Raw, c.Prefix)
}

func c11Contains(hay []byte, needle string) bool { return bytes.Contains(hay, []byte(needle)) }

func c11Snip(out []byte, needle string) string {
	i := bytes.Index(out, []byte(needle))
	if i < 0 {
		if len(out) > 500 {
			return string(out[:500]) + "…"
		}
		return string(out)
	}
	lo, hi := i-160, i+len(needle)+80
	if lo < 0 {
		lo = 0
	}
	if hi > len(out) {
		hi = len(out)
	}
	return "…" + string(out[lo:hi]) + "…"
}

func c11InSet(set []string, keys []string) bool {
	for _, k := range keys {
		for _, s := range set {
			if s == k {
				return true
			}
		}
	}
	return false
}

// c11ValueOcc counts how often the JSON string token q stands in value
// position (not followed by ':', i.e. not a map key) in out.
func c11ValueOcc(out []byte, q string) int {
	n, from := 0, 0
	for {
		i := bytes.Index(out[from:], []byte(q))
		if i < 0 {
			return n
		}
		end := from + i + len(q)
		// the match must start at a token boundary: the opening quote is not an escaped quote inside another string
		startOK := from+i == 0 || out[from+i-1] != '\\'
		if startOK && (end >= len(out) || out[end] != ':') {
			n++
		}
		from = from + i + 1
	}
}

// c11LeafStatus derives what the property allows for one leaf in one entry.
func c11LeafStatus(cs *c11Case, cfg c11Cfg, phase string, fmtErr error, l *c11Leaf) (emitted, exempt, mayBePlain bool) {
	emitted = fmtErr == nil && !l.Silent && (l.Side == "req" || phase == "response")
	if l.Kind == c11KindData {
		if l.Side == "req" {
			exempt = c11InSet(cs.ReqExempt, l.Keys)
		} else {
			exempt = c11InSet(cs.RespExempt, l.Keys)
		}
	}
	mayBePlain = exempt || (l.Kind == c11KindAccessor && !cfg.HMACAccessor) || (l.Kind == c11KindData && (l.TimeOK || l.Value == ""))
	return emitted, exempt, mayBePlain
}

// c11CheckEntry applies the property to one emitted entry.
// phase: "request" (request entry: only the request half is emitted) or "response".
func c11CheckEntry(r *kit.Result, cs *c11Case, cfg c11Cfg, phase string, saltVal string, out []byte, fmtErr error) {
	r.Count("entries_checked", 1)
	if fmtErr != nil {
		r.Count("format_errors", 1)
	}
	listElide := cfg.Elide && cs.In.Request.Operation == logical.ListOperation
	// Values without room for a canary are searched as complete JSON string
	// tokens. Several leaves of a case may share such a value ("true", " "):
	// the entry may hold it in plaintext at most as often as there are leaves
	// with that value which the property allows to be readable.
	allowed := map[string]int{}
	occ := map[string]int{}
	for i := range cs.Leaves {
		l := &cs.Leaves[i]
		if len(l.Quoted) == 0 {
			continue
		}
		emitted, _, mayBePlain := c11LeafStatus(cs, cfg, phase, fmtErr, l)
		for _, q := range l.Quoted {
			if _, done := occ[q]; !done {
				occ[q] = c11ValueOcc(out, q)
			}
			if emitted && mayBePlain {
				allowed[q]++
			}
		}
	}
	for i := range cs.Leaves {
		l := &cs.Leaves[i]
		emitted, exempt, mayBePlain := c11LeafStatus(cs, cfg, phase, fmtErr, l)
		plainSeen := ""
		for _, p := range l.Plain {
			if p != "" && c11Contains(out, p) {
				plainSeen = p
				break
			}
		}
		for _, q := range l.Quoted {
			if plainSeen != "" {
				break
			}
			if cfg.Raw || mayBePlain {
				if occ[q] > 0 {
					plainSeen = q
				}
			} else if occ[q] > allowed[q] {
				plainSeen = q
			}
		}
		hmacSeen := c11Contains(out, c11RefHMAC(saltVal, l.Value)) || (l.AltValue != "" && c11Contains(out, c11RefHMAC(saltVal, l.AltValue)))

		if cfg.Raw {
			// control: in raw mode the secrets must be visible, which proves the search can see them
			if emitted && l.Value != "" && !(listElide && l.Side == "resp" && len(l.Keys) > 0 && (l.Keys[0] == "keys" || l.Keys[0] == "key_info")) {
				if plainSeen != "" {
					r.Count("raw_control_found", 1)
					if l.Kind == c11KindData {
						r.Count("raw_control_found_shape:"+l.Shape, 1)
					}
				} else {
					r.Count("raw_control_missing", 1)
					r.Note("raw control: %s leaf %s (%s, shape %s) not visible in a log_raw entry of case %s", l.Kind, l.Path, l.GoType, l.Shape, cs.ID)
				}
			}
			continue
		}
		r.Count("leaves_checked", 1)
		if l.Kind == c11KindData {
			r.Count("shape_leaves_checked:"+l.Shape, 1)
		}

		if plainSeen != "" && !mayBePlain {
			class := map[string]string{c11KindData: "C11-plaintext-data-leaf", c11KindToken: "C11-plaintext-client-token", c11KindWrapTok: "C11-plaintext-wrapping-token", c11KindAccessor: "C11-plaintext-accessor"}[l.Kind]
			if l.Kind == c11KindData && l.Shape != "" && l.Shape != "token" {
				class += "-" + l.Shape
			}
			r.Violate(class, cs.ID, fmt.Sprintf("%s entry (%s) contains the plaintext of %s %s [%s, go type %s, depth %d, value shape %q]", phase, cfg, l.Kind, l.Path, l.Side, l.GoType, l.Depth, l.Shape),
				map[string]any{"leaf": l, "config": cfg.String(), "phase": phase, "req_exempt": cs.ReqExempt, "resp_exempt": cs.RespExempt, "operation": cs.In.Request.Operation, "found": plainSeen, "occurrences_in_value_position": occ[plainSeen], "occurrences_the_property_allows": allowed[plainSeen], "entry_excerpt": c11Snip(out, plainSeen)})
			continue
		}
		if !emitted {
			continue
		}
		elided := listElide && l.Kind == c11KindData && l.Side == "resp" && len(l.Keys) > 0 && (l.Keys[0] == "keys" || l.Keys[0] == "key_info")
		switch {
		case hmacSeen:
			r.Count("leaves_hmac_seen", 1)
			r.Count("hmac_seen:"+l.Kind, 1)
			if l.Kind == c11KindData {
				r.Count("shape_hmac_seen:"+l.Shape, 1)
			}
			if l.Depth >= 5 {
				r.Count("leaves_hmac_seen_depth5plus", 1)
			}
			if elided {
				r.Count("leaves_elidable_but_hashed", 1)
			}
		case plainSeen != "" && mayBePlain:
			switch {
			case exempt:
				r.Count("leaves_exempt_plain_seen", 1)
			case l.Kind == c11KindData && l.Value == "":
				r.Count("empty_string_left_empty", 1)
			case l.Kind == c11KindData && l.TimeOK:
				r.Count("rfc3339_timestamp_left_readable", 1)
			default:
				r.Count("accessor_plain_seen_hmac_accessor_off", 1)
			}
		case elided:
			r.Count("leaves_elided", 1)
		default:
			r.Violate("C11-hmac-missing", cs.ID, fmt.Sprintf("%s entry (%s): %s %s [%s, go type %s, value shape %q] appears neither as its salted HMAC nor (where allowed) in plaintext - the value was dropped or transformed, so the entry cannot vouch for it", phase, cfg, l.Kind, l.Path, l.Side, l.GoType, l.Shape),
				map[string]any{"leaf": l, "config": cfg.String(), "phase": phase, "expected_hmac": c11RefHMAC(saltVal, l.Value), "req_exempt": cs.ReqExempt, "resp_exempt": cs.RespExempt, "operation": cs.In.Request.Operation, "entry_excerpt": c11Snip(out, "\x00")})
		}
	}
}

type c11Formatter struct {
	f       *AuditFormatter
	saltVal string
}

func c11NewFormatter(saltVal, prefix string) (*c11Formatter, error) {
	view := &logical.InmemStorage{}
	if err := view.Put(context.Background(), &logical.StorageEntry{Key: "salt", Value: []byte(saltVal)}); err != nil {
		return nil, err
	}
	var once sync.Once
	var s *salt.Salt
	var serr error
	sf := func(ctx context.Context) (*salt.Salt, error) {
		once.Do(func() {
			s, serr = salt.NewSalt(ctx, view, &salt.Config{HMAC: sha256.New, HMACType: "hmac-sha256", Location: salt.DefaultLocation})
		})
		return s, serr
	}
	return &c11Formatter{f: &AuditFormatter{AuditFormatWriter: &JSONFormatWriter{Prefix: prefix, SaltFunc: sf}}, saltVal: saltVal}, nil
}

func TestVerif_C11_FormatCanary(t *testing.T) {
	seed := kit.Seed(11)
	r := kit.NewResult(t, "c11-format-canary", seed, "a case is one generated LogInput (request data, response data, auth, wrap info; containers of depth 2..5 built from 20 Go container/leaf kinds; string leaves drawn from 23 value-shape classes) formatted as a request entry and as a response entry under all four (hmac_accessor, elide_list_responses) settings plus one log_raw control; it is non-trivial when it holds at least one secret leaf at depth >= 2 and its (shape, leaf-type multiset) signature is new")
	defer r.Write(t)
	r.Assume("a data leaf may appear in plaintext only if some map key on its path is listed in audit_non_hmac_{request,response}_keys (widest reading of 'fields explicitly exempted'); map keys, paths, lease ids, display names, metadata, warnings and error texts are outside the property")
	r.Assume("a string value that is an RFC 3339 date-time and nothing else (section 5.6 ABNF with the field ranges of 5.7, judged by the monitor's own parser) is left readable on purpose: the audit documentation does not list this exemption ('most strings ... are hashed'), the code comment in hashWalker.Primitive does ('marshaling a time results in a RFC3339 string ... we know we strictly have a valid timestamp and nothing else'); every other string shape - digits only, dates, near-timestamps, numbers and booleans as strings, JSON text, base64 / hex / UUID, whitespace, very long, unicode, field names - must be replaced by its salted HMAC; an empty string may stay empty (it has no plaintext)")
	r.Assume("values too short or too regular to carry a random canary (PINs, OTPs, epochs, \"true\", \" \") are searched as complete JSON string tokens in value position; when several leaves of a case share such a value the entry may show it at most as often as there are leaves the property allows to be readable")
	ctx := namespace.RootContext(context.Background())
	total := kit.N(2000, 300000)
	shard, shards := kit.Shard()
	only := kit.OnlyCase()
	if only != "" {
		var idx int
		if _, err := fmt.Sscanf(only, "fmt:%d", &idx); err == nil && idx >= total {
			total = idx + 1
		}
	}

	for idx := 0; idx < total; idx++ {
		if idx%shards != shard && only == "" {
			continue
		}
		if !kit.WantCase(fmt.Sprintf("fmt:%d", idx)) {
			continue
		}
		cs := c11BuildCase(seed, idx)
		r.Eval(1)
		r.Count("payloads", 1)
		// evidence bookkeeping
		deep, maxd := 0, 0
		var sig []string
		for _, l := range cs.Leaves {
			if l.Kind == c11KindData && l.Depth >= 2 {
				deep++
			}
			if l.Depth > maxd {
				maxd = l.Depth
			}
			sig = append(sig, fmt.Sprintf("%s/%s/%d", l.Side, l.GoType, l.Depth))
		}
		sort.Strings(sig)
		if deep > 0 {
			r.Nontrivial(strings.Join(cs.Shapes[:], "|") + strings.Join(sig, ","))
		}
		r.Count(fmt.Sprintf("payload_max_depth:%d", maxd), 1)
		r.Count("shape_req:"+cs.Shapes[0], 1)
		if cs.HasResponse {
			r.Count("shape_resp:"+cs.Shapes[1], 1)
		}
		if cs.JWT {
			r.Count("jwt_wrapping_tokens", 1)
		}
		if len(cs.ReqExempt)+len(cs.RespExempt) > 0 {
			r.Count("payloads_with_exempt_keys", 1)
		}
		for ty, n := range cs.Types {
			r.Count("leaf_type:"+ty, n)
		}
		before, _ := json.Marshal(cs.In.Request.Data)
		var beforeResp []byte
		if cs.In.Response != nil {
			beforeResp, _ = json.Marshal(cs.In.Response.Data)
		}

		rng := kit.NewRand(seed, 0x11800000+uint64(idx))
		saltVal := "salt-" + hex.EncodeToString(rng.Bytes(8))
		prefix := kit.Pick(rng, []string{"", "", "@cee: ", "audit "})
		cfgs := []c11Cfg{{true, false, false, prefix}, {false, false, false, prefix}, {true, true, false, prefix}, {false, true, false, prefix}, {rng.Chance(1, 2), rng.Chance(1, 2), true, prefix}}
		for _, cfg := range cfgs {
			fm, err := c11NewFormatter(saltVal, cfg.Prefix)
			if err != nil {
				r.Inconc("cannot build formatter: %v", err)
				return
			}
			fc := FormatterConfig{Raw: cfg.Raw, HMACAccessor: cfg.HMACAccessor, ElideListResponses: cfg.Elide}
			var wq bytes.Buffer
			errQ := fm.f.FormatRequest(ctx, &wq, fc, cs.In)
			c11CheckEntry(r, cs, cfg, "request", saltVal, wq.Bytes(), errQ)
			var wp bytes.Buffer
			errP := fm.f.FormatResponse(ctx, &wp, fc, cs.In)
			c11CheckEntry(r, cs, cfg, "response", saltVal, wp.Bytes(), errP)
			if errQ != nil || errP != nil {
				r.Note("format error in case %s: req=%v resp=%v", cs.ID, errQ, errP)
			}
			if !cfg.Raw && errP == nil && idx < 40 {
				var tmp map[string]any
				if json.Unmarshal(bytes.TrimPrefix(wp.Bytes(), []byte(cfg.Prefix)), &tmp) != nil {
					r.Note("case %s: response entry is not valid JSON after the prefix", cs.ID)
				}
			}
			if idx < 2 && !cfg.Raw && cfg.HMACAccessor && !cfg.Elide {
				ex := wp.String()
				if len(ex) > 700 {
					ex = ex[:700] + "…"
				}
				nl := len(cs.Leaves)
				r.Sample(map[string]any{"case": cs.ID, "config": cfg.String(), "secret_leaves": nl, "operation": cs.In.Request.Operation, "req_exempt": cs.ReqExempt, "resp_exempt": cs.RespExempt, "response_entry_prefix": ex})
			}
		}
		after, _ := json.Marshal(cs.In.Request.Data)
		var afterResp []byte
		if cs.In.Response != nil {
			afterResp, _ = json.Marshal(cs.In.Response.Data)
		}
		if !bytes.Equal(before, after) || !bytes.Equal(beforeResp, afterResp) {
			r.Count("input_mutated_by_formatter", 1)
			r.Note("case %s: formatter changed its input data (outside C11's wording; the client would receive hashed values)", cs.ID)
		}
	}

	r.Require("payloads", int64(kit.N(2000, 300000)/shards*9/10))
	r.Require("leaves_hmac_seen", 20000)
	r.Require("leaves_hmac_seen_depth5plus", 200)
	r.Require("hmac_seen:token", 2000)
	r.Require("hmac_seen:wraptoken", 200)
	r.Require("hmac_seen:accessor", 1000)
	r.Require("accessor_plain_seen_hmac_accessor_off", 500)
	r.Require("leaves_exempt_plain_seen", 200)
	r.Require("leaves_elided", 100)
	r.Require("jwt_wrapping_tokens", 10)
	r.Require("raw_control_found", 5000)
	r.Require("shape_resp:rawbody", 20)
	for _, sh := range c11Shapes {
		min := int64(sh.w) * 300 / int64(shards)
		r.Require("shape_leaves_checked:"+sh.name, min)
		switch sh.name {
		case "rfc3339-exact", "rfc3339-lenient", "empty": // readable by assumption / open finding / nothing to hash
		default:
			r.Require("shape_hmac_seen:"+sh.name, min/2)
		}
		if sh.name != "empty" {
			r.Require("raw_control_found_shape:"+sh.name, int64(sh.w)*20/int64(shards))
		}
	}
	r.Require("shape_resp:list", 50)
	if only == "" {
		if m := r.Get("raw_control_missing"); m > 0 {
			r.Inconc("the canary search missed %d leaves in log_raw control entries: the search itself is unreliable for some leaf types (see notes)", m)
		}
		if fe := r.Get("format_errors"); fe*20 > r.Get("entries_checked") {
			r.Inconc("%d of %d format calls failed: payload generator produces values the formatter rejects", fe, r.Get("entries_checked"))
		}
	}
}

// Replay support: /verif/check replays a witness by running only the recorded
// test function in every package of the plan. The ordering monitors live in
// internal/vault; these stubs make this package report "nothing to do" instead
// of "no result written" when such a witness is replayed.
func c11ReplayStub(t *testing.T, name string) {
	if kit.OnlyCase() == "" {
		t.Skip("replay stub: the real monitor lives in internal/vault")
		return
	}
	r := kit.NewResult(t, name, kit.Seed(11), "replay stub (the monitor of this name lives in the other package of the plan)")
	r.Write(t)
}

func TestVerif_C11_Order(t *testing.T)      { c11ReplayStub(t, "c11-replay-stub-audit-order") }
func TestVerif_C11_FileDevice(t *testing.T) { c11ReplayStub(t, "c11-replay-stub-audit-file") }
func TestVerif_C11_BrokerStages(t *testing.T) {
	c11ReplayStub(t, "c11-replay-stub-audit-broker-stages")
}
func TestVerif_C11_Lifecycle(t *testing.T) { c11ReplayStub(t, "c11-replay-stub-audit-lifecycle") }
func TestVerif_C11_TuneExemptions(t *testing.T) {
	c11ReplayStub(t, "c11-replay-stub-audit-tune-exemptions")
}
func TestVerif_C11_DeviceFaults(t *testing.T) {
	c11ReplayStub(t, "c11-replay-stub-audit-device-faults")
}
