//go:build verif

package vault

// C11 (ordering half, real devices): the order clause decided on OBSERVABLE
// persistence. The built-in file and socket audit devices run through the real
// broker on a real Core while the operating system fails their log target
// (target on /dev/full, descriptor replaced behind the device's back, path
// turned into a directory, directory removed, file rotated away, permissions
// dropped, peer closed, listener gone). The oracle never looks at what a device
// returned: it reads the targets back (the files, the bytes the socket peer
// received, the entries a programmable device recorded) and matches entries by
// request id.
//
//   routed to a backend (handler event / stored effect)  =>  some device holds the request entry
//   response data reached the client                     =>  some device holds the response entry
//   no device holds the entry                            =>  the client got an error without secret
//                                                            material and no handler ran

import (
	"bytes"
	"encoding/json"
	"fmt"
	"io"
	"os"
	"path/filepath"
	"sort"
	"strconv"
	"strings"
	"syscall"
	"testing"
	"time"

	kit "github.com/openbao/openbao/sdk/v2/helper/verifkit"
	"github.com/openbao/openbao/sdk/v2/logical"
)

const c11DevFull = "/dev/full"

// ---------------------------------------------------------------- holders

// c11Holder is one audit device seen from the outside: what does its target hold?
type c11Holder interface {
	Name() string
	Lines() [][]byte // every complete line the target observably holds right now
	State() string   // short description for witnesses
}

func c11SplitLines(raw []byte) [][]byte {
	var out [][]byte
	for len(raw) > 0 {
		i := bytes.IndexByte(raw, '\n')
		if i < 0 {
			break // incomplete line: not an entry
		}
		if i > 0 {
			out = append(out, raw[:i])
		}
		raw = raw[i+1:]
	}
	return out
}

// ---- real file device

type c11FileTarget struct {
	fw     *c11FWorld
	mount  string
	dir    string
	link   string // file_path handed to the device: a symbolic link inside dir
	real   string // regular file the link points at while healthy
	views  []*os.File
	extra  []string
	nKept  int
	sticky bool // the injected fault persists until restore()
}

func (f *c11FileTarget) Name() string { return "file:" + f.mount }

func (f *c11FileTarget) Lines() [][]byte {
	var out [][]byte
	seen := map[string]bool{}
	read := func(p string) {
		if rp, err := filepath.EvalSymlinks(p); err == nil {
			p = rp
		}
		if seen[p] || p == c11DevFull {
			return
		}
		seen[p] = true
		st, err := os.Stat(p)
		if err != nil || !st.Mode().IsRegular() {
			return
		}
		if b, err := os.ReadFile(p); err == nil {
			out = append(out, c11SplitLines(b)...)
		}
	}
	read(f.link)
	read(f.real)
	for _, p := range f.extra {
		read(p)
	}
	for _, v := range f.views {
		if b, err := io.ReadAll(io.NewSectionReader(v, 0, 1<<30)); err == nil {
			out = append(out, c11SplitLines(b)...)
		}
	}
	return out
}

func (f *c11FileTarget) State() string {
	tgt, err := os.Readlink(f.link)
	if err != nil {
		if st, e2 := os.Lstat(f.link); e2 == nil {
			tgt = "(" + st.Mode().String() + ")"
		} else {
			tgt = "(absent)"
		}
	}
	return fmt.Sprintf("%s file_path=%s -> %s, %d unlinked inode(s) still readable, %d rotated file(s)", f.Name(), f.link, tgt, len(f.views), len(f.extra))
}

func (f *c11FileTarget) point(target string) error {
	tmp := f.link + ".tmp"
	_ = os.Remove(tmp)
	if err := os.Symlink(target, tmp); err != nil {
		return err
	}
	return os.Rename(tmp, f.link)
}

// deviceFDs finds the descriptors of this process that refer to the device's current target.
func (f *c11FileTarget) deviceFDs() []int {
	want, err := filepath.EvalSymlinks(f.link)
	if err != nil {
		return nil
	}
	mine := map[int]bool{f.fw.fullFD: true, f.fw.roFD: true}
	for _, v := range f.views {
		mine[int(v.Fd())] = true
	}
	ents, err := os.ReadDir("/proc/self/fd")
	if err != nil {
		return nil
	}
	var out []int
	for _, e := range ents {
		n, err := strconv.Atoi(e.Name())
		if err != nil || mine[n] {
			continue
		}
		if l, err := os.Readlink("/proc/self/fd/" + e.Name()); err == nil && l == want {
			out = append(out, n)
		}
	}
	return out
}

// replaceFD swaps the open file description behind the device's descriptor
// (dup3), which is what the device sees when its descriptor went bad: every
// write on it fails until the device opens the path again.
func (f *c11FileTarget) replaceFD(src int) error {
	fds := f.deviceFDs()
	if len(fds) != 1 {
		return fmt.Errorf("expected exactly one descriptor of the device on its target, found %v", fds)
	}
	if err := syscall.Dup3(src, fds[0], 0); err != nil {
		return err
	}
	f.fw.r.Count("fd_replacements_effective", 1)
	return nil
}

func (f *c11FileTarget) keepView() {
	if v, err := os.Open(f.real); err == nil {
		f.views = append(f.views, v)
	}
}

// restore brings the target back to the canonical healthy state and makes the device reopen it (SIGHUP path).
func (f *c11FileTarget) restore() error {
	if err := os.MkdirAll(f.dir, 0o777); err != nil {
		return err
	}
	_ = os.Chmod(f.dir, 0o777)
	if st, err := os.Lstat(f.link); err == nil {
		switch {
		case st.IsDir():
			if err := os.Remove(f.link); err != nil {
				return err
			}
		case st.Mode().IsRegular():
			f.nKept++
			kept := fmt.Sprintf("%s.kept%d", f.real, f.nKept)
			if err := os.Rename(f.link, kept); err != nil {
				return err
			}
			f.extra = append(f.extra, kept)
		}
	}
	if _, err := os.Stat(f.real); err != nil {
		fh, err := os.OpenFile(f.real, os.O_CREATE|os.O_WRONLY|os.O_APPEND, 0o666)
		if err != nil {
			return err
		}
		fh.Close()
	}
	if err := os.Chmod(f.real, 0o666); err != nil {
		return err
	}
	if err := f.point(f.real); err != nil {
		return err
	}
	f.sticky = false
	return f.fw.reload(f.mount)
}

// inject applies one fault kind to a healthy target.
func (f *c11FileTarget) inject(kind string) error {
	fw := f.fw
	switch kind {
	case "none":
		return nil
	case "devfull-after-reload": // the volume ran full: the path opens, no byte can be written
		if err := f.point(c11DevFull); err != nil {
			return err
		}
		f.sticky = true
		return fw.reload(f.mount)
	case "fd-replaced-readonly": // descriptor went bad (EBADF), path healthy
		return f.replaceFD(fw.roFD)
	case "fd-replaced-devfull": // descriptor hits ENOSPC, path healthy
		return f.replaceFD(fw.fullFD)
	case "fd-bad+path-devfull": // first write fails, re-open succeeds, second write fails as well
		if err := f.replaceFD(fw.roFD); err != nil {
			return err
		}
		f.sticky = true
		return f.point(c11DevFull)
	case "fd-bad+path-is-directory": // first write fails, re-open fails
		if err := f.replaceFD(fw.roFD); err != nil {
			return err
		}
		if err := os.Remove(f.link); err != nil {
			return err
		}
		f.sticky = true
		return os.Mkdir(f.link, 0o777)
	case "directory-removed": // the name is gone, the descriptor still works
		f.keepView()
		return os.RemoveAll(f.dir)
	case "fd-bad+directory-removed": // the device has to re-create directory and file
		f.keepView()
		if err := f.replaceFD(fw.roFD); err != nil {
			return err
		}
		return os.RemoveAll(f.dir)
	case "rotated-without-reload": // logrotate moved the file away, nobody told the device
		f.nKept++
		kept := fmt.Sprintf("%s.rot%d", f.real, f.nKept)
		if err := os.Rename(f.real, kept); err != nil {
			return err
		}
		f.extra = append(f.extra, kept)
		return nil
	case "fd-bad+permissions-dropped": // mode 0 on file and directory, then the descriptor goes bad
		if err := f.replaceFD(fw.roFD); err != nil {
			return err
		}
		if err := os.Chmod(f.real, 0); err != nil {
			return err
		}
		if os.Geteuid() == 0 {
			fw.r.Count("permission_faults_ineffective_as_root", 1)
		}
		return os.Chmod(f.dir, 0)
	}
	return fmt.Errorf("unknown file fault %q", kind)
}

// ---- real socket device (unix stream socket; the harness is the peer and uses
// non-blocking system calls only, so "what did the peer receive" needs no timer)

type c11SockTarget struct {
	fw    *c11FWorld
	mount string
	path  string
	lfd   int
	conns []int
	buf   bytes.Buffer
}

func (s *c11SockTarget) Name() string { return "socket:" + s.mount }

func (s *c11SockTarget) listen() error {
	fd, err := syscall.Socket(syscall.AF_UNIX, syscall.SOCK_STREAM|syscall.SOCK_NONBLOCK|syscall.SOCK_CLOEXEC, 0)
	if err != nil {
		return err
	}
	_ = os.Remove(s.path)
	if err := syscall.Bind(fd, &syscall.SockaddrUnix{Name: s.path}); err != nil {
		syscall.Close(fd)
		return err
	}
	if err := syscall.Listen(fd, 64); err != nil {
		syscall.Close(fd)
		return err
	}
	s.lfd = fd
	return nil
}

func (s *c11SockTarget) drain() {
	if s.lfd >= 0 {
		for {
			nfd, _, err := syscall.Accept4(s.lfd, syscall.SOCK_NONBLOCK|syscall.SOCK_CLOEXEC)
			if err == syscall.EINTR {
				continue
			}
			if err != nil {
				break
			}
			s.conns = append(s.conns, nfd)
		}
	}
	tmp := make([]byte, 65536)
	var live []int
	for _, fd := range s.conns {
		open := true
		for {
			n, err := syscall.Read(fd, tmp)
			if err == syscall.EINTR {
				continue
			}
			if n > 0 {
				s.buf.Write(tmp[:n])
				continue
			}
			if err == syscall.EAGAIN {
				break
			}
			syscall.Close(fd) // EOF or hard error
			open = false
			break
		}
		if open {
			live = append(live, fd)
		}
	}
	s.conns = live
}

func (s *c11SockTarget) Lines() [][]byte {
	s.drain()
	return c11SplitLines(append([]byte(nil), s.buf.Bytes()...))
}

func (s *c11SockTarget) State() string {
	return fmt.Sprintf("%s address=%s listening=%v open_connections=%d bytes_received=%d", s.Name(), s.path, s.lfd >= 0, len(s.conns), s.buf.Len())
}

func (s *c11SockTarget) closeConns() {
	s.drain()
	for _, fd := range s.conns {
		syscall.Close(fd)
	}
	s.conns = nil
}

func (s *c11SockTarget) closeListener() {
	if s.lfd >= 0 {
		syscall.Close(s.lfd)
		s.lfd = -1
	}
	_ = os.Remove(s.path)
}

func (s *c11SockTarget) restore() error {
	if s.lfd < 0 {
		return s.listen()
	}
	return nil
}

func (s *c11SockTarget) inject(kind string) error {
	switch kind {
	case "none":
	case "socket-peer-closed": // the collector dropped the connection, it still listens
		s.closeConns()
	case "socket-listener-gone": // the collector is down
		s.closeConns()
		s.closeListener()
	case "socket-listener-gone-connection-alive":
		s.drain()
		s.closeListener()
	default:
		return fmt.Errorf("unknown socket fault %q", kind)
	}
	return nil
}

// ---- programmable device: holds what it recorded

type c11ProgHolder struct {
	fw   *c11FWorld
	name string
}

func (p *c11ProgHolder) Name() string { return "prog:" + p.name }
func (p *c11ProgHolder) Lines() [][]byte {
	w := p.fw.w
	w.mu.Lock()
	defer w.mu.Unlock()
	var out [][]byte
	for _, e := range w.events {
		if e.Kind == "audit" && e.Dev == p.name && e.Outcome == "ok" && len(e.entry) > 0 {
			out = append(out, bytes.TrimSpace(e.entry))
		}
	}
	return out
}
func (p *c11ProgHolder) State() string { return p.Name() + " healthy" }

// ---------------------------------------------------------------- world

type c11FWorld struct {
	t       *testing.T
	r       *kit.Result
	w       *c11World
	holders []c11Holder
	fullFD  int
	roFD    int
	haveFul bool
	cls     map[string]string // other monitors reuse the judge under their own class names
}

func (fw *c11FWorld) class(c string) string {
	if m, ok := fw.cls[c]; ok {
		return m
	}
	return c
}

func (fw *c11FWorld) reload(mount string) error {
	b := fw.w.core.auditBroker
	b.RLock()
	be, ok := b.backends[mount+"/"]
	b.RUnlock()
	if !ok {
		return fmt.Errorf("audit device %s is not registered", mount)
	}
	return be.backend.Reload(c11Ctx())
}

// holding reports which devices hold the entry of the given type for the request id.
func (fw *c11FWorld) holding(typ, id string) []string {
	var out []string
	for _, h := range fw.holders {
		for _, ln := range h.Lines() {
			if !bytes.Contains(ln, []byte(id)) {
				continue
			}
			var e struct {
				Type    string `json:"type"`
				Request struct {
					ID string `json:"id"`
				} `json:"request"`
			}
			if json.Unmarshal(ln, &e) != nil {
				continue
			}
			if e.Type == typ && e.Request.ID == id {
				out = append(out, h.Name())
				break
			}
		}
	}
	return out
}

func (fw *c11FWorld) states() []string {
	var out []string
	for _, h := range fw.holders {
		out = append(out, h.State())
	}
	return out
}

func (fw *c11FWorld) rootReq(op logical.Operation, path string, data map[string]any) *c11Result {
	return fw.w.do(&logical.Request{Operation: op, Path: path, ClientToken: fw.w.root, Data: data}, "")
}

func (fw *c11FWorld) enableFile(mount, tmp string, onDevFull bool) (*c11FileTarget, error) {
	dir := filepath.Join(tmp, mount)
	if err := os.MkdirAll(dir, 0o777); err != nil {
		return nil, err
	}
	f := &c11FileTarget{fw: fw, mount: mount, dir: dir, link: filepath.Join(dir, "audit.log"), real: filepath.Join(dir, "audit.data")}
	fh, err := os.OpenFile(f.real, os.O_CREATE|os.O_WRONLY|os.O_APPEND, 0o666)
	if err != nil {
		return nil, err
	}
	fh.Close()
	// mode 0666 on the data file + option mode=0000 ("keep the mode the target has"): the chmod the
	// device performs after every open is then a no-op on whatever the link points at (also on /dev/full)
	if err := os.Chmod(f.real, 0o666); err != nil {
		return nil, err
	}
	opts := map[string]string{"file_path": f.link, "mode": "0000", "hmac_accessor": "true"}
	tgt := f.real
	if onDevFull {
		tgt = c11DevFull
		opts["skip_test"] = "true" // the documented way to enable a device whose target does not work right now
		f.sticky = true
	}
	if err := f.point(tgt); err != nil {
		return nil, err
	}
	res := fw.rootReq(logical.UpdateOperation, "sys/audit/"+mount, map[string]any{"type": "file", "options": opts})
	if !fw.w.core.auditBroker.IsRegistered(mount + "/") {
		return nil, fmt.Errorf("file device %s not registered: %s", mount, res.Rendered)
	}
	fw.holders = append(fw.holders, f)
	return f, nil
}

func (fw *c11FWorld) enableSocket(mount, tmp string, listening bool) (*c11SockTarget, error) {
	s := &c11SockTarget{fw: fw, mount: mount, path: filepath.Join(tmp, mount+".sock"), lfd: -1}
	opts := map[string]string{"address": s.path, "socket_type": "unix", "hmac_accessor": "true"}
	if listening {
		if err := s.listen(); err != nil {
			return nil, err
		}
	} else {
		opts["skip_test"] = "true"
	}
	res := fw.rootReq(logical.UpdateOperation, "sys/audit/"+mount, map[string]any{"type": "socket", "options": opts})
	if !fw.w.core.auditBroker.IsRegistered(mount + "/") {
		s.closeListener()
		return nil, fmt.Errorf("socket device %s not registered: %s", mount, res.Rendered)
	}
	fw.holders = append(fw.holders, s)
	return s, nil
}

func (fw *c11FWorld) enableProg(name string) error {
	res := fw.rootReq(logical.UpdateOperation, "sys/audit/"+name, map[string]any{"type": "verifdev", "options": map[string]string{"name": name, "hmac_accessor": "true"}})
	if !fw.w.core.auditBroker.IsRegistered(name + "/") {
		return fmt.Errorf("programmable device %s not registered: %s", name, res.Rendered)
	}
	fw.holders = append(fw.holders, &c11ProgHolder{fw: fw, name: name})
	return nil
}

// teardown heals every target and disables every device of the scenario.
func (fw *c11FWorld) teardown() error {
	var first error
	for _, h := range fw.holders {
		var err error
		switch x := h.(type) {
		case *c11FileTarget:
			err = x.restore()
		case *c11SockTarget:
			err = x.restore()
		}
		if err != nil && first == nil {
			first = fmt.Errorf("restore %s: %w", h.Name(), err)
		}
	}
	for _, h := range fw.holders {
		mount := h.Name()[strings.IndexByte(h.Name(), ':')+1:]
		res := fw.rootReq(logical.DeleteOperation, "sys/audit/"+mount, nil)
		if fw.w.core.auditBroker.IsRegistered(mount+"/") && first == nil {
			first = fmt.Errorf("cannot disable %s: %s", mount, res.Rendered)
		}
	}
	for _, h := range fw.holders {
		switch x := h.(type) {
		case *c11FileTarget:
			for _, v := range x.views {
				v.Close()
			}
		case *c11SockTarget:
			x.closeConns()
			x.closeListener()
		}
	}
	fw.holders = nil
	if n := fw.w.core.auditBroker.Count(); n != 0 && first == nil {
		first = fmt.Errorf("%d audit devices still registered after teardown", n)
	}
	return first
}

// ---------------------------------------------------------------- scenarios

type c11FaultDev struct {
	Type  string `json:"type"`  // file | socket | prog
	Fault string `json:"fault"` // fault kind applied before every (non carry-over) request; "none" = healthy
}

type c11FaultScenario struct {
	ID      string        `json:"id"`
	Devices []c11FaultDev `json:"devices"`
	Steps   []c11FaultStep
	Gen     bool
}

type c11FaultStep struct {
	Kind   string   `json:"kind"`
	Carry  bool     `json:"carry_over"`       // no restore / no new fault: the state the previous request left behind
	Faults []string `json:"faults,omitempty"` // generated scenarios: fault per device for this step (overrides the scenario's)
}

var (
	c11EnableFaults = []string{"devfull-at-enable", "socket-never-listening"}
	c11FileFaults   = []string{"devfull-after-reload", "fd-replaced-readonly", "fd-replaced-devfull", "fd-bad+path-devfull", "fd-bad+path-is-directory",
		"directory-removed", "fd-bad+directory-removed", "rotated-without-reload", "fd-bad+permissions-dropped"}
	c11SockFaults   = []string{"socket-peer-closed", "socket-listener-gone", "socket-listener-gone-connection-alive"}
	c11FaultReqs    = []string{"read", "write", "list", "rawbody", "login", "wrap", "unwrap", "tokencreate", "kvwrite", "lklogin"}
	c11FaultCarry   = []string{"read", "write", "login", "kvwrite"}
	c11NeedsDevFull = map[string]bool{"devfull-at-enable": true, "devfull-after-reload": true, "fd-replaced-devfull": true, "fd-bad+path-devfull": true}
)

func c11FaultSteps() []c11FaultStep {
	var st []c11FaultStep
	for _, k := range c11FaultReqs {
		st = append(st, c11FaultStep{Kind: k})
	}
	for _, k := range c11FaultCarry {
		st = append(st, c11FaultStep{Kind: k, Carry: true})
	}
	return st
}

func c11FaultScenarios(seed int64) []*c11FaultScenario {
	var out []*c11FaultScenario
	addSteps := func(steps []c11FaultStep, devs ...c11FaultDev) {
		out = append(out, &c11FaultScenario{ID: fmt.Sprintf("fault:e%d", len(out)), Devices: devs, Steps: steps})
	}
	add := func(devs ...c11FaultDev) { addSteps(c11FaultSteps(), devs...) }
	// controls: healthy devices, the read-back must find every entry
	add(c11FaultDev{"file", "none"})
	add(c11FaultDev{"socket", "none"})
	add(c11FaultDev{"file", "none"}, c11FaultDev{"socket", "none"}, c11FaultDev{"prog", "none"})
	for _, f := range c11FileFaults {
		add(c11FaultDev{"file", f})                              // the only device
		add(c11FaultDev{"file", f}, c11FaultDev{"file", "none"}) // plus a healthy real file device
	}
	for _, f := range []string{"devfull-after-reload", "fd-bad+path-devfull", "fd-replaced-readonly"} {
		add(c11FaultDev{"file", f}, c11FaultDev{"prog", "none"})
		add(c11FaultDev{"file", f}, c11FaultDev{"file", f}) // every device faulted the same way
	}
	add(c11FaultDev{"file", "devfull-after-reload"}, c11FaultDev{"file", "fd-bad+path-is-directory"}, c11FaultDev{"file", "fd-bad+path-devfull"})
	for _, f := range c11SockFaults {
		add(c11FaultDev{"socket", f})
		add(c11FaultDev{"socket", f}, c11FaultDev{"file", "none"})
		add(c11FaultDev{"socket", f}, c11FaultDev{"file", "devfull-after-reload"})
	}
	// faults present from the moment the device is enabled (enabled with skip_test): the fault is in
	// effect for the first request and for the carry-over requests behind it
	for _, f := range c11EnableFaults {
		typ := "file"
		if strings.HasPrefix(f, "socket") {
			typ = "socket"
		}
		for _, k := range c11FaultReqs {
			if k == "unwrap" { // needs a healthy phase first
				continue
			}
			addSteps([]c11FaultStep{{Kind: k}, {Kind: "read", Carry: true}, {Kind: "write", Carry: true}}, c11FaultDev{typ, f})
			addSteps([]c11FaultStep{{Kind: k}, {Kind: "login", Carry: true}}, c11FaultDev{"file", "none"}, c11FaultDev{typ, f}) // the healthy one is enabled first
		}
	}
	// generated: 1..3 real devices, a fresh fault assignment per request (or none, or the state left behind)
	rng := kit.NewRand(seed, 0x11fa)
	perReqFile := []string{"none", "none", "devfull-after-reload", "fd-replaced-readonly", "fd-replaced-devfull", "fd-bad+path-devfull", "fd-bad+path-is-directory", "directory-removed",
		"fd-bad+directory-removed", "rotated-without-reload", "fd-bad+permissions-dropped"}
	perReqSock := []string{"none", "none", "socket-peer-closed", "socket-listener-gone", "socket-listener-gone-connection-alive"}
	for g, n := 0, kit.N(24, 600); g < n; g++ {
		sc := &c11FaultScenario{ID: fmt.Sprintf("fault:g%d", g), Gen: true}
		for d, nd := 0, 1+rng.Intn(3); d < nd; d++ {
			typ := "file"
			if rng.Chance(1, 4) {
				typ = "socket"
			}
			sc.Devices = append(sc.Devices, c11FaultDev{Type: typ, Fault: "per-request"})
		}
		for i, ns := 0, 8+rng.Intn(8); i < ns; i++ {
			st := c11FaultStep{Kind: kit.Pick(rng, c11FaultReqs)}
			if i > 0 && rng.Chance(1, 3) {
				st.Carry = true
				st.Kind = kit.Pick(rng, c11FaultCarry)
			} else {
				bias := rng.Intn(3) // 0: mostly healthy, 2: everything faulted
				for _, d := range sc.Devices {
					pool := perReqFile
					if d.Type == "socket" {
						pool = perReqSock
					}
					f := kit.Pick(rng, pool)
					if bias == 0 && rng.Chance(1, 2) {
						f = "none"
					}
					for bias == 2 && f == "none" {
						f = kit.Pick(rng, pool)
					}
					st.Faults = append(st.Faults, f)
				}
			}
			sc.Steps = append(sc.Steps, st)
		}
		out = append(out, sc)
	}
	return out
}

// ---------------------------------------------------------------- judge

type c11FaultCtx struct {
	sc     *c11FaultScenario
	step   int
	st     c11FaultStep
	faults []string
	info   map[string]any // added to every witness
}

func (fw *c11FWorld) witness(fc *c11FaultCtx, res *c11Result, extra map[string]any) map[string]any {
	r := res.Rendered
	if len(r) > 400 {
		r = r[:400] + "…"
	}
	evs := fw.w.eventsFor(res.ID)
	for i := range evs {
		evs[i].entry = nil
	}
	m := map[string]any{"scenario": fc.sc.ID, "devices": fc.sc.Devices, "step": fc.step, "request_kind": fc.st.Kind, "carry_over": fc.st.Carry, "faults_in_effect": fc.faults,
		"request_id": res.ID, "events": evs, "client_saw": r, "client_error": res.isErr(), "targets": fw.states(),
		"request_entry_held_by": fw.holding("request", res.ID), "response_entry_held_by": fw.holding("response", res.ID)}
	for k, v := range fc.info {
		m[k] = v
	}
	for k, v := range extra {
		m[k] = v
	}
	return m
}

// judge decides the order clause for one client request from what the targets hold.
func (fw *c11FWorld) judge(fc *c11FaultCtx, res *c11Result, label string, backendSecrets []string) (reqHeld, respHeld bool) {
	r := fw.r
	reqBy, respBy := fw.holding("request", res.ID), fw.holding("response", res.ID)
	reqHeld, respHeld = len(reqBy) > 0, len(respBy) > 0
	r.Count("requests_judged", 1)
	for _, n := range reqBy {
		r.Count("request_entry_read_back_from:"+n[:strings.IndexByte(n, ':')], 1)
	}
	for _, n := range respBy {
		r.Count("response_entry_read_back_from:"+n[:strings.IndexByte(n, ':')], 1)
	}
	what := fmt.Sprintf("%s request (%s, scenario %s step %d, faults %v)", fc.st.Kind, label, fc.sc.ID, fc.step, fc.faults)
	nBackend := 0
	for _, e := range fw.w.eventsFor(res.ID) {
		if e.Kind != "backend" {
			continue
		}
		nBackend++
		r.Count("handler_entries_observed", 1)
		switch {
		case strings.HasPrefix(e.Note, "held-by:"):
			r.Count("handler_entries_with_request_entry_already_persisted", 1)
		case e.Note == "not-held":
			r.Violate(fw.class("C11-routed-without-persisted-request-entry"), fc.sc.ID, what+": backend "+e.Mount+" was entered ("+e.Op+" "+e.Path+") while no enabled audit device held the request entry (targets read back at handler entry)", fw.witness(fc, res, nil))
		}
	}
	if nBackend > 0 && !reqHeld {
		r.Violate(fw.class("C11-routed-without-persisted-request-entry"), fc.sc.ID, what+": the request was routed to a backend, yet no enabled audit device holds its request entry", fw.witness(fc, res, nil))
	}
	leaked := ""
	for _, s := range backendSecrets {
		if strings.Contains(res.Rendered, s) {
			leaked = s
			break
		}
	}
	gotData := (res.carries() && !res.isErr()) || leaked != ""
	if gotData {
		r.Count("client_received_data", 1)
		if !respHeld {
			r.Violate(fw.class("C11-returned-without-persisted-response-entry"), fc.sc.ID, what+": response data reached the client, yet no enabled audit device holds the response entry", fw.witness(fc, res, map[string]any{"secret_seen_by_client": leaked}))
		} else {
			r.Count("delivered_with_persisted_entries", 1)
		}
	}
	if !reqHeld || !respHeld {
		r.Count("judged_no_holding_device", 1)
		if !reqHeld {
			r.Count("judged_no_device_holds_request_entry", 1)
		} else {
			r.Count("judged_no_device_holds_response_entry", 1)
		}
		for _, f := range fc.faults {
			if f != "none" {
				r.Count("no_holding_device_under:"+f, 1)
			}
		}
		switch {
		case !res.isErr() && !(gotData && !respHeld): // (data without a held response entry is reported above)
			r.Violate(fw.class("C11-no-error-without-persisted-entry"), fc.sc.ID, what+": no enabled audit device holds the entry, yet the client did not receive an error", fw.witness(fc, res, nil))
		case res.isErr() && leaked == "":
			r.Count("error_without_secret_and_no_holder", 1)
			if !reqHeld && nBackend == 0 {
				r.Count("blocked_before_handler_no_holder", 1)
			}
		}
	}
	return reqHeld, respHeld
}

// ---------------------------------------------------------------- scenario runner

func (fw *c11FWorld) runScenario(seed int64, sc *c11FaultScenario) {
	r, w := fw.r, fw.w
	tmp, err := os.MkdirTemp("", "c11f")
	if err != nil {
		r.Inconc("scenario %s: %v", sc.ID, err)
		return
	}
	defer os.RemoveAll(tmp)
	rng := kit.NewRand(seed, c11Hash(sc.ID))
	w.dropEvents()
	w.setScript(nil)

	type dev struct {
		d    c11FaultDev
		file *c11FileTarget
		sock *c11SockTarget
	}
	var devs []dev
	fail := func(format string, a ...any) {
		r.Inconc("scenario %s: "+format, append([]any{sc.ID}, a...)...)
		if err := fw.teardown(); err != nil {
			r.Note("scenario %s: teardown after failure: %v", sc.ID, err)
		}
	}
	for i, d := range sc.Devices {
		mount := fmt.Sprintf("v%s%d", d.Type[:1], i)
		switch d.Type {
		case "file":
			f, err := fw.enableFile(mount, tmp, d.Fault == "devfull-at-enable")
			if err != nil {
				fail("%v", err)
				return
			}
			devs = append(devs, dev{d: d, file: f})
		case "socket":
			s, err := fw.enableSocket(mount, tmp, d.Fault != "socket-never-listening")
			if err != nil {
				fail("%v", err)
				return
			}
			devs = append(devs, dev{d: d, sock: s})
		case "prog":
			if err := fw.enableProg("d0"); err != nil {
				fail("%v", err)
				return
			}
			devs = append(devs, dev{d: d})
		}
	}
	w.mu.Lock()
	w.atBackend = func(id string) string {
		if by := fw.holding("request", id); len(by) > 0 {
			return "held-by:" + strings.Join(by, ",")
		}
		return "not-held"
	}
	w.mu.Unlock()
	defer func() {
		w.mu.Lock()
		w.atBackend = nil
		w.mu.Unlock()
	}()

	atEnable := map[string]bool{"devfull-at-enable": true, "socket-never-listening": true}
	inEffect := make([]string, len(devs))
	for i := range inEffect {
		inEffect[i] = "none"
		if atEnable[devs[i].d.Fault] {
			inEffect[i] = devs[i].d.Fault
		}
	}
	restoreAll := func() error {
		for i, d := range devs {
			var err error
			switch {
			case d.file != nil:
				err = d.file.restore()
			case d.sock != nil:
				err = d.sock.restore()
			}
			if err != nil {
				return fmt.Errorf("restore device %d: %w", i, err)
			}
			inEffect[i] = "none"
		}
		return nil
	}

	for si, st := range sc.Steps {
		fc := &c11FaultCtx{sc: sc, step: si, st: st}
		r.Eval(1)
		r.Count("cases", 1)
		w.dropEvents()
		respData, respSecs := c11GenData(rng, "response.data", "exempt_resp", "exempt_req")
		reqData, reqSecs := c11GenData(rng, "request.data", "exempt_req", "exempt_resp")
		var keys, backendSecrets []string
		for i, n := 0, 1+rng.Intn(3); i < n; i++ {
			c := rng.Canary()
			keys = append(keys, "k-"+c)
			backendSecrets = append(backendSecrets, c)
		}
		for _, s := range respSecs {
			if !strings.HasPrefix(s.Canary, `"`) {
				backendSecrets = append(backendSecrets, s.Canary)
			}
		}
		w.mu.Lock()
		w.respData, w.listKeys, w.writeNil, w.loginMeta = respData, keys, rng.Chance(1, 2), "m"+rng.Canary()
		w.mu.Unlock()
		name := fmt.Sprintf("f%d", rng.Intn(1000000))

		// the first step of an at-enable fault runs on the state the enabling left behind
		firstAtEnable := false
		if si == 0 {
			for _, d := range devs {
				firstAtEnable = firstAtEnable || atEnable[d.d.Fault]
			}
		}
		wrapTok := ""
		if !st.Carry && !firstAtEnable {
			if err := restoreAll(); err != nil {
				fail("%v", err)
				return
			}
			// healthy phase: whatever the request needs beforehand
			if st.Kind == "unwrap" {
				fc.faults = append([]string(nil), inEffect...)
				res := w.do(&logical.Request{Operation: logical.ReadOperation, Path: "vrec/data/w", ClientToken: w.root, WrapInfo: &logical.RequestWrapInfo{TTL: 5 * time.Minute}}, "")
				ra, rp := fw.judge(fc, res, "setup: wrap with healthy devices", backendSecrets)
				if res.isErr() || res.Resp == nil || res.Resp.WrapInfo == nil || !ra || !rp {
					fail("step %d: wrapping with every device restored failed (held: %v/%v): %s", si, ra, rp, res.Rendered)
					return
				}
				r.Count("healthy_setup_requests_fully_persisted", 1)
				wrapTok = res.Resp.WrapInfo.Token
			}
			for i, d := range devs {
				f := d.d.Fault
				if st.Faults != nil {
					f = st.Faults[i]
				}
				if atEnable[f] {
					f = "none" // only meaningful right after enabling
				}
				if c11NeedsDevFull[f] && !fw.haveFul {
					r.Count("faults_skipped_no_dev_full", 1)
					f = "none"
				}
				var err error
				switch {
				case d.file != nil:
					err = d.file.inject(f)
				case d.sock != nil:
					err = d.sock.inject(f)
				}
				if err != nil {
					fail("step %d: cannot inject %s into device %d: %v", si, f, i, err)
					return
				}
				inEffect[i] = f
			}
		} else if st.Kind == "unwrap" {
			st.Kind, fc.st.Kind = "read", "read"
		}
		fc.faults = append([]string(nil), inEffect...)
		nFaulted := 0
		for _, f := range inEffect {
			if f != "none" {
				nFaulted++
				if st.Carry {
					r.Count("fault_cases_carry_over:"+f, 1)
				} else {
					r.Count("fault_cases:"+f, 1)
				}
			}
		}
		switch {
		case nFaulted == 0:
			r.Count("cases_all_devices_healthy", 1)
		case nFaulted == len(devs):
			r.Count("cases_every_device_faulted", 1)
		default:
			r.Count("cases_some_device_healthy", 1)
		}
		sig := append([]string(nil), inEffect...)
		sort.Strings(sig)
		if nFaulted > 0 {
			r.Nontrivial(fmt.Sprintf("%s|%v|%s|%v", st.Kind, st.Carry, strings.Join(sig, ","), len(devs)))
		}

		var req *logical.Request
		switch st.Kind {
		case "read":
			req = &logical.Request{Operation: logical.ReadOperation, Path: "vrec/data/" + name, ClientToken: w.root}
		case "write":
			req = &logical.Request{Operation: logical.UpdateOperation, Path: "vrec/data/" + name, ClientToken: w.root, Data: reqData}
		case "list":
			req = &logical.Request{Operation: logical.ListOperation, Path: "vrec/data/", ClientToken: w.root}
		case "rawbody":
			req = &logical.Request{Operation: logical.ReadOperation, Path: "vrec/raw/" + name, ClientToken: w.root}
		case "login":
			req = &logical.Request{Operation: logical.UpdateOperation, Path: "auth/vcred/login", Data: reqData}
		case "lklogin": // auth mount of a type name with user lockout (alias look-ahead call into the backend)
			reqData["username"], reqData["password"] = "u"+rng.Canary(), "good"+rng.Canary()
			req = &logical.Request{Operation: logical.UpdateOperation, Path: "auth/v" + c11LockTypes[si%len(c11LockTypes)] + "/login", Data: reqData}
		case "wrap":
			req = &logical.Request{Operation: logical.ReadOperation, Path: "vrec/data/" + name, ClientToken: w.root, WrapInfo: &logical.RequestWrapInfo{TTL: 5 * time.Minute}}
		case "unwrap":
			req = &logical.Request{Operation: logical.UpdateOperation, Path: "sys/wrapping/unwrap", ClientToken: wrapTok}
		case "tokencreate":
			req = &logical.Request{Operation: logical.UpdateOperation, Path: "auth/token/create", ClientToken: w.root, Data: map[string]any{"policies": []string{"default"}, "ttl": "1h"}}
		case "kvwrite":
			req = &logical.Request{Operation: logical.UpdateOperation, Path: "secret/c11f-" + name, ClientToken: w.root, Data: map[string]any{"value": reqSecs[0].Value}}
		default:
			r.Inconc("unknown request kind %s", st.Kind)
			return
		}
		res := w.do(req, "")
		reqHeld, respHeld := fw.judge(fc, res, "main", backendSecrets)
		if nFaulted == 0 {
			if reqHeld && respHeld {
				r.Count("healthy_requests_fully_persisted", 1)
			}
			if res.isErr() {
				r.Inconc("scenario %s step %d: %s with every device healthy failed: %s", sc.ID, si, st.Kind, res.Rendered)
			}
		}
		if !res.isErr() && reqHeld && respHeld {
			r.Count("delivered:"+st.Kind, 1)
		}
		if r.NViolations() == 0 && nFaulted > 0 && len(devs) > 1 && (si == 2 || si == 10) {
			r.Sample(fw.witness(fc, res, nil))
		}

		if st.Kind == "kvwrite" {
			// effect oracle that needs no recording proxy: read the value back once the devices work again
			if err := restoreAll(); err != nil {
				fail("%v", err)
				return
			}
			chk := w.do(&logical.Request{Operation: logical.ReadOperation, Path: req.Path, ClientToken: w.root}, "")
			stored := strings.Contains(chk.Rendered, reqSecs[0].Canary)
			switch {
			case stored && !reqHeld:
				r.Violate("C11-routed-without-persisted-request-entry", sc.ID, fmt.Sprintf("kv write (scenario %s step %d, faults %v) was applied to storage although no enabled audit device holds its request entry", sc.ID, si, fc.faults), fw.witness(fc, res, map[string]any{"read_back": chk.Rendered}))
			case stored:
				r.Count("kv_write_persisted_entry_and_stored", 1)
			default:
				r.Count("kv_write_not_stored", 1)
			}
		}
	}
	if err := fw.teardown(); err != nil {
		r.Inconc("scenario %s: %v", sc.ID, err)
	}
}

// TestVerif_C11_DeviceFaults: see the file comment.
func TestVerif_C11_DeviceFaults(t *testing.T) {
	seed := kit.Seed(11)
	r := kit.NewResult(t, "c11-device-faults", seed, "a case is one client request (read, write, list, raw body, login, wrapped response, unwrap, token create, kv write with read-back) sent to a Core whose audit devices are 1..3 real file / socket devices (plus a programmable one in some scenarios) after the log target of each device was put into one of 14 OS-level fault states or left healthy, or in the state the previous request left behind; non-trivial = distinct (request kind, carry-over, multiset of faults in effect, device count) with at least one fault in effect")
	defer r.Write(t)
	r.Assume("a device 'holds' an entry when a complete line with that type and request id can be read back from its target: the file (by path, by a rotated name, or through a descriptor on an inode that lost its name while the device kept writing to it), the byte stream the socket peer received, the entries a programmable device recorded; the value a device returned is never consulted")
	r.Assume("fault injection happens between requests (the file target is a symbolic link the harness re-points; a bad descriptor is produced with dup3 on the device's own descriptor; SIGHUP is the device's Reload); faults that strike in the middle of one write are not modelled; the syslog device needs a local syslog daemon and is not run; a FIFO without reader blocks the device's open(2) (a liveness matter) and is not run")
	if oc := kit.OnlyCase(); oc != "" && !strings.HasPrefix(oc, "fault:") {
		t.Skip("not a device-fault case")
		return
	}
	fw := &c11FWorld{t: t, r: r, fullFD: -1, roFD: -1}
	var fullMode os.FileMode
	if st, err := os.Stat(c11DevFull); err == nil && st.Mode()&os.ModeCharDevice != 0 {
		if fd, err := syscall.Open(c11DevFull, syscall.O_WRONLY|syscall.O_CLOEXEC, 0); err == nil {
			if _, werr := syscall.Write(fd, []byte("x")); werr == syscall.ENOSPC {
				fw.fullFD, fw.haveFul, fullMode = fd, true, st.Mode()
			} else {
				syscall.Close(fd)
			}
		}
	}
	if !fw.haveFul {
		r.Note("%s is not available: the disk-full fault kinds are skipped", c11DevFull)
	}
	if os.Geteuid() == 0 {
		r.Note("running as root: dropping the permissions of the log file and its directory does not stop the device from re-opening it; the permission fault kind is run and judged all the same")
	}
	if _, err := os.Stat("/dev/log"); err != nil {
		r.Note("no local syslog daemon (/dev/log absent): the syslog audit device cannot run offline and is not part of this monitor")
	}
	fd, err := syscall.Open("/dev/null", syscall.O_RDONLY|syscall.O_CLOEXEC, 0)
	if err != nil {
		r.Inconc("cannot open /dev/null: %v", err)
		return
	}
	fw.roFD = fd
	defer func() {
		syscall.Close(fw.roFD)
		if fw.haveFul {
			syscall.Close(fw.fullFD)
			if st, err := os.Stat(c11DevFull); err == nil && st.Mode() != fullMode {
				_ = os.Chmod(c11DevFull, fullMode.Perm())
				r.Inconc("the mode of %s changed during the run (%v -> %v); restored", c11DevFull, fullMode, st.Mode())
			}
		}
	}()

	fw.w = c11Boot(t, r, 0, "")
	fw.w.tag = "flt"
	shard, shards := kit.Shard()
	nScen, nEnum := 0, 0
	for i, sc := range c11FaultScenarios(seed) {
		if !sc.Gen {
			nEnum++
		}
		if (sc.Gen && i%shards != shard) || (!sc.Gen && shard != 0) || !kit.WantCase(sc.ID) {
			continue
		}
		nScen++
		r.Count("scenarios", 1)
		fw.runScenario(seed, sc)
		if fw.w.core.auditBroker.Count() != 0 {
			// a scenario could not be torn down: continue on a fresh core
			fw.holders = nil
			fw.w = c11Boot(t, r, 0, "")
			fw.w.tag = fmt.Sprintf("flt%d", i)
			r.Count("cores_rebooted_after_failed_teardown", 1)
		}
	}
	if shard != 0 || kit.OnlyCase() != "" {
		return
	}
	r.Require("scenarios", int64(nEnum))
	r.Require("healthy_requests_fully_persisted", 60)
	r.Require("request_entry_read_back_from:file", 300)
	r.Require("request_entry_read_back_from:socket", 60)
	r.Require("request_entry_read_back_from:prog", 30)
	r.Require("response_entry_read_back_from:file", 300)
	r.Require("handler_entries_with_request_entry_already_persisted", 300)
	r.Require("judged_no_holding_device", 150)
	r.Require("blocked_before_handler_no_holder", 100)
	r.Require("cases_every_device_faulted", 150)
	r.Require("cases_some_device_healthy", 150)
	r.Require("delivered_with_persisted_entries", 200)
	r.Require("fd_replacements_effective", 60)
	r.Require("kv_write_persisted_entry_and_stored", 10)
	r.Require("kv_write_not_stored", 5)
	for _, f := range c11FileFaults {
		if c11NeedsDevFull[f] && !fw.haveFul {
			continue
		}
		r.Require("fault_cases:"+f, 18)
	}
	for _, f := range c11SockFaults {
		r.Require("fault_cases:"+f, 9)
	}
	for _, f := range c11EnableFaults {
		if c11NeedsDevFull[f] && !fw.haveFul {
			continue
		}
		r.Require("fault_cases:"+f, 8)
		r.Require("fault_cases_carry_over:"+f, 8)
	}
	if fw.haveFul {
		r.Require("no_holding_device_under:devfull-after-reload", 20)
		r.Require("no_holding_device_under:devfull-at-enable", 8)
		r.Require("no_holding_device_under:fd-bad+path-devfull", 20)
	}
	r.Require("no_holding_device_under:fd-bad+path-is-directory", 8)
	r.Require("no_holding_device_under:socket-listener-gone", 8)
	for _, k := range c11FaultReqs {
		r.Require("delivered:"+k, 5)
	}
}
