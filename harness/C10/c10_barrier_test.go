//go:build verif

package barrier

// C10 (barrier level): seal state and key rotation never lose or expose data.
//
// The reference is a tiny model written from the property text: a map of live
// entries, the currently valid root key, the number of completed encryption-key
// rotations (= expected active term - 1), whether the barrier is sealed, and
// which upgrade entries exist. Everything the implementation answers is
// compared with that model; key material is looked at in-package only where
// the property names it (keyring nil / zeroised while sealed, keyring equality
// between active and standby).

import (
	"bytes"
	"errors"
	"context"
	"encoding/binary"
	"encoding/hex"
	"fmt"
	"sort"
	"strings"
	"testing"
	"time"

	kit "github.com/openbao/openbao/sdk/v2/helper/verifkit"
	"github.com/openbao/openbao/sdk/v2/logical"
	"github.com/openbao/openbao/sdk/v2/physical"
	"github.com/openbao/openbao/v2/internal/helper/namespace"
)

// c10KR is a deep copy of the key material of a keyring.
type c10KR struct {
	Active uint32
	Root   []byte
	Keys   map[uint32][]byte
}

func c10Snap(k *Keyring) c10KR {
	s := c10KR{Keys: map[uint32][]byte{}}
	if k == nil {
		return s
	}
	s.Active = k.activeTerm
	s.Root = append([]byte(nil), k.rootKey...)
	for t, key := range k.keys {
		s.Keys[t] = append([]byte(nil), key.Value...)
	}
	return s
}

func (a c10KR) diff(b c10KR) string {
	if a.Active != b.Active {
		return fmt.Sprintf("active term %d vs %d", a.Active, b.Active)
	}
	if !bytes.Equal(a.Root, b.Root) {
		return "root keys differ"
	}
	if len(a.Keys) != len(b.Keys) {
		return fmt.Sprintf("%d terms vs %d terms", len(a.Keys), len(b.Keys))
	}
	for t, v := range a.Keys {
		w, ok := b.Keys[t]
		if !ok {
			return fmt.Sprintf("term %d missing", t)
		}
		if !bytes.Equal(v, w) {
			return fmt.Sprintf("key bytes of term %d differ", t)
		}
	}
	return ""
}

func (a c10KR) String() string {
	var ts []int
	for t := range a.Keys {
		ts = append(ts, int(t))
	}
	sort.Ints(ts)
	return fmt.Sprintf("active=%d terms=%v root=%s..", a.Active, ts, hex.EncodeToString(a.Root[:min(4, len(a.Root))]))
}

func c10Raw(b SecurityBarrier) *AESGCMBarrier {
	switch x := b.(type) {
	case *AESGCMBarrier:
		return x
	case *TransactionalAESGCMBarrier:
		return x.AESGCMBarrier
	}
	panic(fmt.Sprintf("unexpected barrier type %T", b))
}

func c10AllZero(b []byte) bool {
	for _, x := range b {
		if x != 0 {
			return false
		}
	}
	return true
}

type c10TxPut struct {
	key    string
	val    []byte
	term   uint32 // newest term when the Put was issued
	keyOps int    // key operations that had RETURNED between BeginTx and this Put
}

type c10CT struct {
	path string
	pt   []byte
	ct   []byte
	term uint32
}

// c10B is one barrier under test plus its reference model.
type c10B struct {
	r      *kit.Result
	caseID string
	rng    *kit.Rand
	phys   physical.Backend
	probe  *kit.Probe
	tx     bool
	ns     *namespace.Namespace
	meta   string

	p SecurityBarrier // active node
	s SecurityBarrier // standby node (same store)

	// reference model
	root     []byte
	oldRoots [][]byte
	term     uint32
	sealed   bool
	data     map[string][]byte
	dterm    map[string]uint32
	gone     map[string]bool
	upgrades map[uint32]bool // prevTerm -> upgrade entry present
	pendUp   []uint32        // terms installed by Rotate whose upgrade entry has not been written yet (CreateUpgrade is a separate call)
	sSealed  bool
	sTerm    uint32
	sBase    uint32 // newest term the standby loaded from storage (unseal / keyring reload); newer ones came by the upgrade path
	sRoot    []byte // root key the standby holds according to the model (the one it was unsealed with / last reloaded)
	ref      c10KR  // key material of the active node after its last key operation
	cts      []c10CT

	// otx: a read-write storage transaction of the active node that stays open across other
	// operations (key operations included); otxPuts: what was put through it and the newest term
	// at the moment of each Put
	otx     logical.Transaction
	otxOps  int // key operations completed while it has been open
	otxPuts []c10TxPut
	ntx     int

	steps  []string
	kinds  []string
	failed bool
	// soft: the standby step comparisons record their violation but the scenario goes on, so
	// the end state (promotion, seal, fresh instance) is judged as well
	soft     bool
	softHits int

	// single-fault injection: while armed, a key operation may return an error
	faultArmed bool
	opErr      error
	newRootTry []byte
	// half: a key operation failed half-way; until the next complete keyring persist the
	// root-key record and the keyring may disagree, so a reload may be refused (the node
	// then shuts down and is unsealed again) - it must still never end with wrong keys
	half bool

	// what the history exercised (for the non-triviality rule)
	keyOps       int
	readAfterKey int
}

func (e *c10B) step(kind, format string, a ...any) {
	e.kinds = append(e.kinds, kind)
	e.steps = append(e.steps, fmt.Sprintf("%d:%s", len(e.steps), fmt.Sprintf(format, a...)))
}

func (e *c10B) viol(kind, format string, a ...any) {
	e.failed = true
	e.r.Violate("C10-"+kind, e.caseID, fmt.Sprintf("[%s] ", e.caseID)+fmt.Sprintf(format, a...),
		map[string]any{"steps": e.steps, "transactional": e.tx, "namespaced": e.ns != nil, "model_term": e.term})
}

// violS is viol for the standby step comparisons: fatal for the history unless e.soft.
func (e *c10B) violS(kind, format string, a ...any) {
	was := e.failed
	e.viol(kind, format, a...)
	if e.soft {
		e.failed = was
		e.softHits++
	}
}

// tolerate reports whether err is the legitimate outcome of an injected storage fault.
func (e *c10B) tolerate(err error) bool {
	if e.faultArmed && err != nil {
		e.opErr = err
		return true
	}
	return false
}

var c10Ctx = context.Background()

func c10NewB(r *kit.Result, caseID string, rng *kit.Rand, tx, nsd bool, withKek bool) *c10B {
	e := &c10B{r: r, caseID: caseID, rng: rng, tx: tx, data: map[string][]byte{}, dterm: map[string]uint32{}, gone: map[string]bool{}, upgrades: map[uint32]bool{}}
	e.phys, e.probe = kit.NewInmemProbe(tx)
	if nsd {
		e.ns = &namespace.Namespace{ID: "c10ns", UUID: "c10c10c1-0000-4000-8000-" + hex.EncodeToString(rng.Bytes(6)), Path: "c10ns/"}
		e.meta = NamespacePrefix + e.ns.UUID + "/"
	}
	e.p = NewAESGCMBarrier(e.phys, e.ns)
	e.root = rng.Bytes(32)
	var kek []byte
	if withKek {
		kek = rng.Bytes(32)
	}
	if err := e.p.Initialize(c10Ctx, e.root, kek); err != nil {
		e.viol("harness", "Initialize failed: %v", err)
		return e
	}
	if err := e.p.Initialize(c10Ctx, rng.Bytes(32), nil); err == nil {
		e.viol("reinitialize-accepted", "second Initialize on an initialised store succeeded (would replace the keyring)")
		return e
	}
	e.sealed = true
	e.term = 1
	e.step("init", "init kek=%v", withKek)
	return e
}

func (e *c10B) key(i int) string {
	if i%3 == 2 {
		return fmt.Sprintf("%sd/sub/k%d", e.meta, i)
	}
	return fmt.Sprintf("%sd/k%d", e.meta, i)
}

// header reads the key-term header of the physical record without going through the probe log.
func (e *c10B) header(key string) (uint32, byte, bool) {
	pe, err := e.probe.Inner().Get(c10Ctx, key)
	if err != nil || pe == nil || len(pe.Value) < 5 {
		return 0, 0, false
	}
	return binary.BigEndian.Uint32(pe.Value[:4]), pe.Value[4], true
}

// ---------------------------------------------------------------- sealed-state oracle

// sealedSweep: a sealed barrier must refuse every data and key operation, reach
// the store with none of them and hold no key material.
func (e *c10B) sealedSweep(b SecurityBarrier, who string) {
	raw := c10Raw(b)
	if !b.Sealed() {
		e.viol("sealed-flag", "%s: model says sealed, Sealed() is false", who)
		return
	}
	if raw.keyring != nil {
		e.viol("sealed-holds-keyring", "%s: keyring != nil while sealed (%s)", who, c10Snap(raw.keyring))
		return
	}
	raw.cacheLock.RLock()
	nc := len(raw.cache)
	raw.cacheLock.RUnlock()
	if nc != 0 {
		e.viol("sealed-holds-keyring", "%s: %d cached AEADs while sealed", who, nc)
		return
	}
	// a key that exists, so an operation that wrongly goes through would find something
	probeKey := e.meta + "d/none"
	var ks []string
	for k := range e.data {
		ks = append(ks, k)
	}
	if len(ks) > 0 {
		sort.Strings(ks)
		probeKey = ks[0]
	}
	ct := []byte{0, 0, 0, 1, 2, 1, 2, 3, 4, 5, 6, 7, 8, 9, 10, 11, 12, 13, 14, 15, 16, 17, 18, 19, 20, 21, 22, 23, 24, 25, 26, 27, 28, 29, 30}
	if len(e.cts) > 0 {
		ct = e.cts[len(e.cts)-1].ct
	}
	type res struct {
		op   string
		data bool
		err  error
	}
	var out []res
	e.probe.StartLog(false)
	{
		_, err := b.Get(c10Ctx, probeKey)
		out = append(out, res{"get", true, err})
		err = b.Put(c10Ctx, &logical.StorageEntry{Key: e.meta + "d/sealed-probe", Value: []byte("x")})
		out = append(out, res{"put", true, err})
		err = b.Delete(c10Ctx, probeKey)
		out = append(out, res{"delete", true, err})
		_, err = b.List(c10Ctx, e.meta+"d/")
		out = append(out, res{"list", true, err})
		_, err = b.ListPage(c10Ctx, e.meta+"d/", "", 10)
		out = append(out, res{"listpage", true, err})
		_, err = b.Encrypt(c10Ctx, "c10/enc", []byte("plaintext"))
		out = append(out, res{"encrypt", true, err})
		_, err = b.Decrypt(c10Ctx, "c10/enc", ct)
		out = append(out, res{"decrypt", true, err})
		if ts, ok := b.(logical.TransactionalStorage); ok {
			for _, ro := range []bool{false, true} {
				var txn logical.Transaction
				var err error
				if ro {
					txn, err = ts.BeginReadOnlyTx(c10Ctx)
				} else {
					txn, err = ts.BeginTx(c10Ctx)
				}
				if err != nil || txn == nil {
					e.r.Count("sealed_begin_tx_refused", 1)
					continue
				}
				e.r.Count("sealed_begin_tx_granted_ops_checked", 1)
				_, err = txn.Get(c10Ctx, probeKey)
				out = append(out, res{"tx.get", true, err})
				if !ro {
					err = txn.Put(c10Ctx, &logical.StorageEntry{Key: e.meta + "d/sealed-probe", Value: []byte("x")})
					out = append(out, res{"tx.put", true, err})
					err = txn.Delete(c10Ctx, probeKey)
					out = append(out, res{"tx.delete", true, err})
				}
				_, err = txn.List(c10Ctx, e.meta+"d/")
				out = append(out, res{"tx.list", true, err})
				_, err = txn.ListPage(c10Ctx, e.meta+"d/", "", 10)
				out = append(out, res{"tx.listpage", true, err})
				_ = txn.Rollback(c10Ctx)
			}
		}
		// key operations need key material, which a sealed barrier must not have
		_, err = b.Rotate(c10Ctx)
		out = append(out, res{"rotate", false, err})
		err = b.RotateRootKey(c10Ctx, bytes.Repeat([]byte{7}, 32))
		out = append(out, res{"rotate-root-key", false, err})
		err = b.SetRootKey(bytes.Repeat([]byte{7}, 32))
		out = append(out, res{"set-root-key", false, err})
		err = b.CreateUpgrade(c10Ctx, 2)
		out = append(out, res{"create-upgrade", false, err})
		_, _, err = b.CheckUpgrade(c10Ctx)
		out = append(out, res{"check-upgrade", false, err})
		err = b.DestroyUpgrade(c10Ctx, 2)
		out = append(out, res{"destroy-upgrade", false, err})
		err = b.ReloadRootKey(c10Ctx)
		out = append(out, res{"reload-root-key", false, err})
		kr, err := b.Keyring()
		if err == nil && kr == nil {
			err = fmt.Errorf("nil keyring")
		}
		out = append(out, res{"keyring", false, err})
		_, err = b.ActiveKeyInfo()
		out = append(out, res{"active-key-info", false, err})
		err = b.VerifyRoot(e.root)
		out = append(out, res{"verify-root", false, err})
	}
	log := e.probe.StopLog()
	for _, o := range out {
		if o.err == nil {
			if o.data {
				e.viol("sealed-op-served", "%s: %s succeeded on a sealed barrier", who, o.op)
			} else {
				e.viol("sealed-keyop-served", "%s: %s succeeded on a sealed barrier", who, o.op)
			}
			return
		}
		e.r.Count("sealed_api_calls_refused", 1)
	}
	for _, ev := range log {
		switch ev.Op {
		case "begin", "beginro", "rollback", "commit":
			continue
		}
		e.viol("sealed-op-reached-store", "%s: sealed barrier issued physical %s %s", who, ev.Op, ev.Key)
		return
	}
	if !b.Sealed() || raw.keyring != nil {
		e.viol("sealed-flag", "%s: barrier no longer sealed / keyring present after refused operations", who)
	}
}

// wrongUnseal: no wrong, truncated, stale or malformed key may unseal.
func (e *c10B) wrongUnseal(b SecurityBarrier, who string) {
	type cand struct {
		name string
		key  []byte
	}
	cs := []cand{{"random-32", e.rng.Bytes(32)}, {"random-16", e.rng.Bytes(16)}, {"empty", nil}}
	flip := append([]byte(nil), e.root...)
	flip[e.rng.Intn(len(flip))] ^= 1 << uint(e.rng.Intn(8))
	cs = append(cs, cand{"bit-flipped", flip})
	if len(e.root) == 32 {
		cs = append(cs, cand{"truncated-16", append([]byte(nil), e.root[:16]...)}, cand{"truncated-24", append([]byte(nil), e.root[:24]...)})
	}
	cs = append(cs, cand{"truncated-odd", append([]byte(nil), e.root[:len(e.root)-1]...)}, cand{"extended", append(append([]byte(nil), e.root...), 0)})
	if n := len(e.oldRoots); n > 0 {
		cs = append(cs, cand{"previous-root-key", append([]byte(nil), e.oldRoots[n-1]...)})
		if n > 1 {
			cs = append(cs, cand{"older-root-key", append([]byte(nil), e.oldRoots[e.rng.Intn(n-1)]...)})
		}
	}
	// quick subset per call, all kinds over a run
	pick := e.rng.Perm(len(cs))
	if len(pick) > 4 {
		pick = pick[:4]
	}
	for _, i := range pick {
		c := cs[i]
		if bytes.Equal(c.key, e.root) {
			continue
		}
		err := b.Unseal(c10Ctx, c.key)
		if err == nil || !b.Sealed() || c10Raw(b).keyring != nil {
			e.viol("wrong-key-unsealed", "%s: Unseal with %s key: err=%v sealed=%v keyring-present=%v", who, c.name, err, b.Sealed(), c10Raw(b).keyring != nil)
			return
		}
		e.r.Count("wrong_key_unseals_refused", 1)
		e.r.Count("wrong_key_kind:"+c.name, 1)
	}
	// the all-zero key (what a wiped key buffer holds) never opens anything; always tried, no PRNG draw
	for _, n := range []int{32, 16} {
		zero := make([]byte, n)
		err := b.Unseal(c10Ctx, zero)
		if err == nil || !b.Sealed() || c10Raw(b).keyring != nil {
			e.viol("all-zero-key-unsealed", "%s: Unseal with a %d-byte all-zero key: err=%v sealed=%v keyring-present=%v (the keyring in storage was written under a wiped root key)", who, n, err, b.Sealed(), c10Raw(b).keyring != nil)
			return
		}
		e.r.Count("wrong_key_unseals_refused", 1)
		e.r.Count("wrong_key_kind:all-zero", 1)
	}
	// the root key the last root-key rotation superseded: always tried as well
	if n := len(e.oldRoots); n > 0 && !bytes.Equal(e.oldRoots[n-1], e.root) {
		err := b.Unseal(c10Ctx, append([]byte(nil), e.oldRoots[n-1]...))
		if err == nil || !b.Sealed() || c10Raw(b).keyring != nil {
			e.viol("wrong-key-unsealed", "%s: Unseal with the superseded root key: err=%v sealed=%v keyring-present=%v", who, err, b.Sealed(), c10Raw(b).keyring != nil)
			return
		}
		e.r.Count("wrong_key_unseals_refused", 1)
		e.r.Count("superseded_root_key_refused", 1)
	}
}

// sealCheck seals b and checks that the key material it held is zeroised.
func (e *c10B) sealCheck(b SecurityBarrier, who string) {
	raw := c10Raw(b)
	kr := raw.keyring
	var bufs [][]byte
	if kr != nil {
		bufs = append(bufs, kr.rootKey)
		for _, k := range kr.keys {
			bufs = append(bufs, k.Value)
		}
	}
	if err := b.Seal(); err != nil {
		e.viol("seal-failed", "%s: Seal: %v", who, err)
		return
	}
	if b == e.p {
		e.txAfterSeal(who)
		if e.failed {
			return
		}
	}
	for _, buf := range bufs {
		if len(buf) > 0 && !c10AllZero(buf) {
			e.viol("key-material-survives-seal", "%s: a key buffer of the keyring held before Seal is not zeroised after Seal", who)
			return
		}
	}
	if len(bufs) > 0 {
		e.r.Count("zeroize_checks", 1)
	}
}

// ---------------------------------------------------------------- data oracle

// readAll: every live entry reads back with its value and keeps the term it was
// written under, deleted entries stay absent, listing equals the model.
func (e *c10B) readAll(b SecurityBarrier, who string) bool {
	var keys []string
	for k := range e.data {
		keys = append(keys, k)
	}
	sort.Strings(keys)
	for _, k := range keys {
		got, err := b.Get(c10Ctx, k)
		if err != nil {
			e.viol("entry-unreadable", "%s: Get(%s) (written under term %d, active term %d): %v", who, k, e.dterm[k], e.term, err)
			return false
		}
		if got == nil {
			e.viol("entry-lost", "%s: Get(%s) returned nothing, entry was written under term %d", who, k, e.dterm[k])
			return false
		}
		if !bytes.Equal(got.Value, e.data[k]) {
			e.viol("entry-corrupt", "%s: Get(%s) returned a different value", who, k)
			return false
		}
		e.r.Count("entries_read_back", 1)
		if e.dterm[k] < e.term {
			e.r.Count("entries_read_back_across_rotation", 1)
		}
		if t, _, ok := e.header(k); !ok || t != e.dterm[k] {
			e.viol("entry-term-changed", "%s: physical record of %s carries term %d, it was written under term %d", who, k, t, e.dterm[k])
			return false
		}
	}
	for k := range e.gone {
		if _, live := e.data[k]; live {
			continue
		}
		got, err := b.Get(c10Ctx, k)
		if err != nil || got != nil {
			e.viol("deleted-entry-returned", "%s: Get(%s) of a deleted entry: entry=%v err=%v", who, k, got != nil, err)
			return false
		}
	}
	// listing
	want := map[string]bool{}
	for _, k := range keys {
		rest := strings.TrimPrefix(k, e.meta+"d/")
		if i := strings.IndexByte(rest, '/'); i >= 0 {
			want[rest[:i+1]] = true
		} else {
			want[rest] = true
		}
	}
	names, err := b.List(c10Ctx, e.meta+"d/")
	if err != nil {
		e.viol("list-failed", "%s: List: %v", who, err)
		return false
	}
	got := map[string]bool{}
	for _, n := range names {
		got[n] = true
	}
	if len(got) != len(want) {
		e.viol("list-mismatch", "%s: List returned %v, model has %v", who, names, want)
		return false
	}
	for n := range want {
		if !got[n] {
			e.viol("list-mismatch", "%s: List misses %s", who, n)
			return false
		}
	}
	// in-memory ciphertexts of every earlier term still open
	for _, c := range e.cts {
		pt, err := b.Decrypt(c10Ctx, c.path, c.ct)
		if err != nil || !bytes.Equal(pt, c.pt) {
			e.viol("ciphertext-unreadable", "%s: Decrypt of a ciphertext made under term %d (active %d): %v", who, c.term, e.term, err)
			return false
		}
		e.r.Count("ciphertexts_reopened", 1)
	}
	if e.keyOps > 0 && len(keys) > 0 {
		e.readAfterKey++
	}
	return true
}

// unsealCheck unseals b with the currently valid root key and compares what it loaded.
func (e *c10B) unsealCheck(b SecurityBarrier, who string) bool {
	if err := b.Unseal(c10Ctx, append([]byte(nil), e.root...)); err != nil {
		e.viol("valid-key-refused", "%s: Unseal with the current root key failed: %v", who, err)
		return false
	}
	if b.Sealed() {
		e.viol("valid-key-refused", "%s: still sealed after Unseal with the current root key returned nil", who)
		return false
	}
	kr := c10Snap(c10Raw(b).keyring)
	if kr.Active != e.term {
		e.viol("active-term", "%s: after unseal the active term is %d, model (1 + completed rotations) says %d", who, kr.Active, e.term)
		return false
	}
	if !bytes.Equal(kr.Root, e.root) {
		e.viol("root-key-mismatch", "%s: keyring loaded at unseal does not carry the root key it was opened with", who)
		return false
	}
	if len(e.ref.Keys) > 0 {
		if d := kr.diff(e.ref); d != "" {
			e.viol("persisted-keyring-differs", "%s: keyring loaded from storage differs from the active node's: %s", who, d)
			return false
		}
	}
	e.r.Count("unseals_ok", 1)
	return true
}

// persisted: a node started from the store right now must come up with the
// current root key only and see everything.
func (e *c10B) persisted() {
	f := NewAESGCMBarrier(e.phys, e.ns)
	e.wrongUnseal(f, "fresh-node")
	if e.failed {
		return
	}
	if !e.unsealCheck(f, "fresh-node") {
		return
	}
	if !e.readAll(f, "fresh-node") {
		return
	}
	e.sealCheck(f, "fresh-node")
	e.r.Count("persisted_restart_checks", 1)
}

// ---------------------------------------------------------------- operations

func (e *c10B) opPut() {
	if e.otx != nil && e.rng.Chance(1, 2) {
		e.txPut()
		return
	}
	i := e.rng.Intn(9)
	k := e.key(i)
	val := e.rng.Bytes(e.rng.Intn(40))
	viaTx := false
	var err error
	if ts, ok := e.p.(logical.TransactionalStorage); ok && e.rng.Chance(1, 3) {
		viaTx = true
		var txn logical.Transaction
		txn, err = ts.BeginTx(c10Ctx)
		if err == nil {
			err = txn.Put(c10Ctx, &logical.StorageEntry{Key: k, Value: val})
			if err == nil {
				err = txn.Commit(c10Ctx)
			} else {
				_ = txn.Rollback(c10Ctx)
			}
		}
	} else {
		err = e.p.Put(c10Ctx, &logical.StorageEntry{Key: k, Value: val})
	}
	e.step("put", "put %s len=%d tx=%v", strings.TrimPrefix(k, e.meta), len(val), viaTx)
	if err != nil {
		e.viol("put-failed", "Put(%s) on an unsealed barrier: %v", k, err)
		return
	}
	e.data[k] = val
	e.dterm[k] = e.term
	delete(e.gone, k)
	t, ver, ok := e.header(k)
	if !ok || t != e.term {
		e.viol("new-write-old-term", "fresh Put(%s) carries term %d in its physical header, newest term is %d", k, t, e.term)
		return
	}
	if ver != AESGCMVersion2 {
		e.viol("new-write-version", "fresh Put(%s) carries version byte %d", k, ver)
		return
	}
	e.r.Count("fresh_put_term_checks", 1)
	if e.term > 1 {
		e.r.Count("fresh_put_term_checks_after_rotation", 1)
	}
}

// opTx works with a long-lived read-write transaction of the active node: open one, put through
// the open one, or commit it. A Put issued after a key operation returned must carry the newest
// term in the raw record once committed, no matter when the transaction was opened.
func (e *c10B) opTx() {
	ts, ok := e.p.(logical.TransactionalStorage)
	if !ok || e.sealed {
		e.opPut()
		return
	}
	if e.otx == nil {
		txn, err := ts.BeginTx(c10Ctx)
		e.step("tx-begin", "begin a read-write transaction (term %d)", e.term)
		if err != nil {
			e.viol("put-failed", "BeginTx on an unsealed barrier: %v", err)
			return
		}
		e.otx, e.otxOps, e.otxPuts = txn, 0, nil
		e.r.Count("transactions_opened", 1)
		return
	}
	if len(e.otxPuts) > 0 && e.rng.Chance(1, 2) {
		e.txCommit()
		return
	}
	e.txPut()
}

func (e *c10B) txPut() {
	e.ntx++
	k := fmt.Sprintf("%sd/tx%d", e.meta, e.ntx)
	val := e.rng.Bytes(1 + e.rng.Intn(30))
	err := e.otx.Put(c10Ctx, &logical.StorageEntry{Key: k, Value: val})
	e.step("tx-put", "put %s through the open transaction (%d key operation(s) returned since it was opened, newest term %d)", strings.TrimPrefix(k, e.meta), e.otxOps, e.term)
	if err != nil {
		e.viol("put-failed", "Put through an open transaction on an unsealed barrier: %v", err)
		return
	}
	e.otxPuts = append(e.otxPuts, c10TxPut{k, val, e.term, e.otxOps})
}

// txCommit commits the open transaction and looks at the raw records.
func (e *c10B) txCommit() {
	if e.otx == nil {
		return
	}
	txn, puts := e.otx, e.otxPuts
	e.otx, e.otxPuts = nil, nil
	if e.failed {
		_ = txn.Rollback(c10Ctx)
		return
	}
	err := txn.Commit(c10Ctx)
	e.step("tx-commit", "commit the open transaction (%d put(s)) err=%v", len(puts), err)
	if err != nil {
		if e.faultArmed || errors.Is(err, physical.ErrTransactionCommitFailure) || errors.Is(err, kit.ErrInjected) {
			e.r.Count("transactions_commit_refused", 1)
			return
		}
		e.viol("put-failed", "Commit of a transaction on an unsealed barrier: %v", err)
		return
	}
	e.r.Count("transactions_committed", 1)
	for _, p := range puts {
		t, _, ok := e.header(p.key)
		if !ok {
			e.viol("entry-lost", "committed transactional Put(%s) left no record", p.key)
			return
		}
		e.data[p.key], e.dterm[p.key] = p.val, t
		delete(e.gone, p.key)
		if t != p.term {
			if p.keyOps > 0 && t < p.term {
				e.viol("transactional-write-after-rotation-under-older-term", "Put(%s) was issued through a transaction opened earlier, after %d key operation(s) had returned and the newest term was %d; the committed raw record carries term %d", strings.TrimPrefix(p.key, e.meta), p.keyOps, p.term, t)
			} else {
				e.viol("new-write-old-term", "transactional Put(%s) carries term %d in its physical header, newest term at the time of the Put was %d", p.key, t, p.term)
			}
			return
		}
		e.r.Count("transactional_put_term_checks", 1)
		if p.keyOps > 0 {
			e.r.Count("transactional_put_term_checks_after_key_operation_in_an_older_transaction", 1)
		}
	}
}

// txAfterSeal: a transaction opened before the Seal must be refused everything afterwards.
func (e *c10B) txAfterSeal(who string) {
	if e.otx == nil {
		return
	}
	txn := e.otx
	e.otx, e.otxPuts = nil, nil
	defer func() { _ = txn.Rollback(c10Ctx) }()
	probe := e.meta + "d/none"
	for k := range e.data {
		probe = k
		break
	}
	type res struct {
		op  string
		err error
	}
	var out []res
	err := txn.Put(c10Ctx, &logical.StorageEntry{Key: e.meta + "d/sealed-tx-probe", Value: []byte("x")})
	out = append(out, res{"tx.put", err})
	_, err = txn.Get(c10Ctx, probe)
	out = append(out, res{"tx.get", err})
	err = txn.Delete(c10Ctx, probe)
	out = append(out, res{"tx.delete", err})
	_, err = txn.List(c10Ctx, e.meta+"d/")
	out = append(out, res{"tx.list", err})
	_, err = txn.ListPage(c10Ctx, e.meta+"d/", "", 10)
	out = append(out, res{"tx.listpage", err})
	for _, o := range out {
		if o.err == nil {
			e.viol("sealed-op-served", "%s: %s through a transaction opened before the Seal succeeded on the sealed barrier", who, o.op)
			return
		}
		e.r.Count("sealed_api_calls_refused", 1)
		e.r.Count("operations_of_a_transaction_opened_before_seal_refused", 1)
	}
}

func (e *c10B) opDelete() {
	var keys []string
	for k := range e.data {
		keys = append(keys, k)
	}
	if len(keys) == 0 {
		return
	}
	sort.Strings(keys)
	k := kit.Pick(e.rng, keys)
	e.step("delete", "delete %s", strings.TrimPrefix(k, e.meta))
	if err := e.p.Delete(c10Ctx, k); err != nil {
		e.viol("delete-failed", "Delete(%s): %v", k, err)
		return
	}
	delete(e.data, k)
	delete(e.dterm, k)
	e.gone[k] = true
}

func (e *c10B) opEncrypt() {
	path := fmt.Sprintf("c10/enc/%d", e.rng.Intn(4))
	pt := e.rng.Bytes(1 + e.rng.Intn(30))
	ct, err := e.p.Encrypt(c10Ctx, path, pt)
	e.step("encrypt", "encrypt %s", path)
	if err != nil || len(ct) < 5 {
		e.viol("encrypt-failed", "Encrypt: %v", err)
		return
	}
	if t := binary.BigEndian.Uint32(ct[:4]); t != e.term {
		e.viol("new-write-old-term", "fresh Encrypt output carries term %d, newest term is %d", t, e.term)
		return
	}
	e.cts = append(e.cts, c10CT{path, pt, ct, e.term})
	if len(e.cts) > 6 {
		e.cts = e.cts[1:]
	}
}

func (e *c10B) opRotate(ha bool) {
	nt, err := e.p.Rotate(c10Ctx)
	e.step("rotate", "rotate ha=%v -> term %d err=%v", ha, nt, err)
	if e.tolerate(err) {
		return
	}
	if err != nil {
		e.viol("rotate-failed", "Rotate on an unsealed barrier: %v", err)
		return
	}
	if nt != e.term+1 {
		e.viol("active-term", "Rotate returned term %d, expected %d", nt, e.term+1)
		return
	}
	e.term = nt
	e.keyOps++
	e.otxOps++
	e.half = false
	e.ref = c10Snap(c10Raw(e.p).keyring)
	e.r.Count("rotations", 1)
	if ha {
		e.createUpgrade(nt)
	}
}

// opRotateDeferred: Rotate now, CreateUpgrade later (the product issues them as two separate
// barrier calls; another rotation can complete in between).
func (e *c10B) opRotateDeferred() {
	before := e.term
	e.opRotate(false)
	if !e.failed && e.term == before+1 {
		e.pendUp = append(e.pendUp, e.term)
		e.r.Count("rotations_with_the_upgrade_entry_written_later", 1)
	}
}

// opCreateUpgrade writes the upgrade entry of one rotation that still lacks it: the oldest, or any.
func (e *c10B) opCreateUpgrade() {
	if len(e.pendUp) == 0 || e.sealed {
		return
	}
	i := 0
	if e.rng.Chance(1, 2) {
		i = e.rng.Intn(len(e.pendUp))
	}
	t := e.pendUp[i]
	e.pendUp = append(e.pendUp[:i], e.pendUp[i+1:]...)
	if t < e.term {
		e.r.Count("upgrade_entries_written_after_a_later_rotation", 1)
	}
	if i > 0 {
		e.r.Count("upgrade_entries_written_out_of_order", 1)
	}
	e.createUpgrade(t)
}

// createUpgrade = CreateUpgrade(t) on the active node, then the entry itself is looked at: the
// record core/upgrade/<t-1> is sealed under term t-1 and holds exactly the key of term t.
func (e *c10B) createUpgrade(t uint32) {
	err := e.p.CreateUpgrade(c10Ctx, t)
	if t != e.term {
		e.step("create-upgrade", "create-upgrade to term %d (active term %d) err=%v", t, e.term, err)
	}
	if err != nil {
		if e.tolerate(err) {
			return
		}
		e.viol("create-upgrade-failed", "CreateUpgrade(%d): %v", t, err)
		return
	}
	e.upgrades[t-1] = true
	path := fmt.Sprintf("%s%s%d", e.meta, KeyringUpgradePrefix, t-1)
	pe, gerr := e.probe.Inner().Get(c10Ctx, path)
	if gerr != nil || pe == nil || len(pe.Value) < 5 {
		e.viol("upgrade-entry-missing", "CreateUpgrade(%d) returned nil but %s is not in storage (%v)", t, path, gerr)
		return
	}
	if ht := binary.BigEndian.Uint32(pe.Value[:4]); ht != t-1 {
		e.viol("upgrade-entry-holds-another-terms-key", "the upgrade entry %s is sealed under term %d; a standby at term %d cannot open it", path, ht, t-1)
		return
	}
	plain, derr := e.p.Decrypt(c10Ctx, path, pe.Value)
	if derr != nil {
		e.viol("upgrade-entry-holds-another-terms-key", "the upgrade entry %s does not open under term %d: %v", path, t-1, derr)
		return
	}
	key, kerr := DeserializeKey(plain)
	want := c10Raw(e.p).keyring.TermKey(t)
	if kerr != nil || key == nil || want == nil {
		e.viol("upgrade-entry-holds-another-terms-key", "the upgrade entry %s does not hold a key (%v)", path, kerr)
		return
	}
	if key.Term != t || !bytes.Equal(key.Value, want.Value) {
		e.viol("upgrade-entry-holds-another-terms-key", "the upgrade entry %s (the step from term %d to term %d) holds the key of term %d (bytes equal to the active node's key of term %d: %v); the active term was %d when CreateUpgrade(%d) ran", path, t-1, t, key.Term, t, bytes.Equal(key.Value, want.Value), e.term, t)
		return
	}
	e.r.Count("upgrade_entries_compared_with_the_term_key", 1)
}

func (e *c10B) opRotateRoot() {
	// invalid sizes must be refused and change nothing
	if e.rng.Chance(1, 4) {
		bad := e.rng.Bytes([]int{0, 8, 15, 33, 64}[e.rng.Intn(5)])
		if err := e.p.RotateRootKey(c10Ctx, bad); err == nil {
			e.step("rotate-root", "rotate-root with a %d-byte key accepted", len(bad))
			e.viol("bad-root-key-accepted", "RotateRootKey accepted a %d-byte key", len(bad))
			return
		}
	}
	n := 32
	if e.rng.Chance(1, 5) {
		n = 16
	}
	nk := e.rng.Bytes(n)
	e.newRootTry = nk
	err := e.p.RotateRootKey(c10Ctx, append([]byte(nil), nk...))
	e.step("rotate-root", "rotate-root len=%d err=%v", n, err)
	if e.tolerate(err) {
		return
	}
	if err != nil {
		e.viol("rotate-root-failed", "RotateRootKey on an unsealed barrier: %v", err)
		return
	}
	e.oldRoots = append(e.oldRoots, e.root)
	e.root = nk
	e.half = false
	e.keyOps++
	e.otxOps++
	e.ref = c10Snap(c10Raw(e.p).keyring)
	e.r.Count("root_rotations", 1)
	if err := e.p.VerifyRoot(nk); err != nil {
		e.viol("root-key-mismatch", "VerifyRoot(new key) after RotateRootKey: %v", err)
		return
	}
	if err := e.p.VerifyRoot(e.oldRoots[len(e.oldRoots)-1]); err == nil {
		e.viol("root-key-mismatch", "VerifyRoot(old key) still succeeds after RotateRootKey")
	}
}

func (e *c10B) opReload() {
	before := c10Snap(c10Raw(e.p).keyring)
	err := e.p.ReloadRootKey(c10Ctx)
	if err == nil {
		err = e.p.ReloadKeyring(c10Ctx)
	}
	e.step("reload", "reload err=%v", err)
	if e.tolerate(err) {
		return
	}
	if err != nil && e.half {
		e.r.Count("observation_reload_refused_after_half_persisted_key_operation", 1)
		e.bounce("reload refused on a half-persisted store")
		return
	}
	if err != nil {
		e.viol("reload-failed", "ReloadRootKey/ReloadKeyring on the active node: %v", err)
		return
	}
	after := c10Snap(c10Raw(e.p).keyring)
	if d := before.diff(after); d != "" {
		e.viol("reload-changed-keyring", "reloading the keyring the node itself persisted changed it: %s", d)
		return
	}
	e.ref = after
	e.otxOps++
	e.r.Count("reloads", 1)
}

func (e *c10B) opPersistOnly() {
	if e.rng.Chance(1, 2) {
		e.persistOnly("set-rotation-config")
	} else {
		e.persistOnly("auto-rotate-check")
	}
}

func (e *c10B) persistOnly(what string) {
	var err error
	if what == "set-rotation-config" {
		err = e.p.SetRotationConfig(c10Ctx, KeyRotationConfig{MaxOperations: AbsoluteOperationMinimum + int64(e.rng.Intn(1000)), Interval: 48 * time.Hour})
	} else {
		_, err = e.p.CheckBarrierAutoRotate(c10Ctx)
	}
	e.step("persist", "%s err=%v", what, err)
	if e.tolerate(err) {
		return
	}
	if err != nil {
		e.viol("persist-keyring-failed", "%s: %v", what, err)
		return
	}
	if d := c10Snap(c10Raw(e.p).keyring).diff(e.ref); len(e.ref.Keys) > 0 && d != "" {
		e.viol("persist-changed-keys", "%s changed key material: %s", what, d)
	}
	if what == "set-rotation-config" {
		e.half = false
	}
	e.r.Count("persist_only_ops", 1)
}

func (e *c10B) opSeal() {
	e.step("seal", "seal")
	e.sealCheck(e.p, "active")
	e.sealed = true
	e.r.Count("seals", 1)
	if !e.failed {
		e.sealedSweep(e.p, "active")
	}
}

func (e *c10B) opUnseal() {
	e.wrongUnseal(e.p, "active")
	if e.failed {
		return
	}
	if e.rng.Chance(1, 2) {
		e.sealedSweep(e.p, "active")
		if e.failed {
			return
		}
	}
	e.step("unseal", "unseal (after refused wrong keys)")
	if !e.unsealCheck(e.p, "active") {
		return
	}
	e.sealed = false
	e.ref = c10Snap(c10Raw(e.p).keyring)
	e.readAll(e.p, "active after unseal")
}

func (e *c10B) opRestart() {
	e.step("restart", "restart (new barrier instance on the same store)")
	if !e.sealed {
		e.sealCheck(e.p, "active")
	}
	e.p = NewAESGCMBarrier(e.phys, e.ns)
	e.sealed = true
	e.sealedSweep(e.p, "restarted")
	if e.failed {
		return
	}
	e.opUnseal()
	e.r.Count("restarts", 1)
}

func (e *c10B) pathIntact() bool {
	for t := e.sTerm; t < e.term; t++ {
		if !e.upgrades[t] {
			return false
		}
	}
	return true
}

func (e *c10B) opStandby() { e.opStandbyX(false) }

// activeKR is the key material of the active node: live when it is unsealed, otherwise as it
// was after its last key operation.
func (e *c10B) activeKR() c10KR {
	if !e.sealed {
		return c10Snap(c10Raw(e.p).keyring)
	}
	return e.ref
}

// sbUnseal starts the standby (a second instance on the same store) or unseals it again.
func (e *c10B) sbUnseal() bool {
	if e.s == nil {
		e.s = NewAESGCMBarrier(e.phys, e.ns)
		e.sSealed = true
	}
	if !e.sSealed {
		return true
	}
	if e.rng.Chance(1, 2) {
		e.sealedSweep(e.s, "standby")
		if e.failed {
			return false
		}
	}
	e.wrongUnseal(e.s, "standby")
	if e.failed {
		return false
	}
	e.step("standby-unseal", "standby unseal")
	if !e.unsealCheck(e.s, "standby") {
		return false
	}
	e.sSealed = false
	e.sTerm = e.term
	e.sBase = e.term
	e.sRoot = append([]byte(nil), e.root...)
	e.readAll(e.s, "standby after unseal")
	return !e.failed
}

// sbRead: the standby serves reads at every point of its life (a read-enabled standby does, and so
// does the node that just stepped down). An entry or ciphertext whose term the standby's keyring
// holds must read back with its value - through Get, through a read-only transaction where the
// store has them, through Decrypt; listing needs no key at all. An entry of a term the standby has
// not installed yet cannot be opened: that failure is legitimate and only counted, but it must not
// leave anything behind that makes the entry unreadable once the term has arrived.
func (e *c10B) sbRead(when string) {
	if e.s == nil || e.sSealed || e.failed || e.s.Sealed() {
		return
	}
	kr := c10Raw(e.s).keyring
	if kr == nil {
		return
	}
	has := func(t uint32) bool { return kr.keys[t] != nil }
	var keys []string
	for k := range e.data {
		keys = append(keys, k)
	}
	sort.Strings(keys)
	var txn logical.Transaction
	if ts, ok := e.s.(logical.TransactionalStorage); ok {
		if t, err := ts.BeginReadOnlyTx(c10Ctx); err == nil {
			txn = t
			defer func() { _ = txn.Rollback(c10Ctx) }()
		}
	}
	e.r.Count("standby_read_sweeps", 1)
	for i, k := range keys {
		t := e.dterm[k]
		var got *logical.StorageEntry
		var err error
		via := "Get"
		if txn != nil && i%2 == 1 {
			via = "read-only transaction Get"
			got, err = txn.Get(c10Ctx, k)
		} else {
			got, err = e.s.Get(c10Ctx, k)
		}
		if has(t) {
			if err != nil || got == nil || !bytes.Equal(got.Value, e.data[k]) {
				e.viol("standby-entry-unreadable-although-keyring-has-its-term", "standby %s: %s(%s) err=%v found=%v; the entry was written under term %d and the standby's keyring holds that term (standby keyring %s, loaded terms up to %d from storage, later ones by the upgrade path)", when, via, strings.TrimPrefix(k, e.meta), err, got != nil, t, c10Snap(kr), e.sBase)
				return
			}
			e.r.Count("standby_reads_ok", 1)
			if t > e.sBase {
				e.r.Count("standby_rereads_ok_of_terms_installed_by_the_upgrade_path", 1)
			}
			continue
		}
		if err == nil && got != nil {
			e.viol("standby-read-answered-without-the-term-key", "standby %s: %s(%s) returned an entry of term %d although its keyring holds no key for that term", when, via, k, t)
			return
		}
		e.r.Count("standby_reads_while_behind_failed_legitimately", 1)
	}
	for _, c := range e.cts {
		pt, err := e.s.Decrypt(c10Ctx, c.path, c.ct)
		if has(c.term) {
			if err != nil || !bytes.Equal(pt, c.pt) {
				e.viol("standby-entry-unreadable-although-keyring-has-its-term", "standby %s: Decrypt of a ciphertext the active node made under term %d: %v; the standby's keyring holds that term (standby keyring %s)", when, c.term, err, c10Snap(kr))
				return
			}
			e.r.Count("standby_decrypts_ok", 1)
			if c.term > e.sBase {
				e.r.Count("standby_rereads_ok_of_terms_installed_by_the_upgrade_path", 1)
			}
		} else if err == nil {
			e.viol("standby-read-answered-without-the-term-key", "standby %s: Decrypt of a term-%d ciphertext succeeded without a key for that term", when, c.term)
			return
		} else {
			e.r.Count("standby_reads_while_behind_failed_legitimately", 1)
		}
	}
	if _, err := e.s.List(c10Ctx, e.meta+"d/"); err != nil {
		e.viol("list-failed", "standby %s: List: %v", when, err)
	}
}

// sbCompare looks at the standby directly after ONE step of the upgrade path (one CheckUpgrade
// that installed a term, a ReloadRootKey, a ReloadKeyring): the step must not have touched the
// root key the standby holds (model: the one it was unsealed with or last reloaded), every term
// key it holds must be the active node's key of that term, the terms must be gap-free, the
// standby must still recognise its root key through the API, and - once it is level with the
// active node and holds the current root key (always after a keyring reload: mustFull) - the two
// keyrings must be identical field by field.
func (e *c10B) sbCompare(stepName string, mustFull bool) {
	raw := c10Raw(e.s)
	if raw.keyring == nil {
		e.violS("standby-keyring-differs-from-active", "standby after %s: no keyring although unsealed", stepName)
		return
	}
	got := c10Snap(raw.keyring)
	want := e.activeKR()
	e.r.Count("standby_steps_compared", 1)
	e.r.Count("standby_steps_compared:"+stepName, 1)
	rootOK := bytes.Equal(got.Root, e.sRoot)
	if !rootOK {
		if len(got.Root) > 0 && c10AllZero(got.Root) {
			e.violS("standby-root-key-zeroed", "standby after %s (now at term %d): the root key in its keyring is %d zero bytes; before the step it held the root key it was unsealed with (active node: %s, standby: %s)", stepName, got.Active, len(got.Root), want, got)
		} else {
			e.violS("standby-keyring-differs-from-active", "standby after %s (now at term %d): the step changed the root key in its keyring to one that is neither the key it held nor all-zero (active node: %s, standby: %s)", stepName, got.Active, want, got)
		}
		if e.failed {
			return
		}
	}
	var ts []int
	for t := range got.Keys {
		ts = append(ts, int(t))
	}
	sort.Ints(ts)
	if len(want.Keys) > 0 {
		for _, ti := range ts {
			t := uint32(ti)
			w, ok := want.Keys[t]
			if !ok {
				e.violS("standby-keyring-differs-from-active", "standby after %s holds a key for term %d, the active node has none (active node: %s, standby: %s)", stepName, t, want, got)
				return
			}
			if !bytes.Equal(w, got.Keys[t]) {
				e.violS("standby-keyring-differs-from-active", "standby after %s: key bytes of term %d differ from the active node's (active node: %s, standby: %s)", stepName, t, want, got)
				return
			}
			if len(w) > 0 && c10AllZero(w) {
				e.violS("standby-keyring-differs-from-active", "standby after %s: key of term %d is all-zero", stepName, t)
				return
			}
		}
	}
	for t := uint32(1); t <= got.Active; t++ {
		if _, ok := got.Keys[t]; !ok {
			e.violS("standby-keyring-differs-from-active", "standby after %s: active term %d but no key for term %d", stepName, got.Active, t)
			return
		}
	}
	// the same through the exported API
	if rootOK {
		if err := e.s.VerifyRoot(append([]byte(nil), e.sRoot...)); err != nil {
			e.violS("standby-verify-root-failed", "standby after %s: VerifyRoot(the root key it holds): %v", stepName, err)
			return
		}
		e.r.Count("standby_verify_root_ok", 1)
	}
	if err := e.s.VerifyRoot(make([]byte, len(e.sRoot))); err == nil {
		e.violS("standby-root-key-zeroed", "standby after %s: VerifyRoot(all-zero key) succeeds", stepName)
		return
	}
	if kr, err := e.s.Keyring(); err != nil || kr == nil {
		e.violS("standby-keyring-differs-from-active", "standby after %s: Keyring(): %v", stepName, err)
		return
	} else if rootOK && (!bytes.Equal(kr.RootKey(), e.sRoot) || kr.ActiveTerm() != got.Active) {
		e.violS("standby-keyring-differs-from-active", "standby after %s: Keyring() disagrees with the barrier's keyring", stepName)
		return
	}
	level := got.Active == e.term && bytes.Equal(e.sRoot, e.root)
	if mustFull && !level {
		e.violS("standby-keyring-differs-from-active", "standby after %s ends at term %d (model %d), holds the current root key: %v", stepName, got.Active, e.term, bytes.Equal(e.sRoot, e.root))
		return
	}
	if level && rootOK && len(want.Keys) > 0 {
		if d := got.diff(want); d != "" {
			e.violS("standby-keyring-differs-from-active", "standby after %s is level with the active node (term %d, current root key) but the keyrings differ: %s (active node: %s, standby: %s)", stepName, e.term, d, want, got)
			return
		}
		e.r.Count("standby_steps_compared_field_by_field_equal", 1)
	}
}

// sbFollow lets the unsealed standby follow the upgrade path the way the code does it:
//
//	"reload":       ha.go performKeyUpgrades = CheckUpgrade until nothing is left, ReloadRootKey, ReloadKeyring
//	"upgrade-only": ha.go periodic check / invalidation.go keyringTermInvalidation = CheckUpgrade
//	                until nothing is left (plus ReloadRootKey when the model says the root key
//	                was rotated since the standby last read it)
//
// with a comparison after every single step. Reports whether the standby is level afterwards.
func (e *c10B) sbFollow(style string) bool {
	intact := e.pathIntact()
	behind := e.term - e.sTerm
	rootStale := !bytes.Equal(e.sRoot, e.root)
	e.sbRead("before it follows the upgrade path")
	if e.failed {
		return false
	}
	var err error
	upgraded := 0
	for i := 0; i < 64; i++ {
		var did bool
		var nt uint32
		did, nt, err = e.s.CheckUpgrade(c10Ctx)
		if err != nil || !did {
			break
		}
		upgraded++
		e.step("standby-upgrade", "standby check-upgrade -> term %d", nt)
		if nt != e.sTerm+1 {
			e.viol("standby-upgrade-term", "CheckUpgrade installed term %d, expected %d", nt, e.sTerm+1)
			return false
		}
		e.sTerm = nt
		e.r.Count("standby_upgrade_steps", 1)
		e.sbCompare("check-upgrade", false)
		if e.failed {
			return false
		}
		e.sbRead(fmt.Sprintf("after CheckUpgrade installed term %d", nt))
		if e.failed {
			return false
		}
	}
	reloadedRoot, reloadedRing := false, false
	if err == nil && (style == "reload" || rootStale) {
		err = e.s.ReloadRootKey(c10Ctx)
		if err == nil {
			reloadedRoot = true
			if e.half {
				// the root-key record and the keyring may disagree after a half-persisted key
				// operation; whatever the standby holds now is judged by the keyring reload
				e.sRoot = append([]byte(nil), c10Raw(e.s).keyring.rootKey...)
			} else {
				e.sRoot = append([]byte(nil), e.root...)
				e.sbCompare("reload-root-key", false)
				if e.failed {
					return false
				}
				e.sbRead("after ReloadRootKey")
				if e.failed {
					return false
				}
			}
		}
	}
	if err == nil && style == "reload" {
		err = e.s.ReloadKeyring(c10Ctx)
		reloadedRing = err == nil
	}
	e.step("standby-follow", "standby follow (%s) behind=%d root-stale=%v path-intact=%v upgraded=%d reload-root=%v reload-keyring=%v err=%v", style, behind, rootStale, intact, upgraded, reloadedRoot, reloadedRing, err)
	if err != nil && e.half {
		e.r.Count("observation_reload_refused_after_half_persisted_key_operation", 1)
		e.sealCheck(e.s, "standby")
		e.sSealed = true
		return false
	}
	if err != nil {
		if intact {
			e.viol("standby-follow-failed", "standby %d term(s) behind (root key stale=%v) with every upgrade entry present cannot follow (%s): %v", behind, rootStale, style, err)
			return false
		}
		// upgrade entries were destroyed before it looked: the real node shuts down and is unsealed again
		e.r.Count("standby_follow_refused_path_broken", 1)
		e.sealCheck(e.s, "standby")
		e.sSealed = true
		return false
	}
	if intact && upgraded != int(behind) {
		e.viol("standby-follow-failed", "standby %d term(s) behind installed %d upgrade(s)", behind, upgraded)
		return false
	}
	if style != "reload" {
		if e.sTerm != e.term {
			e.r.Count("standby_upgrade_only_follows_still_behind_path_broken", 1)
			return false
		}
		e.r.Count("standby_upgrade_only_follows_ok", 1)
		if behind > 0 {
			e.r.Count("standby_upgrade_only_follows_ok_behind", 1)
		}
		e.readAll(e.s, "standby after check-upgrade")
		return !e.failed
	}
	got := c10Snap(c10Raw(e.s).keyring)
	want := e.activeKR()
	if got.Active != e.term || !bytes.Equal(got.Root, e.root) {
		if len(got.Root) > 0 && c10AllZero(got.Root) {
			e.violS("standby-root-key-zeroed", "standby followed (%s) without error but the root key in its keyring is all-zero", style)
		} else {
			e.viol("standby-keyring-differs", "standby (was %d term(s) behind, root stale=%v) followed without error but ends at term %d (model %d), root key current=%v", behind, rootStale, got.Active, e.term, bytes.Equal(got.Root, e.root))
		}
		if e.failed {
			return false
		}
	}
	if d := got.diff(want); len(want.Keys) > 0 && d != "" {
		e.viol("standby-keyring-differs", "standby (was %d term(s) behind, root stale=%v) followed without error but its keyring differs from the active node's: %s (standby %s, active %s)", behind, rootStale, d, got, want)
		return false
	}
	e.sTerm = e.term
	e.sBase = e.term
	e.sRoot = append([]byte(nil), e.root...)
	e.sbCompare("reload-keyring", true)
	if e.failed {
		return false
	}
	e.r.Count("standby_follows_ok", 1)
	if behind > 0 {
		e.r.Count("standby_follows_ok_behind", 1)
	}
	if rootStale {
		e.r.Count("standby_follows_ok_root_stale", 1)
	}
	if behind > 0 && rootStale {
		e.r.Count("standby_follows_ok_behind_and_root_stale", 1)
	}
	e.readAll(e.s, "standby after follow")
	return !e.failed
}

var c10PromoteKeyOps = []string{"rotate", "rotate", "set-rotation-config", "auto-rotate-check", "rotate-root"}

// opPromote: the standby follows the upgrade path and then ACTS AS THE ACTIVE NODE (fail-over):
// it writes, persists the keyring (rotation / rotation config / encryption count / root-key
// rotation) and writes again; the old active node steps down (keeps running as the new standby)
// or is gone (sealed). Then every instance is sealed and a fresh instance must open with the
// currently valid root key only - not with the all-zero key, not with a superseded one - and
// read every entry either instance ever wrote.
func (e *c10B) opPromote(style, keyOp string) {
	if e.failed || e.s == nil || e.sSealed || e.half {
		return
	}
	if !e.sealed {
		e.txCommit()
		if e.failed {
			return
		}
	}
	if style == "upgrade-only" && !e.pathIntact() {
		style = "reload"
	}
	if !e.sbFollow(style) || e.failed || e.sSealed || e.sTerm != e.term || !bytes.Equal(e.sRoot, e.root) {
		e.r.Count("promotions_not_possible_standby_not_level", 1)
		return
	}
	stays := !e.sealed && e.rng.Chance(1, 2)
	if !e.sealed && !stays {
		e.sealCheck(e.p, "active (going away)")
		if e.failed {
			return
		}
	}
	e.step("promote", "standby promoted after %s follow; old active node %s; first keyring persist by the promoted node: %s", style, map[bool]string{true: "steps down and keeps running as standby", false: "is sealed"}[stays], keyOp)
	e.p, e.s = e.s, e.p
	e.sealed, e.sSealed = false, !stays
	e.sTerm = e.term
	e.sBase = e.term
	e.sRoot = append([]byte(nil), e.root...)
	e.ref = c10Snap(c10Raw(e.p).keyring)
	e.r.Count("promotions", 1)
	e.r.Count("promotions:"+style, 1)
	e.r.Count("promotions_then:"+keyOp, 1)
	e.opPut()
	if e.failed {
		return
	}
	switch keyOp {
	case "rotate":
		e.opRotate(true)
	case "rotate-root":
		e.opRotateRoot()
	default:
		e.persistOnly(keyOp)
	}
	if e.failed {
		return
	}
	e.opPut()
	if e.failed || !e.readAll(e.p, "promoted standby") {
		return
	}
	if !e.sSealed {
		// the node that stepped down follows the node that took over
		e.sbFollow(kit.Pick(e.rng, []string{"reload", "upgrade-only"}))
		if e.failed {
			return
		}
	}
	if !e.sSealed {
		e.sealCheck(e.s, "standby (stepped-down node)")
		e.sSealed = true
	}
	e.step("seal", "seal every instance after the promotion")
	e.sealCheck(e.p, "promoted standby")
	e.sealed = true
	if e.failed {
		return
	}
	before := e.r.Get("persisted_restart_checks")
	e.persisted()
	if e.r.Get("persisted_restart_checks") > before {
		e.r.Count("fresh_instance_unseals_after_promotion", 1)
		if len(e.oldRoots) > 0 {
			e.r.Count("fresh_instance_unseals_after_promotion_with_superseded_root_keys", 1)
		}
	}
}

func (e *c10B) opStandbyX(followOnly bool) {
	if e.s == nil || e.sSealed {
		e.sbUnseal()
		return
	}
	switch x := e.rng.Intn(8); {
	case x == 0 && !followOnly:
		e.step("standby-seal", "standby seal")
		e.sealCheck(e.s, "standby")
		e.sSealed = true
	case x <= 2 && !followOnly && !e.half:
		e.opPromote(kit.Pick(e.rng, []string{"reload", "upgrade-only"}), kit.Pick(e.rng, c10PromoteKeyOps))
	case x == 3:
		e.sbFollow("upgrade-only")
	case x == 4:
		e.step("standby-read", "standby serves reads (%d term(s) behind)", e.term-e.sTerm)
		e.sbRead("serving reads")
	default:
		e.sbFollow("reload")
	}
}

func (e *c10B) opDestroyUpgrade() {
	var ts []int
	for t := range e.upgrades {
		ts = append(ts, int(t))
	}
	if len(ts) == 0 {
		return
	}
	sort.Ints(ts)
	t := uint32(kit.Pick(e.rng, ts))
	err := e.p.DestroyUpgrade(c10Ctx, t+1)
	e.step("destroy-upgrade", "destroy-upgrade to term %d err=%v", t+1, err)
	if err != nil {
		e.viol("destroy-upgrade-failed", "DestroyUpgrade(%d): %v", t+1, err)
		return
	}
	delete(e.upgrades, t)
}

// run executes n random operations.
func (e *c10B) run(n int) {
	for i := 0; i < n && !e.failed; i++ {
		e.r.Count("ops", 1)
		// the standby serves reads between any two operations of the active node
		e.sbRead("serving reads between two operations of the active node")
		if e.failed {
			return
		}
		if e.sealed {
			switch x := e.rng.Intn(10); {
			case x < 6:
				e.opUnseal()
			case x < 7:
				e.opRestart()
			case x < 8:
				e.step("sealed-sweep", "sealed sweep")
				e.sealedSweep(e.p, "active")
			default:
				e.opStandby()
			}
			continue
		}
		switch x := e.rng.Intn(100); {
		case x < 18:
			e.opPut()
		case x < 26:
			e.opTx()
		case x < 32:
			e.opDelete()
		case x < 38:
			e.opEncrypt()
		case x < 47:
			switch y := e.rng.Intn(5); {
			case y == 0:
				e.opRotate(false)
			case y <= 2:
				e.opRotate(true)
			default:
				e.opRotateDeferred()
			}
		case x < 50:
			if len(e.pendUp) > 0 {
				e.opCreateUpgrade()
			} else {
				e.opRotateDeferred()
			}
		case x < 58:
			e.opRotateRoot()
		case x < 62:
			e.opReload()
		case x < 66:
			e.opPersistOnly()
		case x < 74:
			e.opSeal()
		case x < 78:
			e.opRestart()
		case x < 81:
			e.opDestroyUpgrade()
		case x < 84:
			e.step("read", "read all")
			e.readAll(e.p, "active")
		case x < 90:
			e.opFaulted(kit.Pick(e.rng, c10FaultKinds), 1+e.rng.Intn(4))
		default:
			e.opStandby()
		}
	}
}

// bounce seals and unseals the active node (what a node does after it shut itself down).
func (e *c10B) bounce(why string) {
	e.sealCheck(e.p, "active")
	e.sealed = true
	e.step("unseal", "bounce the active node: %s", why)
	if !e.unsealCheck(e.p, "active ("+why+")") {
		return
	}
	e.sealed = false
	e.ref = c10Snap(c10Raw(e.p).keyring)
	e.readAll(e.p, "active ("+why+")")
}

// ---------------------------------------------------------------- single storage fault inside a key operation

var c10FaultKinds = []string{"rotate", "rotate+create-upgrade", "rotate-root-key", "reload", "set-rotation-config", "auto-rotate-check"}

// opFaulted runs one key operation while the k-th storage operation it issues
// fails once. The operation may then report an error; the process survives and
// keeps taking writes. Whatever it writes afterwards must be readable on a
// fresh node and after seal+unseal, under a term the persisted keyring holds.
func (e *c10B) opFaulted(kind string, k int) {
	if e.sealed || e.failed {
		return
	}
	oldRoot := append([]byte(nil), e.root...)
	oldTerm := e.term
	e.faultArmed, e.opErr, e.newRootTry = true, nil, nil
	e.probe.FailNth(func(kit.Event) bool { return true }, k)
	e.step("fault", "next key operation (%s) runs with its storage operation #%d failing once", kind, k)
	switch kind {
	case "rotate":
		e.opRotate(false)
	case "rotate+create-upgrade":
		e.opRotate(true)
	case "rotate-root-key":
		e.opRotateRoot()
	case "reload":
		e.opReload()
	case "set-rotation-config", "auto-rotate-check":
		e.opPersistOnly()
	}
	fired := e.probe.ClearFaults()
	e.faultArmed = false
	err := e.opErr
	e.opErr = nil
	if e.failed {
		return
	}
	if fired == 0 {
		e.r.Count("faults_not_reached", 1)
		if err != nil && e.half && kind == "reload" {
			e.r.Count("observation_reload_refused_after_half_persisted_key_operation", 1)
			e.bounce("reload refused on a half-persisted store")
		} else if err != nil {
			e.viol("key-op-failed", "%s failed although the injected fault was never reached: %v", kind, err)
		}
		return
	}
	e.r.Count("faults_fired", 1)
	e.r.Count("faults_fired:"+kind, 1)
	if err == nil {
		e.r.Count("faults_fired_operation_reported_success", 1)
		return // the ordinary oracles judge what follows
	}
	e.r.Count("key_operations_failed_by_fault", 1)
	e.r.Count("key_operations_failed_by_fault:"+kind, 1)
	e.keyOps++
	e.half = true
	// other nodes are bounced by the operator after such an incident
	if e.s != nil && !e.sSealed {
		e.sealCheck(e.s, "standby")
		e.sSealed = true
	}
	// the process survived: it keeps serving writes
	type pw struct {
		key  string
		term uint32
	}
	var later []pw
	for i := 0; i < 2+e.rng.Intn(2) && !e.failed; i++ {
		key := e.key(e.rng.Intn(9))
		val := e.rng.Bytes(1 + e.rng.Intn(30))
		var perr error
		if ts, ok := e.p.(logical.TransactionalStorage); ok && e.rng.Chance(1, 3) {
			var txn logical.Transaction
			if txn, perr = ts.BeginTx(c10Ctx); perr == nil {
				if perr = txn.Put(c10Ctx, &logical.StorageEntry{Key: key, Value: val}); perr == nil {
					perr = txn.Commit(c10Ctx)
				} else {
					_ = txn.Rollback(c10Ctx)
				}
			}
		} else {
			perr = e.p.Put(c10Ctx, &logical.StorageEntry{Key: key, Value: val})
		}
		e.step("put", "put %s after the failed %s", strings.TrimPrefix(key, e.meta), kind)
		if perr != nil {
			e.viol("put-failed", "Put(%s) after a failed %s: %v", key, kind, perr)
			return
		}
		t, _, ok := e.header(key)
		if !ok {
			e.viol("put-failed", "Put(%s) after a failed %s left no record", key, kind)
			return
		}
		e.data[key], e.dterm[key] = val, t
		delete(e.gone, key)
		later = append(later, pw{key, t})
	}
	// what is durable now: a fresh node must open with the old root key or the one the operation tried to install
	f := NewAESGCMBarrier(e.phys, e.ns)
	opened := ""
	if e.newRootTry != nil && f.Unseal(c10Ctx, append([]byte(nil), e.newRootTry...)) == nil {
		opened = "new"
		e.oldRoots = append(e.oldRoots, oldRoot)
		e.root = e.newRootTry
	} else if f.Unseal(c10Ctx, append([]byte(nil), oldRoot...)) == nil {
		opened = "old"
	}
	if opened == "" {
		e.viol("store-unsealable-after-failed-key-operation", "%s failed on its storage operation #%d (%v); a fresh node opens with neither the previous root key nor the one being installed", kind, k, err)
		return
	}
	pkr := c10Snap(c10Raw(f).keyring)
	if pkr.Active != oldTerm && pkr.Active != oldTerm+1 {
		e.viol("active-term", "after a failed %s the persisted active term is %d (was %d)", kind, pkr.Active, oldTerm)
		return
	}
	for _, w := range later {
		if _, ok := pkr.Keys[w.term]; !ok {
			e.viol("write-after-failed-key-operation-under-unpersisted-term", "%s failed on its storage operation #%d (%v) and the barrier kept serving: a later Put(%s) was encrypted under term %d, the keyring in storage holds terms up to %d only, so the entry is lost at the next seal, restart or fail-over", kind, k, err, w.key, w.term, pkr.Active)
			return
		}
		e.r.Count("writes_after_failed_key_operation_checked", 1)
	}
	e.term = pkr.Active
	e.ref = pkr
	if !e.readAll(f, "fresh node after a failed "+kind) {
		return
	}
	e.sealCheck(f, "fresh-node")
	// seal + unseal of the surviving node
	e.sealCheck(e.p, "active")
	e.sealed = true
	e.step("unseal", "seal+unseal the node that survived the failed %s (store opens with the %s root key, active term %d)", kind, opened, e.term)
	if !e.unsealCheck(e.p, "active after failed "+kind) {
		return
	}
	e.sealed = false
	e.ref = c10Snap(c10Raw(e.p).keyring)
	e.readAll(e.p, "active after failed "+kind+" and seal/unseal")
}

func (e *c10B) finish() {
	if e.failed {
		return
	}
	if !e.sealed {
		e.txCommit()
		if e.failed {
			return
		}
	}
	if e.sealed {
		e.opUnseal()
	} else {
		e.readAll(e.p, "active at end")
	}
	if e.failed {
		return
	}
	e.persisted()
	if e.failed {
		return
	}
	for len(e.pendUp) > 0 && !e.failed && !e.sealed {
		e.opCreateUpgrade()
	}
	// bring the standby in line at the end whenever the upgrade path allows it
	if e.s != nil && !e.sSealed && e.pathIntact() {
		for i := 0; i < 3 && !e.failed && e.sTerm != e.term; i++ {
			e.opStandbyX(true)
		}
	}
}

// ---------------------------------------------------------------- tests

func TestVerif_C10_BarrierHistories(t *testing.T) {
	seed := kit.Seed(10)
	shard, nshards := kit.Shard()
	r := kit.NewResult(t, "c10-barrier-histories", seed, "seeded random histories (8..25 operations) on an AESGCMBarrier over an in-memory probe store (transactional and not, root and namespaced meta prefix): put / put-in-transaction / delete / encrypt / rotate(+create-upgrade) / rotate-root-key (also invalid sizes) / reload / persist-keyring-only / seal / unseal (always preceded by wrong, truncated, stale and malformed keys) / restart / destroy-upgrade / standby unseal-follow-seal on a second instance; after every unseal, restart, standby follow and at the end the reference model (live entries, current root key, 1+rotations = active term, upgrade entries) is compared with the barrier, its physical record headers and the keyring a fresh node loads; while sealed every data and key operation must be refused without touching the store and the keyring must be nil and zeroised. A history is non-trivial when it completed a rotation or root-key rotation and afterwards read entries back after an unseal/restart/standby follow; distinct by its operation-kind sequence")
	defer r.Write(t)
	n := kit.N(800, 60000)
	for h := 0; h < n; h++ {
		if (h/8)%nshards != shard {
			continue
		}
		tx := h%2 == 0
		nsd := h%4 >= 2
		caseID := fmt.Sprintf("bh:%d", h)
		if !kit.WantCase(caseID) {
			continue
		}
		rng := kit.NewRand(seed, uint64(h)+1)
		e := c10NewB(r, caseID, rng, tx, nsd, rng.Chance(1, 3))
		if !e.failed {
			e.run(8 + rng.Intn(18))
			e.finish()
		}
		r.Eval(1)
		if !e.failed && e.keyOps > 0 && e.readAfterKey > 0 {
			r.Nontrivial(strings.Join(e.kinds, ","))
		}
		if h < 3 {
			r.Sample(map[string]any{"case": caseID, "transactional": tx, "namespaced": nsd, "steps": e.steps})
		}
		if r.NViolations() > 20 {
			break
		}
	}
	if r.Get("sealed_begin_tx_granted_ops_checked") > 0 {
		r.Note("observation (not a verdict): BeginTx/BeginReadOnlyTx on a sealed transactional barrier hand out a transaction (%d times here; only the store's begin is reached); every Get/Put/Delete/List/ListPage inside such a transaction was refused and none reached the store, which is what the property names", r.Get("sealed_begin_tx_granted_ops_checked"))
	}
	div := int64(nshards)
	r.Require("rotations", 800/div)
	r.Require("root_rotations", 400/div)
	r.Require("seals", 400/div)
	r.Require("unseals_ok", 1500/div)
	r.Require("wrong_key_unseals_refused", 5000/div)
	r.Require("wrong_key_kind:previous-root-key", 100/div)
	r.Require("sealed_api_calls_refused", 20000/div)
	r.Require("sealed_begin_tx_granted_ops_checked", 500/div)
	r.Require("zeroize_checks", 800/div)
	r.Require("entries_read_back_across_rotation", 1500/div)
	r.Require("fresh_put_term_checks_after_rotation", 600/div)
	r.Require("standby_follows_ok_behind", 150/div)
	r.Require("standby_follows_ok_root_stale", 80/div)
	r.Require("standby_follows_ok_behind_and_root_stale", 30/div)
	r.Require("persisted_restart_checks", 700/div)
	r.Require("ciphertexts_reopened", 1000/div)
	r.Require("standby_steps_compared:check-upgrade", 150/div)
	r.Require("standby_steps_compared_field_by_field_equal", 500/div)
	r.Require("standby_upgrade_only_follows_ok_behind", 20/div)
	r.Require("promotions", 50/div)
	r.Require("promotions:upgrade-only", 25/div)
	r.Require("fresh_instance_unseals_after_promotion", 50/div)
	r.Require("standby_reads_while_behind_failed_legitimately", 300/div)
	r.Require("standby_rereads_ok_of_terms_installed_by_the_upgrade_path", 300/div)
	r.Require("standby_reads_ok", 5000/div)
	r.Require("upgrade_entries_compared_with_the_term_key", 400/div)
	r.Require("upgrade_entries_written_after_a_later_rotation", 40/div)
	r.Require("transactional_put_term_checks", 45/div)
	r.Require("transactional_put_term_checks_after_key_operation_in_an_older_transaction", 24/div)
	r.Require("operations_of_a_transaction_opened_before_seal_refused", 100/div)
}

func TestVerif_C10_BarrierFaults(t *testing.T) {
	seed := kit.Seed(10)
	shard, nshards := kit.Shard()
	r := kit.NewResult(t, "c10-barrier-faults", seed, "single storage fault inside a key operation, enumerated: for each key operation (rotate, rotate+create-upgrade, rotate-root-key, reload, the two keyring-only persists) x each storage operation k=1..5 it issues x store kind x meta prefix x seeded pre-history: operation k fails once, the operation may report an error, the barrier keeps serving puts; every later put must carry a term the keyring in storage holds and read back on a fresh node and after seal+unseal of the surviving node; the history then continues with random operations under the ordinary oracles. A case is non-trivial when the fault fired")
	r.Exhaustive = true
	defer r.Write(t)
	rounds := kit.N(4, 40)
	idx := 0
	for round := 0; round < rounds; round++ {
		for _, kind := range c10FaultKinds {
			for k := 1; k <= 5; k++ {
				idx++
				if (round/4)%nshards != shard {
					continue
				}
				caseID := fmt.Sprintf("bf:%d:%s:%d", round, kind, k)
				if !kit.WantCase(caseID) {
					continue
				}
				rng := kit.NewRand(seed, 5_000_000+uint64(idx))
				e := c10NewB(r, caseID, rng, round%2 == 0, round%4 >= 2, rng.Chance(1, 3))
				if e.failed {
					continue
				}
				e.run(3 + rng.Intn(6))
				if !e.failed && e.sealed {
					e.opUnseal()
				}
				e.txCommit()
				for i := 0; i < 2 && !e.failed; i++ {
					e.opPut()
				}
				before := r.Get("faults_fired")
				if !e.failed {
					e.opFaulted(kind, k)
				}
				r.Eval(1)
				if r.Get("faults_fired") > before {
					r.Nontrivial(caseID)
				}
				if !e.failed {
					e.run(6)
					e.finish()
				}
				if round == 0 && k == 1 && kind == "rotate" {
					r.Sample(map[string]any{"case": caseID, "steps": e.steps})
				}
				if r.NViolations() > 30 {
					return
				}
			}
		}
	}
	r.Require("faults_fired", int64(60/nshards))
	r.Require("key_operations_failed_by_fault", int64(45/nshards))
	r.Require("key_operations_failed_by_fault:rotate", int64(6/nshards))
	r.Require("key_operations_failed_by_fault:rotate-root-key", int64(6/nshards))
	r.Require("writes_after_failed_key_operation_checked", int64(90/nshards))
}

// c10Op is one key operation whose physical writes are cut at every prefix.
type c10Op struct {
	name string
	run  func(e *c10B) (newRoot []byte, touched string, err error)
}

func c10CrashOps() []c10Op {
	return []c10Op{
		{"rotate", func(e *c10B) ([]byte, string, error) {
			_, err := e.p.Rotate(c10Ctx)
			return nil, "", err
		}},
		{"rotate+create-upgrade", func(e *c10B) ([]byte, string, error) {
			nt, err := e.p.Rotate(c10Ctx)
			if err == nil {
				err = e.p.CreateUpgrade(c10Ctx, nt)
			}
			return nil, "", err
		}},
		{"rotate-root-key", func(e *c10B) ([]byte, string, error) {
			nk := e.rng.Bytes(32)
			return nk, "", e.p.RotateRootKey(c10Ctx, append([]byte(nil), nk...))
		}},
		{"persist-keyring(set-rotation-config)", func(e *c10B) ([]byte, string, error) {
			return nil, "", e.p.SetRotationConfig(c10Ctx, KeyRotationConfig{MaxOperations: AbsoluteOperationMinimum + 77, Interval: 72 * time.Hour})
		}},
		{"persist-keyring(encryption-count)", func(e *c10B) ([]byte, string, error) {
			_, err := e.p.CheckBarrierAutoRotate(c10Ctx)
			return nil, "", err
		}},
		{"rotate,put,rotate-root-key,put", func(e *c10B) ([]byte, string, error) {
			if _, err := e.p.Rotate(c10Ctx); err != nil {
				return nil, "", err
			}
			k := e.key(100)
			if err := e.p.Put(c10Ctx, &logical.StorageEntry{Key: k, Value: []byte("mid")}); err != nil {
				return nil, k, err
			}
			nk := e.rng.Bytes(32)
			if err := e.p.RotateRootKey(c10Ctx, append([]byte(nil), nk...)); err != nil {
				return nk, k, err
			}
			return nk, k, e.p.Put(c10Ctx, &logical.StorageEntry{Key: k, Value: []byte("end")})
		}},
	}
}

func c10JournalKeys(j []kit.Mutation) []string {
	var out []string
	for _, m := range j {
		for _, w := range m.Writes {
			op := "put "
			if w.Delete {
				op = "del "
			}
			out = append(out, op+w.Key)
		}
	}
	return out
}

func TestVerif_C10_BarrierCrash(t *testing.T) {
	seed := kit.Seed(10)
	shard, nshards := kit.Shard()
	r := kit.NewResult(t, "c10-barrier-crash", seed, "for each key operation of the barrier (rotate, rotate+create-upgrade, rotate-root-key, the two keyring-only persists, and a mixed sequence) after a seeded random pre-history: the operation runs on a journaling store; for every prefix k of its physical writes a fresh barrier instance is started on the store as a crash after k writes leaves it and unsealed with the pre-operation root key or the new one (k=0 must open with the old, k=all with the new); every entry written before the operation must read back, a fresh write must carry the loaded active term (never below the pre-operation term). Additionally a standby that was in sync before the operation is promoted on the prefix store (observation only). Every (operation, pre-history, prefix) is a distinct case")
	defer r.Write(t)
	rounds := kit.N(12, 600)
	ops := c10CrashOps()
	for round := 0; round < rounds; round++ {
		for oi, op := range ops {
			idx := round*len(ops) + oi
			if (round/4)%nshards != shard {
				continue
			}
			tx := round%2 == 0
			nsd := round%4 >= 2
			rng := kit.NewRand(seed, 1_000_000+uint64(idx))
			pre := fmt.Sprintf("bc:%d:%s", round, op.name)
			if oc := kit.OnlyCase(); oc != "" && oc != pre && !strings.HasPrefix(oc, pre+":") {
				continue
			}
			e := c10NewB(r, pre, rng, tx, nsd, rng.Chance(1, 3))
			if e.failed {
				continue
			}
			e.run(4 + rng.Intn(10))
			if e.failed {
				continue
			}
			if e.sealed {
				e.opUnseal()
			}
			e.txCommit()
			for i := 0; i < 3 && !e.failed; i++ {
				e.opPut()
			}
			if e.failed {
				continue
			}
			// a standby in sync with the pre-operation state
			preKR := c10Snap(c10Raw(e.p).keyring)
			oldRoot := append([]byte(nil), e.root...)
			preTerm := e.term
			e.probe.StartJournal()
			newRoot, touched, err := op.run(e)
			j := e.probe.StopJournal()
			e.step("crash-op", "%s err=%v writes=%v", op.name, err, c10JournalKeys(j))
			if err != nil {
				e.viol("key-op-failed", "%s on a fault-free store: %v", op.name, err)
				continue
			}
			if newRoot == nil {
				newRoot = oldRoot
			}
			r.Count("journal_writes:"+op.name, len(j))
			for k := 0; k <= len(j); k++ {
				caseID := fmt.Sprintf("%s:%d", pre, k)
				if !kit.WantCase(caseID) {
					continue
				}
				r.Eval(1)
				r.Nontrivial(caseID)
				e.caseID = caseID
				c10CrashPrefix(e, op.name, j, k, oldRoot, newRoot, touched, preTerm, preKR)
				if r.NViolations() > 30 {
					return
				}
			}
			if round == 0 {
				r.Sample(map[string]any{"op": op.name, "journal": c10JournalKeys(j), "pre_history": e.steps})
			}
		}
	}
	r.Require("prefixes_checked", int64(300/nshards))
	r.Require("prefixes_opened_with_old_key_only", int64(50/nshards))
	r.Require("prefixes_opened_with_new_key_only", int64(50/nshards))
	r.Require("entries_read_back_after_crash", int64(1000/nshards))
}

var c10Noted = map[string]bool{}

func c10CrashPrefix(e *c10B, opName string, j []kit.Mutation, k int, oldRoot, newRoot []byte, touched string, preTerm uint32, preKR c10KR) {
	r := e.r
	wit := func() map[string]any {
		return map[string]any{"op": opName, "prefix": k, "of": len(j), "journal": c10JournalKeys(j), "pre_history": e.steps, "transactional": e.tx, "namespaced": e.ns != nil}
	}
	store := e.probe.Materialise(k, e.tx)
	rotated := !bytes.Equal(oldRoot, newRoot)
	fOld := NewAESGCMBarrier(store, e.ns)
	errOld := fOld.Unseal(c10Ctx, append([]byte(nil), oldRoot...))
	var fNew SecurityBarrier
	var errNew error
	if rotated {
		fNew = NewAESGCMBarrier(store, e.ns)
		errNew = fNew.Unseal(c10Ctx, append([]byte(nil), newRoot...))
	} else {
		fNew, errNew = fOld, errOld
	}
	var f SecurityBarrier
	switch {
	case errOld == nil && (errNew != nil || !rotated):
		f = fOld
		if rotated {
			r.Count("prefixes_opened_with_old_key_only", 1)
		}
	case errOld != nil && errNew == nil:
		f = fNew
		r.Count("prefixes_opened_with_new_key_only", 1)
	case errOld == nil && errNew == nil:
		r.Violate("C10-barrier-crash-two-root-keys-open", e.caseID, fmt.Sprintf("[%s] %s cut after %d/%d writes: both the old and the new root key unseal", e.caseID, opName, k, len(j)), wit())
		return
	default:
		r.Violate("C10-barrier-crash-unsealable", e.caseID, fmt.Sprintf("[%s] %s cut after %d/%d writes: neither the pre-operation root key (%v) nor the new one (%v) unseals", e.caseID, opName, k, len(j), errOld, errNew), wit())
		return
	}
	if k == 0 && errOld != nil {
		r.Violate("C10-barrier-crash-unsealable", e.caseID, fmt.Sprintf("[%s] %s cut before its first write: the old root key no longer unseals: %v", e.caseID, opName, errOld), wit())
		return
	}
	if k == len(j) && errNew != nil {
		r.Violate("C10-barrier-crash-unsealable", e.caseID, fmt.Sprintf("[%s] %s completed: the new root key does not unseal: %v", e.caseID, opName, errNew), wit())
		return
	}
	r.Count("prefixes_checked", 1)
	// every earlier entry reads back
	var keys []string
	for key := range e.data {
		keys = append(keys, key)
	}
	sort.Strings(keys)
	for _, key := range keys {
		if key == touched {
			continue
		}
		got, err := f.Get(c10Ctx, key)
		if err != nil || got == nil || !bytes.Equal(got.Value, e.data[key]) {
			r.Violate("C10-barrier-crash-entry-lost", e.caseID, fmt.Sprintf("[%s] %s cut after %d/%d writes: entry %s (term %d) does not read back after unseal: err=%v found=%v", e.caseID, opName, k, len(j), key, e.dterm[key], err, got != nil), wit())
			return
		}
		r.Count("entries_read_back_after_crash", 1)
	}
	for _, c := range e.cts {
		if pt, err := f.Decrypt(c10Ctx, c.path, c.ct); err != nil || !bytes.Equal(pt, c.pt) {
			r.Violate("C10-barrier-crash-entry-lost", e.caseID, fmt.Sprintf("[%s] %s cut after %d/%d writes: ciphertext of term %d no longer opens: %v", e.caseID, opName, k, len(j), c.term, err), wit())
			return
		}
	}
	// a fresh write uses the loaded newest term, which never goes backwards
	kr := c10Snap(c10Raw(f).keyring)
	if kr.Active < preTerm {
		r.Violate("C10-barrier-crash-term-regressed", e.caseID, fmt.Sprintf("[%s] %s cut after %d/%d writes: active term %d below pre-operation term %d", e.caseID, opName, k, len(j), kr.Active, preTerm), wit())
		return
	}
	for t := uint32(1); t <= kr.Active; t++ {
		if _, ok := kr.Keys[t]; !ok {
			r.Violate("C10-barrier-crash-term-missing", e.caseID, fmt.Sprintf("[%s] %s cut after %d/%d writes: loaded keyring lacks term %d (active %d)", e.caseID, opName, k, len(j), t, kr.Active), wit())
			return
		}
	}
	pk := e.meta + "d/after-crash"
	if err := f.Put(c10Ctx, &logical.StorageEntry{Key: pk, Value: []byte("v")}); err != nil {
		r.Violate("C10-barrier-crash-put-failed", e.caseID, fmt.Sprintf("[%s] put after crash-unseal: %v", e.caseID, err), wit())
		return
	}
	if pe, _ := store.Get(c10Ctx, pk); pe == nil || len(pe.Value) < 4 || binary.BigEndian.Uint32(pe.Value[:4]) != kr.Active {
		r.Violate("C10-new-write-old-term", e.caseID, fmt.Sprintf("[%s] put after crash-unseal does not carry the active term %d", e.caseID, kr.Active), wit())
		return
	}
	_ = f.Delete(c10Ctx, pk)
	// observation: promote a standby that held the pre-operation keyring
	sb := c10Raw(NewAESGCMBarrier(store, e.ns))
	kring := NewKeyring()
	kring.rootKey = append([]byte(nil), preKR.Root...)
	for t, v := range preKR.Keys {
		kring.keys[t] = &Key{Term: t, Version: 1, Value: append([]byte(nil), v...), InstallTime: time.Unix(1700000000, 0)}
	}
	kring.activeTerm = preKR.Active
	sb.keyring = kring
	sb.sealed = false
	var err error
	for i := 0; i < 8; i++ {
		var did bool
		did, _, err = sb.CheckUpgrade(c10Ctx)
		if err != nil || !did {
			break
		}
	}
	if err == nil {
		err = sb.ReloadRootKey(c10Ctx)
	}
	if err == nil {
		err = sb.ReloadKeyring(c10Ctx)
	}
	if err != nil {
		r.Count("observation_standby_promotion_refused_on_prefix", 1)
		if nk := fmt.Sprintf("%s:%d", opName, k); !c10Noted[nk] && len(c10Noted) < 6 {
			c10Noted[nk] = true
			r.Note("observation (not a verdict): a standby in sync before %s cannot reload keys on the store cut after write %d/%d (%v); the node shuts itself down and comes back through a normal unseal, which the check above showed to work", opName, k, len(j), err)
		}
	} else {
		r.Count("observation_standby_promotion_ok_on_prefix", 1)
		if d := c10Snap(sb.keyring).diff(kr); d != "" {
			r.Violate("C10-standby-keyring-differs", e.caseID, fmt.Sprintf("[%s] %s cut after %d/%d writes: promoted standby reloaded without error but its keyring differs from what a fresh unseal loads: %s", e.caseID, opName, k, len(j), d), wit())
		}
	}
}
