//go:build verif

package barrier

// C10 (barrier level), second part:
//
//   - TestVerif_C10_BarrierStandby: the standby clause as an enumerated matrix. A second barrier
//     instance on the same store follows the upgrade path step by step (compared with the active
//     node after every step), is promoted, persists the keyring itself, everything is sealed and a
//     fresh instance must open with the valid root key only.
//   - TestVerif_C10_BarrierSchedules: two or three key operations of ONE barrier instance issued
//     concurrently under the storage-operation gate, with the other operations started while a
//     root-key rotation sits inside each of its storage writes.
//
// The reference is again the property text: after quiescence every acknowledged operation took
// effect (active term = initial term + acknowledged rotations, the root key of the acknowledged
// root-key rotation is the valid one, acknowledged writes read back), in memory and on a fresh
// instance after a seal.

import (
	"bytes"
	"errors"
	"sync/atomic"
	"fmt"
	"sort"
	"strings"
	"testing"
	"time"

	kit "github.com/openbao/openbao/sdk/v2/helper/verifkit"
	"github.com/openbao/openbao/sdk/v2/logical"
	"github.com/openbao/openbao/sdk/v2/physical"
	"github.com/openbao/openbao/v2/internal/helper/namespace"
)

// ---------------------------------------------------------------- standby matrix

func TestVerif_C10_BarrierStandby(t *testing.T) {
	seed := kit.Seed(10)
	shard, nshards := kit.Shard()
	r := kit.NewResult(t, "c10-barrier-standby", seed, "enumerated: store kind x meta prefix (root / namespace) x number of rotations the standby is behind (1..3; the upgrade entries are written right after each rotation, or after all rotations oldest first, or newest first - CreateUpgrade is a separate call; each entry's content is compared with the key of the term it leads to) x root-key rotation (none / before the standby unsealed / after it unsealed, so its root key is stale) x the way the standby follows (CheckUpgrade loop + ReloadRootKey + ReloadKeyring as ha.go performKeyUpgrades, or the CheckUpgrade loop alone as the periodic check and the namespace keyring invalidation do) x the first keyring persist the promoted standby performs (rotate / SetRotationConfig / encryption-count persist / root-key rotation). After EVERY step of the standby its keyring is compared with the active node's (root key bytes, every term key, active term; VerifyRoot and Keyring() through the API); the standby serves reads (Get, read-only transaction Get, Decrypt, List) while it is behind - entries of terms it lacks fail legitimately - and after every single upgrade step and reload, where every entry and ciphertext whose term its keyring now holds must read back; then the standby acts as the active node (put, keyring persist, put), the old active node steps down or is sealed, every instance is sealed and a fresh instance must refuse the all-zero key, the superseded root key and other wrong keys, open with the valid root key and read every entry either instance wrote. Step comparisons do not stop a case here (the end state is judged as well). Every combination is a distinct case")
	r.Exhaustive = true
	defer r.Write(t)
	styles := []string{"reload", "upgrade-only"}
	rootRots := []string{"none", "before-standby-unseal", "after-standby-unseal"}
	keyOps := []string{"rotate", "set-rotation-config", "auto-rotate-check", "rotate-root"}
	idx := 0
	for variant := 0; variant < 4; variant++ {
		for behind := 1; behind <= 3; behind++ {
			for _, rr := range rootRots {
				for _, style := range styles {
					for _, keyOp := range keyOps {
						idx++
						if idx%nshards != shard {
							continue
						}
						tx, nsd := variant%2 == 0, variant >= 2
						upMode := (idx + behind) % 3
						caseID := fmt.Sprintf("bs:%d:%d:%s:%s:%s:up%d", variant, behind, rr, style, keyOp, upMode)
						if !kit.WantCase(caseID) {
							continue
						}
						rng := kit.NewRand(seed, 9_000_000+uint64(idx))
						e := c10NewB(r, caseID, rng, tx, nsd, idx%3 == 0)
						if e.failed {
							continue
						}
						e.soft = true
						c10StandbyCase(e, behind, rr, style, keyOp, upMode)
						r.Eval(1)
						r.Nontrivial(caseID)
						if idx <= 2 {
							r.Sample(map[string]any{"case": caseID, "steps": e.steps})
						}
						if r.NViolations() > 30 {
							return
						}
					}
				}
			}
		}
	}
	div := int64(nshards)
	r.Require("standby_upgrade_steps", 500/div)
	r.Require("standby_steps_compared", 800/div)
	r.Require("standby_steps_compared:reload-root-key", 150/div)
	r.Require("standby_steps_compared:reload-keyring", 100/div)
	r.Require("standby_steps_compared_field_by_field_equal", 300/div)
	r.Require("standby_verify_root_ok", 800/div)
	r.Require("promotions", 280/div)
	r.Require("promotions:upgrade-only", 140/div)
	r.Require("fresh_instance_unseals_after_promotion", 280/div)
	r.Require("fresh_instance_unseals_after_promotion_with_superseded_root_keys", 150/div)
	r.Require("wrong_key_kind:all-zero", 500/div)
	r.Require("superseded_root_key_refused", 150/div)
	r.Require("upgrade_entries_compared_with_the_term_key", 300/div)
	r.Require("upgrade_entries_written_after_a_later_rotation", 60/div)
	r.Require("standby_reads_while_behind_failed_legitimately", 500/div)
	r.Require("standby_rereads_ok_of_terms_installed_by_the_upgrade_path", 500/div)
}

// upMode: 0 = every rotation writes its upgrade entry at once; 1 = all rotations first, then the
// upgrade entries oldest first; 2 = all rotations first, then the upgrade entries newest first
func c10StandbyCase(e *c10B, behind int, rootRot, style, keyOp string, upMode int) {
	steps := []func(){
		func() { e.opUnseal() },
		func() { e.opPut() },
		func() { e.opPut() },
		func() {
			if rootRot == "before-standby-unseal" {
				e.opRotateRoot()
			}
		},
		func() { e.sbUnseal() },
		func() {
			if rootRot == "after-standby-unseal" {
				e.opRotateRoot()
			}
		},
	}
	for i := 0; i < behind; i++ {
		// the standby serves reads while it is behind: entries of terms it does not hold yet fail
		// (legitimately), and must read back once the term has arrived
		steps = append(steps, func() {
			if upMode == 0 {
				e.opRotate(true)
			} else {
				e.opRotateDeferred()
			}
		}, func() { e.opPut() }, func() { e.opEncrypt() }, func() {
			e.step("standby-read", "standby serves reads (%d term(s) behind)", e.term-e.sTerm)
			e.sbRead("serving reads while behind")
		})
	}
	steps = append(steps, func() {
		for len(e.pendUp) > 0 && !e.failed {
			i := 0
			if upMode == 2 {
				i = len(e.pendUp) - 1
			}
			t := e.pendUp[i]
			e.pendUp = append(e.pendUp[:i], e.pendUp[i+1:]...)
			if t < e.term {
				e.r.Count("upgrade_entries_written_after_a_later_rotation", 1)
			}
			e.createUpgrade(t)
		}
	})
	steps = append(steps,
		func() {
			before := e.r.Get("promotions")
			e.opPromote(style, keyOp)
			if !e.failed && e.r.Get("promotions") == before {
				e.viol("harness", "the standby could not be promoted in an enumerated case")
			}
		},
		func() { e.finish() },
	)
	for _, f := range steps {
		if e.failed {
			return
		}
		f()
	}
}

// ---------------------------------------------------------------- concurrent key operations of one barrier

const c10Marker = "c10-sched/start"

type c10SchedScenario struct {
	ops  []string // rr (RotateRootKey) | rot (Rotate, then a put) | cfg (SetRotationConfig) | pe (encryption-count keyring persist) | put (put + get) | seal
	pre  int      // encryption-key rotations before the concurrent part
	tx   bool
	nsd  bool
	name string
}

func c10SchedScenarios() []c10SchedScenario {
	lists := [][]string{
		{"rr", "rot"}, {"rr", "cfg"}, {"rr", "pe"}, {"rr", "put"}, {"rr", "seal"}, {"rr", "rr"},
		{"rot", "cfg"}, {"rot", "pe"}, {"rot", "seal"}, {"rot", "rot"}, {"rot", "put"}, {"cfg", "pe"}, {"pe", "seal"}, {"put", "seal"},
		{"rr", "rot", "put"}, {"rr", "rot", "cfg"}, {"rr", "pe", "rot"}, {"rr", "rr", "rot"}, {"rr", "rot", "seal"}, {"rr", "cfg", "pe"}, {"rot", "pe", "put"},
		// readers racing a rotation: whatever record a read finds, it must be able to open it
		{"rot", "rd"}, {"rot", "rot", "rd"}, {"rr", "rot", "rd"},
		// a read-write storage transaction (begin, put, put, commit) next to key operations and a seal
		{"rot", "txw"}, {"rot", "rot", "txw"}, {"rr", "rot", "txw"}, {"txw", "seal"}, {"rot", "txw", "seal"},
		// what RotateBarrierKey does, two or three times at once: Rotate, then (a separate call) CreateUpgrade of
		// the term it got; a standby that was unsealed before follows the upgrade path afterwards
		{"rotup", "rotup"}, {"rotup", "rotup", "rotup"}, {"rotup", "rotup", "put"}, {"rr", "rotup", "rotup"},
	}
	var out []c10SchedScenario
	for i, l := range lists {
		sc := c10SchedScenario{ops: l, pre: i % 2, tx: i%2 == 1, nsd: i%3 == 2, name: strings.Join(l, "|")}
		for _, op := range l {
			if op == "txw" {
				sc.tx = true
			}
		}
		out = append(out, sc)
	}
	return out
}

type c10SchedRes struct {
	err     error
	newRoot []byte            // rr
	term    uint32            // rot: the term Rotate returned
	cfg     KeyRotationConfig // cfg
	puts    map[string][]byte // acknowledged writes
	got     string            // put: result of its read
	floors  map[string]uint32 // txw: per committed key, the newest term a Rotate had RETURNED before the Put was issued
	served  string            // txw: an operation of the transaction that succeeded after Seal had returned
}

func c10IsSealedErr(err error) bool {
	return err != nil && (errors.Is(err, ErrBarrierSealed) || errors.Is(err, ErrNamespaceSealed) || strings.Contains(err.Error(), "barrier is sealed") || strings.Contains(err.Error(), "namespace is sealed"))
}

// c10SchedRun builds a fresh barrier, runs the scenario's operations under the gate with pol and
// judges the outcome. It reports whether the exploration should go on.
func c10SchedRun(r *kit.Result, seed int64, si int, sc c10SchedScenario, caseID string, pol kit.Policy) (kit.Schedule, bool) {
	rng := kit.NewRand(seed, 8_000_000+uint64(si))
	phys, probe := kit.NewInmemProbe(sc.tx)
	var ns *namespace.Namespace
	meta := ""
	if sc.nsd {
		ns = &namespace.Namespace{ID: "c10ns", UUID: "c10c10c1-0000-4000-8000-0000000000aa", Path: "c10ns/"}
		meta = NamespacePrefix + ns.UUID + "/"
	}
	var steps []string
	viol := func(kind, format string, a ...any) {
		r.Violate("C10-"+kind, caseID, fmt.Sprintf("[%s] ", caseID)+fmt.Sprintf(format, a...), map[string]any{"scenario": sc.name, "steps": steps, "transactional": sc.tx, "namespaced": sc.nsd})
	}
	b := NewAESGCMBarrier(phys, ns)
	root0 := rng.Bytes(32)
	if err := b.Initialize(c10Ctx, root0, nil); err != nil {
		viol("harness", "Initialize: %v", err)
		return kit.Schedule{}, false
	}
	if err := b.Unseal(c10Ctx, append([]byte(nil), root0...)); err != nil {
		viol("harness", "Unseal: %v", err)
		return kit.Schedule{}, false
	}
	acked := map[string][]byte{}
	put := func(bb SecurityBarrier, k string, v []byte) error {
		return bb.Put(c10Ctx, &logical.StorageEntry{Key: k, Value: v})
	}
	for i := 0; i < 3; i++ {
		k, v := fmt.Sprintf("%sd/k%d", meta, i), rng.Bytes(8+i)
		if err := put(b, k, v); err != nil {
			viol("harness", "Put: %v", err)
			return kit.Schedule{}, false
		}
		acked[k] = v
	}
	term0 := uint32(1)
	for i := 0; i < sc.pre; i++ {
		nt, err := b.Rotate(c10Ctx)
		if err != nil {
			viol("harness", "Rotate: %v", err)
			return kit.Schedule{}, false
		}
		term0 = nt
		k, v := fmt.Sprintf("%sd/pre%d", meta, i), rng.Bytes(9)
		if err := put(b, k, v); err != nil {
			viol("harness", "Put: %v", err)
			return kit.Schedule{}, false
		}
		acked[k] = v
	}
	cfg0, _ := b.RotationConfig()
	// a standby that comes up now and follows the upgrade path after the concurrent part
	var sb SecurityBarrier
	for _, op := range sc.ops {
		if op == "rotup" && sb == nil {
			sb = NewAESGCMBarrier(phys, ns)
			if err := sb.Unseal(c10Ctx, append([]byte(nil), root0...)); err != nil {
				viol("harness", "standby Unseal: %v", err)
				return kit.Schedule{}, false
			}
		}
	}

	// the concurrent requests; each parks at a start marker first so that the gate decides when it enters the barrier
	res := make([]*c10SchedRes, len(sc.ops))
	var reqs []kit.Req
	var tags []string
	hasSeal := false
	var doneTerm atomic.Uint32 // newest term a Rotate has returned so far
	doneTerm.Store(term0)
	var sealDone atomic.Bool // Seal has returned
	for i, op := range sc.ops {
		i, op := i, op
		tag := fmt.Sprintf("%s%d", op, i)
		tags = append(tags, tag)
		out := &c10SchedRes{puts: map[string][]byte{}}
		res[i] = out
		switch op {
		case "rr":
			out.newRoot = rng.Bytes(32)
		case "cfg":
			out.cfg = KeyRotationConfig{MaxOperations: AbsoluteOperationMinimum + 1000*int64(i+1) + int64(rng.Intn(999)), Interval: time.Duration(48+i) * time.Hour}
			out.cfg.Sanitize()
		case "seal":
			hasSeal = true
		}
		pv := rng.Bytes(10)
		reqs = append(reqs, kit.Req{Tag: tag, Fn: func() {
			_, _ = phys.Get(c10Ctx, c10Marker)
			switch op {
			case "rr":
				out.err = b.RotateRootKey(c10Ctx, append([]byte(nil), out.newRoot...))
			case "rot":
				out.term, out.err = b.Rotate(c10Ctx)
				if out.err == nil {
					for {
						cur := doneTerm.Load()
						if out.term <= cur || doneTerm.CompareAndSwap(cur, out.term) {
							break
						}
					}
					k := fmt.Sprintf("%sd/rot%d", meta, i)
					if perr := put(b, k, pv); perr == nil {
						out.puts[k] = pv
					} else if !c10IsSealedErr(perr) || !hasSeal {
						out.err = fmt.Errorf("put after rotate: %w", perr)
					}
				}
			case "rotup":
				out.term, out.err = b.Rotate(c10Ctx)
				if out.err == nil {
					// the two barrier calls are separate in the product: a scheduling point in between
					_, _ = phys.Get(c10Ctx, c10Marker+"/between-rotate-and-create-upgrade")
					if uerr := b.CreateUpgrade(c10Ctx, out.term); uerr != nil {
						out.err = fmt.Errorf("create-upgrade: %w", uerr)
					}
				}
			case "cfg":
				out.err = b.SetRotationConfig(c10Ctx, out.cfg)
			case "pe":
				_, out.err = b.CheckBarrierAutoRotate(c10Ctx)
			case "put":
				k := fmt.Sprintf("%sd/c%d", meta, i)
				out.err = put(b, k, pv)
				if out.err == nil {
					out.puts[k] = pv
					g, gerr := b.Get(c10Ctx, meta+"d/k0")
					switch {
					case gerr != nil && hasSeal && c10IsSealedErr(gerr):
					case gerr != nil:
						out.got = "error: " + gerr.Error()
					case g == nil:
						out.got = "absent"
					case !bytes.Equal(g.Value, acked[meta+"d/k0"]):
						out.got = "different value"
					}
				}
			case "rd":
				// every entry written before, and the entries the rotations next to it write under their new terms
				want := map[string][]byte{}
				for k, v := range acked {
					want[k] = v
				}
				for j, o := range sc.ops {
					if o == "rot" {
						want[fmt.Sprintf("%sd/rot%d", meta, j)] = nil
					}
				}
				var ks []string
				for k := range want {
					ks = append(ks, k)
				}
				sort.Strings(ks)
				for round := 0; round < 2 && out.got == ""; round++ {
					for _, k := range ks {
						g, gerr := b.Get(c10Ctx, k)
						switch {
						case gerr != nil && hasSeal && c10IsSealedErr(gerr):
						case gerr != nil:
							out.got = fmt.Sprintf("Get(%s): %v", strings.TrimPrefix(k, meta), gerr)
						case g == nil && want[k] != nil:
							out.got = fmt.Sprintf("Get(%s): absent", strings.TrimPrefix(k, meta))
						case g != nil && want[k] != nil && !bytes.Equal(g.Value, want[k]):
							out.got = fmt.Sprintf("Get(%s): different value", strings.TrimPrefix(k, meta))
						}
					}
				}
			case "txw":
				ts, ok := b.(logical.TransactionalStorage)
				if !ok {
					return
				}
				txn, err := ts.BeginTx(c10Ctx)
				if err != nil {
					out.err = err
					return
				}
				type tp struct {
					k     string
					floor uint32
				}
				var tps []tp
				for j := 0; j < 2; j++ {
					floor, sealedBefore := doneTerm.Load(), sealDone.Load()
					k := fmt.Sprintf("%sd/txw%d-%d", meta, i, j)
					perr := txn.Put(c10Ctx, &logical.StorageEntry{Key: k, Value: pv})
					if perr != nil {
						if !hasSeal || !c10IsSealedErr(perr) {
							out.err = fmt.Errorf("put through the transaction: %w", perr)
						}
						break
					}
					if sealedBefore {
						out.served = fmt.Sprintf("Put(%s) through a transaction opened before the Seal succeeded after Seal had returned", strings.TrimPrefix(k, meta))
					}
					tps = append(tps, tp{k, floor})
				}
				if out.err != nil {
					_ = txn.Rollback(c10Ctx)
					return
				}
				if cerr := txn.Commit(c10Ctx); cerr == nil {
					out.floors = map[string]uint32{}
					for _, p := range tps {
						out.puts[p.k] = pv
						out.floors[p.k] = p.floor
					}
				} else if !errors.Is(cerr, physical.ErrTransactionCommitFailure) {
					out.err = fmt.Errorf("commit: %w", cerr)
				}
			case "seal":
				out.err = b.Seal()
				if out.err == nil {
					sealDone.Store(true)
				}
			}
		}})
	}
	sched := probe.RunGated(reqs, pol, kit.GateOpts{Grace: 5 * time.Millisecond, Hard: 30 * time.Second})
	r.Eval(1)
	steps = append(steps, fmt.Sprintf("initial term %d; concurrent %s under schedule: %s", term0, sc.name, sched.String()))
	if sched.TimedOut {
		r.Inconc("%s: gate watchdog expired (%s)", caseID, sched.String())
		return sched, true
	}
	if sched.Overlap() || sched.Blocked > 0 {
		r.Nontrivial(sc.name + sched.Hash())
	}
	if sched.Overlap() {
		r.Count("overlapping_schedules", 1)
	}
	r.Count("blocked_hints", sched.Blocked)
	c10SchedWindows(r, sched)

	// ---- what was acknowledged
	rotations := 0
	var newRoots [][]byte  // of acknowledged root-key rotations
	var maybeRoots [][]byte // of root-key rotations that reported an error (generous: either outcome)
	var cfgs []KeyRotationConfig
	for i, op := range sc.ops {
		o := res[i]
		steps = append(steps, fmt.Sprintf("%s%d -> err=%v", op, i, o.err))
		if o.err != nil {
			if hasSeal && c10IsSealedErr(o.err) {
				r.Count("operations_refused_because_sealed_meanwhile", 1)
				if op == "rr" {
					maybeRoots = append(maybeRoots, o.newRoot)
				}
				continue
			}
			viol("concurrent-key-operation-failed", "%s (request %d of %s) on a fault-free store reported: %v; schedule %s", op, i, sc.name, o.err, sched.String())
			return sched, r.NViolations() < 20
		}
		switch op {
		case "rr":
			newRoots = append(newRoots, o.newRoot)
			r.Count("concurrent_root_rotations_acknowledged", 1)
		case "rot", "rotup":
			rotations++
			r.Count("concurrent_rotations_acknowledged", 1)
		case "cfg":
			cfgs = append(cfgs, o.cfg)
		case "txw":
			r.Count("concurrent_transactions", 1)
			if o.served != "" {
				viol("sealed-op-served", "%s; schedule %s", o.served, sched.String())
				return sched, r.NViolations() < 20
			}
		case "put", "rd":
			if op == "rd" {
				r.Count("concurrent_read_sweeps_next_to_a_rotation", 1)
			}
			if o.got != "" {
				viol("concurrent-read-wrong", "read of an entry written before, issued next to %s: %s; schedule %s", sc.name, o.got, sched.String())
				return sched, r.NViolations() < 20
			}
		}
		for k, v := range o.puts {
			acked[k] = v
		}
	}
	wantTerm := term0 + uint32(rotations)
	// terms Rotate handed out are distinct and consecutive
	seenTerm := map[uint32]bool{}
	for i, op := range sc.ops {
		if (op == "rot" || op == "rotup") && res[i].err == nil {
			if res[i].term <= term0 || res[i].term > wantTerm || seenTerm[res[i].term] {
				viol("concurrent-key-operation-lost", "Rotate (request %d) returned term %d; initial term %d, %d rotation(s) acknowledged; schedule %s", i, res[i].term, term0, rotations, sched.String())
				return sched, r.NViolations() < 20
			}
			seenTerm[res[i].term] = true
		}
	}
	// currently valid: the root key of an acknowledged root-key rotation (two acknowledged ones:
	// either, the barrier decides the order), else the initial one; a rotation that was refused
	// because a Seal came first is allowed to have happened or not (deliberately generous)
	var validRoots [][]byte
	if len(newRoots) == 0 {
		validRoots = append([][]byte{root0}, maybeRoots...)
	} else {
		validRoots = append(append([][]byte(nil), newRoots...), maybeRoots...)
	}
	isValid := func(k []byte) bool {
		for _, v := range validRoots {
			if bytes.Equal(v, k) {
				return true
			}
		}
		return false
	}
	var ackKeys []string
	for k := range acked {
		ackKeys = append(ackKeys, k)
	}
	sort.Strings(ackKeys)
	headerTerm := func(k string) uint32 {
		pe, err := probe.Inner().Get(c10Ctx, k)
		if err != nil || pe == nil || len(pe.Value) < 4 {
			return 0
		}
		return uint32(pe.Value[0])<<24 | uint32(pe.Value[1])<<16 | uint32(pe.Value[2])<<8 | uint32(pe.Value[3])
	}
	cfgOK := func(got KeyRotationConfig) bool {
		if len(cfgs) == 0 {
			return got.Equals(cfg0)
		}
		for _, c := range cfgs {
			if got.Equals(c) {
				return true
			}
		}
		return false
	}
	// judge one unsealed instance
	judge := func(who string, bb SecurityBarrier) bool {
		kr := c10Snap(c10Raw(bb).keyring)
		if kr.Active != wantTerm {
			viol("concurrent-key-operation-lost", "%s: active term %d; initial term %d and %d rotation(s) were acknowledged, so the newest term is %d (keyring %s); schedule %s", who, kr.Active, term0, rotations, wantTerm, kr, sched.String())
			return false
		}
		for t := uint32(1); t <= wantTerm; t++ {
			if _, ok := kr.Keys[t]; !ok {
				viol("concurrent-key-operation-lost", "%s: keyring has no key for term %d (keyring %s); schedule %s", who, t, kr, sched.String())
				return false
			}
		}
		if !isValid(kr.Root) {
			viol("concurrent-key-operation-lost", "%s: the keyring carries a root key that is not the one an acknowledged root-key rotation installed (%d acknowledged); schedule %s", who, len(newRoots), sched.String())
			return false
		}
		for _, k := range ackKeys {
			g, err := bb.Get(c10Ctx, k)
			if err != nil || g == nil || !bytes.Equal(g.Value, acked[k]) {
				viol("concurrent-write-unreadable", "%s: acknowledged entry %s (physical record under term %d, active term %d) does not read back: err=%v found=%v; schedule %s", who, strings.TrimPrefix(k, meta), headerTerm(k), kr.Active, err, g != nil, sched.String())
				return false
			}
			r.Count("entries_read_back_after_concurrent_key_operations", 1)
		}
		k := meta + "d/after"
		if err := put(bb, k, []byte(who)); err != nil {
			viol("put-failed", "%s: put after quiescence: %v", who, err)
			return false
		}
		if ht := headerTerm(k); ht != wantTerm {
			viol("new-write-old-term", "%s: a put after the concurrent operations carries term %d, newest acknowledged term is %d; schedule %s", who, ht, wantTerm, sched.String())
			return false
		}
		if got, err := bb.RotationConfig(); err != nil || !cfgOK(got) {
			viol("concurrent-key-operation-lost", "%s: rotation config %+v (err=%v) is not the acknowledged one (%d SetRotationConfig acknowledged, initial %+v); schedule %s", who, got, err, len(cfgs), cfg0, sched.String())
			return false
		}
		return true
	}
	var live c10KR
	if hasSeal {
		raw := c10Raw(b)
		if !b.Sealed() || raw.keyring != nil {
			viol("sealed-holds-keyring", "Seal was acknowledged next to %s but afterwards sealed=%v keyring-present=%v; schedule %s", sc.name, b.Sealed(), raw.keyring != nil, sched.String())
			return sched, r.NViolations() < 20
		}
		if _, err := b.Get(c10Ctx, meta+"d/k0"); err == nil {
			viol("sealed-op-served", "Get served after a Seal acknowledged next to %s; schedule %s", sc.name, sched.String())
			return sched, r.NViolations() < 20
		}
		r.Count("schedules_with_seal", 1)
	} else {
		if !judge("running instance", b) {
			return sched, r.NViolations() < 20
		}
		live = c10Snap(c10Raw(b).keyring)
		if err := b.VerifyRoot(append([]byte(nil), live.Root...)); err != nil {
			viol("root-key-mismatch", "VerifyRoot(root key in memory): %v", err)
			return sched, r.NViolations() < 20
		}
		if len(newRoots) > 0 {
			if err := b.VerifyRoot(append([]byte(nil), root0...)); err == nil {
				viol("concurrent-key-operation-lost", "running instance: VerifyRoot still accepts the root key an acknowledged root-key rotation superseded; schedule %s", sched.String())
				return sched, r.NViolations() < 20
			}
		}
		if sb != nil {
			akr := c10Raw(b).keyring
			// every upgrade entry holds exactly the key of the term it leads to
			for i, op := range sc.ops {
				if op != "rotup" || res[i].err != nil {
					continue
				}
				t := res[i].term
				path := fmt.Sprintf("%s%s%d", meta, KeyringUpgradePrefix, t-1)
				pe, _ := probe.Inner().Get(c10Ctx, path)
				var key *Key
				if pe != nil {
					if plain, derr := b.Decrypt(c10Ctx, path, pe.Value); derr == nil {
						key, _ = DeserializeKey(plain)
					}
				}
				want := akr.TermKey(t)
				if key == nil || want == nil || key.Term != t || !bytes.Equal(key.Value, want.Value) {
					kt := uint32(0)
					if key != nil {
						kt = key.Term
					}
					viol("upgrade-entry-holds-another-terms-key", "after %s the upgrade entry %s (the step from term %d to term %d, written by request %d after its Rotate returned term %d) holds the key of term %d; schedule %s", sc.name, strings.TrimPrefix(path, meta), t-1, t, i, t, kt, sched.String())
					return sched, r.NViolations() < 20
				}
				r.Count("upgrade_entries_compared_with_the_term_key", 1)
			}
			// the standby follows the upgrade path and ends with an identical keyring
			for i := 0; i < 16; i++ {
				did, _, uerr := sb.CheckUpgrade(c10Ctx)
				if uerr != nil {
					viol("standby-follow-failed", "standby CheckUpgrade after %s: %v; schedule %s", sc.name, uerr, sched.String())
					return sched, r.NViolations() < 20
				}
				if !did {
					break
				}
			}
			got, want := c10Snap(c10Raw(sb).keyring), c10Snap(akr)
			rootSame := bytes.Equal(got.Root, want.Root)
			got.Root, want.Root = nil, nil // a root-key rotation next to it is picked up by ReloadRootKey, not by the upgrade path
			if d := got.diff(want); d != "" {
				viol("standby-keyring-differs-from-active", "after %s the standby followed the upgrade path (CheckUpgrade until nothing is left) and its keyring differs from the active node's: %s (standby %s, active %s); schedule %s", sc.name, d, got, want, sched.String())
				return sched, r.NViolations() < 20
			}
			r.Count("standby_keyrings_identical_after_concurrent_rotations", 1)
			if !rootSame {
				if rerr := sb.ReloadRootKey(c10Ctx); rerr != nil {
					viol("standby-follow-failed", "standby ReloadRootKey after %s: %v", sc.name, rerr)
					return sched, r.NViolations() < 20
				}
			}
			if !judge("standby after the upgrade path", sb) {
				return sched, r.NViolations() < 20
			}
			_ = sb.Seal()
		}
		if err := b.Seal(); err != nil {
			viol("seal-failed", "Seal: %v", err)
			return sched, r.NViolations() < 20
		}
	}
	// ---- a fresh instance on what is in storage now
	type cand struct {
		name string
		key  []byte
	}
	cands := []cand{{"initial root key", root0}}
	for i, k := range newRoots {
		cands = append(cands, cand{fmt.Sprintf("root key of acknowledged root-key rotation #%d", i), k})
	}
	for i, k := range maybeRoots {
		cands = append(cands, cand{fmt.Sprintf("root key of refused root-key rotation #%d", i), k})
	}
	cands = append(cands, cand{"all-zero key", make([]byte, 32)}, cand{"random key", rng.Bytes(32)})
	var opened []cand
	var f SecurityBarrier
	for _, c := range cands {
		ff := NewAESGCMBarrier(phys, ns)
		if err := ff.Unseal(c10Ctx, append([]byte(nil), c.key...)); err == nil && !ff.Sealed() {
			opened = append(opened, c)
			if f == nil && isValid(c.key) {
				f = ff
			} else {
				_ = ff.Seal()
			}
		} else {
			r.Count("fresh_instance_wrong_or_stale_keys_refused", 1)
		}
	}
	for _, c := range opened {
		if !isValid(c.key) {
			viol("concurrent-stale-root-key-accepted", "after %s (acknowledged root-key rotations: %d) and a seal, a fresh instance opens with the %s; schedule %s", sc.name, len(newRoots), c.name, sched.String())
			return sched, r.NViolations() < 20
		}
	}
	if f == nil {
		viol("concurrent-key-operation-lost", "after %s (all acknowledged; root-key rotations: %d) and a seal, a fresh instance opens with none of the currently valid root keys (keys that open: %d); schedule %s", sc.name, len(newRoots), len(opened), sched.String())
		return sched, r.NViolations() < 20
	}
	if len(opened) != 1 {
		viol("concurrent-stale-root-key-accepted", "after %s and a seal %d different root keys open the store; schedule %s", sc.name, len(opened), sched.String())
		return sched, r.NViolations() < 20
	}
	if !hasSeal && !bytes.Equal(opened[0].key, live.Root) {
		viol("concurrent-key-operation-lost", "after %s the store opens with the %s, which is not the root key the running instance held; schedule %s", sc.name, opened[0].name, sched.String())
		return sched, r.NViolations() < 20
	}
	r.Count("fresh_instance_unseals_after_schedule", 1)
	if !judge("fresh instance after seal", f) {
		return sched, r.NViolations() < 20
	}
	if !hasSeal {
		if d := c10Snap(c10Raw(f).keyring).diff(live); d != "" {
			viol("concurrent-key-operation-lost", "keyring in storage differs from the one the running instance held after %s: %s; schedule %s", sc.name, d, sched.String())
			return sched, r.NViolations() < 20
		}
	}
	_ = f.Seal()
	// every other oracle held (no term was lost): now the transactional writes on their own
	for i, op := range sc.ops {
		if op != "txw" {
			continue
		}
		for k, floor := range res[i].floors {
			ht := headerTerm(k)
			if ht < floor {
				viol("transactional-write-after-rotation-under-older-term", "Put(%s) was issued through an open transaction after a Rotate that installed term %d had RETURNED; the committed raw record carries term %d; schedule %s", strings.TrimPrefix(k, meta), floor, ht, sched.String())
				return sched, r.NViolations() < 20
			}
			r.Count("transactional_put_term_checks", 1)
			if floor > term0 {
				r.Count("transactional_put_term_checks_issued_after_a_rotation_returned", 1)
			}
		}
	}
	return sched, r.NViolations() < 20
}

// c10SchedWindows counts, from the schedule alone, how often another request was let into the
// barrier while a root-key rotation sat inside its keyring write or its root-key-record write
// (with a barrier lock held across them the other request simply blocks there), and how often
// another request's storage write actually happened inside such a window (observation).
func c10SchedWindows(r *kit.Result, s kit.Schedule) {
	puts := map[string]int{} // root-key rotation tag -> storage writes released so far
	entered := map[string]bool{}
	in1, in2, foreign := false, false, false
	for _, st := range s.Steps {
		if strings.HasPrefix(st.Tag, "rr") {
			if st.Op == "get" && st.Key == c10Marker {
				entered[st.Tag] = true
			} else if st.Op == "put" || st.Op == "delete" {
				puts[st.Tag]++
			}
		}
		for _, tag := range st.Enabled {
			// tag is parked; a root-key rotation past its start marker is parked at one of its storage writes
			if tag == st.Tag || !entered[tag] || puts[tag] >= 2 {
				continue
			}
			if puts[tag] == 0 {
				in1 = true
			} else {
				in2 = true
			}
			if st.Op == "put" && (strings.HasSuffix(st.Key, KeyringPath) || strings.HasSuffix(st.Key, RootKeyPath)) {
				foreign = true // another request's keyring persist reached the store inside the rotation's
			}
		}
	}
	if in1 {
		r.Count("schedules_other_operation_released_while_root_rotation_inside_keyring_write", 1)
	}
	if in2 {
		r.Count("schedules_other_operation_released_while_root_rotation_inside_root_key_write", 1)
	}
	if foreign {
		r.Count("observation_schedules_with_foreign_keyring_write_inside_root_rotation", 1)
	}
}

func TestVerif_C10_BarrierSchedules(t *testing.T) {
	seed := kit.Seed(10)
	shard, nshards := kit.Shard()
	r := kit.NewResult(t, "c10-barrier-schedules", seed, "pairs and triples of {RotateRootKey, Rotate (+put), SetRotationConfig, encryption-count keyring persist, put+get, a read sweep over old entries and the entries the rotations write under their new terms, a read-write storage transaction (begin, put, put, commit; a Put issued after a Rotate RETURNED must carry at least that term in the committed raw record, a Put after Seal returned must be refused), Seal} on ONE barrier instance, issued concurrently under the storage-operation gate (every physical operation is a scheduling point; each request first parks at a start marker so the gate decides when it enters the barrier): directed schedules that let every other request in while a keyring-persisting request (above all the root-key rotation) sits before its keyring write, before its root-key-record write and before its legacy-record removal, all interleavings with <=2 preemptions up to a run cap, then seeded PCT schedules. After quiescence: every request reported success (or 'sealed' when a Seal ran next to it); active term = initial term + acknowledged rotations in memory; every acknowledged write reads back; a put carries the newest term; then seal, and a fresh instance opens with exactly one root key, a currently valid one (never the superseded, the all-zero or a random one), loads the same keyring and passes the same checks. A schedule is distinct by scenario + (tag,op) order hash; non-trivial when requests overlapped or one was judged blocked on the barrier lock while another was parked")
	defer r.Write(t)
	for si, sc := range c10SchedScenarios() {
		if si%nshards != shard {
			continue
		}
		pre := fmt.Sprintf("bsch:%d:%s", si, sc.name)
		var tags []string
		for i, op := range sc.ops {
			tags = append(tags, fmt.Sprintf("%s%d", op, i))
		}
		cont := true
		run := func(caseID string, pol kit.Policy) (kit.Schedule, bool) {
			if !kit.WantCase(caseID) {
				return kit.Schedule{Diverged: true}, true
			}
			s, c := c10SchedRun(r, seed, si, sc, caseID, pol)
			cont = cont && c
			return s, c
		}
		// directed: request `other` is let into the barrier while request `first` (an operation that
		// persists the keyring) is parked before its w-th storage write (keyring, root-key record,
		// removal of the legacy record); afterwards `other` keeps running while it can
		for fi, first := range tags {
			if op := sc.ops[fi]; op == "put" || op == "seal" || op == "rd" {
				continue
			}
			for oi, other := range tags {
				if oi == fi {
					continue
				}
				for w := 1; w <= 3 && cont; w++ {
					var script []string
					for i := 0; i < w; i++ {
						script = append(script, first)
					}
					script = append(script, other)
					run(fmt.Sprintf("%s:dir:%s:%d:%s", pre, first, w, other), kit.Script{Choices: script})
					r.Count("directed_schedules", 1)
				}
			}
		}
		// explored: the case id carries the scripted prefix, so a single case replays without the exploration
		exID := func(pol kit.Policy) string {
			scr, _ := pol.(kit.Script)
			return fmt.Sprintf("%s:ex:%s", pre, strings.Join(scr.Choices, "."))
		}
		if oc := kit.OnlyCase(); strings.HasPrefix(oc, pre+":ex:") {
			var script []string
			if rest := strings.TrimPrefix(oc, pre+":ex:"); rest != "" {
				script = strings.Split(rest, ".")
			}
			run(oc, kit.Script{Choices: script})
		} else if cont && oc == "" {
			ex := &kit.Explorer{MaxPreempt: 2, MaxRuns: kit.N(30, 250)}
			ex.Explore(func(pol kit.Policy) (kit.Schedule, bool) { return run(exID(pol), pol) })
			r.Count("explorer_runs", ex.Runs)
		}
		for k := 0; k < kit.N(10, 80) && cont; k++ {
			prng := kit.NewRand(seed, 8_100_000+uint64(si*1000+k))
			run(fmt.Sprintf("%s:pct:%d", pre, k), kit.NewPCT(prng, tags, 3, 14))
		}
		if r.NViolations() > 30 {
			break
		}
	}
	div := int64(nshards)
	r.Require("fresh_instance_unseals_after_schedule", 250/div)
	r.Require("concurrent_root_rotations_acknowledged", 190/div)
	r.Require("concurrent_rotations_acknowledged", 180/div)
	r.Require("schedules_other_operation_released_while_root_rotation_inside_keyring_write", 30/div)
	r.Require("schedules_other_operation_released_while_root_rotation_inside_root_key_write", 30/div)
	r.Require("fresh_instance_wrong_or_stale_keys_refused", 700/div)
	r.Require("entries_read_back_after_concurrent_key_operations", 2000/div)
	r.Require("schedules_with_seal", 45/div)
	r.Require("concurrent_read_sweeps_next_to_a_rotation", 40/div)
	r.Require("concurrent_transactions", 60/div)
	r.Require("upgrade_entries_compared_with_the_term_key", 150/div)
	r.Require("standby_keyrings_identical_after_concurrent_rotations", 70/div)
	r.Require("transactional_put_term_checks_issued_after_a_rotation_returned", 30/div)
}

var _ physical.Backend = (*kit.ProbeBackend)(nil)
