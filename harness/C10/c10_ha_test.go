//go:build verif

package vault

// C10 (HA pair): "a standby following the upgrade path ends with the same keyring as the
// active node", for the root barrier AND for every separately sealed namespace, judged with a
// real pair of cores on one shared store (HA lock in a second in-memory HA backend, as the
// repository's own TestCore_Standby* / TestRotationStandby do).
//
// The shared store is a probe backend with the cache-invalidation hook of the in-memory HA
// backend on top (every successful put/delete is announced to the cores, which is what makes
// the second core a read-enabled standby that keeps its namespace barriers unsealed). The two
// cores have no cluster listener, so the namespace root-key exchange a standby performs with
// the active node over the forwarding RPC (forwarding/request_forwarding_rpc.go getKeys) is
// issued by the harness through the very Core methods the RPC handlers call:
// standby.SetNamespaceKeys(active.NamespaceKeys(standby.NamespacesMissingKeys())).
//
// Reference model (from the property text): the unseal shares that are valid now per barrier
// (the ones the last completed rekey returned), the superseded ones, 1 + completed rotations =
// newest term per barrier, and every entry ever written.

import (
	"bytes"
	"context"
	"encoding/binary"
	"encoding/hex"
	"fmt"
	"sort"
	"strings"
	"sync"
	"sync/atomic"
	"testing"
	"time"

	log "github.com/hashicorp/go-hclog"
	kit "github.com/openbao/openbao/sdk/v2/helper/verifkit"
	"github.com/openbao/openbao/sdk/v2/logical"
	"github.com/openbao/openbao/sdk/v2/physical"
	"github.com/openbao/openbao/sdk/v2/physical/inmem"
	"github.com/openbao/openbao/v2/internal/helper/namespace"
	"github.com/openbao/openbao/v2/internal/vault/barrier"
)

const (
	c10HAStaleClass   = "C10-ha-promoted-standby-namespace-root-key-stale"
	c10HABehindClass  = "C10-ha-promoted-standby-namespace-keyring-behind"
	c10HASealCfgClass = "C10-ha-promoted-standby-namespace-seal-config-stale"
	c10HAOpenClass    = "C10-ha-promoted-standby-namespace-open-after-manual-seal"
	c10HAReadClass    = "C10-ha-standby-entry-unreadable-although-keyring-has-its-term"
	c10HATakeOverFail = "C10-ha-standby-failed-to-take-over-valid-state"
	c10HAUnreadable   = "C10-ha-entry-unreadable-after-failover"
	c10HAValidRefused = "C10-ha-valid-key-refused-after-failover"
	c10HAKeyringDiff  = "C10-ha-keyring-differs-after-failover"
)

// c10HAStore is the shared physical store: the probe backend plus the invalidation hook
// (same contract as sdk/physical/inmem InmemHABackend: announce every successful write).
type c10HAStore struct {
	physical.Backend
	mu    sync.Mutex
	hooks []physical.InvalidateFunc
	// hold: announcements are not delivered (the notice of a write has not reached the standby
	// yet - invalidation delivery is asynchronous in every backend that has it)
	hold    bool
	dropped int
}

func (s *c10HAStore) setHold(v bool) {
	s.mu.Lock()
	s.hold = v
	s.mu.Unlock()
}

func (s *c10HAStore) HookInvalidate(h physical.InvalidateFunc) {
	s.mu.Lock()
	s.hooks = append(s.hooks, h)
	s.mu.Unlock()
}

func (s *c10HAStore) announce(key string) {
	s.mu.Lock()
	if s.hold {
		s.dropped++
		s.mu.Unlock()
		return
	}
	hooks := append([]physical.InvalidateFunc(nil), s.hooks...)
	s.mu.Unlock()
	for _, h := range hooks {
		h(key) // Core.Invalidate only queues the key
	}
}

func (s *c10HAStore) Put(ctx context.Context, e *physical.Entry) error {
	key := e.Key
	err := s.Backend.Put(ctx, e)
	if err == nil {
		s.announce(key)
	}
	return err
}

func (s *c10HAStore) Delete(ctx context.Context, key string) error {
	err := s.Backend.Delete(ctx, key)
	if err == nil {
		s.announce(key)
	}
	return err
}

// c10HALocks is one node's view of the HA backend: it counts how often that node acquired the
// HA lock, i.e. how often it started to take over (state of the node itself, no log text).
type c10HALocks struct {
	physical.HABackend
	acquired *atomic.Int32
}

func (b *c10HALocks) LockWith(key, value string) (physical.Lock, error) {
	l, err := b.HABackend.LockWith(key, value)
	if err != nil {
		return nil, err
	}
	return &c10HALock{inner: l, acquired: b.acquired}, nil
}

type c10HALock struct {
	inner    physical.Lock
	acquired *atomic.Int32
}

func (l *c10HALock) Unlock() error                { return l.inner.Unlock() }
func (l *c10HALock) Value() (bool, string, error) { return l.inner.Value() }

func (l *c10HALock) Lock(stopCh <-chan struct{}) (<-chan struct{}, error) {
	ch, err := l.inner.Lock(stopCh)
	if err == nil && ch != nil {
		l.acquired.Add(1)
	}
	return ch, err
}

// c10HookLogger passes everything on to the wrapped logger and calls hook for every Info message.
// The harness uses it for ONE thing: SealManager.RotateBarrierKey issues its two barrier calls
// (Rotate, then CreateUpgrade) with nothing but a log line in between, and that log line is the only
// place where a scheduling point between the two calls can be put. No verdict looks at log text.
type c10HookLogger struct {
	log.Logger
	hook func(msg string)
}

func (l *c10HookLogger) Info(msg string, args ...interface{}) {
	l.hook(msg)
	l.Logger.Info(msg, args...)
}
func (l *c10HookLogger) Named(name string) log.Logger {
	return &c10HookLogger{Logger: l.Logger.Named(name), hook: l.hook}
}
func (l *c10HookLogger) ResetNamed(name string) log.Logger {
	return &c10HookLogger{Logger: l.Logger.ResetNamed(name), hook: l.hook}
}
func (l *c10HookLogger) With(args ...interface{}) log.Logger {
	return &c10HookLogger{Logger: l.Logger.With(args...), hook: l.hook}
}

const c10HABetween = "c10-sched/between-rotate-and-create-upgrade"

// c10KRSnap is the key material of one barrier as the exported accessors show it.
type c10KRSnap struct {
	Sealed bool
	Active uint32
	Root   []byte
	Keys   map[uint32][]byte
}

func c10SnapBarrier(b barrier.SecurityBarrier) c10KRSnap {
	s := c10KRSnap{Keys: map[uint32][]byte{}}
	if b == nil || b.Sealed() {
		s.Sealed = true
		return s
	}
	kr, err := b.Keyring()
	if err != nil || kr == nil {
		s.Sealed = true
		return s
	}
	s.Active = kr.ActiveTerm()
	s.Root = append([]byte(nil), kr.RootKey()...)
	for t := uint32(1); t <= s.Active; t++ {
		if k := kr.TermKey(t); k != nil {
			s.Keys[t] = append([]byte(nil), k.Value...)
		}
	}
	return s
}

func (s c10KRSnap) String() string {
	if s.Sealed {
		return "sealed"
	}
	var ts []int
	for t := range s.Keys {
		ts = append(ts, int(t))
	}
	sort.Ints(ts)
	return fmt.Sprintf("active=%d terms=%v root=%s..", s.Active, ts, hex.EncodeToString(s.Root[:min(4, len(s.Root))]))
}

func (a c10KRSnap) termsDiff(b c10KRSnap) string {
	if a.Active != b.Active {
		return fmt.Sprintf("active term %d vs %d", a.Active, b.Active)
	}
	for t, v := range a.Keys {
		w, ok := b.Keys[t]
		if !ok {
			return fmt.Sprintf("term %d missing", t)
		}
		if !bytes.Equal(v, w) {
			return fmt.Sprintf("key bytes of term %d differ", t)
		}
	}
	if len(a.Keys) != len(b.Keys) {
		return fmt.Sprintf("%d terms vs %d terms", len(a.Keys), len(b.Keys))
	}
	return ""
}

type c10HANode struct {
	name     string
	v        *vCore
	acquired atomic.Int32 // times this node acquired the HA lock
}

// c10HA is one HA pair plus the reference model.
type c10HA struct {
	t      *testing.T
	r      *kit.Result
	rng    *kit.Rand
	caseID string

	store *c10HAStore
	probe *kit.Probe
	// between: while set, a request that has just rotated an encryption key issues a (gated) read
	// before it writes the upgrade entry
	between atomic.Bool
	haPhy physical.HABackend

	nodes  []*c10HANode
	active int // index of the active node, -1 when none

	rootToken string
	root      c10Keys
	nsPaths   []string
	ns        map[string]*c10Keys
	standbyNS map[string]bool // namespace barrier unsealed on the standby (model)
	data      map[string]string

	steps  []string
	kinds  []string
	failed bool
	inconc bool

	// stale[path]: the promoted node's barrier of that namespace was found holding a superseded
	// root key (or lacking terms the active node had installed); the consequences for that
	// namespace are folded into that one finding
	lagged map[string]bool // scope -> a keyring rotation was performed whose notices were never delivered
	stale     map[string]*c10HAStale
	findings  []c10HAFinding // narrow findings that do not end the case
	keyOps    int
	failovers int
}

type c10HAFinding struct {
	class, what string
}

type c10HAStale struct {
	class       string
	what        string
	persist     []string
	after       []string
	preSnapshot string
}

func (h *c10HA) step(kind, format string, a ...any) {
	h.kinds = append(h.kinds, kind)
	h.steps = append(h.steps, fmt.Sprintf("%d:%s", len(h.steps), fmt.Sprintf(format, a...)))
}

func (h *c10HA) viol(class, format string, a ...any) {
	h.failed = true
	h.r.Violate(class, h.caseID, fmt.Sprintf("[%s] ", h.caseID)+fmt.Sprintf(format, a...), map[string]any{"steps": h.steps})
}

func (h *c10HA) giveUp(format string, a ...any) {
	h.inconc = true
	h.failed = true
	h.r.Inconc("[%s] %s; last steps: %v", h.caseID, fmt.Sprintf(format, a...), h.steps[max(0, len(h.steps)-5):])
}

func (h *c10HA) act() *c10HANode { return h.nodes[h.active] }

func (h *c10HA) sby() *c10HANode {
	if len(h.nodes) < 2 {
		return nil
	}
	return h.nodes[1-h.active]
}

func (h *c10HA) newNode(name, addr string, ha bool) *c10HANode {
	conf := testCoreConfig(&vT{h.t}, h.store, &c10HookLogger{Logger: vLogger(), hook: func(msg string) {
		if msg == "installed new encryption key" && h.between.Load() {
			_, _ = h.store.Get(context.Background(), c10HABetween)
		}
	}})
	n := &c10HANode{name: name}
	if ha {
		conf.HAPhysical = &c10HALocks{HABackend: h.haPhy, acquired: &n.acquired}
		conf.RedirectAddr = addr
	}
	conf.DisableCache = true
	conf.NumExpirationWorkers = numExpirationWorkersTest
	rec := newVRec()
	conf.LogicalBackends["verifrec"] = rec.Factory(logical.TypeLogical)
	conf.CredentialBackends["verifrec"] = rec.Factory(logical.TypeCredential)
	conf.Seal = nil
	core, err := NewCore(conf)
	if err != nil {
		h.t.Fatalf("verif: NewCore: %v", err)
	}
	n.v = &vCore{t: h.t, Core: core, Probe: h.probe, Phys: h.store, Rec: rec, Root: h.rootToken}
	return n
}

// poll waits (bounded) for cond; it never decides a verdict.
func c10Poll(max time.Duration, cond func() bool) bool {
	deadline := time.Now().Add(max)
	for {
		if cond() {
			return true
		}
		if time.Now().After(deadline) {
			return false
		}
		time.Sleep(2 * time.Millisecond)
	}
}

func c10IsActive(c *Core) bool {
	if c.Sealed() || c.Standby() {
		return false
	}
	c.stateLock.RLock()
	ok := !c.standby.Load() && c.namespaceStore != nil
	c.stateLock.RUnlock()
	return ok
}

func c10IsReadyStandby(c *Core) bool {
	if c.Sealed() {
		return false
	}
	c.stateLock.RLock()
	ok := c.standby.Load() && c.namespaceStore != nil && c.invalidations.doneCh != nil && c.invalidations.accepting.Load()
	c.stateLock.RUnlock()
	return ok
}

func c10HABoot(t *testing.T, r *kit.Result, rng *kit.Rand, caseID string, nsPaths []string) *c10HA {
	h := &c10HA{t: t, r: r, rng: rng, caseID: caseID, ns: map[string]*c10Keys{}, standbyNS: map[string]bool{}, data: map[string]string{}, stale: map[string]*c10HAStale{}, lagged: map[string]bool{}, active: 0}
	pb, probe := kit.NewInmemProbe(false)
	h.store = &c10HAStore{Backend: pb}
	h.probe = probe
	hb, err := inmem.NewInmemHA(nil, vLogger())
	if err != nil {
		t.Fatalf("verif: NewInmemHA: %v", err)
	}
	h.haPhy = hb.(physical.HABackend)
	n1 := h.newNode("A", "http://127.0.0.1:8200", true)
	h.nodes = append(h.nodes, n1)
	keys, token := TestCoreInit(&vT{t}, n1.v.Core)
	h.rootToken = token
	n1.v.Root = token
	h.root = c10Keys{shares: keys, thr: 3, term: 1}
	if ok, errs := c10UnsealShares(n1.v.Core, keys); !ok {
		t.Fatalf("verif: unseal node A: %v", errs)
	}
	if !c10Poll(20*time.Second, func() bool { return c10IsActive(n1.v.Core) }) {
		h.giveUp("node A did not become active within the bound")
		return h
	}
	n1.v.Mount("c10rec", "verifrec", "", nil)
	h.step("boot", "node A initialised (shamir 3/3), unsealed, active")
	for _, p := range nsPaths {
		shares := TestCoreCreateSealedNamespaces(&vT{t}, n1.v.Core, &namespace.Namespace{Path: p})
		h.ns[p] = &c10Keys{shares: shares[p], thr: 3, term: 1, sealed: true}
		h.nsPaths = append(h.nsPaths, p)
		if ok, errs := h.unsealNSOn(n1, p, shares[p]); !ok {
			t.Fatalf("verif: unseal fresh namespace %s: %v", p, errs)
		}
		h.ns[p].sealed = false
		n1.v.Mount("c10rec", "verifrec", p, nil)
		h.step("boot", "sealable namespace %s created (shamir 3/3) and unsealed on node A", p)
	}
	n2 := h.newNode("B", "http://127.0.0.1:8500", true)
	h.nodes = append(h.nodes, n2)
	if _, errs := c10UnsealShares(n2.v.Core, keys); n2.v.Core.Sealed() {
		t.Fatalf("verif: unseal node B: %v", errs)
	}
	if !c10Poll(20*time.Second, func() bool { return c10IsReadyStandby(n2.v.Core) }) {
		h.giveUp("node B did not come up as a read-enabled standby within the bound")
		return h
	}
	h.step("boot", "node B unsealed with the same shares: read-enabled standby")
	return h
}

func (h *c10HA) nsObjOn(n *c10HANode, path string) *namespace.Namespace {
	c := n.v.Core
	c.stateLock.RLock()
	defer c.stateLock.RUnlock()
	if c.namespaceStore == nil {
		return nil
	}
	ns, err := c.namespaceStore.GetNamespaceByPath(c10Root, path)
	if err != nil || ns == nil || ns.ID == namespace.RootNamespaceID {
		return nil
	}
	return ns
}

func (h *c10HA) unsealNSOn(n *c10HANode, path string, shares [][]byte) (bool, []string) {
	var errs []string
	ns := h.nsObjOn(n, path)
	if ns == nil {
		return false, []string{"namespace not found"}
	}
	for _, s := range shares {
		ok, err := TestNamespaceUnseal(n.v.Core, ns, TestKeyCopy(s))
		if err != nil {
			errs = append(errs, err.Error())
		}
		if ok && !n.v.Core.NamespaceSealed(ns) {
			return true, errs
		}
	}
	n.v.Core.sealManager.ResetUnsealProcess(ns.UUID)
	return !n.v.Core.NamespaceSealed(ns), errs
}

func (h *c10HA) barrierOn(n *c10HANode, scope string) barrier.SecurityBarrier {
	if scope == "root" {
		return n.v.Core.barrier
	}
	return n.v.Core.sealManager.NamespaceBarrier(scope)
}

func (h *c10HA) keys(scope string) *c10Keys {
	if scope == "root" {
		return &h.root
	}
	return h.ns[scope]
}

func (h *c10HA) scopes() []string { return append([]string{"root"}, h.nsPaths...) }

// ---------------------------------------------------------------- data

func (h *c10HA) storageOn(n *c10HANode, scope string) (logical.Storage, string) {
	if scope == "root" {
		return n.v.Core.barrier, ""
	}
	ns := h.nsObjOn(n, scope)
	if ns == nil {
		return nil, ""
	}
	return n.v.Core.NamespaceView(ns), NamespaceStoragePathPrefix(ns)
}

func (h *c10HA) header(key string) int {
	pe, _ := h.probe.Inner().Get(c10Root, key)
	if pe == nil || len(pe.Value) < 4 {
		return -1
	}
	return int(binary.BigEndian.Uint32(pe.Value[:4]))
}

// write puts one raw entry through the scope's barrier and one through the API mount.
func (h *c10HA) write(n *c10HANode, scope string) {
	i := len(h.data)
	val := h.rng.Canary()
	key := fmt.Sprintf("c10ha/raw/k%d", i)
	st, prefix := h.storageOn(n, scope)
	if st == nil {
		h.viol("C10-ha-write-failed", "node %s: no storage for %s", n.name, scope)
		return
	}
	err := st.Put(c10Root, &logical.StorageEntry{Key: key, Value: []byte(val)})
	h.step("write", "node %s: write %s raw %s err=%v", n.name, scope, key, err)
	if err != nil {
		if st := h.stale[scope]; st != nil {
			st.after = append(st.after, fmt.Sprintf("raw write failed: %v", err))
			return
		}
		h.viol("C10-ha-write-failed", "node %s: barrier put on the unsealed %s barrier: %v", n.name, scope, err)
		return
	}
	h.data[scope+"|raw|"+key] = val
	if got, want := h.header(prefix+key), h.keys(scope).term; got != want && h.stale[scope] != nil {
		h.stale[scope].after = append(h.stale[scope].after, fmt.Sprintf("node %s: fresh write carries term %d, newest term the previously active node installed is %d", n.name, got, want))
	} else if got != want {
		h.viol("C10-new-write-old-term", "node %s: fresh write %s%s carries term %d in its physical header; the %s barrier completed %d rotation(s), newest term is %d", n.name, prefix, key, got, scope, want-1, want)
		return
	}
	h.r.Count("fresh_write_term_checks", 1)
	path := fmt.Sprintf("c10rec/data/k%d", i)
	nsHdr := ""
	if scope != "root" {
		nsHdr = scope
	}
	resp, err := n.v.Do(vReq{Op: logical.UpdateOperation, Path: path, Token: h.rootToken, NS: nsHdr, Data: map[string]any{"v": val}})
	h.step("write", "node %s: write %s api %s -> %s", n.name, scope, path, vErrStr(resp, err))
	if !vOK(resp, err) {
		if st := h.stale[scope]; st != nil {
			st.after = append(st.after, fmt.Sprintf("API write failed: %s", vErrStr(resp, err)))
			return
		}
		h.viol("C10-ha-write-failed", "node %s: API write %s (%s): %s", n.name, path, scope, vErrStr(resp, err))
		return
	}
	h.data[scope+"|api|"+path] = val
}

// readAll reads every entry of the given scopes on node n; it returns the first failure.
func (h *c10HA) readAll(n *c10HANode, scopes map[string]bool) (scope, what string) {
	var ids []string
	for id := range h.data {
		ids = append(ids, id)
	}
	sort.Strings(ids)
	for _, id := range ids {
		p := strings.SplitN(id, "|", 3)
		sc, knd, key := p[0], p[1], p[2]
		if !scopes[sc] {
			continue
		}
		switch knd {
		case "raw":
			st, _ := h.storageOn(n, sc)
			if st == nil {
				return sc, fmt.Sprintf("%s storage not available for %s", sc, key)
			}
			got, err := st.Get(c10Root, key)
			if err != nil {
				return sc, fmt.Sprintf("%s barrier Get(%s): %v", sc, key, err)
			}
			if got == nil {
				return sc, fmt.Sprintf("%s barrier Get(%s) returned nothing", sc, key)
			}
			if string(got.Value) != h.data[id] {
				return sc, fmt.Sprintf("%s barrier Get(%s) returned a different value", sc, key)
			}
		case "api":
			nsHdr := ""
			if sc != "root" {
				nsHdr = sc
			}
			var resp *logical.Response
			var err error
			// mounts of a namespace are loaded in the background after its unseal: bounded retry, then judge
			c10Poll(3*time.Second, func() bool {
				resp, err = n.v.Do(vReq{Op: logical.ReadOperation, Path: key, Token: h.rootToken, NS: nsHdr})
				if es := vErrStr(resp, err); strings.Contains(es, "no handler for route") || strings.Contains(es, "unsupported path") || strings.Contains(es, "namespace") && strings.Contains(es, "not found") {
					return false
				}
				return true
			})
			if !vOK(resp, err) {
				return sc, fmt.Sprintf("API read %s (%s): %s", key, sc, vErrStr(resp, err))
			}
			if resp == nil || resp.Data == nil {
				return sc, fmt.Sprintf("API read %s (%s) returned nothing", key, sc)
			}
			if fmt.Sprint(resp.Data["v"]) != h.data[id] {
				return sc, fmt.Sprintf("API read %s (%s) returned a different value", key, sc)
			}
		}
		h.r.Count("entries_read_back", 1)
	}
	return "", ""
}

// ---------------------------------------------------------------- operations on the active node

func (h *c10HA) nsCtxOn(n *c10HANode, scope string) (context.Context, *namespace.Namespace) {
	if scope == "root" {
		return c10Root, namespace.RootNamespace
	}
	ns := h.nsObjOn(n, scope)
	if ns == nil {
		return c10Root, nil
	}
	return namespace.ContextWithNamespace(context.Background(), ns), ns
}

// sysOn issues a sys/ request in the scope's namespace.
func (h *c10HA) sysOn(n *c10HANode, scope, path string, data map[string]any) (*logical.Response, error) {
	nsHdr := ""
	if scope != "root" {
		nsHdr = scope
	}
	return n.v.Do(vReq{Tag: "c10op", Op: logical.UpdateOperation, Path: path, Token: h.rootToken, NS: nsHdr, Data: data})
}

// rotateKeyring = sys/rotate/keyring in the scope's namespace.
func (h *c10HA) rotateKeyring(n *c10HANode, scope string) error {
	resp, err := h.sysOn(n, scope, "sys/rotate/keyring", nil)
	h.step("rotate-keyring", "node %s: sys/rotate/keyring in %s -> %s", n.name, scope, vErrStr(resp, err))
	if !vOK(resp, err) {
		return fmt.Errorf("%s", vErrStr(resp, err))
	}
	h.keys(scope).term++
	h.keyOps++
	h.r.Count("keyring_rotations", 1)
	h.r.Count("keyring_rotations:"+map[bool]string{true: "root", false: "namespace"}[scope == "root"], 1)
	if n == h.act() {
		// later writes are encrypted under the new term: let the standby follow first, as it
		// does within milliseconds in a live cluster (the order in which a standby processes the
		// upgrade notice and the notices of later writes is not under test here)
		h.awaitStandbyTerm(scope)
	}
	return nil
}

// awaitStandbyTerm waits (bounded; not a verdict) until the standby has installed the newest term
// of the scope's barrier, provided the notices are being delivered and the standby holds that
// barrier unsealed. Ordinary traffic keeps flowing meanwhile: the standby's invalidation queue is
// only drained when a later notice arrives (invalidationManager.Add wakes the dispatcher with a
// non-blocking send).
func (h *c10HA) awaitStandbyTerm(scope string) bool {
	s := h.sby()
	if s == nil || s.v.Core.Sealed() || h.lagged[scope] || h.stale[scope] != nil || (scope != "root" && !h.standbyNS[scope]) {
		return true
	}
	want := uint32(h.keys(scope).term)
	tries := 0
	ok := c10Poll(10*time.Second, func() bool {
		b := h.barrierOn(s, scope)
		if b == nil || b.Sealed() {
			return false
		}
		info, err := b.ActiveKeyInfo()
		if err == nil && uint32(info.Term) >= want {
			return true
		}
		if tries++; tries%10 == 0 {
			_ = h.store.Put(c10Root, &physical.Entry{Key: "c10ha-traffic/k", Value: []byte{byte(tries)}})
		}
		return false
	})
	if ok && tries >= 10 {
		h.r.Count("observation_standby_processed_a_notice_only_after_later_traffic", 1)
	}
	if !ok {
		h.giveUp("standby %s did not install term %d of the %s barrier within the bound", s.name, want, scope)
	}
	return ok
}

// overlappingRotations issues n sys/rotate/keyring requests in the scope at once under the storage
// gate. Every request is parked between its Rotate and its CreateUpgrade (and before the write of
// its upgrade entry), so all rotations have completed before the first upgrade entry is written;
// the entries are then written in the given order. Afterwards each upgrade entry must hold exactly
// the key of the term it leads to, and the standby (which holds the barrier unsealed and gets the
// notices) must end with a keyring identical to the active node's and read everything.
func (h *c10HA) overlappingRotations(a *c10HANode, scope string, n int, reverse bool) {
	nsHdr := ""
	if scope != "root" {
		nsHdr = scope
	}
	term0 := h.keys(scope).term
	errs := make([]string, n)
	var reqs []kit.Req
	var tags []string
	for i := 0; i < n; i++ {
		i := i
		tag := fmt.Sprintf("rotate%d", i)
		tags = append(tags, tag)
		reqs = append(reqs, kit.Req{Tag: tag, Fn: func() {
			resp, err := a.v.Do(vReq{Op: logical.UpdateOperation, Path: "sys/rotate/keyring", Token: h.rootToken, NS: nsHdr})
			if !vOK(resp, err) {
				errs[i] = vErrStr(resp, err)
			}
		}})
	}
	var script []string
	if reverse {
		for i := n - 1; i >= 0; i-- {
			script = append(script, tags[i])
		}
	}
	h.between.Store(true)
	sched := h.probe.RunGated(reqs, kit.Script{Choices: script}, kit.GateOpts{Grace: 300 * time.Millisecond, Hard: 30 * time.Second, Filter: func(ev kit.Event) bool {
		return (ev.Op == "get" && ev.Key == c10HABetween) || (ev.Op == "put" && strings.Contains(ev.Key, barrier.KeyringUpgradePrefix))
	}})
	h.between.Store(false)
	h.step("rotate-keyring", "node %s: %d overlapping sys/rotate/keyring requests in %s under the gate: %s -> %v", a.name, n, scope, sched.String(), errs)
	if sched.TimedOut {
		h.giveUp("gate watchdog expired during overlapping rotations")
		return
	}
	for i, e := range errs {
		if e != "" {
			h.viol("C10-key-op-failed", "overlapping sys/rotate/keyring request %d of %d in %s: %s", i, n, scope, e)
			return
		}
	}
	h.keys(scope).term += n
	h.keyOps++
	h.r.Count("keyring_rotations", n)
	h.r.Count("overlapping_rotation_batches", 1)
	h.r.Count("overlapping_rotation_batches:"+map[bool]string{true: "root", false: "namespace"}[scope == "root"], 1)
	// every request was parked between its Rotate and its CreateUpgrade when the first one was let go on
	if len(sched.Steps) > 0 && sched.Steps[0].Key == c10HABetween && len(sched.Steps[0].Enabled) == n {
		h.r.Count("overlapping_rotation_batches_all_rotations_before_the_first_upgrade_entry", 1)
	}
	b := h.barrierOn(a, scope)
	akr, err := b.Keyring()
	if err != nil || int(akr.ActiveTerm()) != h.keys(scope).term {
		h.viol(c10HAKeyringDiff, "after %d acknowledged overlapping rotations in %s the active node's term is not %d (%v)", n, scope, h.keys(scope).term, err)
		return
	}
	_, prefix := h.storageOn(a, scope)
	for t := term0 + 1; t <= term0+n; t++ {
		path := fmt.Sprintf("%s%s%d", prefix, barrier.KeyringUpgradePrefix, t-1)
		pe, _ := h.probe.Inner().Get(c10Root, path)
		var key *barrier.Key
		if pe != nil {
			if plain, derr := b.Decrypt(c10Root, path, pe.Value); derr == nil {
				key, _ = barrier.DeserializeKey(plain)
			}
		}
		want := akr.TermKey(uint32(t))
		if key == nil || want == nil || int(key.Term) != t || !bytes.Equal(key.Value, want.Value) {
			kt := -1
			if key != nil {
				kt = int(key.Term)
			}
			h.viol("C10-upgrade-entry-holds-another-terms-key", "after %d overlapping sys/rotate/keyring requests in %s (terms %d..%d) the upgrade entry %s, the step from term %d to term %d, holds the key of term %d; schedule %s", n, scope, term0+1, term0+n, path, t-1, t, kt, sched.String())
			return
		}
		h.r.Count("upgrade_entries_compared_with_the_term_key", 1)
	}
	// the standby follows by the notices of the upgrade entries
	if s := h.sby(); s != nil && !s.v.Core.Sealed() && (scope == "root" || h.standbyNS[scope]) {
		if !h.awaitStandbyTerm(scope) {
			return
		}
		got, want := c10SnapBarrier(h.barrierOn(s, scope)), c10SnapBarrier(b)
		if d := got.termsDiff(want); d != "" {
			h.viol("C10-ha-standby-keyring-differs-after-upgrade-path", "standby %s followed the upgrade entries of %d overlapping rotations in %s and its keyring differs from the active node's: %s (standby %s, active %s)", s.name, n, scope, d, got, want)
			return
		}
		h.r.Count("standby_keyrings_identical_after_overlapping_rotations", 1)
	}
	h.write(a, scope)
	if !h.failed {
		h.standbyRawReads(scope, "after it followed the upgrade entries of overlapping rotations")
	}
}

// rotateRoot = sys/rotate/root in the scope's namespace (new root key, same shares).
func (h *c10HA) rotateRoot(n *c10HANode, scope string) error {
	resp, err := h.sysOn(n, scope, "sys/rotate/root", nil)
	h.step("rotate-root", "node %s: sys/rotate/root in %s -> %s", n.name, scope, vErrStr(resp, err))
	if !vOK(resp, err) {
		return fmt.Errorf("%s", vErrStr(resp, err))
	}
	h.keyOps++
	h.r.Count("root_key_rotations", 1)
	h.r.Count("root_key_rotations:"+map[bool]string{true: "root", false: "namespace"}[scope == "root"], 1)
	return nil
}

// rekey = SealManager.InitRotation/UpdateRotation (what sys/rotate/root/init + update drive).
func (h *c10HA) rekey(n *c10HANode, scope string, shares, thr int) error {
	ctx, ns := h.nsCtxOn(n, scope)
	if ns == nil {
		return fmt.Errorf("namespace %s not found", scope)
	}
	ks := h.keys(scope)
	sm := n.v.Core.sealManager
	cfg := &SealConfig{SecretShares: shares, SecretThreshold: thr}
	fail := func(stage string, err error) error {
		h.step("rekey", "node %s: rekey %s -> %d/%d: %s: %v", n.name, scope, thr, shares, stage, err)
		return fmt.Errorf("%s: %w", stage, err)
	}
	n.v.Probe.Tag("c10op")
	defer n.v.Probe.Untag()
	if _, err := sm.InitRotation(ctx, ns, cfg, false); err != nil {
		return fail("init", err)
	}
	rc := sm.RotationConfig(ns.UUID, false)
	if rc == nil {
		return fail("config", fmt.Errorf("no rotation config"))
	}
	var res *RekeyResult
	for _, s := range ks.shares {
		var err error
		res, err = sm.UpdateRotation(ctx, ns, TestKeyCopy(s), rc.Nonce, false)
		if err != nil {
			_ = sm.CancelRotation(ctx, ns.UUID, false)
			return fail("update", err)
		}
		if res != nil {
			break
		}
	}
	if res == nil || len(res.SecretShares) != shares {
		_ = sm.CancelRotation(ctx, ns.UUID, false)
		return fail("update", fmt.Errorf("no result after all %d shares", len(ks.shares)))
	}
	h.step("rekey", "node %s: rekey %s -> %d/%d ok", n.name, scope, thr, shares)
	ks.stale = append(ks.stale, ks.shares)
	ks.shares, ks.thr = res.SecretShares, thr
	h.keyOps++
	h.r.Count("rekeys", 1)
	h.r.Count("rekeys:"+map[bool]string{true: "root", false: "namespace"}[scope == "root"], 1)
	return nil
}

func (h *c10HA) rotationConfig(n *c10HANode, scope string) error {
	resp, err := h.sysOn(n, scope, "sys/rotate/keyring/config", map[string]any{"max_operations": int64(barrier.AbsoluteOperationMinimum + 1000 + int64(h.rng.Intn(1000))), "interval": "48h"})
	h.step("rotation-config", "node %s: sys/rotate/keyring/config in %s -> %s", n.name, scope, vErrStr(resp, err))
	if !vOK(resp, err) {
		return fmt.Errorf("%s", vErrStr(resp, err))
	}
	return nil
}

func (h *c10HA) sealNS(n *c10HANode, path string) {
	err := n.v.Core.namespaceStore.SealNamespace(c10Root, path)
	h.step("seal-ns", "node %s: seal namespace %s err=%v", n.name, path, err)
	if err != nil {
		h.viol("C10-seal-failed", "seal namespace %s: %v", path, err)
		return
	}
	h.ns[path].sealed = true
	h.r.Count("namespace_manual_seals", 1)
	// the standby seals it too once it sees the namespace entry (bounded wait, not a verdict)
	if s := h.sby(); s != nil && h.standbyNS[path] && !h.lagged[path] {
		tries := 0
		c10Poll(5*time.Second, func() bool {
			b := h.barrierOn(s, path)
			if b == nil || b.Sealed() {
				return true
			}
			if tries++; tries%10 == 0 {
				_ = h.store.Put(c10Root, &physical.Entry{Key: "c10ha-traffic/k", Value: []byte{byte(tries)}})
			}
			return false
		})
		s.v.WaitQuiet(20*time.Millisecond, 3*time.Second)
		if b := h.barrierOn(s, path); b != nil && !b.Sealed() {
			h.giveUp("standby %s did not seal namespace %s within the bound after the notice of its manual seal", s.name, path)
			return
		}
		h.standbyNS[path] = false
	}
}

func (h *c10HA) unsealNS(n *c10HANode, path string) {
	ks := h.ns[path]
	ok, errs := h.unsealNSOn(n, path, ks.shares[:ks.thr])
	h.step("unseal-ns", "node %s: unseal namespace %s with a threshold (%d of %d) of its current shares ok=%v %v", n.name, path, ks.thr, len(ks.shares), ok, errs)
	if ok {
		ks.sealed = false
		return
	}
	if st := h.stale[path]; st != nil {
		st.after = append(st.after, fmt.Sprintf("node %s: namespace stays sealed with its currently valid shares: %v", n.name, errs))
		return
	}
	// which seal configuration does the node apply?
	cachedT, cachedN := -1, -1
	if ns := h.nsObjOn(n, path); ns != nil {
		if sl := n.v.Core.sealManager.NamespaceSeal(ns.UUID); sl != nil {
			if cfg, err := sl.BarrierConfig(namespace.ContextWithNamespace(context.Background(), ns)); err == nil && cfg != nil {
				cachedT, cachedN = cfg.SecretThreshold, cfg.SecretShares
			}
		}
	}
	if cachedT >= 0 && (cachedT != ks.thr || cachedN != len(ks.shares)) {
		what := fmt.Sprintf("node %s (a standby that was promoted): namespace %s stays sealed after a full threshold (%d of %d) of its currently valid shares (errors: %v); the node applies the seal configuration a completed rekey superseded (in its memory: %d of %d; in storage, written by the rekey on the other node: %d of %d)", n.name, path, ks.thr, len(ks.shares), errs, cachedT, cachedN, ks.thr, len(ks.shares))
		h.r.Count("promoted_namespace_seal_config_stale", 1)
		if len(errs) == 0 {
			if ok2, _ := h.unsealNSOn(n, path, ks.shares); ok2 {
				what += "; it opens once every share (more than the threshold) is supplied"
				h.findings = append(h.findings, c10HAFinding{c10HASealCfgClass, what})
				h.step("finding", "%s", what)
				ks.sealed = false
				return
			}
		}
		what += "; it cannot be opened on this node at all (it combines the shares at the superseded threshold)"
		h.stale[path] = &c10HAStale{class: c10HASealCfgClass, what: what}
		h.step("finding", "%s", what)
		return
	}
	h.viol(c10HAValidRefused, "node %s: namespace %s stays sealed with its currently valid shares: %v", n.name, path, errs)
}

// keySync is the standby's namespace key exchange with the active node (forwarding RPC getKeys).
func (h *c10HA) keySync() {
	a, s := h.act(), h.sby()
	if s == nil || s.v.Core.Sealed() {
		return
	}
	missing := s.v.Core.NamespacesMissingKeys()
	sort.Strings(missing)
	got, loaded := 0, 0
	var errs []string
	// one namespace at a time, each fully loaded before the next: the node loads the mounts of a
	// freshly unsealed namespace in the background, and doing that for two namespaces at once
	// (or next to a namespace seal) can trip the lock-order watchdog of the core, which is not
	// what this monitor is about
	for _, uuid := range missing {
		keys, err := a.v.Core.NamespaceKeys(context.Background(), []string{uuid})
		if err != nil {
			errs = append(errs, err.Error())
		}
		if len(keys) == 0 {
			continue
		}
		got++
		if err := s.v.Core.SetNamespaceKeys(context.Background(), keys); err != nil {
			errs = append(errs, err.Error())
			continue
		}
		loaded++
		s.v.WaitQuiet(20*time.Millisecond, 3*time.Second)
	}
	h.step("key-sync", "standby %s asks the active node for the root keys of %d sealed namespace(s): got %d, loaded %d, errors %v", s.name, len(missing), got, loaded, errs)
	for _, p := range h.nsPaths {
		if b := h.barrierOn(s, p); b != nil && !b.Sealed() {
			if !h.standbyNS[p] {
				h.r.Count("standby_namespace_unsealed_by_key_sync", 1)
			}
			h.standbyNS[p] = true
		}
	}
}

// standbyCatchUp waits (bounded) until the standby has seen the namespaces and installed the
// terms the upgrade path offers; false = it did not within the bound (inconclusive, not a verdict).
func (h *c10HA) standbyCatchUp() bool {
	s := h.sby()
	if s == nil || s.v.Core.Sealed() {
		return true
	}
	for _, p := range h.nsPaths {
		if !c10Poll(10*time.Second, func() bool { return h.nsObjOn(s, p) != nil && h.barrierOn(s, p) != nil }) {
			h.giveUp("standby %s did not learn of namespace %s within the bound", s.name, p)
			return false
		}
		if !h.awaitStandbyTerm(p) {
			return false
		}
	}
	if !h.awaitStandbyTerm("root") {
		return false
	}
	s.v.WaitQuiet(5*time.Millisecond, 2*time.Second)
	return true
}

// ---------------------------------------------------------------- fail-over

// failover seals the active node (or makes it step down) and waits for the standby to take over.
func (h *c10HA) failover(how string) bool {
	if !h.standbyCatchUp() {
		return false
	}
	old, nw := h.act(), h.sby()
	// what the active node holds, i.e. what it persisted
	pre := map[string]c10KRSnap{}
	for _, sc := range h.scopes() {
		pre[sc] = c10SnapBarrier(h.barrierOn(old, sc))
	}
	acq0 := nw.acquired.Load()
	switch how {
	case "seal":
		if err := TestCoreSeal(old.v.Core); err != nil {
			h.viol("C10-seal-failed", "seal of the active node %s: %v", old.name, err)
			return false
		}
	case "step-down":
		req := &logical.Request{Operation: logical.UpdateOperation, Path: "sys/step-down", ClientToken: h.rootToken}
		if err := old.v.Core.StepDown(c10Root, req); err != nil {
			h.viol("C10-seal-failed", "step-down of the active node %s: %v", old.name, err)
			return false
		}
	}
	h.step("failover", "active node %s: %s", old.name, how)
	// wait (bounded) until the standby is active - or has visibly given up: it is sealed (a node
	// whose key upgrades fail on take-over shuts itself down), or it acquired the HA lock a second
	// time without ever finishing its active-state setup
	gaveUp := func() bool {
		c := nw.v.Core
		return c.Sealed() || (nw.acquired.Load()-acq0 >= 2 && c.Standby())
	}
	c10Poll(30*time.Second, func() bool { return c10IsActive(nw.v.Core) || gaveUp() })
	if !c10IsActive(nw.v.Core) {
		h.store.setHold(false)
		attempts := nw.acquired.Load() - acq0
		if attempts == 0 && !nw.v.Core.Sealed() {
			// still a healthy standby waiting for the lock: slow, not failed
			h.giveUp("standby %s did not acquire the HA lock within the bound after %s of %s", nw.name, how, old.name)
			return false
		}
		if !gaveUp() {
			h.giveUp("standby %s acquired the HA lock after %s of %s but did not finish its active-state setup within the bound", nw.name, how, old.name)
			return false
		}
		h.takeOverFailed(nw, old, how, int(attempts))
		return false
	}
	h.store.setHold(false)
	h.active = 1 - h.active
	h.failovers++
	h.r.Count("failovers", 1)
	h.r.Count("failovers:"+how, 1)
	h.step("failover", "node %s is active", nw.name)
	// namespaces unsealed on the promoted node: as the model says (unsealed there before)
	for _, p := range h.nsPaths {
		b := h.barrierOn(nw, p)
		unsealedThere := b != nil && !b.Sealed()
		if h.ns[p].sealed && unsealedThere {
			// the operator sealed it (acknowledged); does the promoted node serve it?
			served := "no entry of it was written before"
			for id, val := range h.data {
				if q := strings.SplitN(id, "|", 3); q[0] == p && q[1] == "raw" {
					st, _ := h.storageOn(nw, p)
					got, err := st.Get(c10Root, q[2])
					served = fmt.Sprintf("a read of entry %s of that namespace on the promoted node returns the value: %v (err=%v)", q[2], err == nil && got != nil && string(got.Value) == val, err)
					break
				}
			}
			what := fmt.Sprintf("namespace %s was sealed by the operator on the active node (acknowledged, recorded in its namespace entry) before the fail-over; the promoted node %s still holds the namespace's barrier unsealed with its keyring in memory (notice of the seal delivered to it before the fail-over: %v); %s", p, nw.name, !h.lagged[p], served)
			h.findings = append(h.findings, c10HAFinding{c10HAOpenClass, what})
			h.step("finding", "%s", what)
			h.r.Count("promoted_namespace_open_after_manual_seal", 1)
		}
		h.standbyNS[p] = false
		h.ns[p].sealed = !unsealedThere
	}
	h.compareKeyrings(nw, pre)
	h.lagged = map[string]bool{}
	return !h.failed
}

// takeOverFailed: the standby acquired the HA lock and gave up (it sealed itself, or fell back to
// standby and tried again). If what the previously active node left in storage is a consistent
// key state - a fresh core opens the root barrier and every namespace with the currently valid
// shares and reads every entry - the standby failed to complete the upgrade path on a valid state.
func (h *c10HA) takeOverFailed(nw, old *c10HANode, how string, attempts int) {
	sealed := nw.v.Core.Sealed()
	state := fmt.Sprintf("node %s acquired the HA lock %d time(s) after %s of %s and is now sealed=%v standby=%v", nw.name, attempts, how, old.name, sealed, nw.v.Core.Standby())
	h.step("failover", "%s: the take-over failed", state)
	h.r.Count("take_overs_given_up", 1)
	for i, n := range h.nodes {
		if n == nw {
			h.active = i // for the shutdown order only
		}
	}
	before := h.r.NViolations()
	h.endState()
	if h.inconc {
		return
	}
	if h.failed || h.r.NViolations() > before || len(h.stale) > 0 || len(h.findings) > 0 {
		// storage itself is not in a state a fresh core can open: the classes recorded say so
		return
	}
	h.viol(c10HATakeOverFail, "%s; it did not complete the upgrade path although the state the active node left is valid: a fresh core on the same store opened the root barrier and every namespace (%d) with the currently valid shares, refused the superseded ones and read every entry (%d) written before", state, len(h.nsPaths), len(h.data))
}

// compareKeyrings: the promoted node's in-memory keyrings against what the node that was active
// held (and persisted), and against storage itself (a fresh barrier instance on the store must
// open with the root key the promoted node has in memory).
func (h *c10HA) compareKeyrings(nw *c10HANode, pre map[string]c10KRSnap) {
	for _, sc := range h.scopes() {
		b := h.barrierOn(nw, sc)
		got := c10SnapBarrier(b)
		want := pre[sc]
		if got.Sealed || want.Sealed {
			h.r.Count("keyring_comparisons_skipped_barrier_sealed", 1)
			continue
		}
		h.r.Count("keyring_comparisons", 1)
		h.r.Count("keyring_comparisons:"+map[bool]string{true: "root", false: "namespace"}[sc == "root"], 1)
		var nsObj *namespace.Namespace
		if sc != "root" {
			nsObj = h.nsObjOn(nw, sc)
		}
		opens := func(key []byte) error {
			f := barrier.NewAESGCMBarrier(h.probe.Inner(), nsObj)
			err := f.Unseal(c10Root, append([]byte(nil), key...))
			if err == nil {
				_ = f.Seal()
			}
			return err
		}
		if !bytes.Equal(got.Root, want.Root) {
			memErr, actErr := opens(got.Root), opens(want.Root)
			what := fmt.Sprintf("after the fail-over the promoted node %s holds for the %s barrier a root key (%s..) that differs from the one the previously active node held and persisted (%s..); the keyring in storage opens with the promoted node's in-memory root key: %v; with the previously active node's: %v", nw.name, sc, hex.EncodeToString(got.Root[:4]), hex.EncodeToString(want.Root[:4]), memErr == nil, actErr == nil)
			if sc != "root" {
				h.stale[sc] = &c10HAStale{class: c10HAStaleClass, what: what, preSnapshot: fmt.Sprintf("previously active: %s; promoted: %s", want, got)}
				h.step("finding", "%s", what)
				h.r.Count("promoted_namespace_barriers_with_stale_root_key", 1)
			} else {
				h.viol(c10HAKeyringDiff, "%s", what)
				return
			}
		} else if err := opens(got.Root); err != nil {
			h.viol(c10HAKeyringDiff, "after the fail-over the root key the promoted node %s holds for the %s barrier does not open the keyring in storage: %v", nw.name, sc, err)
			return
		} else {
			h.r.Count("promoted_root_key_opens_stored_keyring", 1)
		}
		if d := got.termsDiff(want); d != "" {
			what := fmt.Sprintf("after the fail-over the promoted node %s holds for the %s barrier a keyring that differs from the one the previously active node held and persisted: %s (promoted %s, previously active %s); notices of the active node's last keyring rotation in that namespace delivered to the standby before the fail-over: %v", nw.name, sc, d, got, want, !h.lagged[sc])
			if sc != "root" && h.lagged[sc] && got.Active < want.Active && h.stale[sc] == nil {
				h.stale[sc] = &c10HAStale{class: c10HABehindClass, what: what, preSnapshot: fmt.Sprintf("previously active: %s; promoted: %s", want, got)}
				h.step("finding", "%s", what)
				h.r.Count("promoted_namespace_barriers_behind", 1)
				continue
			}
			if h.stale[sc] != nil {
				h.stale[sc].after = append(h.stale[sc].after, what)
				continue
			}
			h.viol(c10HAKeyringDiff, "%s", what)
			return
		}
		if h.stale[sc] != nil {
			continue
		}
		if int(got.Active) != h.keys(sc).term {
			h.viol(c10HAKeyringDiff, "after the fail-over the %s barrier of the promoted node is at term %d, 1 + completed rotations is %d", sc, got.Active, h.keys(sc).term)
			return
		}
	}
}

// afterFailover: the promoted node serves: every entry reads back, it writes, and it persists
// the keyring of the root barrier and of every namespace barrier (persist = rotate | config).
func (h *c10HA) afterFailover(persist string) {
	n := h.act()
	// namespaces that are sealed on the promoted node are unsealed with their current shares
	for _, p := range h.nsPaths {
		if h.ns[p].sealed {
			h.unsealNS(n, p)
			if h.failed {
				return
			}
		}
	}
	all := map[string]bool{}
	var open []string
	for _, sc := range h.scopes() {
		if sc != "root" && h.ns[sc].sealed {
			continue // carries a finding already (could not be unsealed)
		}
		all[sc] = true
		open = append(open, sc)
	}
	if sc, what := h.readAll(n, all); what != "" {
		if st := h.stale[sc]; st != nil {
			st.after = append(st.after, "promoted node: "+what)
		} else {
			h.viol(c10HAUnreadable, "promoted node %s: %s", n.name, what)
			return
		}
	}
	for _, sc := range open {
		h.write(n, sc)
		if h.failed {
			return
		}
		h.probe.StartLog(false)
		var err error
		if persist == "rotation-config" {
			err = h.rotationConfig(n, sc)
		} else {
			err = h.rotateKeyring(n, sc)
		}
		log := h.probe.StopLog()
		if st := h.stale[sc]; st != nil {
			for _, ev := range log {
				if ev.IsWrite() && ev.Tag == "c10op" {
					st.persist = append(st.persist, ev.Op+" "+ev.Key)
				}
			}
			if err != nil {
				st.after = append(st.after, fmt.Sprintf("keyring persist (%s) failed: %v", persist, err))
			}
		} else if err != nil {
			h.viol("C10-key-op-failed", "promoted node %s: %s in %s: %v", n.name, persist, sc, err)
			return
		}
		h.write(n, sc)
		if h.failed {
			return
		}
	}
	h.r.Count("promoted_nodes_persisted_every_keyring", 1)
}

// shutdownAll stops every node. A node that stepped down sleeps up to 10 s inside its HA loop
// (manualStepDownSleepPeriod) before it notices; it is marked sealed at once and stops serving,
// so only the active node is waited for.
func (h *c10HA) shutdownAll() {
	for i, n := range h.nodes {
		if i == h.active {
			_ = n.v.Core.Shutdown()
		} else {
			go func(c *Core) { _ = c.Shutdown() }(n.v.Core)
		}
	}
}

// endState: everything is sealed; a fresh core on the store opens with the currently valid
// shares only (root and every namespace), reads every entry, writes under the newest term.
func (h *c10HA) endState() {
	h.shutdownAll()
	h.step("seal", "every node shut down; fresh core on the store")
	f := h.newNode("F", "", false)
	// superseded and random root shares must be refused
	for _, st := range h.root.stale {
		if ok, _ := c10UnsealShares(f.v.Core, st); ok || !f.v.Core.Sealed() {
			h.viol("C10-wrong-key-unsealed", "fresh core unseals with root shares a completed rekey superseded")
			return
		}
		h.r.Count("superseded_shares_refused", 1)
	}
	if ok, _ := c10UnsealShares(f.v.Core, c10RandShares(h.rng, h.root.shares, h.root.thr)); ok || !f.v.Core.Sealed() {
		h.viol("C10-wrong-key-unsealed", "fresh core unseals with random root shares")
		return
	}
	if ok, errs := c10UnsealShares(f.v.Core, h.root.shares[:h.root.thr]); !ok {
		h.viol(c10HAValidRefused, "fresh core stays sealed with the currently valid root shares: %v", errs)
		return
	}
	if !c10Poll(20*time.Second, func() bool { return c10IsActive(f.v.Core) }) {
		h.giveUp("fresh core did not finish its unseal within the bound")
		return
	}
	h.r.Count("fresh_core_unseals", 1)
	readable := map[string]bool{"root": true}
	for _, p := range h.nsPaths {
		ks := h.ns[p]
		st := h.stale[p]
		for _, old := range ks.stale {
			if ok, _ := h.unsealNSOn(f, p, old); ok {
				if st != nil {
					st.after = append(st.after, "fresh core: namespace opens with the SUPERSEDED shares")
					_ = f.v.Core.namespaceStore.SealNamespace(c10Root, p)
					continue
				}
				h.viol("C10-wrong-key-unsealed", "fresh core unseals namespace %s with shares a completed rekey superseded", p)
				return
			}
			h.r.Count("superseded_shares_refused", 1)
		}
		if ok, _ := h.unsealNSOn(f, p, c10RandShares(h.rng, ks.shares, ks.thr)); ok {
			h.viol("C10-wrong-key-unsealed", "fresh core unseals namespace %s with random shares", p)
			return
		}
		ok, errs := h.unsealNSOn(f, p, ks.shares[:ks.thr])
		if !ok {
			if st != nil {
				st.after = append(st.after, fmt.Sprintf("fresh core: namespace stays sealed with its currently valid shares: %v", errs))
				continue
			}
			h.viol(c10HAValidRefused, "fresh core: namespace %s stays sealed with its currently valid shares: %v", p, errs)
			return
		}
		h.r.Count("fresh_core_namespace_unseals", 1)
		readable[p] = true
	}
	if sc, what := h.readAll(f, readable); what != "" {
		if st := h.stale[sc]; st != nil {
			st.after = append(st.after, "fresh core: "+what)
		} else {
			h.viol(c10HAUnreadable, "fresh core: %s", what)
			return
		}
	}
	for sc := range readable {
		if h.stale[sc] != nil {
			continue
		}
		h.write(f, sc)
		if h.failed {
			return
		}
	}
	_ = f.v.Core.Shutdown()
}

// report emits the one finding per namespace whose promoted barrier held a superseded root key.
func (h *c10HA) report() {
	for _, f := range h.findings {
		h.failed = true
		h.r.Violate(f.class, h.caseID, fmt.Sprintf("[%s] %s", h.caseID, f.what), map[string]any{"steps": h.steps})
	}
	for _, p := range h.nsPaths {
		st := h.stale[p]
		if st == nil {
			continue
		}
		h.failed = true
		h.r.Violate(st.class, h.caseID, fmt.Sprintf("[%s] namespace %s: %s. Consequences in this case: %v; storage writes of the promoted node's keyring persist in that namespace: %v", h.caseID, p, st.what, st.after, st.persist),
			map[string]any{"steps": h.steps, "namespace": p, "keyrings": st.preSnapshot, "stale_persist_writes": st.persist, "consequences": st.after})
	}
}

// ---------------------------------------------------------------- cases

type c10HACase struct {
	op       string // none | rotate-keyring | rotate-root | rekey
	scope    string // root | ns
	sync     string // before (standby holds the namespace keys before the operation) | after | never
	failover string // seal | step-down
	persist  string // rotate-keyring | rotation-config
	rejoin   bool   // the operation happens after a first fail-over, on the promoted node, with the first node back as standby
	lag      bool   // the notices of the operation's writes never reach the standby (the active node goes away first)
}

func (c c10HACase) id() string {
	s := fmt.Sprintf("%s@%s:sync-%s:%s:%s", c.op, c.scope, c.sync, c.failover, c.persist)
	if c.lag {
		s += ":notices-undelivered"
	}
	if c.rejoin {
		s += ":after-rejoin"
	}
	return s
}

func c10HAMatrix() []c10HACase {
	var out []c10HACase
	for _, op := range []string{"rekey", "rotate-root", "rotate-keyring"} {
		for _, scope := range []string{"ns", "root"} {
			for _, sync := range []string{"before", "after", "never"} {
				persist := "rotate-keyring"
				if (len(out))%3 == 2 {
					persist = "rotation-config"
				}
				out = append(out, c10HACase{op: op, scope: scope, sync: sync, failover: "seal", persist: persist})
			}
		}
	}
	out = append(out,
		c10HACase{op: "none", scope: "root", sync: "before", failover: "seal", persist: "rotate-keyring"},
		c10HACase{op: "rekey", scope: "ns", sync: "before", failover: "step-down", persist: "rotate-keyring"},
		c10HACase{op: "rotate-keyring", scope: "ns", sync: "before", failover: "step-down", persist: "rotation-config"},
		c10HACase{op: "rotate-keyring", scope: "root", sync: "before", failover: "seal", persist: "rotate-keyring", lag: true},
		c10HACase{op: "rotate-keyring", scope: "ns", sync: "before", failover: "seal", persist: "rotate-keyring", lag: true},
		c10HACase{op: "rotate-keyring", scope: "ns", sync: "before", failover: "seal", persist: "rotation-config", lag: true},
		// the standby serves reads while the notice of a rotation is late, then the notice arrives
		c10HACase{op: "rotate-keyring-read-behind", scope: "ns", sync: "before", failover: "seal", persist: "rotate-keyring"},
		c10HACase{op: "rotate-keyring-read-behind", scope: "root", sync: "before", failover: "seal", persist: "rotation-config"},
		// two or three sys/rotate/keyring requests at once: every rotation completes before the first upgrade entry is written
		c10HACase{op: "overlapping-rotate-2", scope: "ns", sync: "before", failover: "seal", persist: "rotate-keyring"},
		c10HACase{op: "overlapping-rotate-3", scope: "ns", sync: "before", failover: "seal", persist: "rotation-config"},
		c10HACase{op: "overlapping-rotate-2", scope: "root", sync: "before", failover: "seal", persist: "rotate-keyring"},
		c10HACase{op: "overlapping-rotate-3", scope: "root", sync: "before", failover: "seal", persist: "rotate-keyring"},
		// the operator seals a namespace on the active node
		c10HACase{op: "seal-ns", scope: "ns", sync: "before", failover: "seal", persist: "rotate-keyring"},
		c10HACase{op: "seal-ns", scope: "ns", sync: "before", failover: "seal", persist: "rotate-keyring", lag: true},
		// the first node created the namespaces, is sealed, comes back as a standby; the promoted node rekeys
		c10HACase{op: "rekey", scope: "ns", sync: "never", failover: "seal", persist: "rotate-keyring", rejoin: true},
		c10HACase{op: "rekey-up", scope: "ns", sync: "never", failover: "seal", persist: "rotate-keyring", rejoin: true},
		c10HACase{op: "rekey", scope: "root", sync: "never", failover: "seal", persist: "rotate-keyring", rejoin: true},
		c10HACase{op: "rekey-up", scope: "root", sync: "never", failover: "seal", persist: "rotate-keyring", rejoin: true},
	)
	return out
}

func (h *c10HA) runCase(c c10HACase) {
	const nsA, nsB = "c10a/", "c10b/"
	a := h.act()
	for _, sc := range h.scopes() {
		h.write(a, sc)
	}
	if h.failed {
		return
	}
	if c.rejoin {
		if !h.standbyCatchUp() {
			return
		}
		h.keySync()
		if !h.failover("seal") {
			return
		}
		h.afterFailover("rotate-keyring")
		if h.failed || !h.rejoin() {
			return
		}
		a = h.act()
	}
	if c.sync == "before" {
		if !h.standbyCatchUp() {
			return
		}
		h.keySync()
	}
	scope := "root"
	if c.scope == "ns" {
		scope = nsA
	}
	if c.lag {
		h.store.setHold(true)
		h.lagged[scope] = true
		h.step("notices", "from here on the notices of the active node's writes do not reach the standby")
	}
	var err error
	switch c.op {
	case "rekey":
		err = h.rekey(a, scope, 3, 2)
	case "rekey-up":
		err = h.rekey(a, scope, 5, 4)
	case "rotate-root":
		err = h.rotateRoot(a, scope)
	case "rotate-keyring":
		err = h.rotateKeyring(a, scope)
	case "seal-ns":
		h.sealNS(a, scope)
	case "rotate-keyring-read-behind":
		err = h.rotateReadBehind(a, scope)
	case "overlapping-rotate-2":
		h.overlappingRotations(a, scope, 2, false)
	case "overlapping-rotate-3":
		h.overlappingRotations(a, scope, 3, true)
	}
	if h.failed {
		return
	}
	if err != nil {
		h.viol("C10-key-op-failed", "%s in %s on the active node: %v", c.op, scope, err)
		return
	}
	for _, sc := range h.scopes() {
		if sc != "root" && h.ns[sc].sealed {
			continue
		}
		h.write(a, sc)
	}
	if h.failed {
		return
	}
	if c.sync == "after" {
		if !h.standbyCatchUp() {
			return
		}
		h.keySync()
	}
	if !h.failover(c.failover) {
		return
	}
	h.afterFailover(c.persist)
	if h.failed {
		return
	}
	h.endState()
	_ = nsB
}

// history: seeded random operations on the active node, one or two fail-overs.
func (h *c10HA) runHistory(nops int) {
	rounds := 1 + h.rng.Intn(2)
	for round := 0; round < rounds && !h.failed; round++ {
		for i := 0; i < nops && !h.failed; i++ {
			a := h.act()
			sc := kit.Pick(h.rng, h.scopes())
			if h.stale[sc] != nil {
				continue // that namespace already carries a finding; its consequences are judged at the end
			}
			if sc != "root" && h.ns[sc].sealed {
				if h.rng.Chance(2, 3) {
					h.unsealNS(a, sc)
				}
				continue
			}
			switch x := h.rng.Intn(100); {
			case x < 30:
				h.write(a, sc)
			case x < 45:
				if err := h.rotateKeyring(a, sc); err != nil {
					h.viol("C10-key-op-failed", "sys/rotate/keyring in %s on the active node %s: %v", sc, a.name, err)
				}
			case x < 57:
				if err := h.rotateRoot(a, sc); err != nil {
					h.histKeyOpErr(a, sc, "sys/rotate/root", err)
				}
			case x < 69:
				if err := h.rekey(a, sc, 3, 2+h.rng.Intn(2)); err != nil {
					h.histKeyOpErr(a, sc, "rekey", err)
				}
			case x < 76 && sc != "root":
				h.sealNS(a, sc)
			case x < 90:
				if h.standbyCatchUp() {
					h.keySync()
				}
			default:
				h.write(a, sc)
			}
		}
		if h.failed {
			return
		}
		if h.rng.Chance(1, 4) {
			// the active node's last act: a keyring rotation whose notices never get out
			var both []string
			for _, p := range h.nsPaths {
				if !h.ns[p].sealed && h.standbyNS[p] {
					both = append(both, p)
				}
			}
			if len(both) > 0 && h.standbyCatchUp() {
				sc := kit.Pick(h.rng, both)
				h.store.setHold(true)
				h.lagged[sc] = true
				h.step("notices", "from here on the notices of the active node's writes do not reach the standby")
				if err := h.rotateKeyring(h.act(), sc); err != nil {
					h.viol("C10-key-op-failed", "sys/rotate/keyring in %s: %v", sc, err)
					return
				}
				h.write(h.act(), sc)
			}
			if h.failed {
				return
			}
		}
		last := round == rounds-1
		how := "seal"
		if last && h.rng.Chance(1, 3) {
			how = "step-down" // only as the last fail-over: a node that stepped down stays out of the election for 10 s
		}
		if !h.failover(how) {
			return
		}
		h.afterFailover(kit.Pick(h.rng, []string{"rotate-keyring", "rotate-keyring", "rotation-config"}))
		if h.failed || last {
			break
		}
		if !h.rejoin() {
			return
		}
	}
	if !h.failed {
		h.endState()
	}
}

// standbyRawReads reads every raw entry of the scope on the standby. An entry whose term the
// standby's keyring holds must read back; one of a term it lacks may fail (counted).
func (h *c10HA) standbyRawReads(scope, when string) {
	s := h.sby()
	b := h.barrierOn(s, scope)
	if b == nil || b.Sealed() {
		return
	}
	kr, err := b.Keyring()
	if err != nil {
		return
	}
	st, prefix := h.storageOn(s, scope)
	var ids []string
	for id := range h.data {
		ids = append(ids, id)
	}
	sort.Strings(ids)
	for _, id := range ids {
		p := strings.SplitN(id, "|", 3)
		if p[0] != scope || p[1] != "raw" {
			continue
		}
		t := h.header(prefix + p[2])
		got, gerr := st.Get(c10Root, p[2])
		if t > 0 && kr.TermKey(uint32(t)) != nil {
			if gerr != nil || got == nil || string(got.Value) != h.data[id] {
				h.viol(c10HAReadClass, "standby %s %s: %s barrier Get(%s) err=%v found=%v; the entry was written under term %d and the standby's keyring holds that term (active term %d)", s.name, when, scope, p[2], gerr, got != nil, t, kr.ActiveTerm())
				return
			}
			h.r.Count("standby_reads_ok", 1)
			continue
		}
		if gerr == nil && got != nil {
			h.viol(c10HAReadClass, "standby %s %s: Get(%s) answered an entry of term %d without a key for that term", s.name, when, p[2], t)
			return
		}
		h.r.Count("standby_reads_while_behind_failed_legitimately", 1)
	}
}

// rotateReadBehind: the active node rotates the scope's keyring and writes under the new term;
// the notices are late; the read-enabled standby serves reads meanwhile (the new entries cannot
// be opened yet); then the notice of the upgrade key arrives, the standby installs the term, and
// everything must read back on it.
func (h *c10HA) rotateReadBehind(a *c10HANode, scope string) error {
	_, prefix := h.storageOn(a, scope)
	h.store.setHold(true)
	h.lagged[scope] = true
	h.step("notices", "the notices of the active node's next writes are late")
	if err := h.rotateKeyring(a, scope); err != nil {
		return err
	}
	h.write(a, scope)
	if h.failed {
		return nil
	}
	h.standbyRawReads(scope, "serving reads before the notice of the upgrade key arrived")
	if h.failed {
		return nil
	}
	h.store.setHold(false)
	delete(h.lagged, scope)
	up := fmt.Sprintf("%s%s%d", prefix, barrier.KeyringUpgradePrefix, h.keys(scope).term-1)
	h.step("notices", "the notice of %s arrives at the standby", up)
	h.store.announce(up)
	if !h.awaitStandbyTerm(scope) {
		return nil
	}
	h.standbyRawReads(scope, "after it installed the term the notice announced")
	if h.failed {
		return nil
	}
	if sc, what := h.readAll(h.sby(), map[string]bool{scope: true}); what != "" {
		h.viol(c10HAReadClass, "standby %s after it installed term %d of the %s barrier: %s", h.sby().name, h.keys(scope).term, sc, what)
		return nil
	}
	h.r.Count("standby_rereads_after_late_upgrade_notice", 1)
	return nil
}

// rejoin: the node that was sealed at the fail-over is unsealed again with the current root
// shares and comes back as a standby.
func (h *c10HA) rejoin() bool {
	old := h.sby()
	if _, errs := c10UnsealShares(old.v.Core, h.root.shares[:h.root.thr]); old.v.Core.Sealed() {
		h.viol(c10HAValidRefused, "node %s (sealed at the fail-over) stays sealed with the currently valid root shares: %v", old.name, errs)
		return false
	}
	if !c10Poll(20*time.Second, func() bool { return c10IsReadyStandby(old.v.Core) }) {
		h.giveUp("node %s did not rejoin as a standby within the bound", old.name)
		return false
	}
	h.step("rejoin", "node %s unsealed again with the current root shares: read-enabled standby", old.name)
	h.r.Count("nodes_rejoined_as_standby", 1)
	for _, p := range h.nsPaths {
		b := h.barrierOn(old, p)
		h.standbyNS[p] = b != nil && !b.Sealed()
	}
	return true
}

// histKeyOpErr: a root-key rotation or rekey of a namespace on a node that received the
// namespace's root key from its peer (never the shares) has no seal key to work with; that it
// is refused loses nothing and is counted, anything else is a failed key operation.
func (h *c10HA) histKeyOpErr(n *c10HANode, sc, op string, err error) {
	if sc != "root" && h.failovers > 0 {
		h.r.Count("observation_namespace_root_key_operation_refused_on_promoted_node", 1)
		return
	}
	h.viol("C10-key-op-failed", "%s in %s on the active node %s: %v", op, sc, n.name, err)
}

func TestVerif_C10_HAPair(t *testing.T) {
	seed := kit.Seed(10)
	shard, nshards := kit.Shard()
	r := kit.NewResult(t, "c10-ha-pair", seed, "two cores on one shared store (probe backend with the cache-invalidation hook; HA lock in an in-memory HA backend): node A active, node B read-enabled standby; root namespace plus two separately sealed namespaces (Shamir 3/3) with a mount each. A fixed matrix {rekey, sys/rotate/root, sys/rotate/keyring} x {root, namespace} x {standby received the namespace root keys from the active node before / after the operation / never} x fail-over {seal, step-down} x first keyring persist of the promoted node {sys/rotate/keyring, sys/rotate/keyring/config}, plus seeded histories (writes, keyring rotations, root-key rotations, rekeys, namespace seal/unseal, key exchange; one or two fail-overs). After every fail-over (awaited with a bounded poll on the standby's own state): the promoted node's in-memory keyring of the root barrier and of every namespace barrier is compared with the one the previously active node held and with storage (root-key bytes, every term key, active term); it reads every entry ever written, writes, and persists the keyring of the root and of every namespace; then every node is shut down and a fresh core must refuse superseded and random shares, open root and every namespace with the currently valid shares, read every entry, and write under the newest term. A case is distinct by its id; non-trivial when a key operation completed before a fail-over")
	// a placeholder on disk until the monitor has run to completion: the core's lock-order watchdog
	// ends the process when it suspects a deadlock, and a missing result must not read as "held"
	const unfinished = "c10-ha-pair did not run to completion (the test process ended inside a case; see test.log)"
	r.Inconclusive = append(r.Inconclusive, unfinished)
	r.Write(t)
	defer func() {
		var keep []string
		for _, s := range r.Inconclusive {
			if s != unfinished {
				keep = append(keep, s)
			}
		}
		r.Inconclusive = keep
		r.Write(t)
	}()
	nsPaths := []string{"c10a/", "c10b/"}
	idx := 0
	for _, c := range c10HAMatrix() {
		idx++
		if idx%nshards != shard {
			continue
		}
		caseID := "ha:m:" + c.id()
		if !kit.WantCase(caseID) {
			continue
		}
		if kit.Tier() == "quick" && c.failover == "step-down" && c.op == "rotate-keyring" {
			continue
		}
		rng := kit.NewRand(seed, 11_000_000+uint64(idx))
		t0 := time.Now()
		h := c10HABoot(t, r, rng, caseID, nsPaths)
		if !h.failed {
			h.runCase(c)
		}
		h.report()
		t.Logf("case %s took %v", caseID, time.Since(t0))
		r.Eval(1)
		if !h.inconc && h.failovers > 0 {
			r.Nontrivial(caseID)
		}
		if idx <= 2 {
			r.Sample(map[string]any{"case": caseID, "steps": h.steps})
		}
		h.shutdownAll()
	}
	for k := 0; k < kit.N(20, 150); k++ {
		if k%nshards != shard {
			continue
		}
		caseID := fmt.Sprintf("ha:h:%d", k)
		if !kit.WantCase(caseID) {
			continue
		}
		rng := kit.NewRand(seed, 11_100_000+uint64(k))
		t0 := time.Now()
		h := c10HABoot(t, r, rng, caseID, nsPaths)
		if !h.failed {
			h.runHistory(6 + rng.Intn(6))
		}
		h.report()
		t.Logf("case %s took %v", caseID, time.Since(t0))
		r.Eval(1)
		if !h.inconc && h.failovers > 0 && h.keyOps > 0 {
			r.Nontrivial(strings.Join(h.kinds, ","))
		}
		h.shutdownAll()
	}
	div := int64(nshards)
	r.Require("failovers", 30/div)
	r.Require("keyring_comparisons:namespace", 40/div)
	r.Require("keyring_comparisons:root", 30/div)
	r.Require("promoted_root_key_opens_stored_keyring", 50/div)
	r.Require("fresh_core_unseals", 25/div)
	r.Require("fresh_core_namespace_unseals", 30/div)
	r.Require("superseded_shares_refused", 10/div)
	r.Require("rekeys:namespace", 8/div)
	r.Require("root_key_rotations:namespace", 8/div)
	r.Require("keyring_rotations:namespace", 40/div)
	r.Require("standby_namespace_unsealed_by_key_sync", 40/div)
	r.Require("promoted_nodes_persisted_every_keyring", 30/div)
	r.Require("entries_read_back", 800/div)
	r.Require("standby_reads_while_behind_failed_legitimately", 2/div)
	r.Require("standby_rereads_after_late_upgrade_notice", 2/div)
	r.Require("overlapping_rotation_batches_all_rotations_before_the_first_upgrade_entry", 4/div)
	r.Require("upgrade_entries_compared_with_the_term_key", 8/div)
	r.Require("standby_keyrings_identical_after_overlapping_rotations", 4/div)
}


// ---------------------------------------------------------------- the promotion sequence itself, without an HA pair

// TestVerif_C10_PromotionSequence drives the product's own take-over sequence
// (Core.performKeyUpgrades: root barrier, then every unsealed namespace barrier) directly: a
// second barrier instance on the same store plays the active node and rotates encryption keys
// (with or without leaving the upgrade entry), rotates the root key, writes; the core's own
// barrier of that scope is the node that takes over: it serves reads while behind, runs the
// sequence, and must end with an identical keyring and read everything.
type c10PromoScope struct {
	name   string
	local  barrier.SecurityBarrier
	remote barrier.SecurityBarrier
	prefix string
	// upgrade entries present from the local node's term to the newest one
	intact  bool
	entries map[string][]byte
}

func TestVerif_C10_PromotionSequence(t *testing.T) {
	seed := kit.Seed(10)
	shard, nshards := kit.Shard()
	r := kit.NewResult(t, "c10-promotion-sequence", seed, "one unsealed core with a separately sealed namespace (Shamir and stored-key root seal alternating); for the root barrier and for the namespace barrier a second barrier instance on the same store, unsealed with the same root key, plays the active node: an enumerated matrix {0..2 encryption-key rotations before} x {no root-key rotation, root-key rotation, root-key rotation followed by another encryption-key rotation} x {scope: namespace, root, both} plus seeded sequences (rotate with/without upgrade entry, destroy an upgrade entry, root-key rotation, rotation config, puts); the core's own barrier serves reads while it is behind (entries of terms it lacks fail, legitimately), then the core runs its take-over sequence Core.performKeyUpgrades. With every upgrade entry present from its term to the newest the sequence must succeed, the core's keyring of each scope must equal the active instance's (root key bytes, every term key, active term), every entry must read back on it and its own write must read back on the other instance; with a missing upgrade entry the sequence may refuse (the node shuts down and is unsealed again), never end with different keys. Every case is distinct")
	defer r.Write(t)
	type pc struct {
		scope      string // ns | root | both
		before     int
		rootRot    int // 0 none, 1 rotate-root, 2 rotate-root then rotate
		seededOps  int
	}
	var cases []pc
	for _, sc := range []string{"ns", "root", "both"} {
		for before := 0; before <= 2; before++ {
			for rr := 0; rr <= 2; rr++ {
				cases = append(cases, pc{scope: sc, before: before, rootRot: rr})
			}
		}
	}
	for k := 0; k < kit.N(30, 400); k++ {
		cases = append(cases, pc{scope: []string{"ns", "root", "both"}[k%3], seededOps: 3 + k%6})
	}
	for ci, c := range cases {
		if ci%nshards != shard {
			continue
		}
		caseID := fmt.Sprintf("ps:%d:%s:%d:%d:%d", ci, c.scope, c.before, c.rootRot, c.seededOps)
		if !kit.WantCase(caseID) {
			continue
		}
		rng := kit.NewRand(seed, 12_000_000+uint64(ci))
		v := vBoot(t, vOpts{ShamirSeal: ci%2 == 0})
		var steps []string
		step := func(format string, a ...any) { steps = append(steps, fmt.Sprintf("%d:%s", len(steps), fmt.Sprintf(format, a...))) }
		failed := false
		viol := func(class, format string, a ...any) {
			failed = true
			r.Violate(class, caseID, fmt.Sprintf("[%s] ", caseID)+fmt.Sprintf(format, a...), map[string]any{"steps": steps, "shamir_root_seal": ci%2 == 0})
		}
		nsObj := &namespace.Namespace{Path: "c10p/"}
		TestCoreCreateUnsealedNamespaces(&vT{t}, v.Core, nsObj)
		nsObj, _ = v.Core.namespaceStore.GetNamespaceByPath(c10Root, "c10p/")
		var scopes []*c10PromoScope
		mk := func(name string, ns *namespace.Namespace) *c10PromoScope {
			ps := &c10PromoScope{name: name, intact: true, entries: map[string][]byte{}}
			if ns == nil {
				ps.local = v.Core.barrier
			} else {
				ps.local = v.Core.sealManager.NamespaceBarrier(ns.Path)
				ps.prefix = NamespaceStoragePathPrefix(ns)
			}
			kr, err := ps.local.Keyring()
			if err != nil {
				t.Fatalf("verif: keyring of %s: %v", name, err)
			}
			ps.remote = barrier.NewAESGCMBarrier(v.Core.physical, ns)
			if err := ps.remote.Unseal(c10Root, TestKeyCopy(kr.RootKey())); err != nil {
				t.Fatalf("verif: second instance of %s: %v", name, err)
			}
			return ps
		}
		if c.scope != "root" {
			scopes = append(scopes, mk("namespace", nsObj))
		}
		if c.scope != "ns" {
			scopes = append(scopes, mk("root", nil))
		}
		nput := 0
		put := func(ps *c10PromoScope) {
			nput++
			k := fmt.Sprintf("%sc10ps/k%d", ps.prefix, nput)
			val := rng.Bytes(12)
			if err := ps.remote.Put(c10Root, &logical.StorageEntry{Key: k, Value: val}); err != nil {
				viol("C10-put-failed", "%s: put on the active instance: %v", ps.name, err)
				return
			}
			ps.entries[k] = val
			step("%s: active instance writes %s", ps.name, strings.TrimPrefix(k, ps.prefix))
		}
		rotate := func(ps *c10PromoScope, upgrade bool) {
			nt, err := ps.remote.Rotate(c10Root)
			if err == nil && upgrade {
				err = ps.remote.CreateUpgrade(c10Root, nt)
			}
			step("%s: active instance rotates the encryption key -> term %d (upgrade entry: %v) err=%v", ps.name, nt, upgrade, err)
			if err != nil {
				viol("C10-rotate-failed", "%s: %v", ps.name, err)
				return
			}
			if !upgrade {
				ps.intact = false
			}
			r.Count("rotations", 1)
		}
		rotateRoot := func(ps *c10PromoScope) {
			nk := rng.Bytes(32)
			err := ps.remote.RotateRootKey(c10Root, nk)
			step("%s: active instance rotates the root key err=%v", ps.name, err)
			if err != nil {
				viol("C10-rotate-root-failed", "%s: %v", ps.name, err)
				return
			}
			r.Count("root_rotations", 1)
			r.Count("root_rotations:"+ps.name, 1)
		}
		for _, ps := range scopes {
			put(ps)
			if c.seededOps == 0 {
				for i := 0; i < c.before && !failed; i++ {
					rotate(ps, true)
					put(ps)
				}
				if c.rootRot >= 1 && !failed {
					rotateRoot(ps)
					put(ps)
				}
				if c.rootRot == 2 && !failed {
					rotate(ps, true)
					put(ps)
				}
				continue
			}
			for i := 0; i < c.seededOps && !failed; i++ {
				switch x := rng.Intn(10); {
				case x < 4:
					rotate(ps, rng.Chance(5, 6))
				case x < 7:
					rotateRoot(ps)
				case x < 8:
					err := ps.remote.SetRotationConfig(c10Root, barrier.KeyRotationConfig{MaxOperations: barrier.AbsoluteOperationMinimum + int64(rng.Intn(999)), Interval: 48 * time.Hour})
					step("%s: active instance sets the rotation config err=%v", ps.name, err)
				default:
				}
				put(ps)
			}
		}
		if failed {
			v.Close()
			continue
		}
		// the node that will take over serves reads while it is behind
		readBehind := func(ps *c10PromoScope, when string, must bool) bool {
			kr, err := ps.local.Keyring()
			if err != nil {
				viol("C10-promotion-sequence-keyring-differs", "%s: Keyring() on the core's barrier %s: %v", ps.name, when, err)
				return false
			}
			var ks []string
			for k := range ps.entries {
				ks = append(ks, k)
			}
			sort.Strings(ks)
			for _, k := range ks {
				pe, _ := v.Probe.Inner().Get(c10Root, k)
				term := uint32(0)
				if pe != nil && len(pe.Value) >= 4 {
					term = binary.BigEndian.Uint32(pe.Value[:4])
				}
				got, gerr := ps.local.Get(c10Root, k)
				if kr.TermKey(term) != nil || must {
					if gerr != nil || got == nil || !bytes.Equal(got.Value, ps.entries[k]) {
						viol("C10-promotion-sequence-entry-unreadable", "%s %s: Get(%s) on the core's barrier: err=%v found=%v; the entry is of term %d, the barrier's keyring holds terms up to %d (has that term: %v)", ps.name, when, strings.TrimPrefix(k, ps.prefix), gerr, got != nil, term, kr.ActiveTerm(), kr.TermKey(term) != nil)
						return false
					}
					r.Count("entries_read_back", 1)
				} else {
					r.Count("reads_while_behind_failed_legitimately", 1)
				}
			}
			return true
		}
		for _, ps := range scopes {
			if !readBehind(ps, "before the take-over sequence", false) {
				break
			}
		}
		if failed {
			v.Close()
			continue
		}
		allIntact := true
		for _, ps := range scopes {
			allIntact = allIntact && ps.intact
		}
		err := v.Core.performKeyUpgrades(c10Root)
		step("Core.performKeyUpgrades err=%v", err)
		r.Eval(1)
		r.Nontrivial(caseID)
		switch {
		case err != nil && allIntact:
			// is the state the active instances left valid? a fresh instance must open with their root key
			valid := true
			for _, ps := range scopes {
				rk, _ := ps.remote.Keyring()
				var ns *namespace.Namespace
				if ps.name == "namespace" {
					ns = nsObj
				}
				f := barrier.NewAESGCMBarrier(v.Probe.Inner(), ns)
				if rk == nil || f.Unseal(c10Root, TestKeyCopy(rk.RootKey())) != nil {
					valid = false
				} else {
					_ = f.Seal()
				}
			}
			viol("C10-promotion-sequence-failed-on-valid-state", "Core.performKeyUpgrades (what a node runs when it takes over) failed: %v; every upgrade entry from the node's term to the newest is present and the key state in storage is valid (a fresh barrier instance opens with the active instance's root key: %v)", err, valid)
		case err != nil:
			r.Count("take_over_refused_upgrade_entry_missing", 1)
		default:
			r.Count("take_over_sequences_ok", 1)
			for _, ps := range scopes {
				got, want := c10SnapBarrier(ps.local), c10SnapBarrier(ps.remote)
				if !bytes.Equal(got.Root, want.Root) {
					viol("C10-promotion-sequence-keyring-differs", "%s: after Core.performKeyUpgrades returned nil the core's barrier holds a different root key than the active instance (core %s, active instance %s)", ps.name, got, want)
					break
				}
				if d := got.termsDiff(want); d != "" {
					viol("C10-promotion-sequence-keyring-differs", "%s: after Core.performKeyUpgrades returned nil the core's keyring differs from the active instance's: %s (core %s, active instance %s)", ps.name, d, got, want)
					break
				}
				r.Count("keyrings_identical_after_take_over", 1)
				r.Count("keyrings_identical_after_take_over:"+ps.name, 1)
				if !readBehind(ps, "after the take-over sequence", true) {
					break
				}
				// its own write uses the newest term and the other instance reads it
				k := ps.prefix + "c10ps/own"
				if perr := ps.local.Put(c10Root, &logical.StorageEntry{Key: k, Value: []byte("own")}); perr != nil {
					viol("C10-put-failed", "%s: put on the core's barrier after the take-over sequence: %v", ps.name, perr)
					break
				}
				pe, _ := v.Probe.Inner().Get(c10Root, k)
				if pe == nil || len(pe.Value) < 4 || binary.BigEndian.Uint32(pe.Value[:4]) != want.Active {
					viol("C10-new-write-old-term", "%s: the core's write after the take-over sequence does not carry the newest term %d", ps.name, want.Active)
					break
				}
				if out, gerr := ps.remote.Get(c10Root, k); gerr != nil || out == nil || string(out.Value) != "own" {
					viol("C10-promotion-sequence-entry-unreadable", "%s: the active instance cannot read what the core wrote after its take-over sequence: %v", ps.name, gerr)
					break
				}
			}
		}
		if ci < 2 {
			r.Sample(map[string]any{"case": caseID, "steps": steps})
		}
		v.Close()
		if r.NViolations() > 30 {
			break
		}
	}
	div := int64(nshards)
	r.Require("take_over_sequences_ok", 35/div)
	r.Require("keyrings_identical_after_take_over:namespace", 25/div)
	r.Require("keyrings_identical_after_take_over:root", 25/div)
	r.Require("root_rotations:namespace", 20/div)
	r.Require("root_rotations:root", 20/div)
	r.Require("reads_while_behind_failed_legitimately", 60/div)
	r.Require("entries_read_back", 300/div)
}
