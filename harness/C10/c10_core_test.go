//go:build verif

package vault

// C10 (core level): seal state and key rotation never lose or expose data.
//
// The reference is the property text itself: a map of everything the harness
// wrote (through the root barrier, through a per-namespace barrier and through
// the API), the set of unseal shares that is valid *now* (the ones the last
// completed rekey returned), the stale ones, and the number of completed
// encryption-key rotations per barrier.

import (
	"context"
	"encoding/binary"
	"fmt"
	"sort"
	"strings"
	"testing"
	"time"

	"github.com/hashicorp/go-secure-stdlib/base62"
	"github.com/openbao/openbao/sdk/v2/helper/shamir"
	kit "github.com/openbao/openbao/sdk/v2/helper/verifkit"
	"github.com/openbao/openbao/sdk/v2/logical"
	"github.com/openbao/openbao/sdk/v2/physical"
	"github.com/openbao/openbao/v2/internal/helper/namespace"
	"github.com/openbao/openbao/v2/internal/vault/barrier"
	vaultseal "github.com/openbao/openbao/v2/internal/vault/seal"
)

var c10Root = namespace.RootContext(context.Background())

const c10NSPath = "ns1/"

// c10Keys is the unseal material of one barrier as its operator knows it.
type c10Keys struct {
	shares [][]byte   // currently valid shares
	thr    int        // their threshold
	stale  [][][]byte // share sets replaced by completed rekeys
	term   int        // 1 + completed encryption-key rotations
	sealed bool
	// termLoose: an encryption-key rotation failed half-way; until the next unseal the
	// node may legitimately write under term or term+1 (read-back after unseal decides)
	termLoose bool
}

type c10Env struct {
	t      *testing.T
	r      *kit.Result
	rng    *kit.Rand
	caseID string
	v      *vCore
	shamir bool
	tx     bool
	root   c10Keys
	rec    [][]byte // recovery shares (stored-key seal)
	ns     *c10Keys // nil when the history has no sealable namespace
	data   map[string]string
	steps  []string
	kinds  []string
	failed bool

	keyOps, readsAfterKeyOp int

	// half[scope]: a key operation on that barrier failed half-way; until the next complete
	// one its root-key record and keyring may disagree and a reload may be refused
	half map[string]bool
}

func (e *c10Env) step(kind, format string, a ...any) {
	e.kinds = append(e.kinds, kind)
	e.steps = append(e.steps, fmt.Sprintf("%d:%s", len(e.steps), fmt.Sprintf(format, a...)))
}

func (e *c10Env) witness() map[string]any {
	return map[string]any{"steps": e.steps, "shamir_seal": e.shamir, "transactional": e.tx, "namespace": e.ns != nil}
}

func (e *c10Env) viol(kind, format string, a ...any) {
	e.failed = true
	e.r.Violate("C10-"+kind, e.caseID, fmt.Sprintf("[%s] ", e.caseID)+fmt.Sprintf(format, a...), e.witness())
}

func (e *c10Env) violClass(class, format string, a ...any) {
	e.failed = true
	e.r.Violate(class, e.caseID, fmt.Sprintf("[%s] ", e.caseID)+fmt.Sprintf(format, a...), e.witness())
}

func (e *c10Env) sealName() string {
	if e.shamir {
		return "shamir"
	}
	return "stored-key"
}

func c10NSObj(c *Core) *namespace.Namespace {
	ns, err := c.namespaceStore.GetNamespaceByPath(c10Root, c10NSPath)
	if err != nil || ns == nil || ns.ID == namespace.RootNamespaceID {
		return nil
	}
	return ns
}

// c10AfterPut adds one scheduling point the storage gate does not have: directly AFTER a
// write to a core/ record returned (the gate parks operations before they execute). It does
// so without touching the kit: the writing goroutine issues a read of a key that never
// exists, which is an ordinary gate point for tagged requests and a no-op otherwise.
type c10AfterPut struct {
	physical.Backend
	on *bool
}

func (b *c10AfterPut) Put(ctx context.Context, e *physical.Entry) error {
	key := e.Key
	err := b.Backend.Put(ctx, e)
	if *b.on && strings.Contains(key, "core/") {
		_, _ = b.Backend.Get(ctx, c10AfterPrefix+key)
	}
	return err
}

type c10AfterPutTx struct {
	c10AfterPut
	tx physical.Transactional
}

func (b *c10AfterPutTx) BeginTx(ctx context.Context) (physical.Transaction, error) {
	return b.tx.BeginTx(ctx)
}

func (b *c10AfterPutTx) BeginReadOnlyTx(ctx context.Context) (physical.Transaction, error) {
	return b.tx.BeginReadOnlyTx(ctx)
}

const c10AfterPrefix = "c10-after-write/"

func c10Boot(t *testing.T, r *kit.Result, rng *kit.Rand, caseID string, shamirSeal, tx, withNS bool) *c10Env {
	return c10BootOpt(t, r, rng, caseID, shamirSeal, tx, withNS, nil)
}

// c10BootOpt: afterPoints != nil boots the core on a store with after-write scheduling points (enabled while *afterPoints).
func c10BootOpt(t *testing.T, r *kit.Result, rng *kit.Rand, caseID string, shamirSeal, tx, withNS bool, afterPoints *bool) *c10Env {
	e := &c10Env{t: t, r: r, rng: rng, caseID: caseID, shamir: shamirSeal, tx: tx, data: map[string]string{}, half: map[string]bool{}}
	o := vOpts{Transactional: tx, ShamirSeal: shamirSeal}
	var probe *kit.Probe
	if afterPoints != nil {
		var pb physical.Backend
		pb, probe = kit.NewInmemProbe(tx)
		base := c10AfterPut{Backend: pb, on: afterPoints}
		if txb, ok := pb.(physical.Transactional); ok {
			o.Phys = &c10AfterPutTx{c10AfterPut: base, tx: txb}
		} else {
			o.Phys = &base
		}
	}
	v, err := vBootErr(t, o)
	if err != nil {
		t.Fatalf("verif: boot failed: %v", err)
	}
	if probe != nil {
		v.Probe = probe
	}
	e.v = v
	e.root = c10Keys{term: 1}
	if shamirSeal {
		e.root.shares, e.root.thr = v.Keys, 3
	} else {
		// the operator's recovery shares: any Shamir split of the recovery key (TestCoreInit drops the originals)
		rk, err := v.Core.seal.RecoveryKey(c10Root)
		if err != nil {
			t.Fatalf("verif: recovery key: %v", err)
		}
		e.rec, err = shamir.Split(rk, 3, 3)
		if err != nil {
			t.Fatalf("verif: split: %v", err)
		}
	}
	v.Mount("c10rec", "verifrec", "", nil)
	e.step("boot", "boot seal=%s tx=%v ns=%v", e.sealName(), tx, withNS)
	if withNS {
		nsObj := &namespace.Namespace{Path: c10NSPath}
		keys := TestCoreCreateSealedNamespaces(&vT{t}, v.Core, nsObj)
		e.ns = &c10Keys{shares: keys[c10NSPath], thr: 3, term: 1, sealed: true}
		if !e.unsealNS(v, e.ns.shares) {
			t.Fatalf("verif: cannot unseal fresh namespace")
		}
		e.ns.sealed = false
		v.Mount("c10rec", "verifrec", c10NSPath, nil)
	}
	return e
}

// ---------------------------------------------------------------- unseal helpers

// c10UnsealShares feeds every share in order; errors are expected for wrong material.
func c10UnsealShares(c *Core, shares [][]byte) (bool, []string) {
	var errs []string
	for _, s := range shares {
		ok, err := c.Unseal(TestKeyCopy(s))
		if err != nil {
			errs = append(errs, err.Error())
		}
		if ok {
			return true, errs
		}
	}
	c.ResetUnsealProcess()
	return !c.Sealed(), errs
}

func (e *c10Env) unsealNS(v *vCore, shares [][]byte) bool {
	ok, _ := c10UnsealNS(v.Core, shares)
	return ok
}

func c10UnsealNS(c *Core, shares [][]byte) (bool, []string) {
	var errs []string
	ns := c10NSObj(c)
	if ns == nil {
		return false, []string{"namespace not found"}
	}
	for _, s := range shares {
		ok, err := TestNamespaceUnseal(c, ns, TestKeyCopy(s))
		if err != nil {
			errs = append(errs, err.Error())
		}
		if ok && !c.NamespaceSealed(ns) {
			return true, errs
		}
	}
	c.sealManager.ResetUnsealProcess(ns.UUID)
	return !c.NamespaceSealed(ns), errs
}

func c10RandShares(rng *kit.Rand, like [][]byte, n int) [][]byte {
	l := 33
	if len(like) > 0 {
		l = len(like[0])
	}
	var out [][]byte
	for i := 0; i < n; i++ {
		b := rng.Bytes(l)
		if l == 33 {
			b[32] = byte(i + 1) // distinct x coordinates, as real shares have
		}
		out = append(out, b)
	}
	return out
}

func c10SameShares(a, b [][]byte) bool {
	if len(a) != len(b) {
		return false
	}
	for i := range a {
		if string(a[i]) != string(b[i]) {
			return false
		}
	}
	return true
}

// ---------------------------------------------------------------- data

func (e *c10Env) storage(v *vCore, scope string) (logical.Storage, string) {
	if scope == "root" {
		return v.Core.barrier, ""
	}
	ns := c10NSObj(v.Core)
	if ns == nil {
		return nil, ""
	}
	return v.Core.NamespaceView(ns), NamespaceStoragePathPrefix(ns)
}

func (e *c10Env) keys(scope string) *c10Keys {
	if scope == "root" {
		return &e.root
	}
	return e.ns
}

func (e *c10Env) opWrite(scope, kind string) {
	i := e.rng.Intn(6)
	val := e.rng.Canary()
	nsHdr := ""
	if scope == "ns" {
		nsHdr = c10NSPath
	}
	switch kind {
	case "raw":
		key := fmt.Sprintf("c10/raw/k%d", i)
		st, prefix := e.storage(e.v, scope)
		err := st.Put(c10Root, &logical.StorageEntry{Key: key, Value: []byte(val)})
		e.step("write", "write %s raw %s", scope, key)
		if err != nil {
			e.viol("write-failed", "barrier put on an unsealed %s barrier: %v", scope, err)
			return
		}
		e.data[scope+"|raw|"+key] = val
		pe, _ := e.v.Probe.Inner().Get(c10Root, prefix+key)
		want := e.keys(scope).term
		if e.keys(scope).termLoose && pe != nil && len(pe.Value) >= 4 && int(binary.BigEndian.Uint32(pe.Value[:4])) == want+1 {
			want++
		}
		if pe == nil || len(pe.Value) < 4 || int(binary.BigEndian.Uint32(pe.Value[:4])) != want {
			got := -1
			if pe != nil && len(pe.Value) >= 4 {
				got = int(binary.BigEndian.Uint32(pe.Value[:4]))
			}
			e.viol("new-write-old-term", "fresh write %s%s carries term %d in its physical header; the %s barrier completed %d rotation(s), newest term is %d", prefix, key, got, scope, want-1, want)
			return
		}
		e.r.Count("fresh_write_term_checks", 1)
		if want > 1 {
			e.r.Count("fresh_write_term_checks_after_rotation", 1)
		}
	case "api":
		path := fmt.Sprintf("c10rec/data/k%d", i)
		resp, err := e.v.Do(vReq{Op: logical.UpdateOperation, Path: path, Token: e.v.Root, NS: nsHdr, Data: map[string]any{"v": val}})
		e.step("write", "write %s api %s", scope, path)
		if !vOK(resp, err) {
			e.viol("write-failed", "API write %s (%s) on an unsealed core: %s", path, scope, vErrStr(resp, err))
			return
		}
		e.data[scope+"|api|"+path] = val
	}
}

// verify reads everything back on core v. It returns "" or the first failure.
func (e *c10Env) verify(v *vCore, nsUnsealed bool) (kind, what string) {
	var ids []string
	for id := range e.data {
		ids = append(ids, id)
	}
	sort.Strings(ids)
	for _, id := range ids {
		p := strings.SplitN(id, "|", 3)
		scope, knd, key := p[0], p[1], p[2]
		if scope == "ns" && !nsUnsealed {
			continue
		}
		nsHdr := ""
		if scope == "ns" {
			nsHdr = c10NSPath
		}
		switch knd {
		case "raw":
			st, _ := e.storage(v, scope)
			if st == nil {
				return "entry-unreadable", fmt.Sprintf("%s storage not available for %s", scope, key)
			}
			got, err := st.Get(c10Root, key)
			if err != nil {
				return "entry-unreadable", fmt.Sprintf("%s barrier Get(%s): %v", scope, key, err)
			}
			if got == nil {
				return "entry-lost", fmt.Sprintf("%s barrier Get(%s) returned nothing", scope, key)
			}
			if string(got.Value) != e.data[id] {
				return "entry-corrupt", fmt.Sprintf("%s barrier Get(%s) returned a different value", scope, key)
			}
		case "api":
			resp, err := v.Do(vReq{Op: logical.ReadOperation, Path: key, Token: v.Root, NS: nsHdr})
			if !vOK(resp, err) {
				return "entry-unreadable", fmt.Sprintf("API read %s (%s): %s", key, scope, vErrStr(resp, err))
			}
			if resp == nil || resp.Data == nil {
				return "entry-lost", fmt.Sprintf("API read %s (%s) returned nothing", key, scope)
			}
			if fmt.Sprint(resp.Data["v"]) != e.data[id] {
				return "entry-corrupt", fmt.Sprintf("API read %s (%s) returned a different value", key, scope)
			}
		}
		e.r.Count("entries_read_back", 1)
	}
	return "", ""
}

func (e *c10Env) verifyHere(stage string) {
	if e.failed {
		return
	}
	if k, w := e.verify(e.v, e.ns != nil && !e.ns.sealed); k != "" {
		e.viol(k, "%s: %s", stage, w)
		return
	}
	if e.keyOps > 0 && len(e.data) > 0 {
		e.readsAfterKeyOp++
	}
}

// ---------------------------------------------------------------- foreign-entry scan

type c10Owned struct {
	owner string // root | ns | opaque
	sha   string
}

// scan classifies every physical record by the barrier that can open it.
func (e *c10Env) scan() map[string]c10Owned {
	out := map[string]c10Owned{}
	var nsB barrier.SecurityBarrier
	if e.ns != nil && !e.ns.sealed {
		nsB = e.v.Core.sealManager.NamespaceBarrier(c10NSPath)
	}
	for key := range e.v.Probe.Snapshot() {
		if got, err := e.v.Core.barrier.Get(c10Root, key); err == nil && got != nil {
			out[key] = c10Owned{"root", fmt.Sprintf("%x", got.Value)}
			continue
		}
		if nsB != nil {
			if got, err := nsB.Get(c10Root, key); err == nil && got != nil {
				out[key] = c10Owned{"ns", fmt.Sprintf("%x", got.Value)}
				continue
			}
		}
		out[key] = c10Owned{owner: "opaque"}
	}
	return out
}

// compareScan: a record a barrier could open before a key operation, and that
// still exists, must still be opened by that barrier afterwards.
func (e *c10Env) compareScan(before map[string]c10Owned, op, scope string) {
	if e.failed {
		return
	}
	after := e.scan()
	var keys []string
	for k := range before {
		keys = append(keys, k)
	}
	sort.Strings(keys)
	for _, k := range keys {
		b := before[k]
		a, present := after[k]
		if !present || b.owner == "opaque" {
			continue
		}
		if k == barrier.ShamirKekPath && b.owner == "ns" {
			continue // the root-path record a namespace rekey left behind (reported when it appeared)
		}
		e.r.Count("scan_records_compared", 1)
		if a.owner != b.owner {
			class := "C10-entry-unreadable-after-key-operation"
			if k == barrier.ShamirKekPath && scope == "ns" && b.owner == "root" && a.owner == "ns" && strings.HasPrefix(op, "rekey") {
				// narrow signature: keep exploring this history after recording it
				e.r.Violate(c10ClassNSKek, e.caseID, fmt.Sprintf("[%s] %s on the namespace barrier: the root barrier's own record %q (its copy of the Shamir seal key, written at init, read by standbys and snapshot restore) was readable through the root barrier before the operation and now only opens with the namespace barrier's keys", e.caseID, op, k), e.witness())
				e.r.Count("ns_rekey_overwrote_root_shamir_kek", 1)
				continue
			}
			e.violClass(class, "%s on the %s barrier: physical record %q was readable through the %s barrier before the operation and is now %s (readable through: %s)", op, scope, k, b.owner, map[bool]string{true: "not readable through any barrier", false: "owned by another barrier"}[a.owner == "opaque"], a.owner)
			return
		}
	}
}

// ---------------------------------------------------------------- key operations

func (e *c10Env) nsCtx(scope string) (context.Context, *namespace.Namespace) {
	if scope == "root" {
		return c10Root, namespace.RootNamespace
	}
	ns := c10NSObj(e.v.Core)
	return namespace.ContextWithNamespace(context.Background(), ns), ns
}

func (e *c10Env) opRotate(scope string) error {
	_, ns := e.nsCtx(scope)
	err := e.v.Core.sealManager.RotateBarrierKey(c10Root, ns)
	e.step("rotate", "rotate %s err=%v", scope, err)
	if err != nil {
		return err
	}
	e.keys(scope).term++
	e.keyOps++
	e.half[scope] = false
	e.r.Count("rotations", 1)
	return nil
}

func (e *c10Env) opRootRotate(scope string) error {
	_, ns := e.nsCtx(scope)
	err := e.v.Core.sealManager.RotateBarrierRootKey(c10Root, ns)
	e.step("root-rotate", "root-rotate %s err=%v", scope, err)
	if err != nil {
		return err
	}
	e.keyOps++
	e.half[scope] = false
	e.r.Count("root_rotations", 1)
	return nil
}

// opRekey drives a complete rekey (init, shares, optional verification).
// api is "legacy" (Core.RekeyInit/RekeyUpdate/RekeyVerify, root only) or "sm"
// (SealManager.InitRotation/UpdateRotation/VerifyRotation).
// It returns the shares the operation handed out (nil for the stored-key seal).
func (e *c10Env) opRekey(scope, api string, n, t int, verify bool) ([][]byte, error) {
	ctx, ns := e.nsCtx(scope)
	ks := e.keys(scope)
	supply := ks.shares
	shamirBarrier := scope == "ns" || e.shamir
	if !shamirBarrier {
		supply = e.rec
		verify = false
	}
	cfg := &SealConfig{SecretShares: n, SecretThreshold: t, VerificationRequired: verify}
	var newShares [][]byte
	var vnonce string
	fail := func(stage string, err error) ([][]byte, error) {
		e.step("rekey", "rekey %s api=%s -> %d/%d verify=%v: %s: %v", scope, api, t, n, verify, stage, err)
		return nil, fmt.Errorf("%s: %w", stage, err)
	}
	switch api {
	case "legacy":
		if herr := e.v.Core.RekeyInit(cfg, false); herr != nil {
			return fail("init", herr)
		}
		rc, herr := e.v.Core.RekeyConfig(false)
		if herr != nil || rc == nil {
			return fail("config", fmt.Errorf("%v", herr))
		}
		var res *RekeyResult
		for _, s := range supply {
			var herr logical.HTTPCodedError
			res, herr = e.v.Core.RekeyUpdate(c10Root, TestKeyCopy(s), rc.Nonce, false)
			if herr != nil {
				_ = e.v.Core.RekeyCancel(false)
				return fail("update", herr)
			}
			if res != nil {
				break
			}
		}
		if res == nil {
			_ = e.v.Core.RekeyCancel(false)
			return fail("update", fmt.Errorf("no result after all %d shares", len(supply)))
		}
		newShares, vnonce = res.SecretShares, res.VerificationNonce
		if verify {
			done := false
			for i := 0; i < t && !done; i++ {
				vr, herr := e.v.Core.RekeyVerify(c10Root, TestKeyCopy(newShares[i]), vnonce, false)
				if herr != nil {
					_ = e.v.Core.RekeyCancel(false)
					return fail("verify", herr)
				}
				done = vr != nil && vr.Complete
			}
			if !done {
				_ = e.v.Core.RekeyCancel(false)
				return fail("verify", fmt.Errorf("verification did not complete"))
			}
		}
	case "sm":
		sm := e.v.Core.sealManager
		if _, err := sm.InitRotation(ctx, ns, cfg, false); err != nil {
			return fail("init", err)
		}
		rc := sm.RotationConfig(ns.UUID, false)
		if rc == nil {
			return fail("config", fmt.Errorf("no rotation config"))
		}
		var res *RekeyResult
		for _, s := range supply {
			var err error
			res, err = sm.UpdateRotation(ctx, ns, TestKeyCopy(s), rc.Nonce, false)
			if err != nil {
				_ = sm.CancelRotation(ctx, ns.UUID, false)
				return fail("update", err)
			}
			if res != nil {
				break
			}
		}
		if res == nil {
			_ = sm.CancelRotation(ctx, ns.UUID, false)
			return fail("update", fmt.Errorf("no result after all %d shares", len(supply)))
		}
		newShares, vnonce = res.SecretShares, res.VerificationNonce
		if verify {
			done := false
			for i := 0; i < t && !done; i++ {
				vr, err := sm.VerifyRotation(ctx, ns, TestKeyCopy(newShares[i]), vnonce, false)
				if err != nil {
					_ = sm.CancelRotation(ctx, ns.UUID, false)
					return fail("verify", err)
				}
				done = vr != nil && vr.Complete
			}
			if !done {
				_ = sm.CancelRotation(ctx, ns.UUID, false)
				return fail("verify", fmt.Errorf("verification did not complete"))
			}
		}
	}
	e.step("rekey", "rekey %s api=%s -> %d/%d verify=%v ok, %d new share(s)", scope, api, t, n, verify, len(newShares))
	e.keyOps++
	e.half[scope] = false
	e.r.Count("rekeys", 1)
	if shamirBarrier {
		if len(newShares) != n {
			return nil, fmt.Errorf("rekey to %d shares returned %d", n, len(newShares))
		}
		ks.stale = append(ks.stale, ks.shares)
		ks.shares, ks.thr = newShares, t
		return newShares, nil
	}
	return nil, nil
}

func (e *c10Env) opReload(scope string) {
	var b barrier.SecurityBarrier = e.v.Core.barrier
	if scope == "ns" {
		b = e.v.Core.sealManager.NamespaceBarrier(c10NSPath)
	}
	err := b.ReloadRootKey(c10Root)
	if err == nil {
		err = b.ReloadKeyring(c10Root)
	}
	e.step("reload", "reload %s err=%v", scope, err)
	if err != nil && e.half[scope] {
		// the node would shut itself down and be unsealed again
		e.r.Count("observation_reload_refused_after_half_persisted_key_operation", 1)
		if scope == "root" {
			e.opSealUnsealRoot()
		} else {
			e.opSealUnsealNS()
		}
		return
	}
	if err != nil {
		e.viol("reload-failed", "ReloadRootKey/ReloadKeyring on the %s barrier: %v", scope, err)
		return
	}
	e.r.Count("reloads", 1)
}

// c10F6 is the F6 signature (DESIGN section 3 F6 / section 4 C10) as a predicate over the
// operation-tagged writes of a rekey or root rotation that became durable (the first k
// journal entries): (a) of the operation's writes only the stored-keys write is durable
// (cut between it and the keyring write), or (b) on a Shamir barrier the new keyring is
// durable but the operation did not reach its last write (KEK copy / seal configuration old).
// last < 0 means "the operation did not complete" (fault case).
func c10F6(j []kit.Mutation, k int, last int, shamirBarrier bool) bool {
	stored, keyringW := -1, -1
	after := 0
	for i, m := range j {
		if i >= k {
			break
		}
		if m.Tag != "c10op" {
			continue
		}
		if stored >= 0 {
			after++
		}
		for _, w := range m.Writes {
			if stored < 0 && strings.HasSuffix(w.Key, StoredBarrierKeysPath) {
				stored = i
			}
			if stored >= 0 && keyringW < 0 && strings.HasSuffix(w.Key, barrier.KeyringPath) {
				keyringW = i
			}
		}
	}
	if stored < 0 || (last >= 0 && k > last) {
		return false
	}
	if after == 0 {
		return true
	}
	return keyringW >= 0 && shamirBarrier
}

// ---------------------------------------------------------------- root-token generation

// opGenerateRoot runs a generate-root attempt on the barrier of scope: with the currently
// valid shares it must succeed, with threshold-many shares of which one is foreign it must
// be refused - and must leave the seal as it was (the histories go on rotating and sealing).
func (e *c10Env) opGenerateRoot(scope string, genuine bool) {
	ctx, ns := e.nsCtx(scope)
	ks := e.keys(scope)
	shamirBarrier := scope == "ns" || e.shamir
	supply, thr := ks.shares, ks.thr
	if !shamirBarrier {
		supply, thr = e.rec, 3
	}
	var shares [][]byte
	for _, s := range supply[:thr] {
		shares = append(shares, TestKeyCopy(s))
	}
	if !genuine {
		if thr == 1 {
			shares[0] = e.rng.Bytes(len(shares[0]))
		} else {
			foreign, err := shamir.Split(e.rng.Bytes(32), len(supply), thr)
			if err != nil {
				e.t.Fatalf("verif: split: %v", err)
			}
			used := map[byte]bool{}
			for _, s := range shares[:thr-1] {
				used[s[len(s)-1]] = true
			}
			for _, f := range foreign {
				if !used[f[len(f)-1]] {
					shares[thr-1] = f
					break
				}
			}
		}
	}
	tl := TokenLength
	if ns.UUID != namespace.RootNamespaceUUID {
		tl = NSTokenLength
	}
	otp, err := base62.Random(TokenPrefixLength + tl)
	if err != nil {
		e.t.Fatalf("verif: otp: %v", err)
	}
	_ = e.v.Core.GenerateRootCancel(ctx)
	if err := e.v.Core.GenerateRootInit(ctx, otp, "", GenerateStandardRootTokenStrategy); err != nil {
		e.step("generate-root", "generate-root %s init: %v", scope, err)
		e.viol("generate-root-init-failed", "GenerateRootInit(%s) on an unsealed core: %v", scope, err)
		return
	}
	conf, err := e.v.Core.GenerateRootConfiguration(ctx)
	if err != nil || conf == nil {
		e.viol("generate-root-init-failed", "GenerateRootConfiguration(%s): %v", scope, err)
		return
	}
	var res *GenerateRootResult
	for _, s := range shares {
		res, err = e.v.Core.GenerateRootUpdate(ctx, s, conf.Nonce, GenerateStandardRootTokenStrategy)
		if err != nil {
			break
		}
	}
	e.step("generate-root", "generate-root %s genuine=%v with %d share(s) -> err=%v", scope, genuine, len(shares), err)
	_ = e.v.Core.GenerateRootCancel(ctx)
	if genuine {
		if err != nil || res == nil || res.EncodedToken == "" {
			e.viol("generate-root-refused-valid-shares", "generate-root on the %s barrier with the %d currently valid shares (threshold %d) was refused: %v", scope, len(shares), thr, err)
			return
		}
		e.r.Count("generate_root_with_valid_shares_ok", 1)
		return
	}
	if err == nil && res != nil && res.EncodedToken != "" {
		e.viol("generate-root-accepted-wrong-shares", "generate-root on the %s barrier handed out a token for %d shares of which one is foreign", scope, len(shares))
		return
	}
	e.r.Count("generate_root_with_foreign_share_refused", 1)
}

// ---------------------------------------------------------------- single storage fault inside a key operation

var c10FaultOps = []string{"rotate", "root-rotate", "rekey-sm", "rekey-legacy"}

// opFaulted runs a key operation on the barrier of scope while the k-th storage operation
// (or k-th write) it issues fails once. If the operation reports an error the core keeps
// serving: more writes through every front door, then seal + unseal with the shares that
// are valid for the operator (the old ones: a failed rekey returned none) and read-back.
func (e *c10Env) opFaulted(scope, op string, writesOnly bool, k int, n, t int) {
	if scope == "ns" && op == "rekey-legacy" {
		op = "rekey-sm"
	}
	ks := e.keys(scope)
	shamirBarrier := scope == "ns" || e.shamir
	oldTerm := ks.term
	e.v.WaitQuiet(10*time.Millisecond, time.Second)
	e.v.Probe.Tag("c10op")
	e.v.Probe.StartJournal()
	e.v.Probe.FailNth(func(ev kit.Event) bool {
		return ev.Tag == "c10op" && (!writesOnly || ev.Op == "put" || ev.Op == "delete" || ev.Op == "commit")
	}, k)
	e.step("fault", "next key operation (%s on %s) runs with its %s #%d failing once", op, scope, map[bool]string{true: "write", false: "storage operation"}[writesOnly], k)
	var err error
	switch op {
	case "rotate":
		err = e.opRotate(scope)
	case "root-rotate":
		err = e.opRootRotate(scope)
	case "rekey-sm":
		_, err = e.opRekey(scope, "sm", n, t, false)
	case "rekey-legacy":
		_, err = e.opRekey(scope, "legacy", n, t, false)
	}
	fired := e.v.Probe.ClearFaults()
	j := e.v.Probe.StopJournal()
	e.v.Probe.Untag()
	if fired == 0 {
		e.r.Count("faults_not_reached", 1)
		if err != nil {
			e.viol("key-op-failed", "%s(%s) on a fault-free store: %v", op, scope, err)
		}
		return
	}
	e.r.Count("faults_fired", 1)
	if err == nil {
		e.r.Count("faults_fired_operation_reported_success", 1)
		return
	}
	e.r.Count("key_operations_failed_by_fault", 1)
	e.r.Count("key_operations_failed_by_fault:"+op, 1)
	e.keyOps++
	e.half[scope] = true
	ks.termLoose = true
	// the core survived: it keeps serving every front door
	for _, s := range []string{"root", "ns"} {
		if s == "ns" && e.ns == nil {
			continue
		}
		e.opWrite(s, "raw")
		e.opWrite(s, "api")
		if e.failed {
			return
		}
	}
	// seal + unseal with what the operator holds
	var ok bool
	var errs []string
	if scope == "root" {
		if serr := TestCoreSeal(e.v.Core); serr != nil {
			e.viol("seal-failed", "seal: %v", serr)
			return
		}
		e.root.sealed = true
		if e.ns != nil {
			e.ns.sealed = true
		}
		if e.shamir {
			ok, errs = c10UnsealShares(e.v.Core, e.root.shares[:e.root.thr])
		} else {
			uerr := e.v.Core.UnsealWithStoredKeys(c10Root)
			ok = uerr == nil && !e.v.Core.Sealed()
			if uerr != nil {
				errs = append(errs, uerr.Error())
			}
		}
	} else {
		if serr := e.v.Core.namespaceStore.SealNamespace(c10Root, c10NSPath); serr != nil {
			e.viol("seal-failed", "seal namespace: %v", serr)
			return
		}
		e.ns.sealed = true
		ok, errs = c10UnsealNS(e.v.Core, e.ns.shares[:e.ns.thr])
	}
	e.step("unseal", "seal+unseal %s after the failed %s with the shares the operator holds -> %v", scope, op, ok)
	if !ok {
		rekeyLike := op == "root-rotate" || strings.HasPrefix(op, "rekey")
		jw := c10Journal(j)
		if rekeyLike && c10F6(j, len(j), -1, shamirBarrier) {
			// same durable state as a crash at that point: the open finding, reached through a fault
			e.r.Count("f6_state_reached_through_fault", 1)
			e.failed = true
			e.r.Violate(c10ClassF6, e.caseID, fmt.Sprintf("[%s] %s on the %s barrier failed on an injected storage fault after its stored-keys write became durable (durable writes %v); after seal the %s barrier opens with no shares the operator holds: %v", e.caseID, op, scope, jw, scope, errs), e.witness())
			return
		}
		e.viol("valid-key-refused-after-failed-key-operation", "%s on the %s barrier failed on an injected storage fault (durable writes of the operation: %v); after seal+unseal the currently valid shares are refused: %v", op, scope, jw, errs)
		return
	}
	if scope == "root" {
		e.root.sealed = false
		e.r.Count("unseals_ok", 1)
		if e.ns != nil {
			e.unsealNSChecked(e.v)
			if e.failed {
				return
			}
		}
	} else {
		e.ns.sealed = false
		e.r.Count("ns_unseals_ok", 1)
	}
	// the encryption-key term a node loads after the incident: the old one or the next
	var b barrier.SecurityBarrier = e.v.Core.barrier
	if scope == "ns" {
		b = e.v.Core.sealManager.NamespaceBarrier(c10NSPath)
	}
	info, ierr := b.ActiveKeyInfo()
	if ierr != nil || (info.Term != oldTerm && info.Term != oldTerm+1) {
		e.viol("active-term", "after a failed %s and seal/unseal the %s barrier is at term %v (was %d): %v", op, scope, info, oldTerm, ierr)
		return
	}
	ks.term, ks.termLoose = info.Term, false
	e.r.Count("failed_key_operations_followed_by_seal_unseal_and_read_back", 1)
	e.verifyHere("after a failed " + op + " and seal/unseal")
}

// ---------------------------------------------------------------- sealed-state oracle (core)

func (e *c10Env) sealedChecksRoot(v *vCore) {
	if !v.Core.Sealed() || !v.Core.barrier.Sealed() {
		e.viol("sealed-flag", "core reports unsealed after seal")
		return
	}
	if kr, err := v.Core.barrier.Keyring(); err == nil || kr != nil {
		e.viol("sealed-holds-keyring", "root barrier hands out a keyring while sealed")
		return
	}
	for id := range e.data {
		p := strings.SplitN(id, "|", 3)
		if p[1] == "raw" && p[0] == "root" {
			if got, err := v.Core.barrier.Get(c10Root, p[2]); err == nil {
				e.viol("sealed-op-served", "root barrier Get(%s) while sealed: err=nil entry=%v", p[2], got != nil)
				return
			}
			e.r.Count("sealed_reads_refused", 1)
		}
		if p[1] == "api" {
			nsHdr := ""
			if p[0] == "ns" {
				nsHdr = c10NSPath
			}
			if resp, err := v.Do(vReq{Op: logical.ReadOperation, Path: p[2], Token: v.Root, NS: nsHdr}); vOK(resp, err) {
				e.viol("sealed-op-served", "API read %s served while the core is sealed", p[2])
				return
			}
			e.r.Count("sealed_reads_refused", 1)
		}
	}
	if err := v.Core.barrier.Put(c10Root, &logical.StorageEntry{Key: "c10/raw/sealed", Value: []byte("x")}); err == nil {
		e.viol("sealed-op-served", "root barrier Put while sealed succeeded")
		return
	}
	if _, err := v.Core.barrier.List(c10Root, "c10/raw/"); err == nil {
		e.viol("sealed-op-served", "root barrier List while sealed succeeded")
		return
	}
	if err := v.Core.sealManager.RotateBarrierKey(c10Root, namespace.RootNamespace); err == nil {
		e.viol("sealed-keyop-served", "RotateBarrierKey succeeded on a sealed core")
		return
	}
	e.r.Count("sealed_reads_refused", 3)
}

func (e *c10Env) sealedChecksNS(v *vCore) {
	ns := c10NSObj(v.Core)
	if ns == nil {
		e.viol("harness", "namespace vanished")
		return
	}
	if !v.Core.NamespaceSealed(ns) {
		e.viol("sealed-flag", "namespace reports unsealed after seal")
		return
	}
	b := v.Core.sealManager.NamespaceBarrier(c10NSPath)
	if kr, err := b.Keyring(); err == nil || kr != nil {
		e.viol("sealed-holds-keyring", "namespace barrier hands out a keyring while sealed")
		return
	}
	view := v.Core.NamespaceView(ns)
	for id := range e.data {
		p := strings.SplitN(id, "|", 3)
		if p[0] != "ns" {
			continue
		}
		if p[1] == "raw" {
			if got, err := view.Get(c10Root, p[2]); err == nil {
				e.viol("sealed-op-served", "namespace barrier Get(%s) while sealed: err=nil entry=%v", p[2], got != nil)
				return
			}
		} else if resp, err := v.Do(vReq{Op: logical.ReadOperation, Path: p[2], Token: v.Root, NS: c10NSPath}); vOK(resp, err) {
			e.viol("sealed-op-served", "API read %s served while its namespace is sealed", p[2])
			return
		}
		e.r.Count("sealed_reads_refused", 1)
	}
	if err := view.Put(c10Root, &logical.StorageEntry{Key: "c10/raw/sealed", Value: []byte("x")}); err == nil {
		e.viol("sealed-op-served", "namespace barrier Put while sealed succeeded")
		return
	}
	if err := v.Core.sealManager.RotateBarrierKey(c10Root, ns); err == nil {
		e.viol("sealed-keyop-served", "RotateBarrierKey succeeded on a sealed namespace")
	}
}

// wrongShares: partial, random and stale share sets must leave the barrier sealed.
func (e *c10Env) wrongShares(v *vCore, scope string) {
	ks := e.keys(scope)
	sealed := func() bool {
		if scope == "root" {
			return v.Core.Sealed()
		}
		ns := c10NSObj(v.Core)
		return ns != nil && v.Core.NamespaceSealed(ns)
	}
	try := func(name string, shares [][]byte) {
		if e.failed || len(shares) == 0 {
			return
		}
		if scope == "root" {
			c10UnsealShares(v.Core, shares)
		} else {
			c10UnsealNS(v.Core, shares)
		}
		if !sealed() {
			e.viol("wrong-key-unsealed", "%s barrier unsealed with %s (%d share(s), current threshold %d)", scope, name, len(shares), ks.thr)
			return
		}
		e.r.Count("wrong_share_sets_refused", 1)
		e.r.Count("wrong_share_kind:"+name, 1)
	}
	if ks.thr > 1 {
		try("fewer-than-threshold-valid-shares", ks.shares[:ks.thr-1])
	}
	try("random-shares", c10RandShares(e.rng, ks.shares, max(ks.thr, 1)))
	if ks.thr > 1 {
		// threshold-1 valid shares completed by a random one
		mixed := append(append([][]byte{}, ks.shares[:ks.thr-1]...), c10RandShares(e.rng, ks.shares, 1)...)
		mixed[len(mixed)-1][len(mixed[len(mixed)-1])-1] = 0xfe
		try("valid-shares-plus-one-random", mixed)
	} else if len(ks.shares) == 1 && len(ks.shares[0]) > 16 {
		try("truncated-key", [][]byte{ks.shares[0][:16]})
	}
	for i, st := range ks.stale {
		if i < len(ks.stale)-2 {
			continue
		}
		if !c10SameShares(st, ks.shares) {
			try("stale-shares-of-a-completed-rekey", st)
		}
	}
}

// rejectedBatch submits, to the sealed barrier of the scope, a batch of shares that reaches the
// threshold but that the share combination cannot digest at all: a share truncated by one byte, a
// raw 32-byte key where a share belongs, a second share with the x coordinate of one already
// given (different body), a share of an earlier rekey generation with a colliding x. The batch
// must be refused and the barrier stay sealed. NO reset of the unseal progress follows: the
// caller goes on with a full threshold of currently valid shares, which must unseal. It reports
// the kind of batch submitted ("" when none was).
func (e *c10Env) rejectedBatch(v *vCore, scope string) string {
	ks := e.keys(scope)
	if ks.thr < 2 || len(ks.shares) < ks.thr {
		return ""
	}
	feed := func(share []byte) (bool, error) {
		if scope == "root" {
			return v.Core.Unseal(TestKeyCopy(share))
		}
		ns := c10NSObj(v.Core)
		if ns == nil {
			return false, fmt.Errorf("namespace not found")
		}
		ok, err := TestNamespaceUnseal(v.Core, ns, TestKeyCopy(share))
		return ok && !v.Core.NamespaceSealed(ns), err
	}
	sealed := func() bool {
		if scope == "root" {
			return v.Core.Sealed()
		}
		ns := c10NSObj(v.Core)
		return ns != nil && v.Core.NamespaceSealed(ns)
	}
	good := ks.shares[:ks.thr-1]
	last := ks.shares[ks.thr-1]
	kinds := []string{"share-truncated-by-one-byte", "raw-32-byte-key-in-place-of-a-share", "second-share-with-the-same-x-different-body"}
	// a share of an earlier generation whose x coordinate collides with one of the shares given
	var colliding []byte
	for _, gen := range ks.stale {
		for _, st := range gen {
			for _, g := range good {
				if len(st) == len(g) && st[len(st)-1] == g[len(g)-1] && string(st) != string(g) {
					colliding = st
				}
			}
		}
	}
	if colliding != nil {
		kinds = append(kinds, "old-generation-share-with-a-colliding-x", "old-generation-share-with-a-colliding-x")
	}
	kind := kit.Pick(e.rng, kinds)
	var bad []byte
	switch kind {
	case "share-truncated-by-one-byte":
		bad = append([]byte(nil), last[:len(last)-1]...)
	case "raw-32-byte-key-in-place-of-a-share":
		bad = e.rng.Bytes(len(last) - 1)
	case "second-share-with-the-same-x-different-body":
		bad = append([]byte(nil), good[0]...)
		bad[e.rng.Intn(len(bad)-1)] ^= 0x5a
	default:
		bad = append([]byte(nil), colliding...)
	}
	batch := append(append([][]byte{}, good...), bad)
	if e.rng.Chance(1, 2) && len(batch) > 1 {
		batch[0], batch[len(batch)-1] = batch[len(batch)-1], batch[0] // the indigestible one first
	}
	var lastErr error
	for _, sh := range batch {
		ok, err := feed(sh)
		if err != nil {
			lastErr = err
		}
		if ok || !sealed() {
			e.step("rejected-batch", "%s: batch with a %s unsealed", scope, kind)
			e.viol("wrong-key-unsealed", "%s barrier unsealed with %d valid share(s) and a %s", scope, len(good), kind)
			return kind
		}
	}
	e.step("rejected-batch", "%s: %d valid share(s) and a %s (threshold %d) -> refused: %v; no reset of the unseal progress", scope, len(good), kind, ks.thr, lastErr)
	if lastErr == nil {
		// nothing was refused: the batch is still pending (a duplicate was ignored); clear it
		if scope == "root" {
			v.Core.ResetUnsealProcess()
		} else if ns := c10NSObj(v.Core); ns != nil {
			v.Core.sealManager.ResetUnsealProcess(ns.UUID)
		}
		e.r.Count("observation_indigestible_batch_not_refused_left_pending", 1)
		return ""
	}
	e.r.Count("rejected_batches", 1)
	e.r.Count("rejected_batches:"+scope, 1)
	e.r.Count("rejected_batch_kind:"+kind, 1)
	return kind
}

// validAfterRejected feeds a full threshold of the currently valid shares one by one, with no
// reset before or in between.
func (e *c10Env) validAfterRejected(v *vCore, scope, kind string) bool {
	ks := e.keys(scope)
	var errs []string
	for _, sh := range ks.shares[:ks.thr] {
		var err error
		if scope == "root" {
			_, err = v.Core.Unseal(TestKeyCopy(sh))
		} else if ns := c10NSObj(v.Core); ns != nil {
			_, err = TestNamespaceUnseal(v.Core, ns, TestKeyCopy(sh))
		}
		if err != nil {
			errs = append(errs, err.Error())
		}
	}
	open := false
	if scope == "root" {
		open = !v.Core.Sealed()
	} else if ns := c10NSObj(v.Core); ns != nil {
		open = !v.Core.NamespaceSealed(ns)
	}
	e.step("unseal", "%s: a full threshold (%d of %d) of the currently valid shares right after the refused batch, no reset -> unsealed=%v %v", scope, ks.thr, len(ks.shares), open, errs)
	if !open {
		// is it the refused batch that stands in the way? after a reset of the unseal progress the same shares must do
		var ok2 bool
		var errs2 []string
		if scope == "root" {
			v.Core.ResetUnsealProcess()
			ok2, errs2 = c10UnsealShares(v.Core, ks.shares[:ks.thr])
		} else {
			if ns := c10NSObj(v.Core); ns != nil {
				v.Core.sealManager.ResetUnsealProcess(ns.UUID)
			}
			ok2, errs2 = c10UnsealNS(v.Core, ks.shares[:ks.thr])
		}
		if !ok2 {
			e.viol("valid-key-refused", "the %s barrier stays sealed with a full threshold (%d of %d) of its currently valid shares, right after a refused batch (%v) and also after a reset of the unseal progress (%v)", scope, ks.thr, len(ks.shares), errs, errs2)
			return false
		}
		e.step("unseal", "%s: after a reset of the unseal progress the same shares unseal", scope)
		e.violClass("C10-valid-shares-refused-after-a-rejected-batch", "the %s barrier stays sealed with a full threshold (%d of %d) of its currently valid shares submitted right after a batch that was refused (%d valid share(s) and a %s; the unseal progress was not reset in between): %v; after an explicit reset of the unseal progress the same shares unseal", scope, ks.thr, len(ks.shares), ks.thr-1, kind, errs)
		return false
	}
	e.r.Count("valid_shares_accepted_right_after_a_rejected_batch", 1)
	e.r.Count("valid_shares_accepted_right_after_a_rejected_batch:"+scope, 1)
	return true
}

func (e *c10Env) opSealUnsealRoot() {
	if err := TestCoreSeal(e.v.Core); err != nil {
		e.viol("seal-failed", "seal: %v", err)
		return
	}
	e.step("seal", "seal core")
	e.root.sealed = true
	if e.ns != nil {
		e.ns.sealed = true
	}
	e.r.Count("seals", 1)
	e.sealedChecksRoot(e.v)
	if e.failed {
		return
	}
	if e.rng.Chance(1, 3) {
		e.faultedUnseal(e.v, 1+e.rng.Intn(24))
		if e.failed {
			return
		}
	}
	if e.root.sealed {
		e.unsealRoot(e.v)
		if e.failed {
			return
		}
	}
	if e.ns != nil {
		e.unsealNSChecked(e.v)
	}
	e.verifyHere("after seal/unseal")
}

// faultedUnseal: an unseal attempt with the valid unseal material during which the k-th
// storage operation fails once. Whatever the attempt reports, a core that says it is
// sealed must be sealed in full: every barrier sealed, no keyring, nothing served.
func (e *c10Env) faultedUnseal(v *vCore, k int) {
	var failedOp kit.Event
	v.Probe.Tag("c10op")
	v.Probe.FailNth(func(ev kit.Event) bool {
		if ev.Tag != "c10op" {
			return false
		}
		failedOp = ev
		return true
	}, k)
	var errs []string
	panicked := func() (p any) {
		defer func() { p = recover() }()
		if e.shamir {
			_, errs = c10UnsealShares(v.Core, e.root.shares[:e.root.thr])
		} else if err := v.Core.UnsealWithStoredKeys(c10Root); err != nil {
			errs = append(errs, err.Error())
		}
		return nil
	}()
	fired := v.Probe.ClearFaults()
	v.Probe.Untag()
	if panicked != nil {
		// outside the property's wording: recorded, the node is replaced by a restarted one
		e.step("unseal", "unseal attempt with storage operation #%d (%s %s) failing once PANICKED: %v", k, failedOp.Op, failedOp.Key, panicked)
		e.r.Count("observation_unseal_panicked_on_storage_fault", 1)
		if !c10PanicNoted {
			c10PanicNoted = true
			e.r.Note("observation (not a verdict): Core.Unseal panics when a single storage operation fails during post-unseal mount setup (operation #%d of the unseal, %s %s): %v", k, failedOp.Op, c10KeyShape(failedOp.Key), panicked)
		}
		v.closed = true // its locks may be held by the unwound goroutine; it is abandoned, not shut down
		e.root.sealed = true
		e.opRestart()
		e.root.sealed = false
		return
	}
	e.step("unseal", "unseal attempt with valid material, storage operation #%d (%s %s) failing once (fired=%v) -> sealed=%v %v", k, failedOp.Op, c10KeyShape(failedOp.Key), fired > 0, v.Core.Sealed(), errs)
	if fired == 0 {
		e.r.Count("unseal_faults_not_reached", 1)
	} else {
		e.r.Count("unseal_faults_fired", 1)
	}
	if !v.Core.Sealed() {
		e.root.sealed = false
		e.r.Count("unseals_ok", 1)
		return
	}
	e.r.Count("failed_unseal_attempts_checked", 1)
	if !v.Core.barrier.Sealed() {
		if fired > 0 && failedOp.Op == "get" && failedOp.Key == selfInitStatusPath {
			// narrow signature: the read of the self-init status right after barrier.Unseal failed
			e.r.Count("failed_unseal_left_barrier_unsealed:self-init-status-read", 1)
			e.r.Violate(c10ClassSelfInit, e.caseID, fmt.Sprintf("[%s] the unseal's read of %s (directly after barrier.Unseal succeeded) failed on a storage fault: the unseal reports %v and the core stays sealed, but the root barrier is left unsealed (keyring in memory, barrier operations served, the next barrier.Unseal is a no-op)", e.caseID, selfInitStatusPath, errs), e.witness())
			return
		}
		e.viol("sealed-core-barrier-unsealed", "an unseal attempt failed on a storage fault (operation #%d = %s %s: %v); the core reports sealed and refuses requests, but its root barrier stayed unsealed (keyring in memory, barrier operations served)", k, failedOp.Op, c10KeyShape(failedOp.Key), errs)
		return
	}
	e.sealedChecksRoot(v)
	if e.failed {
		return
	}
	if e.ns != nil {
		if nsB := v.Core.sealManager.NamespaceBarrier(c10NSPath); nsB != nil && !nsB.Sealed() {
			e.viol("sealed-core-barrier-unsealed", "after a failed unseal attempt the core reports sealed but the namespace barrier is unsealed")
		}
	}
}

var c10PanicNoted bool

// c10KeyShape shortens uuid-like path segments of a storage key.
func c10KeyShape(k string) string {
	parts := strings.Split(k, "/")
	for i, p := range parts {
		if len(p) >= 32 && strings.Count(p, "-") >= 4 {
			parts[i] = "*"
		}
	}
	return strings.Join(parts, "/")
}

// unsealRoot brings core v up with the currently valid unseal material.
func (e *c10Env) unsealRoot(v *vCore) {
	if e.shamir {
		e.wrongShares(v, "root")
		if e.failed {
			return
		}
		if kind := e.rejectedBatch(v, "root"); e.failed {
			return
		} else if kind != "" {
			if !e.validAfterRejected(v, "root", kind) {
				return
			}
		}
		ok, errs := c10UnsealShares(v.Core, e.root.shares[:e.root.thr])
		e.step("unseal", "unseal core with %d/%d current shares -> %v", e.root.thr, len(e.root.shares), ok)
		if !ok {
			e.viol("valid-key-refused", "core stays sealed with the %d currently valid shares (threshold %d): %v", len(e.root.shares), e.root.thr, errs)
			return
		}
	} else {
		err := v.Core.UnsealWithStoredKeys(c10Root)
		e.step("unseal", "unseal core with stored keys err=%v", err)
		if err != nil || v.Core.Sealed() {
			e.viol("valid-key-refused", "core does not unseal with its stored key: %v", err)
			return
		}
	}
	e.root.sealed = false
	e.r.Count("unseals_ok", 1)
}

func (e *c10Env) unsealNSChecked(v *vCore) {
	if !e.ns.sealed {
		return // already brought up (e.g. by the restart that replaced a panicked node)
	}
	if e.rng.Chance(1, 2) {
		e.sealedChecksNS(v)
		if e.failed {
			return
		}
	}
	e.wrongShares(v, "ns")
	if e.failed {
		return
	}
	if kind := e.rejectedBatch(v, "ns"); e.failed {
		return
	} else if kind != "" {
		if !e.validAfterRejected(v, "ns", kind) {
			return
		}
	}
	ok, errs := c10UnsealNS(v.Core, e.ns.shares[:e.ns.thr])
	e.step("unseal-ns", "unseal namespace with %d/%d current shares -> %v", e.ns.thr, len(e.ns.shares), ok)
	if !ok {
		e.viol("valid-key-refused", "namespace stays sealed with its %d currently valid shares (threshold %d): %v", len(e.ns.shares), e.ns.thr, errs)
		return
	}
	e.ns.sealed = false
	e.r.Count("ns_unseals_ok", 1)
}

func (e *c10Env) opSealUnsealNS() {
	if err := e.v.Core.namespaceStore.SealNamespace(c10Root, c10NSPath); err != nil {
		e.viol("seal-failed", "seal namespace: %v", err)
		return
	}
	e.step("seal-ns", "seal namespace")
	e.ns.sealed = true
	e.r.Count("ns_seals", 1)
	e.sealedChecksNS(e.v)
	if e.failed {
		return
	}
	// the parent keeps serving
	if k, w := e.verify(e.v, false); k != "" {
		e.viol(k, "root data while the namespace is sealed: %s", w)
		return
	}
	e.unsealNSChecked(e.v)
	e.verifyHere("after namespace seal/unseal")
}

func (e *c10Env) opRestart() {
	e.v.Close()
	var v2 *vCore
	var err error
	if e.shamir {
		v2, err = vBootErr(e.t, vOpts{Transactional: e.tx, ShamirSeal: true, NoInit: true, Phys: e.v.Phys})
		if v2 == nil || v2.Core == nil {
			e.t.Fatalf("verif: restart: %v", err)
		}
		e.t.Cleanup(v2.Close)
		v2.Root, v2.Keys = e.v.Root, e.v.Keys
		if v2.Probe == nil {
			v2.Probe = e.v.Probe
		}
		e.step("restart", "restart (new core on the same store)")
		e.v = v2
		e.root.sealed = true
		e.sealedChecksRoot(v2)
		if e.failed {
			return
		}
		e.unsealRoot(v2)
	} else {
		// a node with another seal key must not come up on this store
		other, _ := vaultseal.NewTestSeal(&vaultseal.TestSealOpts{Secret: []byte("c10-some-other-seal-key")})
		copyStore, _ := kit.NewProbe(c10CopyStore(e.v.Probe, e.tx))
		vw, werr := vBootErr(e.t, vOpts{Transactional: e.tx, NoInit: true, Phys: copyStore, SealAccess: other})
		if werr == nil && vw != nil && vw.Core != nil && !vw.Core.Sealed() {
			e.viol("wrong-key-unsealed", "a core configured with a different seal key unsealed the store")
		} else {
			e.r.Count("wrong_share_sets_refused", 1)
			e.r.Count("wrong_share_kind:other-seal-key", 1)
		}
		if vw != nil {
			vw.Close()
		}
		if e.failed {
			return
		}
		v2, err = e.v.RestartOn(e.v.Phys)
		e.step("restart", "restart (new core on the same store) err=%v", err)
		if err != nil {
			e.viol("valid-key-refused", "restarted core does not unseal with its stored key: %v", err)
			if v2 != nil {
				v2.Close()
			}
			return
		}
		e.v = v2
		e.r.Count("unseals_ok", 1)
	}
	if e.failed {
		return
	}
	e.r.Count("restarts", 1)
	if e.ns != nil {
		e.ns.sealed = true
		e.unsealNSChecked(e.v)
	}
	e.verifyHere("after restart")
}

func c10CopyStore(p *kit.Probe, tx bool) physical.Backend {
	p.StartJournal()
	b := p.Materialise(0, tx)
	p.StopJournal()
	return b
}

// ---------------------------------------------------------------- histories

var c10Configs = [][2]int{{1, 1}, {2, 2}, {3, 2}, {3, 3}, {5, 3}, {5, 2}, {4, 4}}

func TestVerif_C10_CoreHistories(t *testing.T) {
	seed := kit.Seed(10)
	shard, nshards := kit.Shard()
	r := kit.NewResult(t, "c10-core-histories", seed, "seeded random histories on a full core (Shamir seal or stored-key test seal, transactional store or not, with or without a Shamir-sealed child namespace): writes through the root barrier, the namespace barrier and the API / encryption-key rotation / root-key rotation / complete rekeys to random (shares, threshold) through both rekey APIs, with and without verification / keyring reload / seal+unseal of the core or of the namespace (always preceded by fewer-than-threshold, random, mixed and stale share sets, which must leave it sealed) / restart on the same store; after every unseal and restart and at the end everything written is read back, fresh barrier writes must carry 1+rotations as term, a sealed core or namespace must refuse reads, and no key operation may make a record of another barrier unreadable. A history is non-trivial when a key operation was followed by a seal/unseal or restart after which earlier data was read back; distinct by operation-kind sequence")
	defer r.Write(t)
	n := kit.N(80, 8000)
	for h := 0; h < n; h++ {
		if (h/8)%nshards != shard {
			continue
		}
		caseID := fmt.Sprintf("ch:%d", h)
		if !kit.WantCase(caseID) {
			continue
		}
		rng := kit.NewRand(seed, 2_000_000+uint64(h))
		shamirSeal := h%2 == 0
		withNS := h%4 < 2 || h%8 == 7
		tx := h%3 != 0
		e := c10Boot(t, r, rng, caseID, shamirSeal, tx, withNS)
		c10History(e, 9+rng.Intn(6))
		r.Eval(1)
		if !e.failed && e.keyOps > 0 && e.readsAfterKeyOp > 0 {
			r.Nontrivial(strings.Join(e.kinds, ","))
		}
		if h < 2 {
			r.Sample(map[string]any{"case": caseID, "seal": e.sealName(), "transactional": tx, "namespace": withNS, "steps": e.steps})
		}
		e.v.Close()
		if c10Unexpected(r) > 20 {
			break
		}
	}
	div := int64(nshards)
	r.Require("rotations", 40/div)
	r.Require("root_rotations", 30/div)
	r.Require("rekeys", 50/div)
	r.Require("seals", 40/div)
	r.Require("unseals_ok", 60/div)
	r.Require("ns_unseals_ok", 30/div)
	r.Require("restarts", 20/div)
	r.Require("wrong_share_sets_refused", 200/div)
	r.Require("wrong_share_kind:stale-shares-of-a-completed-rekey", 20/div)
	r.Require("rejected_batches:root", 50/div)
	r.Require("rejected_batches:ns", 70/div)
	r.Require("valid_shares_accepted_right_after_a_rejected_batch", 120/div)
	r.Require("sealed_reads_refused", 300/div)
	r.Require("entries_read_back", 2000/div)
	r.Require("fresh_write_term_checks_after_rotation", 40/div)
	r.Require("scan_records_compared", 5000/div)
	r.Require("generate_root_with_valid_shares_ok", 30/div)
	r.Require("generate_root_with_foreign_share_refused", 30/div)
	r.Require("faults_fired", 20/div)
	r.Require("key_operations_failed_by_fault", 15/div)
}

func c10History(e *c10Env, nops int) {
	scopes := []string{"root"}
	if e.ns != nil {
		scopes = append(scopes, "ns", "ns")
	}
	for i := 0; i < 4; i++ {
		e.opWrite(kit.Pick(e.rng, scopes), []string{"raw", "api"}[i%2])
	}
	for i := 0; i < nops && !e.failed; i++ {
		e.r.Count("ops", 1)
		scope := kit.Pick(e.rng, scopes)
		switch x := e.rng.Intn(100); {
		case x < 18:
			e.opWrite(scope, []string{"raw", "api"}[e.rng.Intn(2)])
		case x < 29:
			before := e.scan()
			if err := e.opRotate(scope); err != nil {
				e.viol("rotate-failed", "RotateBarrierKey(%s) on an unsealed core: %v", scope, err)
				break
			}
			e.compareScan(before, "rotate", scope)
			e.opWrite(scope, "raw")
		case x < 38:
			before := e.scan()
			if err := e.opRootRotate(scope); err != nil {
				e.viol("root-rotate-failed", "RotateBarrierRootKey(%s) on an unsealed core: %v", scope, err)
				break
			}
			e.compareScan(before, "root-rotate", scope)
		case x < 52:
			cfg := kit.Pick(e.rng, c10Configs)
			api := "sm"
			if scope == "root" && e.rng.Chance(1, 2) {
				api = "legacy"
			}
			verify := e.rng.Chance(1, 4)
			before := e.scan()
			if _, err := e.opRekey(scope, api, cfg[0], cfg[1], verify); err != nil {
				e.viol("rekey-failed", "rekey(%s, %s, %d/%d, verify=%v) with the valid shares on a fault-free store: %v", scope, api, cfg[1], cfg[0], verify, err)
				break
			}
			e.compareScan(before, "rekey-"+api, scope)
		case x < 56:
			e.opReload(scope)
		case x < 67:
			genuine := e.rng.Chance(1, 2)
			e.opGenerateRoot(scope, genuine)
			if !genuine && !e.failed && e.rng.Chance(1, 2) {
				// an ordinary share-less root-key rotation right after the refused attempt
				before := e.scan()
				if err := e.opRootRotate(scope); err != nil {
					e.viol("root-rotate-failed", "RotateBarrierRootKey(%s) on an unsealed core: %v", scope, err)
					break
				}
				e.compareScan(before, "root-rotate", scope)
			}
		case x < 75:
			cfg := kit.Pick(e.rng, c10Configs)
			writesOnly := e.rng.Chance(1, 2)
			k := 1 + e.rng.Intn(14)
			if writesOnly {
				k = 1 + e.rng.Intn(6)
			}
			e.opFaulted(scope, kit.Pick(e.rng, c10FaultOps), writesOnly, k, cfg[0], cfg[1])
		case x < 86:
			e.opSealUnsealRoot()
		case x < 93:
			if e.ns != nil {
				e.opSealUnsealNS()
			} else {
				e.opSealUnsealRoot()
			}
		default:
			e.opRestart()
		}
	}
	if e.failed {
		return
	}
	// end: one more full cycle so that every key operation is followed by an unseal
	if e.rng.Chance(1, 2) {
		e.opRestart()
	} else {
		e.opSealUnsealRoot()
	}
	if !e.failed {
		for _, s := range scopes[:min(2, len(scopes))] {
			e.opWrite(s, "raw")
		}
	}
}

// ---------------------------------------------------------------- enumerated single faults (core)

func TestVerif_C10_CoreFaults(t *testing.T) {
	seed := kit.Seed(10)
	shard, nshards := kit.Shard()
	r := kit.NewResult(t, "c10-core-faults", seed, "single storage fault inside a key operation on a full core, enumerated: {stored-key, Shamir seal} x {root, namespace barrier} x {rotate, root-rotate, rekey through either API} x write k=1..7 of the operation (and storage operation k=1..12 in the thorough tier) failing once; if the operation reports an error the core keeps serving writes through barrier, namespace barrier and API, is then sealed and unsealed with the shares the operator holds and everything is read back; afterwards a refused generate-root attempt, a root-key rotation, more writes and a restart follow under the ordinary oracles. A refused unseal whose durable writes match the F6 signature is classified as F6. A case is non-trivial when the fault fired")
	r.Exhaustive = true
	defer r.Write(t)
	idx := 0
	for _, sh := range []bool{false, true} {
		for _, scope := range []string{"root", "ns"} {
			for _, op := range c10FaultOps {
				if scope == "ns" && op == "rekey-legacy" {
					continue
				}
				modes := []bool{true}
				if kit.Tier() == "thorough" {
					modes = []bool{true, false}
				}
				for _, writesOnly := range modes {
					maxK := 7
					if !writesOnly {
						maxK = 12
					}
					for k := 1; k <= maxK; k++ {
						idx++
						if idx%nshards != shard {
							continue
						}
						s := "stored"
						if sh {
							s = "shamir"
						}
						caseID := fmt.Sprintf("cf:%s:%s:%s:w%v:%d", s, scope, op, writesOnly, k)
						if !kit.WantCase(caseID) {
							continue
						}
						rng := kit.NewRand(seed, 6_000_000+uint64(idx))
						e := c10Boot(t, r, rng, caseID, sh, idx%2 == 0, scope == "ns")
						scopes := []string{"root"}
						if e.ns != nil {
							scopes = append(scopes, "ns")
						}
						for _, sc := range scopes {
							e.opWrite(sc, "raw")
							e.opWrite(sc, "api")
						}
						if k%2 == 0 && !e.failed {
							if err := e.opRotate(scope); err != nil {
								e.viol("rotate-failed", "pre-history rotate: %v", err)
							}
						}
						cfg := c10Configs[(idx/3)%len(c10Configs)]
						before := r.Get("faults_fired")
						if !e.failed {
							e.opFaulted(scope, op, writesOnly, k, cfg[0], cfg[1])
						}
						r.Eval(1)
						if r.Get("faults_fired") > before {
							r.Nontrivial(caseID)
						}
						if !e.failed {
							e.opGenerateRoot(scope, false)
						}
						if !e.failed {
							if err := e.opRootRotate(scope); err != nil {
								e.viol("root-rotate-failed", "RotateBarrierRootKey(%s) on an unsealed core: %v", scope, err)
							}
						}
						for _, sc := range scopes {
							if !e.failed {
								e.opWrite(sc, "raw")
							}
						}
						if !e.failed {
							e.opGenerateRoot(scope, true)
						}
						if !e.failed {
							e.opRestart()
						}
						e.v.Close()
						if c10Unexpected(r) > 30 {
							return
						}
					}
				}
			}
		}
	}
	// a storage fault inside the unseal itself, k enumerated
	for _, sh := range []bool{false, true} {
		for k := 1; k <= kit.N(20, 60); k++ {
			idx++
			if idx%nshards != shard {
				continue
			}
			s := "stored"
			if sh {
				s = "shamir"
			}
			caseID := fmt.Sprintf("cf:%s:unseal:%d", s, k)
			if !kit.WantCase(caseID) {
				continue
			}
			rng := kit.NewRand(seed, 6_500_000+uint64(idx))
			e := c10Boot(t, r, rng, caseID, sh, idx%2 == 0, k%2 == 0)
			e.opWrite("root", "raw")
			e.opWrite("root", "api")
			if e.ns != nil {
				e.opWrite("ns", "raw")
			}
			if !e.failed {
				if err := TestCoreSeal(e.v.Core); err != nil {
					e.viol("seal-failed", "seal: %v", err)
				}
				e.root.sealed = true
				if e.ns != nil {
					e.ns.sealed = true
				}
			}
			before := r.Get("unseal_faults_fired")
			if !e.failed {
				e.faultedUnseal(e.v, k)
			}
			r.Eval(1)
			if r.Get("unseal_faults_fired") > before {
				r.Nontrivial(caseID)
			}
			if !e.failed && e.root.sealed {
				e.unsealRoot(e.v)
			}
			if !e.failed && e.ns != nil {
				e.unsealNSChecked(e.v)
			}
			e.verifyHere("after a failed unseal attempt and a clean one")
			if !e.failed {
				e.opWrite("root", "raw")
			}
			e.v.Close()
			if c10Unexpected(r) > 30 {
				return
			}
		}
	}
	r.Require("unseal_faults_fired", int64(24/nshards))
	r.Require("failed_unseal_attempts_checked", int64(18/nshards))
	r.Require("faults_fired", int64(45/nshards))
	r.Require("key_operations_failed_by_fault", int64(45/nshards))
	r.Require("key_operations_failed_by_fault:rotate", int64(9/nshards))
	r.Require("failed_key_operations_followed_by_seal_unseal_and_read_back", int64(24/nshards))
	r.Require("generate_root_with_foreign_share_refused", int64(30/nshards))
}

// ---------------------------------------------------------------- concurrent key operations (schedules)

type c10Scenario struct {
	name   string
	shamir bool
	scope  string
	ops    []string // rotate | root-rotate | rekey-sm | write
}

func c10Scenarios() []c10Scenario {
	return []c10Scenario{
		{"root-rotate|root-rotate", true, "root", []string{"root-rotate", "root-rotate"}},
		{"root-rotate|root-rotate", false, "root", []string{"root-rotate", "root-rotate"}},
		{"root-rotate|root-rotate@ns", false, "ns", []string{"root-rotate", "root-rotate"}},
		{"root-rotate|rotate|write", true, "root", []string{"root-rotate", "rotate", "write"}},
		{"root-rotate|rekey-sm", true, "root", []string{"root-rotate", "rekey-sm"}},
		{"rekey-sm|root-rotate@ns", true, "ns", []string{"rekey-sm", "root-rotate"}},
		{"rotate|rotate|write", false, "root", []string{"rotate", "rotate", "write"}},
		{"root-rotate|root-rotate|rotate", false, "root", []string{"root-rotate", "root-rotate", "rotate"}},
	}
}

func TestVerif_C10_CoreSchedules(t *testing.T) {
	seed := kit.Seed(10)
	shard, nshards := kit.Shard()
	r := kit.NewResult(t, "c10-core-schedules", seed, "two or three key operations on the same barrier (root-key rotation, encryption-key rotation, rekey, a barrier write) issued concurrently under the storage-operation gate (scheduling points: directly before and directly after each of their writes to core/ records): all interleavings with <=2 preemptions up to a run cap, then seeded PCT schedules; every operation must report success, then the barrier is sealed and unsealed with the currently valid shares and everything written earlier reads back, fresh writes carry 1+successful rotations as term. A schedule is distinct by its (tag,op) order hash; it is non-trivial when the requests overlapped or one was judged blocked on a lock while another was parked")
	defer r.Write(t)
	for si, sc := range c10Scenarios() {
		if si%nshards != shard {
			continue
		}
		rng := kit.NewRand(seed, 7_000_000+uint64(si))
		tx := si%2 == 0
		pre := fmt.Sprintf("cs:%d:%s", si, sc.name)
		var e *c10Env
		afterPoints := new(bool)
		fresh := func() {
			if e != nil {
				e.v.Close()
			}
			*afterPoints = false
			e = c10BootOpt(t, r, rng, pre, sc.shamir, tx, sc.scope == "ns", afterPoints)
			e.opWrite("root", "raw")
			e.opWrite("root", "api")
			if e.ns != nil {
				e.opWrite("ns", "raw")
				e.opWrite("ns", "api")
			}
		}
		fresh()
		run := func(pol kit.Policy, caseID string) (kit.Schedule, bool) {
			if e.failed {
				fresh()
			}
			e.caseID = caseID
			e.v.WaitQuiet(5*time.Millisecond, 500*time.Millisecond)
			type res struct {
				err    error
				shares [][]byte
			}
			out := make([]res, len(sc.ops))
			ks := e.keys(sc.scope)
			oldShares, oldThr := ks.shares, ks.thr
			_, nsObj := e.nsCtx(sc.scope)
			var reqs []kit.Req
			for i, op := range sc.ops {
				i, op := i, op
				reqs = append(reqs, kit.Req{Tag: fmt.Sprintf("%s%d", op, i), Fn: func() {
					switch op {
					case "rotate":
						out[i].err = e.v.Core.sealManager.RotateBarrierKey(c10Root, nsObj)
					case "root-rotate":
						out[i].err = e.v.Core.sealManager.RotateBarrierRootKey(c10Root, nsObj)
					case "rekey-sm":
						out[i].shares, out[i].err = e.opRekey(sc.scope, "sm", 3, 2, false)
					case "write":
						st, _ := e.storage(e.v, sc.scope)
						out[i].err = st.Put(c10Root, &logical.StorageEntry{Key: "c10/raw/concurrent", Value: []byte(caseID)})
					}
				}})
			}
			*afterPoints = true
			sched := e.v.Probe.RunGated(reqs, pol, kit.GateOpts{Filter: func(ev kit.Event) bool {
				if ev.Op == "get" {
					return strings.HasPrefix(ev.Key, c10AfterPrefix) // the point directly after a core/ write returned
				}
				return (ev.Op == "put" || ev.Op == "delete" || ev.Op == "commit") && (strings.Contains(ev.Key, "core/") || strings.Contains(ev.Key, "c10/raw/concurrent") || ev.Op == "commit")
			}})
			*afterPoints = false
			r.Eval(1)
			if sched.TimedOut {
				r.Inconc("%s: gate watchdog expired", caseID)
				e.failed = true
				return sched, true
			}
			if sched.Overlap() || sched.Blocked > 0 {
				r.Nontrivial(sc.name + sched.Hash())
			}
			if sched.Overlap() {
				r.Count("overlapping_schedules", 1)
			}
			r.Count("blocked_hints", sched.Blocked)
			e.step("concurrent", "%s under schedule %s", sc.name, sched.String())
			for i, op := range sc.ops {
				if out[i].err != nil {
					e.viol("key-op-failed", "%s (request %d of %s) on a fault-free store under schedule %s: %v", op, i, sc.name, sched.String(), out[i].err)
					return sched, c10Unexpected(r) < 20
				}
				switch op {
				case "rotate":
					ks.term++
					e.r.Count("rotations", 1)
				case "root-rotate":
					e.r.Count("root_rotations", 1)
				case "write":
					e.data[sc.scope+"|raw|c10/raw/concurrent"] = caseID
				}
			}
			_, _ = oldShares, oldThr
			e.keyOps++
			// seal + unseal with the currently valid shares, read everything back
			if sc.scope == "root" {
				if err := TestCoreSeal(e.v.Core); err != nil {
					e.viol("seal-failed", "seal: %v", err)
					return sched, true
				}
				e.root.sealed = true
				if e.ns != nil {
					e.ns.sealed = true
				}
				var ok bool
				var errs []string
				if e.shamir {
					ok, errs = c10UnsealShares(e.v.Core, e.root.shares[:e.root.thr])
				} else {
					uerr := e.v.Core.UnsealWithStoredKeys(c10Root)
					ok = uerr == nil && !e.v.Core.Sealed()
					if uerr != nil {
						errs = append(errs, uerr.Error())
					}
				}
				if !ok {
					e.viol("valid-key-refused-after-concurrent-key-operations", "%s completed (all requests reported success) under schedule %s; after seal the core stays sealed with the currently valid unseal material: %v", sc.name, sched.String(), errs)
					return sched, c10Unexpected(r) < 20
				}
				e.root.sealed = false
				if e.ns != nil {
					if ok, errs := c10UnsealNS(e.v.Core, e.ns.shares[:e.ns.thr]); !ok {
						e.viol("valid-key-refused", "namespace stays sealed after a core seal/unseal: %v", errs)
						return sched, true
					}
					e.ns.sealed = false
				}
			} else {
				if err := e.v.Core.namespaceStore.SealNamespace(c10Root, c10NSPath); err != nil {
					e.viol("seal-failed", "seal namespace: %v", err)
					return sched, true
				}
				e.ns.sealed = true
				if ok, errs := c10UnsealNS(e.v.Core, e.ns.shares[:e.ns.thr]); !ok {
					e.viol("valid-key-refused-after-concurrent-key-operations", "%s completed (all requests reported success) under schedule %s; after seal the namespace stays sealed with its currently valid shares: %v", sc.name, sched.String(), errs)
					return sched, c10Unexpected(r) < 20
				}
				e.ns.sealed = false
			}
			r.Count("schedules_followed_by_seal_unseal", 1)
			e.verifyHere("after concurrent " + sc.name + " and seal/unseal")
			if !e.failed {
				e.opWrite(sc.scope, "raw")
			}
			return sched, c10Unexpected(r) < 20
		}
		ex := &kit.Explorer{MaxPreempt: 2, MaxRuns: kit.N(14, 120)}
		n := 0
		ex.Explore(func(pol kit.Policy) (kit.Schedule, bool) {
			n++
			caseID := fmt.Sprintf("%s:ex:%d", pre, n)
			if !kit.WantCase(caseID) {
				return kit.Schedule{Diverged: true}, true
			}
			return run(pol, caseID)
		})
		r.Count("explorer_runs", ex.Runs)
		var tags []string
		for i, op := range sc.ops {
			tags = append(tags, fmt.Sprintf("%s%d", op, i))
		}
		for k := 0; k < kit.N(12, 80); k++ {
			caseID := fmt.Sprintf("%s:pct:%d", pre, k)
			if !kit.WantCase(caseID) {
				continue
			}
			prng := kit.NewRand(seed, 7_100_000+uint64(si*1000+k))
			if _, cont := run(kit.NewPCT(prng, tags, 3, 12), caseID); !cont {
				break
			}
		}
		if si < 2 {
			r.Sample(map[string]any{"scenario": sc.name, "shamir": sc.shamir, "last_steps": e.steps[max(0, len(e.steps)-4):]})
		}
		e.v.Close()
	}
	r.Require("schedules_followed_by_seal_unseal", int64(90/nshards))
	r.Require("root_rotations", int64(90/nshards))
	r.Require("entries_read_back", int64(600/nshards))
}

// ---------------------------------------------------------------- crash prefixes

type c10Case struct {
	shamir bool
	tx     bool
	scope  string // root | ns
	op     string // rotate | root-rotate | rekey-legacy | rekey-sm
	n, t   int
	verify bool
	pre    int // amount of earlier key history
}

func (c c10Case) name() string {
	s := "stored"
	if c.shamir {
		s = "shamir"
	}
	x := fmt.Sprintf("%s:%s:%s", s, c.scope, c.op)
	if strings.HasPrefix(c.op, "rekey") {
		x += fmt.Sprintf(":%dof%d", c.t, c.n)
		if c.verify {
			x += ":verify"
		}
	}
	return fmt.Sprintf("%s:pre%d:tx%v", x, c.pre, c.tx)
}

func c10Cases() []c10Case {
	var out []c10Case
	thorough := kit.Tier() == "thorough"
	maxPre := 2
	if thorough {
		maxPre = 4
	}
	add := func(c c10Case) {
		out = append(out, c)
		if thorough {
			c.tx = !c.tx
			out = append(out, c)
		}
	}
	for _, sh := range []bool{false, true} {
		for _, scope := range []string{"root", "ns"} {
			shamirBarrier := sh || scope == "ns"
			for pre := 0; pre < maxPre; pre++ {
				add(c10Case{shamir: sh, tx: (pre+len(out))%2 == 0, scope: scope, op: "rotate", pre: pre})
				add(c10Case{shamir: sh, tx: (pre+len(out))%2 == 1, scope: scope, op: "root-rotate", pre: pre})
				for ci, cfg := range c10Configs {
					if !shamirBarrier && ci > 0 {
						continue // the stored-key seal has no barrier shares: one configuration
					}
					apis := []string{"sm"}
					if scope == "root" {
						apis = append(apis, "legacy")
					}
					for ai, api := range apis {
						for vi, verify := range []bool{false, true} {
							if verify && !shamirBarrier {
								continue
							}
							if !thorough && shamirBarrier && (ci+ai+vi+pre)%3 != 0 {
								continue
							}
							add(c10Case{shamir: sh, tx: (ci+ai+vi)%2 == 0, scope: scope, op: "rekey-" + api, n: cfg[0], t: cfg[1], verify: verify, pre: pre})
						}
					}
				}
			}
		}
	}
	return out
}

const (
	c10ClassF6    = "C10-F6-crash-between-stored-keys-and-keyring-write"
	c10ClassNSKek = "C10-ns-rekey-overwrites-root-shamir-kek"
	c10ClassSelfInit = "C10-unseal-error-at-self-init-check-leaves-barrier-unsealed"
)

// c10Unexpected counts violations outside the two narrow signatures that do not stop exploration.
func c10Unexpected(r *kit.Result) int {
	return r.NViolations() - int(r.Get("violations:"+c10ClassF6)) - int(r.Get("violations:"+c10ClassNSKek)) - int(r.Get("violations:"+c10ClassSelfInit))
}

type c10JW struct {
	Op  string `json:"op"`
	Key string `json:"key"`
	Tag string `json:"tag,omitempty"`
}

func c10Journal(j []kit.Mutation) []c10JW {
	var out []c10JW
	for _, m := range j {
		for _, w := range m.Writes {
			op := "put"
			if w.Delete {
				op = "del"
			}
			out = append(out, c10JW{op, w.Key, m.Tag})
		}
	}
	return out
}

func TestVerif_C10_CoreCrash(t *testing.T) {
	seed := kit.Seed(10)
	shard, nshards := kit.Shard()
	r := kit.NewResult(t, "c10-core-crash", seed, "for each (seal kind, root or namespace barrier, key operation, new share configuration, amount of earlier key history, store kind): the operation (encryption-key rotation, root-key rotation, rekey through either API, with or without verification) runs to success on a journaling store; for every prefix k of the physical writes a new core is booted on the store as a crash after k writes leaves it and unsealed with the pre-operation unseal material or with the shares the completed operation returned (either is accepted; k=0 must open with the old ones, k=all with the new ones and no longer with replaced ones); on the unsealed core everything written earlier through barrier and API must read back. Every (case, prefix) is distinct")
	r.Exhaustive = true
	defer r.Write(t)
	cases := c10Cases()
	for ci, cs := range cases {
		if ci%nshards != shard {
			continue
		}
		pre := "cc:" + cs.name()
		if oc := kit.OnlyCase(); oc != "" && oc != pre && !strings.HasPrefix(oc, pre+":") {
			continue
		}
		c10CrashCase(t, r, seed, ci, cs, pre)
		if c10Unexpected(r) > 40 {
			break
		}
	}
	r.Require("prefixes_checked", int64(300/nshards))
	r.Require("prefixes_unsealed_and_verified", int64(200/nshards))
	r.Require("entries_read_back", int64(2000/nshards))
	r.Require("completed_operation_checks", int64(50/nshards))
}

func c10CrashCase(t *testing.T, r *kit.Result, seed int64, ci int, cs c10Case, pre string) {
	rng := kit.NewRand(seed, 3_000_000+uint64(ci))
	e := c10Boot(t, r, rng, pre, cs.shamir, cs.tx, cs.scope == "ns")
	defer func() { e.v.Close() }()
	scopes := []string{"root"}
	if e.ns != nil {
		scopes = append(scopes, "ns")
	}
	writeAll := func() {
		for _, s := range scopes {
			e.opWrite(s, "raw")
			e.opWrite(s, "api")
		}
	}
	writeAll()
	for i := 0; i < cs.pre && !e.failed; i++ {
		if err := e.opRotate(cs.scope); err != nil {
			e.viol("rotate-failed", "pre-history rotate: %v", err)
			return
		}
		writeAll()
		if i == 1 {
			if err := e.opRootRotate(cs.scope); err != nil {
				e.viol("root-rotate-failed", "pre-history root-rotate: %v", err)
				return
			}
			if _, err := e.opRekey(cs.scope, "sm", 3, 2, false); err != nil {
				e.viol("rekey-failed", "pre-history rekey: %v", err)
				return
			}
			writeAll()
		}
		if i == 2 {
			if _, err := e.opRekey(cs.scope, "sm", 4, 4, false); err != nil {
				e.viol("rekey-failed", "pre-history rekey: %v", err)
				return
			}
		}
	}
	if e.failed {
		return
	}
	ks := e.keys(cs.scope)
	oldShares, oldThr := ks.shares, ks.thr
	e.v.WaitQuiet(20*time.Millisecond, 2*time.Second)
	before := e.scan()
	e.v.Probe.Tag("c10op")
	e.v.Probe.StartJournal()
	var newShares [][]byte
	var err error
	switch cs.op {
	case "rotate":
		err = e.opRotate(cs.scope)
	case "root-rotate":
		err = e.opRootRotate(cs.scope)
	case "rekey-legacy":
		newShares, err = e.opRekey(cs.scope, "legacy", cs.n, cs.t, cs.verify)
	case "rekey-sm":
		newShares, err = e.opRekey(cs.scope, "sm", cs.n, cs.t, cs.verify)
	}
	j := e.v.Probe.StopJournal()
	e.v.Probe.Untag()
	if err != nil {
		e.viol("key-op-failed", "%s with valid shares on a fault-free store: %v", cs.name(), err)
		return
	}
	e.compareScan(before, cs.op, cs.scope)
	if e.failed {
		return
	}
	jw := c10Journal(j)
	r.Count("journal_writes:"+cs.op, len(jw))
	// position of the stored-keys write and of the operation's last write (F6 window)
	stored, keyringW, last := -1, -1, -1
	var opWrites []int
	for i, m := range j {
		if m.Tag != "c10op" {
			continue
		}
		last = i
		opWrites = append(opWrites, i)
		for _, w := range m.Writes {
			if strings.HasSuffix(w.Key, StoredBarrierKeysPath) && stored < 0 {
				stored = i
			}
			if strings.HasSuffix(w.Key, barrier.KeyringPath) && stored >= 0 && keyringW < 0 {
				keyringW = i
			}
		}
	}
	r.Sample(map[string]any{"case": cs.name(), "journal": jw, "stored_keys_write": stored, "keyring_write": keyringW, "last_write": last})
	// F6 signature (DESIGN section 3 F6 / section 4 C10), as a predicate over the crash prefix k of a rekey or root rotation:
	//  (a) of the operation's writes the prefix holds the stored-keys write alone (cut between it and the keyring write), or
	//  (b) the prefix holds the new keyring but not the operation's last write (Shamir: KEK copy / seal configuration still old).
	f6 := func(k int) bool { return c10F6(j, k, last, cs.scope == "ns" || cs.shamir) }
	rekeyLike := cs.op == "root-rotate" || strings.HasPrefix(cs.op, "rekey")
	shamirBarrier := cs.scope == "ns" || cs.shamir
	replaced := shamirBarrier && newShares != nil && !c10SameShares(oldShares, newShares)
	var unsealableAt, onlyNewAt []int
	defer func() {
		t.Logf("c10 crash case %s: old %d-of-%d -> new %d-of-%d, %d writes, stored-keys write #%d: unsealable at prefixes %v, only the not-yet-returned shares open at %v", cs.name(), oldThr, len(oldShares), cs.t, len(newShares), len(j), stored, unsealableAt, onlyNewAt)
	}()
	for k := 0; k <= len(j); k++ {
		caseID := fmt.Sprintf("%s:%d", pre, k)
		if !kit.WantCase(caseID) {
			continue
		}
		r.Eval(1)
		r.Nontrivial(caseID)
		e.caseID = caseID
		wit := map[string]any{"case": cs.name(), "prefix": k, "of": len(j), "journal": jw, "stored_keys_write_index": stored, "keyring_write_index": keyringW, "last_operation_write_index": last,
			"old_threshold": oldThr, "old_shares": len(oldShares), "new_threshold": cs.t, "new_shares": len(newShares), "pre_history": e.steps}
		viol := func(class, format string, a ...any) {
			r.Violate(class, caseID, fmt.Sprintf("[%s] %s cut after %d/%d writes: ", caseID, cs.name(), k, len(j))+fmt.Sprintf(format, a...), wit)
		}
		// boot + root unseal
		boot := func() (*vCore, string) {
			phys, _ := kit.NewProbe(e.v.Probe.Materialise(k, cs.tx))
			if !cs.shamir {
				v2, err := e.v.RestartOn(phys)
				if err != nil {
					if v2 != nil {
						v2.Close()
					}
					return nil, err.Error()
				}
				return v2, ""
			}
			v2, err := vBootErr(t, vOpts{Transactional: cs.tx, ShamirSeal: true, NoInit: true, Phys: phys})
			if v2 == nil || v2.Core == nil {
				return nil, fmt.Sprintf("core construction failed: %v", err)
			}
			v2.Root = e.v.Root
			return v2, "sealed"
		}
		type attempt struct {
			name   string
			shares [][]byte
		}
		var attempts []attempt
		if shamirBarrier {
			attempts = append(attempts, attempt{"pre-operation shares", oldShares})
			if replaced {
				attempts = append(attempts, attempt{"shares returned by the completed operation", newShares})
			}
		} else {
			attempts = append(attempts, attempt{"stored key", nil})
		}
		opened := map[string]bool{}
		var errsAll []string
		dataFail := ""
		for _, at := range attempts {
			v2, st := boot()
			if v2 == nil {
				errsAll = append(errsAll, at.name+": "+st)
				continue
			}
			ok := true
			if cs.shamir {
				rootShares := e.root.shares
				if cs.scope == "root" {
					rootShares = at.shares
				}
				var errs []string
				ok, errs = c10UnsealShares(v2.Core, rootShares)
				if !ok {
					errsAll = append(errsAll, fmt.Sprintf("%s: root stays sealed %v", at.name, errs))
				}
			}
			nsOpen := false
			if ok && e.ns != nil {
				nsShares := e.ns.shares
				if cs.scope == "ns" {
					nsShares = at.shares
				}
				var errs []string
				nsOpen, errs = c10UnsealNS(v2.Core, nsShares)
				if !nsOpen && cs.scope == "ns" {
					ok = false
					errsAll = append(errsAll, fmt.Sprintf("%s: namespace stays sealed %v", at.name, errs))
				} else if !nsOpen {
					ok = false
					errsAll = append(errsAll, fmt.Sprintf("%s: namespace (not operated on) stays sealed %v", at.name, errs))
				}
			}
			if ok {
				opened[at.name] = true
				if kind, what := e.verify(v2, nsOpen); kind != "" && dataFail == "" {
					dataFail = fmt.Sprintf("unsealed with the %s, then %s: %s", at.name, kind, what)
				}
			}
			v2.Close()
		}
		r.Count("prefixes_checked", 1)
		oldOK := opened["pre-operation shares"] || opened["stored key"]
		newOK := opened["shares returned by the completed operation"]
		if len(opened) == 0 {
			class := "C10-crash-unsealable"
			if rekeyLike && f6(k) {
				class = c10ClassF6
				r.Count("f6_window_prefixes_unsealable", 1)
			}
			r.Count(fmt.Sprintf("unsealable_prefix:%s:%s:%s:k%d/%d", e.sealName(), cs.scope, cs.op, k, len(j)), 1)
			unsealableAt = append(unsealableAt, k)
			viol(class, "the core/namespace cannot be unsealed by the pre-operation unseal material nor by what the completed operation returned: %v", errsAll)
			continue
		}
		if dataFail != "" {
			viol("C10-crash-entry-lost", "%s", dataFail)
			continue
		}
		r.Count("prefixes_unsealed_and_verified", 1)
		if replaced && newOK && !oldOK && k <= last && !cs.verify {
			// the new shares are handed to the operator only when the operation returns
			r.Count("observation_prefixes_opening_only_with_not_yet_returned_shares", 1)
			onlyNewAt = append(onlyNewAt, k)
		}
		if k == 0 && !oldOK {
			viol("C10-crash-unsealable", "before the first write the pre-operation unseal material no longer works: %v", errsAll)
			continue
		}
		if k == len(j) {
			r.Count("completed_operation_checks", 1)
			if replaced && !newOK {
				viol("C10-completed-rekey-new-shares-refused", "the operation completed but the shares it returned do not unseal: %v", errsAll)
				continue
			}
			if replaced && oldOK {
				viol("C10-stale-shares-unseal", "the operation completed and the replaced shares still unseal")
				continue
			}
		}
	}
}
