//go:build verif

package vault

// C18 across namespaces: a wrapping token created in any namespace of a small tree, consumed by
// every wrapping operation, by callers whose own tokens live in every namespace position
// relative to it, with the request namespace given by header, by path prefix or not at all.
//
// The oracle is the property as stated, decided from the physical store: after one operation
// on a fresh wrapping token the token is either completely intact (record, accessor index,
// lease, both cubbyhole entries - and it then still unwraps to the payload exactly once) or
// completely gone (none of these keys anywhere in the store); the payload appears only in the
// answer to the one successful unwrap; a third party that is refused leaves the token usable.

import (
	"context"
	"fmt"
	"sort"
	"strings"
	"sync"
	"testing"
	"time"

	kit "github.com/openbao/openbao/sdk/v2/helper/verifkit"
	"github.com/openbao/openbao/sdk/v2/logical"
	"github.com/openbao/openbao/v2/internal/helper/namespace"
)

const c18nsPolicy = `path "rec/*" { capabilities = ["read","list","update"] }
path "sys/wrapping/*" { capabilities = ["update"] }
path "+/sys/wrapping/*" { capabilities = ["update"] }
path "+/+/sys/wrapping/*" { capabilities = ["update"] }
path "auth/token/revoke*" { capabilities = ["update","sudo"] }
path "+/auth/token/revoke*" { capabilities = ["update","sudo"] }
path "+/+/auth/token/revoke*" { capabilities = ["update","sudo"] }`

type c18NS struct {
	Path string // "" (root), "ns1/", "ns1/ns2/", "sib/"
	NS   *namespace.Namespace
	User string // a token that lives in this namespace
}

type c18Tree struct {
	v    *vCore
	NSs  []*c18NS
	seq  int
	last map[string]string // namespace path -> list item written by the previous case

	// per case
	format   string // wrap format asked for: "" (default, uuid) or "jwt"
	home     *c18NS // the namespace the wrapping token actually lives in (JWT-format tokens: root, by design)
	noted    map[string]bool
	leaseID  string // lease id of the fresh token (read off its lease record's key)
	stranded string // set when cubbyhole records of the fresh token lie in another namespace's store than the token
}

func c18nsBoot(t *testing.T, tx bool) *c18Tree {
	v := c18Boot(t, tx)
	tr := &c18Tree{v: v, last: map[string]string{}}
	v.MustDo(vReq{Op: logical.UpdateOperation, Path: "sys/namespaces/ns1", Token: v.Root})
	v.MustDo(vReq{Op: logical.UpdateOperation, Path: "sys/namespaces/ns2", Token: v.Root, NS: "ns1/"})
	v.MustDo(vReq{Op: logical.UpdateOperation, Path: "sys/namespaces/sib", Token: v.Root})
	ctx := namespace.RootContext(context.Background())
	for _, p := range []string{"", "ns1/", "ns1/ns2/", "sib/"} {
		ns := namespace.RootNamespace
		if p != "" {
			v.Mount("rec", "verifrec", p, nil)
			v.EnableAuth("recauth", "verifrec", p)
			var err error
			ns, err = v.Core.namespaceStore.GetNamespaceByPath(ctx, p)
			if err != nil || ns == nil {
				t.Fatalf("verif: namespace %q not found: %v", p, err)
			}
		}
		v.Policy("c18nsuser", c18nsPolicy, p)
		tok, _, err := v.CreateToken(v.Root, map[string]any{"policies": []string{"c18nsuser", "default"}, "ttl": "2h"}, false, p)
		if err != nil || tok == nil {
			t.Fatalf("verif: user token in %q: %v", p, err)
		}
		te, err := v.Core.tokenStore.Lookup(namespace.ContextWithNamespace(ctx, ns), tok.ID)
		if err != nil || te == nil || te.NamespaceID != ns.ID {
			t.Fatalf("verif: user token of %q does not live there: %v %+v", p, err, te)
		}
		tr.NSs = append(tr.NSs, &c18NS{Path: p, NS: ns, User: tok.ID})
	}
	return tr
}

// c18nsRel names the position of the caller's namespace relative to the wrapping token's.
func c18nsRel(caller, token string) string {
	switch {
	case caller == token:
		return "same"
	case caller == "":
		return "root"
	case strings.HasPrefix(token, caller):
		return "ancestor"
	case strings.HasPrefix(caller, token):
		return "descendant"
	}
	return "sibling"
}

// c18Ident is what identifies a wrapping token's records in the physical store.
type c18Ident struct {
	NS        *namespace.Namespace
	Salted    string
	AccSalted string
	Cubby     string
}

func (tr *c18Tree) ident(t *testing.T, token string) *c18Ident {
	ctx := namespace.RootContext(context.Background())
	te, err := tr.v.Core.tokenStore.lookupTainted(ctx, token)
	if err != nil || te == nil {
		t.Fatalf("verif: fresh wrapping token not found: %v", err)
	}
	ns, err := tr.v.Core.NamespaceByID(ctx, te.NamespaceID)
	if err != nil || ns == nil {
		t.Fatalf("verif: namespace %q of wrapping token not found: %v", te.NamespaceID, err)
	}
	nctx := namespace.ContextWithNamespace(ctx, ns)
	id := &c18Ident{NS: ns, Cubby: te.CubbyholeID}
	id.Salted, _ = tr.v.Core.tokenStore.SaltID(nctx, te.ID)
	id.AccSalted, _ = tr.v.Core.tokenStore.SaltID(nctx, te.Accessor)
	if id.Salted == "" || id.AccSalted == "" || id.Cubby == "" {
		t.Fatalf("verif: cannot identify the records of the wrapping token: %+v", id)
	}
	return id
}

// keys lists every physical key, in any namespace, that belongs to the token.
func (tr *c18Tree) keys(id *c18Ident) []string {
	var out []string
	for _, k := range tr.v.RawKeys("") {
		if strings.Contains(k, id.Salted) || strings.Contains(k, id.AccSalted) || strings.Contains(k, "/"+id.Cubby+"/") {
			out = append(out, k)
		}
	}
	return out
}

// c18nsKeyKind names what a key of the token is.
func c18nsKeyKind(k string) string {
	switch {
	case strings.Contains(k, "sys/token/id/"):
		return "token-record"
	case strings.Contains(k, "sys/token/accessor/"):
		return "accessor-index"
	case strings.Contains(k, "sys/token/parent/"):
		return "parent-index"
	case strings.Contains(k, "sys/expire/id/"):
		return "lease"
	case strings.Contains(k, "sys/expire/"):
		return "lease-index"
	case strings.HasSuffix(k, "/response"):
		return "cubbyhole/response"
	case strings.HasSuffix(k, "/wrapinfo"):
		return "cubbyhole/wrapinfo"
	}
	return "other:" + c18KeyClass(k)
}

func c18nsKinds(keys []string) []string {
	var out []string
	for _, k := range keys {
		out = append(out, c18nsKeyKind(k))
	}
	sort.Strings(out)
	return out
}

// leaseState reads the token's lease record and what the expiration manager holds for it:
// "none" (no lease record), "live" (expires in the future), "unscheduled" (the record says it
// is due, but the manager's timer for it is set for a later time: nobody will act on it before
// then) or "queued" (due and scheduled, being worked on, or retried).
func (tr *c18Tree) leaseState(id *c18Ident, keys []string) string {
	state := "none"
	for _, k := range keys {
		i := strings.Index(k, "sys/expire/id/")
		if i < 0 {
			continue
		}
		state = "queued"
		leaseID := k[i+len("sys/expire/id/"):]
		ctx := namespace.ContextWithNamespace(context.Background(), id.NS)
		e, err := tr.v.Core.expiration.leaseView(id.NS).Get(ctx, leaseID)
		if err != nil || e == nil {
			continue // deleted since the listing: teardown in progress
		}
		le, err := decodeLeaseEntry(e.Value)
		if err != nil {
			continue
		}
		horizon := time.Now().Add(10 * time.Second)
		if le.ExpireTime.After(horizon) {
			return "live"
		}
		if raw, ok := tr.v.Core.expiration.pending.Load(leaseID); ok {
			if pi, ok := raw.(pendingInfo); ok && pi.cachedLeaseInfo != nil && pi.cachedLeaseInfo.ExpireTime.After(horizon) {
				return "unscheduled"
			}
		}
	}
	return state
}

// settle returns what is left of a token that has been consumed. A first-party unwrap hands
// the teardown to the expiration workers: while the store and the manager say that the
// teardown is scheduled or running the scan is repeated (bounded); the verdict is taken from
// the state of the store, never from the wait.
func (tr *c18Tree) settle(id *c18Ident) (left []string, lease string) {
	confirm := 0
	for i := 0; ; i++ {
		left = tr.keys(id)
		if len(left) == 0 {
			return nil, "none"
		}
		lease = tr.leaseState(id, left)
		if lease == "live" || lease == "unscheduled" || i > 2500 {
			return left, lease
		}
		if lease == "none" {
			// no lease: only a token revocation that is running right now may still remove the rest
			if !tr.running(id, left) {
				if confirm++; confirm > 2 {
					return left, lease
				}
			}
		}
		time.Sleep(2 * time.Millisecond)
	}
}

// running: a revocation of the token is in flight in the token store (it removes the token
// record last, so without that record none is).
func (tr *c18Tree) running(id *c18Ident, left []string) bool {
	for _, k := range left {
		if c18nsKeyKind(k) == "token-record" {
			if st, ok := tr.v.Core.tokenStore.tokensPendingDeletion.Load(id.Salted); ok && st == true {
				return true
			}
		}
	}
	return false
}

// c18nsOp is one request on the wrapping token.
type c18nsOp struct {
	Kind   string // see c18nsFirst / c18nsThird
	Caller int    // index into tree.NSs of the caller's user token; -1 = the root token; -2 = first party (the wrapping token is the client token)
	Hdr    string // namespace header
	Prefix string // namespace prefix of the request path
	Addr   string // label of the addressing form
}

var c18nsFirst = []string{"unwrap-first", "rewrap-first", "lookup-first", "revoke-self", "cubbyhole-read"}
var c18nsThird = []string{"unwrap-third", "rewrap", "lookup", "revoke", "revoke-orphan", "revoke-accessor"}

func (tr *c18Tree) callerToken(op c18nsOp, w *c18Wrap) (tok, nsPath string) {
	switch op.Caller {
	case -2:
		return w.Token, ""
	case -1:
		return tr.v.Root, ""
	}
	return tr.NSs[op.Caller].User, tr.NSs[op.Caller].Path
}

func (tr *c18Tree) run(tag string, op c18nsOp, w *c18Wrap) (*logical.Response, error) {
	tok, _ := tr.callerToken(op, w)
	q := vReq{Tag: tag, Op: logical.UpdateOperation, Token: tok, NS: op.Hdr}
	switch op.Kind {
	case "unwrap-first":
		q.Path = "sys/wrapping/unwrap"
	case "rewrap-first":
		q.Path = "sys/wrapping/rewrap"
	case "lookup-first":
		q.Path = "sys/wrapping/lookup"
	case "revoke-self": // a JWT is only understood by sys/wrapping/*: elsewhere its holder presents the id it carries
		q.Path = "auth/token/revoke-self"
		if op.Caller == -2 {
			q.Token = w.ID
		}
	case "cubbyhole-read":
		q.Op, q.Path = logical.ReadOperation, "cubbyhole/response"
		if op.Caller == -2 {
			q.Token = w.ID
		}
	case "unwrap-third":
		q.Path, q.Data = "sys/wrapping/unwrap", map[string]any{"token": w.Token}
	case "rewrap":
		q.Path, q.Data = "sys/wrapping/rewrap", map[string]any{"token": w.Token}
	case "lookup":
		q.Path, q.Data = "sys/wrapping/lookup", map[string]any{"token": w.Token}
	case "revoke":
		q.Path, q.Data = "auth/token/revoke", map[string]any{"token": w.ID}
	case "revoke-orphan":
		q.Path, q.Data = "auth/token/revoke-orphan", map[string]any{"token": w.ID}
	case "revoke-accessor":
		q.Path, q.Data = "auth/token/revoke-accessor", map[string]any{"accessor": w.Accessor}
	case "revoke-lease":
		q.Path, q.Data = "sys/leases/revoke", map[string]any{"lease_id": tr.leaseID}
	default:
		panic(op.Kind)
	}
	q.Path = op.Prefix + q.Path
	return tr.v.Do(q)
}

// addressings lists the distinct ways to name the request namespace for a caller in callerNS
// and a wrapping token in tokenNS: none, the caller's or the token's namespace by header or by
// path prefix, and the token's namespace split over header and path.
func c18nsAddressings(callerNS, tokenNS string, all []string) []c18nsOp {
	var out []c18nsOp
	seen := map[string]bool{}
	add := func(label, hdr, prefix string) {
		k := hdr + "|" + prefix
		if seen[k] {
			return
		}
		seen[k] = true
		out = append(out, c18nsOp{Hdr: hdr, Prefix: prefix, Addr: label})
	}
	add("none", "", "")
	if callerNS != "-" {
		add("header=caller-ns", callerNS, "")
		add("path=caller-ns", "", callerNS)
	}
	add("header=token-ns", tokenNS, "")
	add("path=token-ns", "", tokenNS)
	if i := strings.Index(tokenNS, "/"); i >= 0 && i+1 < len(tokenNS) {
		add("header+path=token-ns", tokenNS[:i+1], tokenNS[i+1:])
	}
	if callerNS == "-" { // first party: every namespace of the tree
		for _, p := range all {
			add("header=other-ns", p, "")
			add("path=other-ns", "", p)
		}
	}
	return out
}

// wrap issues a wrapped response of the given kind in namespace ns, the request namespace
// named by header or by path prefix.
func (tr *c18Tree) wrap(t *testing.T, r *kit.Result, rng *kit.Rand, ns *c18NS, kind string, byPath bool, caseID string) *c18Wrap {
	v := tr.v
	tr.seq++
	hdr, prefix := ns.Path, ""
	if byPath {
		hdr, prefix = "", ns.Path
	}
	canary := rng.Canary()
	w := &c18Wrap{Canary: canary, Kind: kind, TTL: c18nsWrapTTL, Format: tr.format}
	var resp *logical.Response
	var err error
	switch kind {
	case "kv":
		v.MustDo(vReq{Op: logical.UpdateOperation, Path: "rec/data/nsitem", Token: v.Root, NS: ns.Path, Data: map[string]any{"value": canary}})
		w.Path = "rec/data/nsitem"
		resp, err = c18DoWrap(v, vReq{Op: logical.ReadOperation, Path: prefix + w.Path, Token: ns.User, NS: hdr, WrapTTL: w.TTL}, tr.format)
	case "login":
		w.Path = "auth/recauth/login/u"
		resp, err = c18DoWrap(v, vReq{Op: logical.UpdateOperation, Path: prefix + w.Path, NS: hdr, Data: map[string]any{"policies": []string{"default"}, "ttl": "1h", "canary": canary, "display_name": canary}, WrapTTL: w.TTL}, tr.format)
	case "list":
		if old := tr.last[ns.Path]; old != "" {
			v.MustDo(vReq{Op: logical.DeleteOperation, Path: old, Token: v.Root, NS: ns.Path})
		}
		item := "rec/data/nsdir/k-" + canary
		v.MustDo(vReq{Op: logical.UpdateOperation, Path: item, Token: v.Root, NS: ns.Path, Data: map[string]any{"value": "x"}})
		tr.last[ns.Path] = item
		w.Path = "rec/data/nsdir/"
		resp, err = c18DoWrap(v, vReq{Op: logical.ListOperation, Path: prefix + w.Path, Token: ns.User, NS: hdr, WrapTTL: w.TTL}, tr.format)
	}
	if !vOK(resp, err) || resp == nil || resp.WrapInfo == nil || resp.WrapInfo.Token == "" {
		t.Fatalf("verif: wrapped %s request (format %q) in namespace %q failed: %s (%+v)", kind, tr.format, ns.Path, vErrStr(resp, err), resp)
	}
	if c18Contains(resp, canary) || (resp.Auth != nil && resp.Auth.ClientToken != "") {
		r.Violate("C18-creator-saw-payload-in-namespace", caseID, "the response to the request that asked for wrapping contains the payload", map[string]any{"kind": kind, "namespace": ns.Path})
	}
	w.Token, w.Accessor = resp.WrapInfo.Token, resp.WrapInfo.Accessor
	w.ID = c18TokenID(w.Token)
	if (tr.format == "jwt") != IsJWT(w.Token) {
		r.Violate("C18-wrap-format-not-as-requested", caseID, fmt.Sprintf("wrap format %q was requested in namespace %q, the token handed out is JWT: %v", tr.format, ns.Path, IsJWT(w.Token)), map[string]any{"kind": kind})
	}
	return w
}

// born looks at a fresh token: where it lives, which records it has, and whether its cubbyhole
// records lie in the store of the namespace the token lives in. Only the harness's ability to
// see all records is checked here; everything else is left to the property oracle.
func (tr *c18Tree) born(t *testing.T, w *c18Wrap) (*c18Ident, []string) {
	id := tr.ident(t, w.ID)
	tr.home, tr.stranded = tr.byNS(id.NS), ""
	if tr.home == nil {
		t.Fatalf("verif: wrapping token lives in a namespace outside the tree: %q", id.NS.Path)
	}
	made := tr.keys(id)
	kinds := c18nsKinds(made)
	if want := []string{"accessor-index", "cubbyhole/response", "cubbyhole/wrapinfo", "lease", "token-record"}; strings.Join(kinds, ",") != strings.Join(want, ",") {
		// the harness must be able to see every record of the token, else the residue oracle is blind
		t.Fatalf("verif: records of a fresh wrapping token (format %q): found %v, want %v (%v)", w.Format, kinds, want, made)
	}
	for _, k := range made {
		if i := strings.Index(k, "sys/expire/id/"); i >= 0 {
			tr.leaseID = k[i+len("sys/expire/id/"):]
		}
		if strings.HasPrefix(c18nsKeyKind(k), "cubbyhole/") && tr.nsOfKey(k) != id.NS.Path {
			tr.stranded = tr.nsOfKey(k)
		}
	}
	return id, made
}

func (tr *c18Tree) byNS(ns *namespace.Namespace) *c18NS {
	for _, x := range tr.NSs {
		if x.NS.ID == ns.ID {
			return x
		}
	}
	return nil
}

// nsOfKey names the namespace of the tree whose store a physical key lies in.
func (tr *c18Tree) nsOfKey(k string) string {
	for _, x := range tr.NSs {
		if p := NamespaceStoragePathPrefix(x.NS); p != "" && strings.HasPrefix(k, p) {
			return x.Path
		}
	}
	return ""
}

// note records an observation once per key.
func (tr *c18Tree) note(r *kit.Result, key, format string, a ...any) {
	if tr.noted == nil {
		tr.noted = map[string]bool{}
	}
	if !tr.noted[key] {
		tr.noted[key] = true
		r.Note(format, a...)
	}
}

// violate records an oracle firing. The property decides; only the class is narrowed: when the
// token is gone or lost and its cubbyhole records had been written into another namespace's
// store than the token's own (seen at its creation), that is the signature reported.
func (tr *c18Tree) violate(r *kit.Result, class, caseID, what string, wit any) {
	if tr.stranded != "" && tr.home != nil && (strings.HasPrefix(class, "C18-residue") || strings.HasPrefix(class, "C18-failed-") || strings.HasPrefix(class, "C18-payload-lost") || strings.HasPrefix(class, "C18-refused-first-party-unwrap-consumed-token-addressed-to-own")) {
		what = fmt.Sprintf("[%s] %s; the token (format %q) lives in namespace %q, its cubbyhole records were written into the store of namespace %q", class, what, tr.format, tr.home.Path, tr.stranded)
		class = "C18-wrapping-token-payload-stranded-in-request-namespace"
		if tr.format == "jwt" {
			class = "C18-jwt-wrapping-token-payload-stranded-in-request-namespace"
		}
	}
	r.Violate(class, caseID, what, wit)
}

// ttl: wrapping tokens with a 1s TTL in every namespace; once the harness has seen the clock
// pass creation + 2s nobody obtains the payload, from no namespace.
func (tr *c18Tree) ttl(t *testing.T, r *kit.Result, rng *kit.Rand, caseID string) {
	if !kit.WantCase(caseID) {
		return
	}
	type item struct {
		w   *c18Wrap
		ns  *c18NS
		id  *c18Ident
		how int
		home     *c18NS
		stranded string
	}
	var items []item
	for i, ns := range tr.NSs {
		for how := 0; how < 3; how++ {
			for _, format := range []string{"", "jwt"} {
				tr.format = format
				w := tr.wrapTTL(t, r, rng, ns, []string{"kv", "login", "list"}[(i+how)%3], caseID, time.Second)
				id, _ := tr.born(t, w)
				items = append(items, item{w, ns, id, how, tr.home, tr.stranded})
			}
		}
	}
	tr.format = ""
	last := time.Now()
	deadline := last.Add(20 * time.Second)
	for time.Now().Before(last.Add(2500*time.Millisecond)) && time.Now().Before(deadline) {
		time.Sleep(100 * time.Millisecond)
	}
	if !time.Now().After(last.Add(2 * time.Second)) {
		r.Inconc("%s: clock did not pass the wrap TTL within the bound", caseID)
		return
	}
	for _, it := range items {
		q := vReq{Op: logical.UpdateOperation, Path: "sys/wrapping/unwrap", Token: it.w.Token, NS: it.ns.Path}
		switch it.how {
		case 1:
			q.Token, q.NS, q.Data = tr.v.Root, "", map[string]any{"token": it.w.Token}
		case 2:
			q.Token, q.Data = it.ns.User, map[string]any{"token": it.w.Token}
		}
		resp, err := tr.v.Do(q)
		r.Eval(1)
		r.Count("ttl_expiry_checks_in_namespaces", 1)
		if vOK(resp, err) && c18Contains(resp, it.w.Canary) {
			tr.violate(r, "C18-unwrap-after-ttl-in-namespace", caseID, fmt.Sprintf("wrapped %s payload of namespace %q obtained %.1fs after creation with wrap TTL 1s", it.w.Kind, it.ns.Path, time.Since(it.w.Created).Seconds()), nil)
		}
	}
	// ... and the expired tokens and their payloads are removed from every namespace's store
	for _, it := range items {
		tr.format, tr.home, tr.stranded = it.w.Format, it.home, it.stranded
		tr.judgeGone(r, caseID, it.id, "C18-residue-after-ttl-in-namespace", fmt.Sprintf("the wrap TTL (1s) of a %s token (format %q) requested in namespace %q elapsed %.1fs ago", it.w.Kind, it.w.Format, it.ns.Path, time.Since(it.w.Created).Seconds()), map[string]any{"kind": it.w.Kind, "format": it.w.Format, "requested_in_namespace": it.ns.Path})
		r.Count("residue_checks_after_ttl_in_namespaces", 1)
	}
	tr.format, tr.stranded = "", ""
}

func (tr *c18Tree) wrapTTL(t *testing.T, r *kit.Result, rng *kit.Rand, ns *c18NS, kind string, caseID string, ttl time.Duration) *c18Wrap {
	old := c18nsWrapTTL
	c18nsWrapTTL = ttl
	defer func() { c18nsWrapTTL = old }()
	w := tr.wrap(t, r, rng, ns, kind, false, caseID)
	w.Created = time.Now()
	return w
}

var c18nsWrapTTL = 5 * time.Minute

func (tr *c18Tree) pathOK(w *c18Wrap, ns *c18NS, got string) bool {
	return got == w.Path || got == ns.Path+w.Path
}

// c18nsOutcome is what one request did, as far as its answer tells.
type c18nsOutcome struct {
	Op       string `json:"op"`
	Caller   string `json:"caller_namespace"`
	Rel      string `json:"caller_position"`
	Addr     string `json:"addressing"`
	Hdr      string `json:"header"`
	Path     string `json:"path_prefix"`
	Result   string `json:"result"`
	Revealed bool   `json:"revealed"`
	NewToken string `json:"-"`
	Looked   bool   `json:"looked_up,omitempty"`
}

func (tr *c18Tree) outcome(op c18nsOp, w *c18Wrap, wns *c18NS, resp *logical.Response, err error) c18nsOutcome {
	_, cns := tr.callerToken(op, w)
	o := c18nsOutcome{Op: op.Kind, Caller: cns, Addr: op.Addr, Hdr: op.Hdr, Path: op.Prefix, Result: c18Trunc(vErrStr(resp, err), 160)}
	if op.Caller == -2 {
		o.Caller, o.Rel = "(the wrapping token)", "first-party"
	} else {
		o.Rel = c18nsRel(cns, tr.home.Path)
	}
	ok := vOK(resp, err)
	o.Revealed = ok && c18Contains(resp, w.Canary)
	if ok && resp != nil && resp.WrapInfo != nil && resp.WrapInfo.Token != "" && strings.HasPrefix(op.Kind, "rewrap") {
		o.NewToken = resp.WrapInfo.Token
	}
	if ok && resp != nil && resp.Data != nil && strings.HasPrefix(op.Kind, "lookup") {
		_, o.Looked = resp.Data["creation_path"]
	}
	return o
}

func c18nsIsUnwrap(kind string) bool {
	return kind == "unwrap-first" || kind == "unwrap-third" || kind == "cubbyhole-read"
}

// cross reports whether the request crosses a namespace boundary: the caller's own token lives
// elsewhere than the wrapping token, or (first party) the request was addressed elsewhere.
func (tr *c18Tree) cross(op c18nsOp, w *c18Wrap, wns *c18NS) bool {
	if op.Caller == -2 {
		return op.Hdr+op.Prefix != tr.home.Path
	}
	_, cns := tr.callerToken(op, w)
	return cns != tr.home.Path
}

// finish consumes a token the oracle expects to be intact: the same-namespace third party
// (the namespace's own user, namespace by header) unwraps it; returns whether the payload came.
func (tr *c18Tree) finish(w *c18Wrap, wns *c18NS, token string) bool {
	wns = tr.home
	resp, err := tr.v.Do(vReq{Op: logical.UpdateOperation, Path: "sys/wrapping/unwrap", Token: wns.User, NS: wns.Path, Data: map[string]any{"token": token}})
	return vOK(resp, err) && c18Contains(resp, w.Canary)
}

func c18nsOpClass(kind string) string {
	switch kind {
	case "unwrap-third":
		return "unwrap"
	case "unwrap-first", "cubbyhole-read":
		return "first-party-unwrap"
	case "rewrap", "rewrap-first":
		return "rewrap"
	case "lookup", "lookup-first":
		return "lookup"
	}
	return "revoke"
}

func c18nsScope(cross bool) string {
	if cross {
		return "cross-namespace"
	}
	return "same-namespace"
}

// c18nsCase: one operation on a fresh wrapping token, then the state oracle.
func (tr *c18Tree) oneOp(t *testing.T, r *kit.Result, rng *kit.Rand, caseID string, wns *c18NS, wkind string, op c18nsOp) {
	v := tr.v
	before := map[string]bool{}
	for _, k := range v.RawKeys("") {
		before[k] = true
	}
	w := tr.wrap(t, r, rng, wns, wkind, rng.Chance(1, 3), caseID)
	id, made := tr.born(t, w)
	kinds := c18nsKinds(made)
	if id.NS.ID != wns.NS.ID && tr.format != "jwt" { // JWT-format tokens are kept in the root namespace by design
		tr.violate(r, "C18-wrapping-token-in-other-namespace", caseID, fmt.Sprintf("a response wrapped by a request in namespace %q produced a wrapping token of namespace %q", wns.Path, id.NS.Path), nil)
	}
	r.Count(fmt.Sprintf("tokens_made:format=%s:requested_in_root=%v:live_in_root=%v", map[string]string{"": "uuid", "jwt": "jwt"}[tr.format], wns.Path == "", id.NS.Path == ""), 1)
	for _, k := range made {
		if before[k] {
			t.Fatalf("verif: key %s predates the wrapping token it is attributed to", k)
		}
	}
	cross := tr.cross(op, w, wns)
	scope := c18nsScope(cross)
	cls := c18nsOpClass(op.Kind)

	// optionally a look-up from another namespace first: must not change anything
	var outs []c18nsOutcome
	if rng.Chance(1, 4) {
		pre := c18nsOp{Kind: "lookup", Caller: rng.Intn(len(tr.NSs)+1) - 1, Hdr: kit.Pick(rng, tr.NSs).Path, Addr: "header=random-ns"}
		resp, err := tr.run("", pre, w)
		po := tr.outcome(pre, w, wns, resp, err)
		outs = append(outs, po)
		tr.judgeLookup(r, caseID, w, wns, po, resp)
		if vOK(resp, err) && c18Contains(resp, w.Canary) {
			tr.violate(r, "C18-payload-in-answer-to-non-unwrap-request", caseID, "a lookup answered with the payload", po)
		}
	}

	resp, err := tr.run("", op, w)
	o := tr.outcome(op, w, wns, resp, err)
	outs = append(outs, o)
	r.Eval(1)
	r.Count(fmt.Sprintf("outcome|%s|%s|%s", op.Kind, o.Rel, c18nsResultClass(o)), 1)
	wit := map[string]any{"requested_in_namespace": wns.Path, "token_namespace": tr.home.Path, "format": tr.format, "wrapped": wkind, "requests": outs, "records_of_fresh_token": kinds}
	reveals := 0
	if o.Revealed {
		reveals++
		if !c18nsIsUnwrap(op.Kind) {
			tr.violate(r, "C18-payload-in-answer-to-non-unwrap-request", caseID, fmt.Sprintf("the answer to %s contains the wrapped payload", op.Kind), wit)
		}
	}
	tr.judgeLookup(r, caseID, w, wns, o, resp)

	switch {
	case o.Revealed && c18nsIsUnwrap(op.Kind):
		// the one successful unwrap: everything of the token must be gone, nobody gets it again
		r.Count("unwraps_succeeded:"+scope+":"+cls, 1)
		if op.Kind == "unwrap-third" && cross {
			r.Count("cross_namespace_third_party_unwraps_succeeded", 1)
			r.Count("cross_namespace_third_party_unwraps_succeeded:caller-"+o.Rel, 1)
		}
		if op.Kind == "unwrap-first" && cross {
			r.Count("first_party_unwraps_addressed_to_other_namespace_succeeded", 1)
		}
		if tr.format == "jwt" {
			r.Count("jwt_unwraps_succeeded:"+cls, 1)
		}
		tr.judgeGone(r, caseID, id, "C18-residue-after-"+scope+"-"+cls, "the wrapping token was unwrapped ("+op.Kind+")", wit)
		reveals += tr.retries(r, caseID, op, w, wns, wit)
	case o.NewToken != "":
		r.Count("rewraps_succeeded:"+scope, 1)
		if rp := resp.WrapInfo.CreationPath; !tr.pathOK(w, wns, rp) {
			tr.violate(r, "C18-creation-path-across-namespaces", caseID, fmt.Sprintf("rewrap reports creation path %q, the token was created by %q in %q", rp, w.Path, wns.Path), wit)
		}
		tr.judgeGone(r, caseID, id, "C18-residue-after-"+scope+"-rewrap", "the wrapping token was rewrapped", wit)
		reveals += tr.retries(r, caseID, op, w, wns, wit)
		// the successor: reports the creation path, unwraps once, leaves nothing
		nid := tr.ident(t, c18TokenID(o.NewToken))
		wit["successor_namespace"] = nid.NS.Path
		switch _, cns := tr.callerToken(op, w); {
		case nid.NS.Path == wns.Path:
			r.Count("rewrapped_token_lives_in:namespace-of-the-old-token", 1)
		case op.Caller != -2 && nid.NS.Path == cns:
			r.Count("rewrapped_token_lives_in:namespace-of-the-caller", 1)
		default:
			r.Count("rewrapped_token_lives_in:"+nid.NS.Path, 1)
		}
		lr, lerr := v.Do(vReq{Op: logical.UpdateOperation, Path: "sys/wrapping/lookup", Token: o.NewToken})
		if vOK(lr, lerr) && lr != nil && lr.Data != nil {
			if cp, _ := lr.Data["creation_path"].(string); !tr.pathOK(w, wns, cp) {
				tr.violate(r, "C18-creation-path-across-namespaces", caseID, fmt.Sprintf("lookup on the rewrapped token reports creation path %q, original %q in %q", cp, w.Path, wns.Path), wit)
			}
		}
		reveals += tr.unwrapSuccessor(r, rng, w, nid, o.NewToken)
		if reveals == 0 {
			tr.violate(r, "C18-payload-lost-after-"+scope+"-rewrap", caseID, "the rewrap succeeded but its token does not unwrap to the payload", wit)
		}
		tr.judgeGone(r, caseID, nid, "C18-residue-of-rewrapped-token-after-unwrap", "the rewrapped token was unwrapped", wit)
	default:
		// no payload, no successor: lookups, revocations, refusals. The token is either intact
		// and still unwraps, or it is gone altogether.
		left := tr.keys(id)
		intact := len(left) == len(made)
		usable := tr.finish(w, wns, w.Token)
		if usable {
			reveals++
		}
		wit["records_after_the_request"] = c18nsKinds(left)
		wit["still_unwraps"] = usable
		ok := vOK(resp, err)
		switch {
		case usable && !intact:
			tr.violate(r, "C18-usable-token-with-missing-records-after-"+scope+"-"+cls, caseID, "the token still unwrapped although some of its records were gone", wit)
		case usable:
			r.Count("token_left_intact:"+cls, 1)
			if cls == "revoke" && ok {
				r.Count("revoke_answered_ok_without_effect:"+scope, 1)
				r.Nontrivial("revoke-noop|" + op.Kind + "|" + o.Rel + "|" + op.Addr)
				tr.note(r, "revoke-noop|"+op.Kind+"|"+o.Rel+"|"+tr.format, "%s of a wrapping token (format %q) of %q by a caller of %q (%s), addressing %s: answered ok, token untouched and still usable", op.Kind, tr.format, tr.home.Path, o.Caller, o.Rel, op.Addr)
			}
			if !ok {
				r.Count("refusals_that_left_the_token_usable", 1)
			}
			tr.judgeGone(r, caseID, id, "C18-residue-after-same-namespace-unwrap", "the token was unwrapped by its namespace's own user after "+op.Kind, wit)
		case op.Kind == "unwrap-first" && !ok && !strings.Contains(o.Result, "permission denied"):
			// the holder was not turned away, the unwrap endpoint failed - and the payload is gone: of
			// the unwrap attempts made (one) none obtained it
			own := map[bool]string{true: "other", false: "own"}[cross]
			tr.violate(r, "C18-failed-first-party-unwrap-consumed-token-addressed-to-"+own+"-namespace", caseID, fmt.Sprintf("sys/wrapping/unwrap with the wrapping token (format %q, lives in namespace %q, requested in %q) as client token, header %q path prefix %q, answered %q; afterwards the token no longer unwraps: nobody obtained the payload", tr.format, tr.home.Path, wns.Path, op.Hdr, op.Prefix, strings.Join(strings.Fields(o.Result), " ")), wit)
			tr.judgeGone(r, caseID, id, "C18-residue-after-failed-first-party-unwrap-addressed-to-"+own+"-namespace", "a failed first-party unwrap used the token up", wit)
		case op.Caller == -2 && !ok:
			// a refused first-party request counts as the single use (by design, the use-count clause
			// of C19): the payload is lost, but revealed to nobody, nothing of the token is left, and
			// later attempts get nothing
			r.Count("first_party_refusals_that_consumed_the_token", 1)
			r.Count("first_party_refusals_that_consumed_the_token:"+op.Kind, 1)
			if op.Kind == "unwrap-first" && tr.format == "jwt" && op.Hdr+op.Prefix != "" {
				r.Count("jwt_first_party_unwrap_addressed_to_child_namespace_refused_and_consumed", 1)
				tr.note(r, "jwt-first-party-"+op.Addr, "observation outside the property: POST sys/wrapping/unwrap with a JWT-format wrapping token as client token, addressed to a non-root namespace (header %q, path prefix %q; token requested in %q, lives in root by design) is answered 'permission denied', spends the single use and the token is torn down: the holder cannot unwrap it in the namespace it asked in, while the same request without a namespace and a third-party unwrap from that namespace succeed. Mechanism: handleCancelableRequest switches to the client token's namespace only when PopulateTokenEntry resolved an entry, which it cannot for a JWT; fetchACLTokenEntryAndEntity then builds the ACL with the request namespace's context but the policy names of the token's (root) namespace, whose response-wrapping policy does not match <ns>/sys/wrapping/unwrap; UseToken has run before the denial", op.Hdr, op.Prefix, wns.Path)
			}
			reveals += tr.retries(r, caseID, op, w, wns, wit)
			if kit.OnlyCase() != "" {
				t.Logf("first-party refusal: %+v", o)
			}
			tr.judgeGone(r, caseID, id, "C18-residue-after-refused-first-party-request-addressed-to-"+map[bool]string{true: "other", false: "own"}[cross]+"-namespace", "a refused first-party request ("+op.Kind+") used the token up", wit)
		case cls == "revoke" && ok:
			r.Count("revocations_succeeded:"+scope, 1)
			tr.judgeGone(r, caseID, id, "C18-residue-after-"+scope+"-revoke", "the wrapping token was revoked ("+op.Kind+")", wit)
		case cls == "lookup" && o.Looked:
			tr.violate(r, "C18-lookup-consumed-token-"+scope, caseID, "after a successful lookup the token no longer unwraps", wit)
		default:
			// a third party was refused (or got an empty answer) and the payload is lost
			class := "C18-failed-" + scope + "-" + cls + "-consumed-token"
			what := fmt.Sprintf("%s by a caller of namespace %q (%s) answered %q; afterwards the token no longer unwraps", op.Kind, o.Caller, o.Rel, o.Result)
			if len(left) > 0 {
				if left2, lease := tr.settle(id); len(left2) > 0 {
					class += "-and-left-its-records"
					what += fmt.Sprintf(", and in the store remain: %v (lease record: %s)", c18nsKinds(left2), lease)
					wit["left_in_storage"] = left2
				}
			}
			tr.violate(r, class, caseID, what, wit)
		}
	}
	if reveals > 1 {
		tr.violate(r, "C18-payload-revealed-twice-across-namespaces", caseID, fmt.Sprintf("the payload was obtained %d times", reveals), wit)
	}
	if reveals == 1 {
		r.Count("exactly_one_reveal", 1)
	}
	r.Nontrivial(fmt.Sprintf("%s|%s|%s|%s|%s|%s|%s", wns.Path, tr.format, wkind, op.Kind, o.Rel, op.Addr, c18nsResultClass(o)))
	if tr.format == "jwt" && wns.Path != "" {
		r.Count("jwt_tokens_requested_in_a_child_namespace:"+c18nsResultClass(o), 1)
		if reveals == 1 {
			r.Count("jwt_tokens_requested_in_a_child_namespace:exactly_one_reveal", 1)
		}
	}
	if cross && o.Revealed {
		r.Sample(wit)
	}
}

func c18nsResultClass(o c18nsOutcome) string {
	switch {
	case o.Revealed:
		return "payload"
	case o.NewToken != "":
		return "rewrapped"
	case o.Looked:
		return "looked-up"
	case o.Result == "ok":
		return "ok"
	}
	return "refused"
}

func (tr *c18Tree) judgeLookup(r *kit.Result, caseID string, w *c18Wrap, wns *c18NS, o c18nsOutcome, resp *logical.Response) {
	if !o.Looked {
		return
	}
	r.Count("lookups_ok:"+o.Rel, 1)
	if cp, _ := resp.Data["creation_path"].(string); !tr.pathOK(w, wns, cp) {
		tr.violate(r, "C18-creation-path-across-namespaces", caseID, fmt.Sprintf("lookup by a caller of namespace %q reports creation path %q, the token was created by %q in %q", o.Caller, cp, w.Path, wns.Path), o)
	}
}

// judgeGone: nothing of the token may be left anywhere in the store.
func (tr *c18Tree) judgeGone(r *kit.Result, caseID string, id *c18Ident, class, when string, wit map[string]any) bool {
	left, lease := tr.settle(id)
	r.Count("storage_scans_after_consumption", 1)
	if len(left) == 0 {
		return true
	}
	if lease == "queued" || lease == "none" && tr.running(id, left) {
		r.Inconc("%s: revocation of the consumed token still under way after the bound", caseID)
		return false
	}
	if kit.OnlyCase() != "" {
		tr.v.t.Logf("left: %v lease=%s", left, lease)
	}
	w2 := map[string]any{"left_in_storage": c18nsKinds(left), "lease": lease, "keys": left}
	for k, x := range wit {
		w2[k] = x
	}
	tr.violate(r, class, caseID, fmt.Sprintf("%s, but in the store remain: %v (lease record: %s)", when, c18nsKinds(left), lease), w2)
	return false
}

// unwrapSuccessor consumes a rewrapped token twice, the way chosen by the seed: by the token
// itself, or handed in by the root token or by a user of some namespace (cross-namespace for
// most). Returns how often the payload came.
func (tr *c18Tree) unwrapSuccessor(r *kit.Result, rng *kit.Rand, w *c18Wrap, nid *c18Ident, token string) int {
	n := 0
	how := rng.Intn(3)
	caller := kit.Pick(rng, tr.NSs)
	for i := 0; i < 2; i++ {
		q := vReq{Op: logical.UpdateOperation, Path: "sys/wrapping/unwrap", Token: token}
		switch how {
		case 1:
			q.Token, q.Data = tr.v.Root, map[string]any{"token": token}
		case 2:
			q.Token, q.NS, q.Data = caller.User, caller.Path, map[string]any{"token": token}
		}
		ur, uerr := tr.v.Do(q)
		if vOK(ur, uerr) && c18Contains(ur, w.Canary) {
			n++
			r.Count("reveals_via_rewrapped_token", 1)
			if how == 1 && nid.NS.Path != "" || how == 2 && nid.NS.Path != caller.Path {
				r.Count("reveals_via_rewrapped_token:cross_namespace_third_party", 1)
			}
		}
	}
	return n
}

// retries: after the payload (or a successor) was handed out, nobody gets the payload from the
// old token again - not the same caller, not the token's own namespace, not the token itself.
func (tr *c18Tree) retries(r *kit.Result, caseID string, op c18nsOp, w *c18Wrap, wns *c18NS, wit map[string]any) int {
	n := 0
	wns = tr.home
	again := []c18nsOp{op,
		{Kind: "unwrap-third", Caller: tr.idx(wns), Hdr: wns.Path, Addr: "header=token-ns"},
		{Kind: "unwrap-third", Caller: -1, Addr: "none"},
		{Kind: "unwrap-first", Caller: -2, Hdr: wns.Path, Addr: "header=token-ns"},
		{Kind: "cubbyhole-read", Caller: -2, Hdr: wns.Path, Addr: "header=token-ns"}}
	for _, a := range again {
		resp, err := tr.run("", a, w)
		r.Count("repeat_attempts", 1)
		if vOK(resp, err) && c18Contains(resp, w.Canary) {
			n++
			tr.violate(r, "C18-second-reveal-across-namespaces", caseID, fmt.Sprintf("after the token was consumed, %s (addressing %s) obtained the payload again", a.Kind, a.Addr), wit)
		}
	}
	return n
}

func (tr *c18Tree) idx(ns *c18NS) int {
	for i, x := range tr.NSs {
		if x == ns {
			return i
		}
	}
	return -1
}

func (tr *c18Tree) paths() []string {
	var out []string
	for _, n := range tr.NSs {
		out = append(out, n.Path)
	}
	return out
}

// ops enumerates operation x caller x addressing for a wrapping token of namespace wns.
func (tr *c18Tree) ops(wns *c18NS) []c18nsOp {
	var out []c18nsOp
	for _, k := range c18nsFirst {
		for _, a := range c18nsAddressings("-", wns.Path, tr.paths()) {
			a.Kind, a.Caller = k, -2
			out = append(out, a)
		}
	}
	for _, k := range c18nsThird {
		for c := -1; c < len(tr.NSs); c++ {
			cns := ""
			if c >= 0 {
				cns = tr.NSs[c].Path
			}
			for _, a := range c18nsAddressings(cns, wns.Path, nil) {
				a.Kind, a.Caller = k, c
				out = append(out, a)
			}
		}
	}
	return out
}

func TestVerif_C18_Namespaces(t *testing.T) {
	seed := kit.Seed(18)
	shard, nshards := kit.Shard()
	r := kit.NewResult(t, "c18-namespaces", seed, "namespace tree root, ns1/, ns1/ns2/, sib/; for the wrapping token's namespace x wrapped kind (secret, login, list; quick: one kind per combination, chosen by the seed) x operation (first party: unwrap, rewrap, lookup, revoke-self, cubbyhole read; third party: unwrap, rewrap, lookup, auth/token/revoke, revoke-orphan, revoke-accessor) x caller (the root token, a user token living in each namespace: same / ancestor / descendant / sibling / root position) x addressing (no namespace, caller's or token's namespace by header or by path prefix, split over both; first party: every namespace): one request on a fresh token, then the state oracle on the physical store of all namespaces: payload only in the answer of the one successful unwrap; after a successful unwrap / rewrap / revocation no record of the token (token record, accessor index, lease, cubbyhole response and wrapinfo) is left anywhere and five further attempts from several namespaces get nothing; otherwise the token is intact and its namespace's own user unwraps it exactly once (a refused third party must not use it up); lookups report the creation path; distinct by (token namespace, kind, operation, caller position, addressing, outcome)")
	defer r.Write(t)
	kindsAll := []string{"kv", "login", "list"}
	for _, tx := range []bool{false, true} {
		tr := c18nsBoot(t, tx)
		n := 0
		for wi, wns := range tr.NSs {
			for oi, op := range tr.ops(wns) {
				for fi, format := range []string{"", "jwt"} {
					for ki, wkind := range kindsAll {
						n++
						// quick: one kind per (namespace, operation, caller, addressing, format), chosen by the seed
						if kit.Tier() == "quick" && (oi+wi+fi+int(seed)+int(b2u18(tx)))%3 != ki {
							continue
						}
						// quick: the JWT format for every third combination (all of them over three seeds)
						if kit.Tier() == "quick" && format == "jwt" && (oi+wi+int(seed))%3 != 0 {
							continue
						}
						if n%nshards != shard {
							continue
						}
						caseID := fmt.Sprintf("ns:%v:%d:%s%s:%s:%d:%s|%s", tx, wi, wkind, map[string]string{"": "", "jwt": "+jwt"}[format], op.Kind, op.Caller, op.Hdr, op.Prefix)
						if !kit.WantCase(caseID) {
							continue
						}
						rng := kit.NewRand(seed, uint64(n)*2+b2u18(tx)+77_000_000)
						tr.format = format
						tr.oneOp(t, r, rng, caseID, wns, wkind, op)
						tr.format = ""
						if r.NViolations() > 3000 {
							return
						}
					}
				}
			}
		}
		tr.ttl(t, r, kit.NewRand(seed, 78_000_000+b2u18(tx)), fmt.Sprintf("nsttl:%v", tx))
		tr.v.Close()
	}
	r.Require("ttl_expiry_checks_in_namespaces", 8)
	r.Require("jwt_tokens_requested_in_a_child_namespace:exactly_one_reveal", 150)
	r.Require("jwt_tokens_requested_in_a_child_namespace:payload", 40)
	r.Require("jwt_unwraps_succeeded:first-party-unwrap", 6)
	r.Require("jwt_unwraps_succeeded:unwrap", 40)
	r.Require("rewraps_succeeded:cross-namespace", 40)
	r.Require("revocations_succeeded:cross-namespace", 40)
	r.Require("first_party_refusals_that_consumed_the_token", 40)
	r.Require("refusals_that_left_the_token_usable", 40)
	r.Require("cross_namespace_third_party_unwraps_succeeded", 40)
	r.Require("cross_namespace_third_party_unwraps_succeeded:caller-root", 10)
	r.Require("first_party_unwraps_addressed_to_other_namespace_succeeded", 10)
	r.Require("storage_scans_after_consumption", 300)
	r.Require("repeat_attempts", 300)
	r.Require("exactly_one_reveal", 300)
}

// ---------------------------------------------------------------- concurrent consumers

// conc: k consumers from different namespaces on one token under the storage-operation gate.
func (tr *c18Tree) conc(t *testing.T, r *kit.Result, rng *kit.Rand, caseID string, wns *c18NS, wkind string, ops []c18nsOp, pol kit.Policy) (kit.Schedule, bool) {
	v := tr.v
	w := tr.wrap(t, r, rng, wns, wkind, false, caseID)
	id, made := tr.born(t, w)
	resps := make([]*logical.Response, len(ops))
	errs := make([]error, len(ops))
	var mu sync.Mutex
	var reqs []kit.Req
	for i, op := range ops {
		i, op := i, op
		tag := fmt.Sprintf("q%d", i)
		reqs = append(reqs, kit.Req{Tag: tag, Fn: func() {
			resp, err := tr.run("", op, w)
			mu.Lock()
			resps[i], errs[i] = resp, err
			mu.Unlock()
		}})
	}
	if kit.OnlyCase() != "" {
		v.Probe.StartLog(true)
		defer func() {
			for _, e := range v.Probe.StopLog() {
				t.Logf("probe %s caller=%s", e.String(), e.Caller)
			}
		}()
	}
	sched := v.Probe.RunGated(reqs, pol, kit.GateOpts{Filter: func(e kit.Event) bool {
		return strings.Contains(e.Key, id.Salted) || strings.Contains(e.Key, "/"+id.Cubby+"/")
	}})
	if sched.TimedOut {
		r.Inconc("%s: gate watchdog expired", caseID)
		return sched, false
	}
	r.Eval(1)
	var outs []c18nsOutcome
	reveals, crossWin, consumers, winner := 0, false, 0, "nobody"
	var successors []string
	for i, op := range ops {
		o := tr.outcome(op, w, wns, resps[i], errs[i])
		outs = append(outs, o)
		tr.judgeLookup(r, caseID, w, wns, o, resps[i])
		if o.Revealed {
			reveals++
			if !c18nsIsUnwrap(op.Kind) {
				tr.violate(r, "C18-payload-in-answer-to-non-unwrap-request", caseID, fmt.Sprintf("the answer to %s contains the wrapped payload", op.Kind), o)
			}
			winner = c18nsOpClass(op.Kind)
			if tr.cross(op, w, wns) {
				crossWin = true
			}
		}
		if o.NewToken != "" {
			successors = append(successors, o.NewToken)
			winner = "rewrap"
			if tr.cross(op, w, wns) {
				crossWin = true
			}
		}
		if c18nsOpClass(op.Kind) != "lookup" {
			consumers++
		}
	}
	wit := map[string]any{"requested_in_namespace": wns.Path, "token_namespace": tr.home.Path, "format": tr.format, "wrapped": wkind, "requests": outs, "schedule": c18Trunc(sched.String(), 3000)}
	var nids []*c18Ident
	for _, nt := range successors {
		nid := tr.ident(t, c18TokenID(nt))
		nids = append(nids, nid)
		reveals += tr.unwrapSuccessor(r, rng, w, nid, nt)
	}
	consumed := reveals > 0 || len(successors) > 0
	if !consumed {
		// everyone was refused or only looked: the token must still work
		left := tr.keys(id)
		if tr.finish(w, wns, w.Token) {
			reveals++
			consumed = true
			r.Count("token_left_intact_by_all_consumers", 1)
			if len(left) != len(made) {
				tr.violate(r, "C18-usable-token-with-missing-records-after-concurrent-requests", caseID, "the token still unwrapped although some of its records were gone", wit)
			}
		} else {
			wit["records_after_the_requests"] = c18nsKinds(left)
			class, what := "C18-payload-lost-to-concurrent-consumers-across-namespaces", "none of the concurrent requests obtained the payload or a successor token, and the token no longer unwraps"
			for i, op := range ops {
				if op.Caller == -2 && strings.Contains(outs[i].Result, "permission denied") {
					// a refused first-party request counts as the single use (by design): the payload
					// is lost to everybody; nothing may be left and nobody may get it later
					class, winner = "", "refused-first-party-request"
					r.Count("token_used_up_by_a_refused_first_party_request", 1)
					if tr.format == "jwt" && op.Hdr+op.Prefix != "" {
						r.Count("jwt_first_party_unwrap_addressed_to_child_namespace_refused_and_consumed", 1)
					}
				}
				// the signature of the sequential finding: a third-party rewrap from another namespace
				// that got as far as reading the cubbyhole (it had counted the use) and found nothing
				if op.Kind == "rewrap" && tr.cross(op, w, wns) && strings.Contains(outs[i].Result, "no information found") && len(left) == len(made) {
					class = "C18-failed-cross-namespace-rewrap-consumed-token-and-left-its-records"
					what = fmt.Sprintf("rewrap by a caller of namespace %q (%s) answered %q while racing with %d other request(s); nobody obtained the payload, the token no longer unwraps, and in the store remain: %v", outs[i].Caller, outs[i].Rel, outs[i].Result, len(ops)-1, c18nsKinds(left))
				}
			}
			if class != "" {
				tr.violate(r, class, caseID, what, wit)
			} else {
				consumed = true
			}
		}
	}
	if reveals > 1 {
		tr.violate(r, "C18-payload-revealed-twice-across-namespaces", caseID, fmt.Sprintf("the wrapped payload was obtained %d times by concurrent consumers", reveals), wit)
	}
	if reveals == 1 {
		r.Count("exactly_one_reveal", 1)
		if crossWin {
			r.Count("exactly_one_reveal_won_by_cross_namespace_consumer", 1)
		}
	}
	if consumed {
		scope := c18nsScope(crossWin)
		wit["winner"] = winner
		tr.judgeGone(r, caseID, id, "C18-residue-after-concurrent-"+scope+"-"+winner, "the token was consumed by one of the concurrent requests ("+winner+")", wit)
		for _, nid := range nids {
			tr.judgeGone(r, caseID, nid, "C18-residue-of-rewrapped-token-after-unwrap", "the rewrapped token was unwrapped", wit)
		}
		late, lerr := v.Do(vReq{Op: logical.UpdateOperation, Path: "sys/wrapping/unwrap", Token: v.Root, Data: map[string]any{"token": w.Token}})
		if vOK(late, lerr) && c18Contains(late, w.Canary) {
			tr.violate(r, "C18-second-reveal-across-namespaces", caseID, "a late cross-namespace unwrap after the concurrent phase still obtained the payload", wit)
		}
	}
	if sched.Overlap() {
		r.Count("overlapping_schedules", 1)
		var ks []string
		for _, o := range outs {
			ks = append(ks, o.Op+"/"+o.Rel)
		}
		r.Nontrivial(fmt.Sprintf("%s|%s|%v|%s", wns.Path, wkind, ks, sched.Hash()))
	}
	if crossWin && sched.Overlap() {
		r.Sample(wit)
	}
	return sched, r.NViolations() < 3000
}

func TestVerif_C18_NamespaceSchedules(t *testing.T) {
	seed := kit.Seed(18)
	shard, _ := kit.Shard()
	r := kit.NewResult(t, "c18-namespace-schedules", seed, "k in 2..3 concurrent consumers (first-party unwrap addressed to any namespace, third-party unwrap / rewrap / lookup by the root token or a user token of any namespace, addressed by header, path prefix or not at all) on one wrapping token of ns1/, ns1/ns2/, sib/ or root, under the storage-operation gate (gate points: the token's record, lease and cubbyhole keys): <=2-preemption interleavings (capped) then seeded PCT; at most one reveal counted over the answers and the rewrapped successors, exactly one overall (a token nobody consumed must still unwrap for its namespace's own user), nothing of the token left in the store of any namespace; non-trivial = requests overlapped; distinct by (token namespace, kind, consumers with caller position, op-order hash)")
	defer r.Write(t)
	for _, tx := range []bool{false, true} {
		tr := c18nsBoot(t, tx)
		nscen := kit.N(16, 48)
		for c := 0; c < nscen; c++ {
			rng := kit.NewRand(seed, uint64(shard*100000+c)*2+b2u18(tx)+88_000_000)
			wns := tr.NSs[1+(c+int(b2u18(tx)))%3]
			if c%7 == 6 {
				wns = tr.NSs[0]
			}
			all := tr.ops(wns)
			var pool []c18nsOp
			for _, o := range all {
				switch o.Kind {
				case "unwrap-first", "unwrap-third", "rewrap", "lookup":
					pool = append(pool, o)
				}
			}
			k := 2 + rng.Intn(2)
			ops := make([]c18nsOp, k)
			for i := range ops {
				kind := kit.Pick(rng, []string{"unwrap-third", "unwrap-third", "unwrap-third", "unwrap-first", "unwrap-first", "rewrap", "rewrap", "lookup"})
				for {
					if ops[i] = kit.Pick(rng, pool); ops[i].Kind == kind {
						break
					}
				}
			}
			third := func(kind string, caller int, hdr string) c18nsOp {
				return c18nsOp{Kind: kind, Caller: caller, Hdr: hdr, Addr: "header"}
			}
			switch c {
			case 0: // the root operator and the namespace's own user race for it
				ops = []c18nsOp{third("unwrap-third", -1, ""), third("unwrap-third", tr.idx(wns), wns.Path)}
			case 1: // two callers of foreign namespaces
				ops = []c18nsOp{third("unwrap-third", -1, ""), third("unwrap-third", 0, "")}
			case 2: // the holder and a foreign operator
				ops = []c18nsOp{{Kind: "unwrap-first", Caller: -2, Hdr: wns.Path, Addr: "header=token-ns"}, third("unwrap-third", -1, "")}
			case 3:
				ops = []c18nsOp{third("unwrap-third", -1, ""), third("rewrap", tr.idx(wns), wns.Path), third("lookup", 3, "sib/")}
			}
			wkind := []string{"kv", "login", "list"}[(c+int(seed))%3]
			tr.format = []string{"", "jwt"}[(c/2+int(b2u18(tx)))%2]
			if tr.format == "jwt" {
				r.Count("scenarios_with_jwt_format", 1)
			}
			ex := &kit.Explorer{MaxPreempt: 2, MaxRuns: kit.N(15, 120)}
			idx := 0
			stop := false
			prefix := fmt.Sprintf("nssch:%v:%d:%d:ex:", tx, shard, c)
			ex.Explore(func(pol kit.Policy) (kit.Schedule, bool) {
				idx++
				caseID := fmt.Sprintf("%s%d", prefix, idx)
				res := r
				if !kit.WantCase(caseID) {
					if !strings.HasPrefix(kit.OnlyCase(), prefix) {
						return kit.Schedule{Diverged: true}, true
					}
					// replay of a later interleaving of this scenario: the enumeration has to be
					// walked up to it; the earlier ones are run without being judged
					res = kit.NewResult(t, "c18-namespace-schedules-replay-walk", seed, "")
				}
				s, cont := tr.conc(t, res, kit.NewRand(seed, uint64(idx)+6_000_000), caseID, wns, wkind, ops, pol)
				if !cont {
					stop = true
				}
				if res == r && kit.OnlyCase() != "" {
					return s, false
				}
				return s, cont
			})
			if stop {
				return
			}
			for q := 0; q < kit.N(5, 40); q++ {
				caseID := fmt.Sprintf("nssch:%v:%d:%d:pct:%d", tx, shard, c, q)
				if !kit.WantCase(caseID) {
					continue
				}
				tags := make([]string, len(ops))
				for i := range tags {
					tags[i] = fmt.Sprintf("q%d", i)
				}
				prng := kit.NewRand(seed, uint64(shard*100000+c*100+q)*2+b2u18(tx)+9_500_000)
				if _, cont := tr.conc(t, r, prng, caseID, wns, wkind, ops, kit.NewPCT(prng, tags, 3, 25*len(ops))); !cont {
					return
				}
			}
		}
		tr.v.Close()
	}
	r.Require("overlapping_schedules", 60)
	r.Require("exactly_one_reveal", 60)
	r.Require("exactly_one_reveal_won_by_cross_namespace_consumer", 20)
}
