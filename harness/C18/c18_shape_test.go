//go:build verif

package vault

// C18, "the wrapped response is never returned to the original requester": whatever wrap
// information the BACKEND puts on its response. A small backend of the harness answers secret
// reads, lists, data-less updates and logins with every shape of response WrapInfo (none, a
// shorter / longer TTL of its own, no TTL but the seal-wrap flag / a format / nothing at all, a
// negative TTL); the client asks for wrapping (TTL 1m) or does not, with the default or the JWT
// format. When the client asked for wrapping, what it gets back carries a wrapping token and
// the payload nowhere, the token does not outlive what the client (and the backend) asked for,
// and it unwraps to the payload exactly once.

import (
	"context"
	"encoding/json"
	"fmt"
	"strings"
	"sync"
	"testing"
	"time"

	"github.com/openbao/openbao/sdk/v2/framework"
	"github.com/openbao/openbao/sdk/v2/helper/wrapping"
	kit "github.com/openbao/openbao/sdk/v2/helper/verifkit"
	"github.com/openbao/openbao/sdk/v2/logical"
	"github.com/openbao/openbao/v2/internal/helper/namespace"
)

type c18Shape struct {
	Name string
	Make func() *wrapping.ResponseWrapInfo
	TTL  time.Duration // the backend's own positive TTL, 0 = none
}

var c18Shapes = []c18Shape{
	{"no-wrap-info", func() *wrapping.ResponseWrapInfo { return nil }, 0},
	{"ttl-20s(shorter)", func() *wrapping.ResponseWrapInfo { return &wrapping.ResponseWrapInfo{TTL: 20 * time.Second} }, 20 * time.Second},
	{"ttl-10m(longer)", func() *wrapping.ResponseWrapInfo { return &wrapping.ResponseWrapInfo{TTL: 10 * time.Minute} }, 10 * time.Minute},
	{"no-ttl,seal-wrap", func() *wrapping.ResponseWrapInfo { return &wrapping.ResponseWrapInfo{SealWrap: true} }, 0},
	{"no-ttl,format-jwt", func() *wrapping.ResponseWrapInfo { return &wrapping.ResponseWrapInfo{Format: "jwt"} }, 0},
	{"no-ttl,empty", func() *wrapping.ResponseWrapInfo { return &wrapping.ResponseWrapInfo{} }, 0},
	{"negative-ttl", func() *wrapping.ResponseWrapInfo { return &wrapping.ResponseWrapInfo{TTL: -time.Second} }, 0},
	{"ttl-20s,seal-wrap,format-jwt", func() *wrapping.ResponseWrapInfo {
		return &wrapping.ResponseWrapInfo{TTL: 20 * time.Second, SealWrap: true, Format: "jwt"}
	}, 20 * time.Second},
}

// c18Shaper is shared by the mounts of the shaping backend: the harness sets what the next
// answer carries.
type c18Shaper struct {
	mu     sync.Mutex
	shape  c18Shape
	canary string
	calls  int
}

func (s *c18Shaper) set(sh c18Shape, canary string) {
	s.mu.Lock()
	s.shape, s.canary = sh, canary
	s.mu.Unlock()
}

func (s *c18Shaper) factory(typ logical.BackendType) logical.Factory {
	return func(ctx context.Context, conf *logical.BackendConfig) (logical.Backend, error) {
		h := func(ctx context.Context, req *logical.Request, d *framework.FieldData) (*logical.Response, error) {
			s.mu.Lock()
			sh, canary := s.shape, s.canary
			s.calls++
			s.mu.Unlock()
			var resp *logical.Response
			switch {
			case strings.HasPrefix(req.Path, "login/"):
				resp = &logical.Response{
					Auth: &logical.Auth{Policies: []string{"default"}, DisplayName: canary, Metadata: map[string]string{"who": canary},
						LeaseOptions: logical.LeaseOptions{TTL: time.Hour, Renewable: true}},
					Data: map[string]any{"value": canary},
				}
			case req.Operation == logical.ReadOperation:
				resp = &logical.Response{Data: map[string]any{"value": canary}}
			case req.Operation == logical.ListOperation:
				resp = logical.ListResponse([]string{"k-" + canary})
			default: // an error-free update that has no data to return, only a remark
				resp = &logical.Response{}
				resp.AddWarning("stored; reference " + canary)
			}
			resp.WrapInfo = sh.Make()
			return resp, nil
		}
		ops := map[logical.Operation]framework.OperationHandler{}
		for _, op := range []logical.Operation{logical.ReadOperation, logical.ListOperation, logical.UpdateOperation} {
			ops[op] = &framework.PathOperation{Callback: h}
		}
		b := &framework.Backend{
			BackendType:  typ,
			PathsSpecial: &logical.Paths{Unauthenticated: []string{"login/*"}},
			Paths: []*framework.Path{
				{Pattern: "obj/.*", Fields: map[string]*framework.FieldSchema{}, Operations: ops},
				{Pattern: "login/.*", Fields: map[string]*framework.FieldSchema{}, Operations: ops},
			},
		}
		if err := b.Setup(ctx, conf); err != nil {
			return nil, err
		}
		return b, nil
	}
}

// c18Anywhere reports whether the canary occurs anywhere in what the requester got (data, auth,
// secret, headers, raw body), the wrap information excepted (it carries the token).
func c18Anywhere(resp *logical.Response, canary string) bool {
	if resp == nil {
		return false
	}
	if c18Contains(resp, canary) {
		return true
	}
	cp := *resp
	cp.WrapInfo = nil
	// Warnings are not judged: the core builds the requester's answer from the wrap information
	// and the warnings of the wrapped response on purpose (request_handling.go), so that remarks
	// such as a capped TTL reach the requester; they are counted instead.
	cp.Warnings = nil
	b, _ := json.Marshal(&cp)
	if strings.Contains(string(b), canary) {
		return true
	}
	if resp.Secret != nil {
		sb, _ := json.Marshal(resp.Secret)
		if strings.Contains(string(sb), canary) {
			return true
		}
	}
	return false
}

func TestVerif_C18_BackendWrapInfo(t *testing.T) {
	seed := kit.Seed(18)
	r := kit.NewResult(t, "c18-backend-wrap-info", seed, "a harness backend (secrets mount and auth mount, in the root namespace and in a child namespace) answers with response WrapInfo shapes {none, own TTL 20s, own TTL 10m, no TTL + seal-wrap flag, no TTL + format jwt, no TTL and nothing else, negative TTL, TTL + seal-wrap + format} x client wrap TTL {unset, 1m} x client format {unset, jwt} x kind {secret read, list, login, data-less update with a warning}: when the client asked for wrapping its answer carries a wrapping token and the payload canary nowhere (data, auth, secret, headers, raw body; backend warnings are passed on to the requester by design and only counted), the token's TTL exceeds neither the client's nor the backend's positive TTL, lookup reports the creation path, the token unwraps to the payload exactly once and leaves no record in the store; when only the backend asked for wrapping the same holds; when nobody did the payload comes in the clear and no token exists; non-trivial = the client asked for wrapping and the backend set some wrap information; distinct by (store, namespace, kind, shape, client TTL, client format)")
	r.Exhaustive = true
	defer r.Write(t)
	rng := kit.NewRand(seed, 1860)
	for _, tx := range []bool{false, true} {
		sh := &c18Shaper{}
		v := vBoot(t, vOpts{Transactional: tx, Logical: map[string]logical.Factory{"c18shape": sh.factory(logical.TypeLogical)}, Credential: map[string]logical.Factory{"c18shape": sh.factory(logical.TypeCredential)}})
		v.MustDo(vReq{Op: logical.UpdateOperation, Path: "sys/namespaces/ns1", Token: v.Root})
		one := &c18Tree{v: v}
		ctx := namespace.RootContext(context.Background())
		for _, p := range []string{"", "ns1/"} {
			v.Mount("shape", "c18shape", p, nil)
			v.EnableAuth("shapeauth", "c18shape", p)
			v.Policy("c18shape", `path "shape/*" { capabilities = ["read","list","update"] }`, p)
			ns := namespace.RootNamespace
			if p != "" {
				var err error
				if ns, err = v.Core.namespaceStore.GetNamespaceByPath(ctx, p); err != nil || ns == nil {
					t.Fatalf("verif: namespace %q: %v", p, err)
				}
			}
			tok, _, err := v.CreateToken(v.Root, map[string]any{"policies": []string{"c18shape", "default"}, "ttl": "2h"}, false, p)
			if err != nil || tok == nil {
				t.Fatalf("verif: user token in %q: %v", p, err)
			}
			one.NSs = append(one.NSs, &c18NS{Path: p, NS: ns, User: tok.ID})
		}
		for ni, ns := range one.NSs {
			for _, kind := range []string{"read", "list", "login", "update"} {
				for si, shape := range c18Shapes {
					for _, reqTTL := range []time.Duration{0, time.Minute} {
						for _, reqFormat := range []string{"", "jwt"} {
							caseID := fmt.Sprintf("shape:%v:%d:%s:%d:%v:%s", tx, ni, kind, si, reqTTL, reqFormat)
							if !kit.WantCase(caseID) {
								continue
							}
							if kit.Tier() == "quick" && ni == 1 && tx { // the child namespace on one store kind only
								continue
							}
							c18ShapeCase(t, v, r, one, sh, rng, caseID, ns, kind, shape, reqTTL, reqFormat)
							if r.NViolations() > 400 {
								return
							}
						}
					}
				}
			}
		}
		v.Close()
	}
	r.Require("client_asked_for_wrapping", 200)
	r.Require("client_asked_and_backend_set_wrap_info_without_ttl", 80)
	r.Require("tokens_unwrapped_exactly_once", 200)
	r.Require("wrapping_forced_by_backend_only", 20)
	r.Require("not_wrapped_payload_in_clear", 40)
}

func c18ShapeCase(t *testing.T, v *vCore, r *kit.Result, one *c18Tree, sh *c18Shaper, rng *kit.Rand, caseID string, ns *c18NS, kind string, shape c18Shape, reqTTL time.Duration, reqFormat string) {
	canary := rng.Canary()
	sh.set(shape, canary)
	q := vReq{NS: ns.Path, Token: ns.User, WrapTTL: reqTTL}
	switch kind {
	case "read":
		q.Op, q.Path = logical.ReadOperation, "shape/obj/a"
	case "list":
		q.Op, q.Path = logical.ListOperation, "shape/obj/"
	case "update":
		q.Op, q.Path, q.Data = logical.UpdateOperation, "shape/obj/a", map[string]any{"x": "y"}
	case "login":
		q.Op, q.Path, q.Token, q.Data = logical.UpdateOperation, "auth/shapeauth/login/u", "", map[string]any{"x": "y"}
	}
	before := sh.calls
	resp, err := c18DoWrap(v, q, reqFormat)
	r.Eval(1)
	if sh.calls == before {
		t.Fatalf("verif: %s did not reach the shaping backend: %s", caseID, vErrStr(resp, err))
	}
	asked := reqTTL > 0
	if resp != nil && resp.WrapInfo != nil && resp.WrapInfo.Token != "" && strings.Contains(strings.Join(resp.Warnings, " "), canary) {
		r.Count("backend_warning_of_wrapped_response_also_shown_to_requester", 1)
	}
	token := ""
	if resp != nil && resp.WrapInfo != nil {
		token = resp.WrapInfo.Token
	}
	leaked := c18Anywhere(resp, canary) || (resp != nil && resp.Auth != nil && resp.Auth.ClientToken != "")
	wit := map[string]any{"namespace": ns.Path, "kind": kind, "backend_wrap_info": shape.Name, "client_wrap_ttl": reqTTL.String(), "client_wrap_format": reqFormat,
		"answer": c18Trunc(vErrStr(resp, err), 160), "answer_has_wrapping_token": token != "", "answer_has_payload": leaked}
	if asked {
		r.Count("client_asked_for_wrapping", 1)
		if shape.Make() != nil {
			r.Nontrivial(fmt.Sprintf("%v|%s|%s|%s|%s", v.Opts.Transactional, ns.Path, kind, shape.Name, reqFormat))
			if shape.TTL == 0 {
				r.Count("client_asked_and_backend_set_wrap_info_without_ttl", 1)
			}
		}
	}
	switch {
	case asked && leaked:
		r.Violate("C18-requester-got-payload-although-wrapping-was-requested", caseID, fmt.Sprintf("%s with wrap TTL %s (format %q) on a backend whose response carries wrap info %q: the answer to the requester contains the payload (wrapping token in the answer: %v)", kind, reqTTL, reqFormat, shape.Name, token != ""), wit)
		return
	case leaked && token != "":
		r.Violate("C18-creator-saw-payload", caseID, fmt.Sprintf("%s wrapped on the backend's request (%q): the answer carries a wrapping token and the payload", kind, shape.Name), wit)
		return
	case asked && token == "":
		if vOK(resp, err) {
			r.Violate("C18-no-wrapping-token-although-wrapping-was-requested", caseID, fmt.Sprintf("%s with wrap TTL %s (format %q), backend wrap info %q: the request succeeded, the answer has neither payload nor wrapping token", kind, reqTTL, reqFormat, shape.Name), wit)
		} else {
			r.Count("wrapped_request_refused", 1) // refused without showing the payload: nothing to retrieve
		}
		return
	case token == "":
		if leaked {
			r.Count("not_wrapped_payload_in_clear", 1)
		}
		return
	}
	if !asked {
		r.Count("wrapping_forced_by_backend_only", 1)
	}
	// a token was handed out: bounded TTL, creation path, exactly one unwrap, nothing left
	for _, bound := range []time.Duration{reqTTL, shape.TTL} {
		if bound > 0 && resp.WrapInfo.TTL > bound {
			r.Violate("C18-wrap-ttl-exceeds-what-was-asked", caseID, fmt.Sprintf("wrapping token TTL %s although the client asked for %s and the backend for %s", resp.WrapInfo.TTL, reqTTL, shape.TTL), wit)
		}
	}
	wantJWT := reqFormat == "jwt" || strings.Contains(shape.Name, "format-jwt")
	if IsJWT(token) != wantJWT {
		r.Count(fmt.Sprintf("format_not_as_asked:client=%q:backend=%s:jwt=%v", reqFormat, shape.Name, IsJWT(token)), 1)
	}
	id := one.ident(t, c18TokenID(token))
	rel := q.Path
	lr, lerr := v.Do(vReq{Op: logical.UpdateOperation, Path: "sys/wrapping/lookup", Token: v.Root, Data: map[string]any{"token": token}})
	if vOK(lr, lerr) && lr != nil && lr.Data != nil {
		if cp, _ := lr.Data["creation_path"].(string); cp != rel && cp != ns.Path+rel {
			r.Violate("C18-creation-path", caseID, fmt.Sprintf("lookup reports creation path %q, the response was created by %q in namespace %q", cp, rel, ns.Path), wit)
		}
		r.Count("lookups_ok", 1)
	} else {
		r.Violate("C18-lookup-failed-on-fresh-token", caseID, "lookup of the wrapping token just handed out failed: "+c18Trunc(vErrStr(lr, lerr), 160), wit)
	}
	reveals := 0
	for i := 0; i < 2; i++ {
		uq := vReq{Op: logical.UpdateOperation, Path: "sys/wrapping/unwrap", Token: token}
		if rng.Chance(1, 2) {
			uq = vReq{Op: logical.UpdateOperation, Path: "sys/wrapping/unwrap", Token: ns.User, NS: ns.Path, Data: map[string]any{"token": token}}
		}
		ur, uerr := v.Do(uq)
		if vOK(ur, uerr) && c18Contains(ur, canary) {
			reveals++
		}
	}
	wit["reveals"] = reveals
	switch reveals {
	case 0:
		r.Violate("C18-payload-lost", caseID, fmt.Sprintf("the wrapping token handed out for %s (backend wrap info %q, client format %q) does not unwrap to the payload", kind, shape.Name, reqFormat), wit)
	case 1:
		r.Count("tokens_unwrapped_exactly_once", 1)
	default:
		r.Violate("C18-payload-revealed-twice", caseID, "the payload was obtained twice", wit)
	}
	one.home, one.stranded, one.format = nil, "", ""
	one.judgeGone(r, caseID, id, "C18-residue-after-unwrap-of-backend-shaped-response", "the token was unwrapped", wit)
}
