//go:build verif

package vault

// C18, "the wrapped response is never returned to the original requester": also not when the
// wrapping itself fails. Every storage operation of a wrapped request fails once; whatever the
// requester gets back (response next to the error included) must not carry the payload, and a
// wrapping token that was handed out must work exactly once.

import (
	"fmt"
	"strings"
	"testing"
	"time"

	kit "github.com/openbao/openbao/sdk/v2/helper/verifkit"
	"github.com/openbao/openbao/sdk/v2/logical"
)

func c18WrappedRequest(v *vCore, kind, user, canary, tag string, seq int) (string, *logical.Response, error) {
	switch kind {
	case "kv":
		p := fmt.Sprintf("rec/data/wf-%d", seq)
		v.MustDo(vReq{Op: logical.UpdateOperation, Path: p, Token: v.Root, Data: map[string]any{"value": canary}})
		resp, err := v.Do(vReq{Tag: tag, Op: logical.ReadOperation, Path: p, Token: user, WrapTTL: 5 * time.Minute})
		return p, resp, err
	case "list":
		v.MustDo(vReq{Op: logical.UpdateOperation, Path: fmt.Sprintf("rec/data/wfdir-%d/k-%s", seq, canary), Token: v.Root, Data: map[string]any{"value": "x"}})
		p := fmt.Sprintf("rec/data/wfdir-%d/", seq)
		resp, err := v.Do(vReq{Tag: tag, Op: logical.ListOperation, Path: p, Token: user, WrapTTL: 5 * time.Minute})
		return p, resp, err
	default: // login
		p := "auth/recauth/login/u"
		resp, err := v.Do(vReq{Tag: tag, Op: logical.UpdateOperation, Path: p, Data: map[string]any{"policies": []string{"default"}, "ttl": "1h", "canary": canary, "display_name": canary}, WrapTTL: 5 * time.Minute})
		return p, resp, err
	}
}

func TestVerif_C18_WrapFaults(t *testing.T) {
	seed := kit.Seed(18)
	r := kit.NewResult(t, "c18-wrap-faults", seed, "for each wrapped response kind (secret read, list, login) x store kind: the wrapped request is run once to count its storage operations n (token lookup, backend reads, wrapping token / accessor / cubbyhole payload / wrapinfo / lease writes), then n times with storage operation i failing once: whatever comes back to the requester - the response also when it is returned next to an error - must not contain the payload canary or the inner auth; when a wrapping token was handed out it must unwrap to the payload exactly once; when the request failed no usable wrapping token may be left; non-trivial = the fault fired; distinct by (kind, store, failed op kind and key class)")
	r.Exhaustive = true
	defer r.Write(t)
	seq := 0
	rng := kit.NewRand(seed, 1800)
	for _, tx := range []bool{false, true} {
		v := c18Boot(t, tx)
		user := c18User(t, v)
		for _, kind := range []string{"kv", "list", "login"} {
			seq++
			v.Probe.StartLog(false)
			_, resp, err := c18WrappedRequest(v, kind, user, rng.Canary(), "wf", seq)
			evs := v.Probe.StopLog()
			if !vOK(resp, err) || resp == nil || resp.WrapInfo == nil {
				t.Fatalf("verif: fault-free wrapped %s failed: %s", kind, vErrStr(resp, err))
			}
			nops := 0
			for _, e := range evs {
				if e.Tag == "wf" {
					nops++
				}
			}
			r.Count("wrapped_request_ops:"+kind, nops)
			for i := 1; i <= nops; i++ {
				caseID := fmt.Sprintf("wrapfault:%v:%s:%d", tx, kind, i)
				if !kit.WantCase(caseID) {
					continue
				}
				seq++
				canary := rng.Canary()
				var faulted kit.Event
				v.Probe.FailNth(func(e kit.Event) bool {
					if e.Tag != "wf" {
						return false
					}
					faulted = e
					return true
				}, i)
				_, resp, err := c18WrappedRequest(v, kind, user, canary, "wf", seq)
				fired := v.Probe.ClearFaults()
				r.Eval(1)
				if fired == 0 {
					r.Count("fault_not_reached", 1)
				} else {
					r.Count("faults_fired", 1)
					r.Nontrivial(fmt.Sprintf("%s|%v|%s|%s", kind, tx, faulted.Op, c18KeyClass(faulted.Key)))
				}
				wit := map[string]any{"kind": kind, "transactional": tx, "failed_op": fmt.Sprintf("%d = %s %s", i, faulted.Op, c18KeyClass(faulted.Key)), "answer": c18Trunc(vErrStr(resp, err), 200)}
				if c18Contains(resp, canary) {
					r.Violate("C18-creator-saw-payload", caseID, fmt.Sprintf("wrapped %s request with storage operation %d (%s %s) failing: the answer to the requester (error: %v) contains the payload", kind, i, faulted.Op, c18KeyClass(faulted.Key), err != nil || (resp != nil && resp.IsError())), wit)
				}
				if resp != nil && resp.Auth != nil && resp.Auth.ClientToken != "" {
					r.Violate("C18-creator-saw-payload", caseID, "wrapped login answered with the inner auth to the requester", wit)
				}
				tok := ""
				if resp != nil && resp.WrapInfo != nil {
					tok = resp.WrapInfo.Token
				}
				if vOK(resp, err) && tok != "" {
					r.Count("wrapping_token_handed_out_despite_fault", 1)
					u1, e1 := v.Do(vReq{Op: logical.UpdateOperation, Path: "sys/wrapping/unwrap", Token: tok})
					if !vOK(u1, e1) || !c18Contains(u1, canary) {
						r.Violate("C18-payload-lost", caseID, "a wrapping token was handed out (the fault was absorbed) but it does not unwrap to the payload: "+c18Trunc(vErrStr(u1, e1), 160), wit)
					}
					u2, e2 := v.Do(vReq{Op: logical.UpdateOperation, Path: "sys/wrapping/unwrap", Token: tok})
					if vOK(u2, e2) && c18Contains(u2, canary) {
						r.Violate("C18-payload-revealed-twice", caseID, "second unwrap returned the payload again", wit)
					}
				} else {
					r.Count("wrapped_request_failed", 1)
				}
				if r.NViolations() > 20 {
					return
				}
			}
		}
		v.Close()
	}
	r.Require("faults_fired", 60)
	r.Require("wrapped_request_failed", 30)
}

// c18KeyClass replaces uuid / hash like path segments by '*'.
func c18KeyClass(k string) string {
	parts := strings.Split(k, "/")
	var out []string
	for _, p := range parts {
		if len(p) > 20 || strings.Count(p, "-") >= 4 {
			p = "*"
		}
		out = append(out, p)
	}
	if len(out) > 5 {
		out = out[:5]
	}
	return strings.Join(out, "/")
}
