//go:build verif

package vault

// C18, "the token grants nothing beyond retrieving that payload": whoever asked for the
// wrapping (a plain token, a client with an identity entity that carries entity and group
// policies, root) and whatever was wrapped (secret, list, login of a client with an entity),
// the wrapping token - and every rewrapped successor - used as a client token on any path
// other than the retrieval endpoints is refused and reaches no backend handler.

import (
	"fmt"
	"testing"
	"time"

	kit "github.com/openbao/openbao/sdk/v2/helper/verifkit"
	"github.com/openbao/openbao/sdk/v2/logical"
)

type c18Probe struct {
	Op   logical.Operation
	Path string
	Data map[string]any
}

func TestVerif_C18_Grants(t *testing.T) {
	seed := kit.Seed(18)
	r := kit.NewResult(t, "c18-grants", seed, "for each requester kind (plain token, login token of a client whose identity entity carries entity policies and is member of a group with policies, root) x wrapped response kind (secret, list, login of that client) x generation (the wrapping token itself, its first and second rewrapped successor) x probe (reads, lists, writes on secrets mounts the requester's token / entity / group policies allow, token self-service endpoints of the default policy, token creation, own cubbyhole besides cubbyhole/response, sys paths, identity paths): a fresh wrapping token is presented as client token on the probe; the request must be refused, no backend handler may run, backend storage must not change, and the requester's own access must be what its policies say (so the probes are known to be allowed for it); a case is non-trivial when the requester itself was allowed the probe")
	defer r.Write(t)
	for _, tx := range []bool{false, true} {
		if kit.Tier() == "quick" && tx {
			continue
		}
		v := c18Boot(t, tx)
		v.Mount("zone", "verifrec", "", nil)
		v.Policy("c18entity", `path "rec/*" { capabilities = ["create","read","list","update","delete"] }
path "cubbyhole/*" { capabilities = ["create","read","list","update","delete"] }
path "sys/mounts" { capabilities = ["read"] }
path "identity/entity/id/*" { capabilities = ["read"] }
path "auth/token/create" { capabilities = ["update"] }`, "")
		v.Policy("c18group", `path "zone/*" { capabilities = ["create","read","list","update"] }
path "sys/wrapping/*" { capabilities = ["update"] }`, "")
		// the client with an entity: login through the recording auth mount with an alias
		login := func() *logical.Response {
			return v.MustDo(vReq{Op: logical.UpdateOperation, Path: "auth/recauth/login/alice", Data: map[string]any{"policies": []string{"default"}, "ttl": "2h", "alias": "c18alice"}})
		}
		lr := login()
		if lr.Auth == nil || lr.Auth.EntityID == "" {
			t.Fatalf("verif: login did not produce an entity: %+v", lr.Auth)
		}
		entityID := lr.Auth.EntityID
		v.MustDo(vReq{Op: logical.UpdateOperation, Path: "identity/entity/id/" + entityID, Token: v.Root, Data: map[string]any{"policies": []string{"c18entity"}}})
		v.MustDo(vReq{Op: logical.UpdateOperation, Path: "identity/group", Token: v.Root, Data: map[string]any{"name": "c18g", "member_entity_ids": []string{entityID}, "policies": []string{"c18group"}}})
		alice := lr.Auth.ClientToken
		plain := c18User(t, v)
		v.MustDo(vReq{Op: logical.UpdateOperation, Path: "rec/data/other", Token: v.Root, Data: map[string]any{"value": "o"}})
		v.MustDo(vReq{Op: logical.UpdateOperation, Path: "zone/data/x", Token: v.Root, Data: map[string]any{"value": "z"}})
		probes := []c18Probe{
			{logical.ReadOperation, "rec/data/other", nil},
			{logical.ListOperation, "rec/data/", nil},
			{logical.UpdateOperation, "rec/data/written-by-wrapping-token", map[string]any{"value": "w"}},
			{logical.DeleteOperation, "rec/data/other", nil},
			{logical.ReadOperation, "zone/data/x", nil},
			{logical.UpdateOperation, "zone/data/y", map[string]any{"value": "w"}},
			{logical.ReadOperation, "auth/token/lookup-self", nil},
			{logical.UpdateOperation, "auth/token/renew-self", nil},
			{logical.UpdateOperation, "auth/token/create", map[string]any{"policies": []string{"default"}}},
			{logical.UpdateOperation, "cubbyhole/mine", map[string]any{"v": "1"}},
			{logical.ListOperation, "cubbyhole/", nil},
			{logical.ReadOperation, "sys/mounts", nil},
			{logical.ReadOperation, "identity/entity/id/" + entityID, nil},
			{logical.UpdateOperation, "sys/wrapping/wrap", map[string]any{"a": "b"}},
		}
		requesters := []struct{ name, tok string }{{"plain", plain}, {"entity", alice}, {"root", v.Root}}
		for _, rq := range requesters {
			for _, wkind := range []string{"kv", "list", "login"} {
				for gen := 0; gen < 3; gen++ {
					for pi, pr := range probes {
						caseID := fmt.Sprintf("grants:%v:%s:%s:%d:%d", tx, rq.name, wkind, gen, pi)
						if !kit.WantCase(caseID) {
							continue
						}
						if kit.Tier() == "quick" && gen == 2 && pi%3 != 0 {
							continue
						}
						rng := kit.NewRand(seed, uint64(pi*1000+gen*100)+uint64(len(rq.name)*7+len(wkind)))
						// is the requester itself allowed the probe? (only recorded; read-only probes only, so state is untouched)
						allowed := false
						if cr, cerr := v.Do(vReq{Op: logical.UpdateOperation, Path: "sys/capabilities", Token: v.Root, Data: map[string]any{"token": rq.tok, "paths": []string{pr.Path}}}); vOK(cr, cerr) && cr != nil {
							caps, _ := cr.Data[pr.Path].([]string)
							for _, c := range caps {
								if c == "root" || c == string(pr.Op) || (pr.Op == logical.UpdateOperation && c == "create") {
									allowed = true
								}
							}
						}
						var w *c18Wrap
						if wkind == "login" {
							// the wrapped login of the client with the entity (asked for by nobody: login is unauthenticated)
							resp, err := v.Do(vReq{Op: logical.UpdateOperation, Path: "auth/recauth/login/alice", Data: map[string]any{"policies": []string{"default"}, "ttl": "1h", "alias": "c18alice"}, WrapTTL: 5 * time.Minute})
							if !vOK(resp, err) || resp == nil || resp.WrapInfo == nil {
								t.Fatalf("verif: wrapped login failed: %s", vErrStr(resp, err))
							}
							w = &c18Wrap{Token: resp.WrapInfo.Token, Accessor: resp.WrapInfo.Accessor, Kind: wkind}
						} else {
							w = c18MakeWrapped(t, v, r, rng, wkind, rq.tok, 5*time.Minute, caseID)
						}
						tok := w.Token
						okGen := true
						for g := 0; g < gen; g++ {
							resp, err := v.Do(vReq{Op: logical.UpdateOperation, Path: "sys/wrapping/rewrap", Token: rq.tok, Data: map[string]any{"token": tok}})
							if !vOK(resp, err) || resp == nil || resp.WrapInfo == nil || resp.WrapInfo.Token == "" {
								okGen = false
								break
							}
							tok = resp.WrapInfo.Token
						}
						if !okGen {
							r.Count("rewrap_failed", 1)
							continue
						}
						recMark := v.Rec.Len()
						before := v.BarrierKeys("logical/")
						resp, err := v.Do(vReq{Op: pr.Op, Path: pr.Path, Token: tok, Data: pr.Data})
						r.Eval(1)
						r.Count("probes", 1)
						if allowed {
							r.Count("probes_the_requester_itself_is_allowed", 1)
							r.Nontrivial(fmt.Sprintf("%s|%s|%d|%s %s", rq.name, wkind, gen, pr.Op, pr.Path))
						}
						wit := map[string]any{"requester": rq.name, "wrapped": wkind, "generation": gen, "probe": fmt.Sprintf("%s %s", pr.Op, pr.Path), "response": vErrStr(resp, err)}
						if vOK(resp, err) {
							r.Violate("C18-token-grants-more", caseID, fmt.Sprintf("wrapping token (requester %s, wrapped %s, rewrapped %d times) was accepted on %s %s", rq.name, wkind, gen, pr.Op, pr.Path), wit)
						}
						for _, ev := range v.Rec.Since(recMark) {
							if ev.Kind == "handler" { // the existence check runs before authorisation by design
								r.Violate("C18-token-grants-more", caseID, fmt.Sprintf("a backend handler ran (%s %s) for a request made with a wrapping token on %s %s", ev.Kind, ev.Path, pr.Op, pr.Path), wit)
								break
							}
						}
						after := v.BarrierKeys("logical/")
						if d := c18KeyDiff(before, after, tok); d != "" {
							r.Violate("C18-token-grants-more", caseID, "backend storage changed by a request made with a wrapping token: "+d, wit)
						}
						if r.NViolations() > 10 {
							return
						}
					}
				}
			}
		}
		v.Close()
	}
	r.Require("probes", 200)
	r.Require("probes_the_requester_itself_is_allowed", 100)
}

// c18KeyDiff reports keys added under logical/ (mount storage incl. cubbyholes).
func c18KeyDiff(before, after []string, tok string) string {
	seen := map[string]bool{}
	for _, k := range before {
		seen[k] = true
	}
	var added []string
	for _, k := range after {
		if !seen[k] {
			added = append(added, k)
		}
	}
	if len(added) == 0 {
		return ""
	}
	return fmt.Sprintf("added %v", added)
}
