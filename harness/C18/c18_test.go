//go:build verif

package vault

// C18: a response-wrapping token reveals its payload exactly once.

import (
	"context"
	"encoding/json"
	"fmt"
	"strings"
	"sync"
	"testing"
	"time"

	"github.com/go-jose/go-jose/v4"
	"github.com/go-jose/go-jose/v4/jwt"
	kit "github.com/openbao/openbao/sdk/v2/helper/verifkit"
	"github.com/openbao/openbao/sdk/v2/logical"
	"github.com/openbao/openbao/v2/internal/helper/namespace"
)

type c18Out struct {
	Kind     string `json:"kind"`
	Result   string `json:"result"`
	Revealed bool   `json:"revealed"`
	NewToken bool   `json:"new_token,omitempty"`
}

func c18Boot(t *testing.T, tx bool) *vCore {
	v := vBoot(t, vOpts{Transactional: tx})
	v.Rec.seq = v.Probe.NextSeq
	v.Mount("rec", "verifrec", "", nil)
	v.EnableAuth("recauth", "verifrec", "")
	v.Policy("c18user", `path "rec/*" { capabilities = ["read","list","update"] }
path "sys/wrapping/*" { capabilities = ["update"] }`, "")
	return v
}

// c18Contains reports whether the response carries the canary anywhere.
func c18Contains(resp *logical.Response, canary string) bool {
	if resp == nil {
		return false
	}
	b, _ := json.Marshal(resp.Data)
	if strings.Contains(string(b), canary) {
		return true
	}
	if raw, ok := resp.Data[logical.HTTPRawBody]; ok {
		switch x := raw.(type) {
		case []byte:
			if strings.Contains(string(x), canary) {
				return true
			}
		case string:
			if strings.Contains(x, canary) {
				return true
			}
		}
	}
	if resp.Auth != nil {
		ab, _ := json.Marshal(resp.Auth)
		if strings.Contains(string(ab), canary) {
			return true
		}
	}
	return false
}

type c18Wrap struct {
	Token    string // what the requester was handed: the token id, or a JWT that carries it
	ID       string // the token id (= Token for the default format, the JWT's id claim else)
	Format   string // "" (default, uuid) or "jwt"
	Accessor string
	Canary   string
	Path     string // creation path expected from lookup
	Kind     string
	Created  time.Time
	TTL      time.Duration
}

// c18Format is the wrap format the next c18MakeWrapped asks for ("" = default).
var c18Format string

// c18DoWrap is vCore.Do for a request that asks for response wrapping with a format.
func c18DoWrap(v *vCore, r vReq, format string) (*logical.Response, error) {
	ctx := namespace.RootContext(context.Background())
	if r.NS != "" {
		ctx = namespace.ContextWithNamespaceHeader(context.Background(), r.NS)
	}
	req := &logical.Request{Operation: r.Op, Path: r.Path, ClientToken: r.Token, Data: r.Data, Connection: &logical.Connection{RemoteAddr: "127.0.0.1"}}
	if r.WrapTTL > 0 || format != "" {
		req.WrapInfo = &logical.RequestWrapInfo{TTL: r.WrapTTL, Format: format}
	}
	if r.Tag != "" && v.Probe != nil {
		v.Probe.Tag(r.Tag)
		defer v.Probe.Untag()
	}
	return v.Core.HandleRequest(ctx, req)
}

// c18TokenID returns the token id a wrapping token string stands for: itself, or the id claim
// of a JWT-format token (read without the key, as any holder of the JWT can).
func c18TokenID(token string) string {
	if !IsJWT(token) {
		return token
	}
	parsed, err := jwt.ParseSigned(token, []jose.SignatureAlgorithm{jose.ES512})
	if err != nil {
		return token
	}
	var claims jwt.Claims
	if err := parsed.UnsafeClaimsWithoutVerification(&claims); err != nil || claims.ID == "" {
		return token
	}
	return claims.ID
}

// c18MakeWrapped issues a wrapped response of the given kind and checks that the creating
// request did not see the payload.
func c18MakeWrapped(t *testing.T, v *vCore, r *kit.Result, rng *kit.Rand, kind string, user string, ttl time.Duration, caseID string) *c18Wrap {
	canary := rng.Canary()
	var resp *logical.Response
	var err error
	w := &c18Wrap{Canary: canary, Kind: kind, TTL: ttl, Format: c18Format}
	switch kind {
	case "kv":
		c18Seq++
		name := fmt.Sprintf("item-%d", c18Seq)
		v.MustDo(vReq{Op: logical.UpdateOperation, Path: "rec/data/" + name, Token: v.Root, Data: map[string]any{"value": canary}})
		w.Path = "rec/data/" + name
		resp, err = c18DoWrap(v, vReq{Op: logical.ReadOperation, Path: w.Path, Token: user, WrapTTL: ttl}, c18Format)
	case "login":
		w.Path = "auth/recauth/login/u"
		resp, err = c18DoWrap(v, vReq{Op: logical.UpdateOperation, Path: w.Path, Data: map[string]any{"policies": []string{"default"}, "ttl": "1h", "canary": canary, "display_name": canary}, WrapTTL: ttl}, c18Format)
	case "list":
		c18Seq++
		v.MustDo(vReq{Op: logical.UpdateOperation, Path: fmt.Sprintf("rec/data/dir-%d/k-%s", c18Seq, canary), Token: v.Root, Data: map[string]any{"value": "x"}})
		w.Path = fmt.Sprintf("rec/data/dir-%d/", c18Seq)
		resp, err = c18DoWrap(v, vReq{Op: logical.ListOperation, Path: w.Path, Token: user, WrapTTL: ttl}, c18Format)
	}
	w.Created = time.Now()
	if !vOK(resp, err) || resp == nil || resp.WrapInfo == nil || resp.WrapInfo.Token == "" {
		t.Fatalf("verif: wrapped %s request failed: %s (%+v)", kind, vErrStr(resp, err), resp)
	}
	if c18Contains(resp, canary) {
		r.Violate("C18-creator-saw-payload", caseID, "the response to the request that asked for wrapping contains the payload", map[string]any{"kind": kind})
	}
	if resp.Auth != nil && resp.Auth.ClientToken != "" {
		r.Violate("C18-creator-saw-payload", caseID, "wrapped login returned the inner auth to the requester", nil)
	}
	w.Token = resp.WrapInfo.Token
	w.ID = c18TokenID(w.Token)
	w.Accessor = resp.WrapInfo.Accessor
	if (c18Format == "jwt") != IsJWT(w.Token) {
		r.Violate("C18-wrap-format-not-as-requested", caseID, fmt.Sprintf("wrap format %q was requested, the token handed out is JWT: %v", c18Format, IsJWT(w.Token)), map[string]any{"kind": kind})
	}
	return w
}

var c18Seq int

var c18Kinds = []string{"unwrap-first", "unwrap-third", "rewrap", "lookup", "revoke", "cubbyhole-read", "misuse"}

// c18Do runs one request of the given kind on the wrapping token.
func c18Do(v *vCore, kind string, w *c18Wrap, user string) (*logical.Response, error) {
	switch kind {
	case "unwrap-first":
		return v.Do(vReq{Op: logical.UpdateOperation, Path: "sys/wrapping/unwrap", Token: w.Token})
	case "unwrap-third":
		return v.Do(vReq{Op: logical.UpdateOperation, Path: "sys/wrapping/unwrap", Token: user, Data: map[string]any{"token": w.Token}})
	case "rewrap":
		return v.Do(vReq{Op: logical.UpdateOperation, Path: "sys/wrapping/rewrap", Token: user, Data: map[string]any{"token": w.Token}})
	case "lookup":
		return v.Do(vReq{Op: logical.UpdateOperation, Path: "sys/wrapping/lookup", Token: user, Data: map[string]any{"token": w.Token}})
	case "revoke":
		return v.Do(vReq{Op: logical.UpdateOperation, Path: "auth/token/revoke", Token: v.Root, Data: map[string]any{"token": w.ID}})
	case "cubbyhole-read":
		return v.Do(vReq{Op: logical.ReadOperation, Path: "cubbyhole/response", Token: w.ID}) // a JWT is only understood by sys/wrapping/*: its holder presents the id it carries
	case "misuse":
		return v.Do(vReq{Op: logical.ReadOperation, Path: "rec/data/other", Token: w.ID})
	}
	panic(kind)
}

// c18Residue checks that token id record, accessor, lease and cubbyhole of the wrapping token are gone.
func c18Residue(v *vCore, r *kit.Result, caseID string, salted, cubby, accessorSalted string, wit any, f31, f39 bool) {
	const f39Class = "C18-F39-inflight-revocation-bails-out-after-concurrent-lease-delete"
	for _, k := range v.RawKeys("") {
		switch {
		case strings.HasSuffix(k, "sys/token/id/"+salted):
			class := "C18-residue-token"
			if f39 {
				class = f39Class
			} else if f31 {
				class = "C18-F31-use-count-write-after-revoker-delete-resurrects-token-record"
			}
			r.Violate(class, caseID, "token id record of the used wrapping token remains: "+k, wit)
		case accessorSalted != "" && strings.HasSuffix(k, "sys/token/accessor/"+accessorSalted):
			r.Violate(c18Pick(f39, f39Class, "C18-residue-accessor"), caseID, "accessor index of the used wrapping token remains", wit)
		case cubby != "" && strings.Contains(k, "/"+cubby+"/"):
			r.Violate(c18Pick(f39, f39Class, "C18-residue-cubbyhole"), caseID, "stored payload of the used wrapping token remains: "+k, wit)
		case strings.Contains(k, "sys/expire/id/") && strings.HasSuffix(k, "/"+salted):
			// lease may be queued; check expiry
			if st := c18LeaseStateRaw(v, strings.TrimPrefix(k[strings.Index(k, "sys/expire/id/"):], "sys/expire/id/")); st == "live" {
				r.Violate("C18-residue-lease", caseID, "lease of the used wrapping token is still live: "+k, wit)
			}
		}
	}
	r.Count("residue_scans", 1)
}

func c18LeaseStateRaw(v *vCore, leaseID string) string {
	ctx := namespace.RootContext(nil)
	e, err := v.Core.expiration.leaseView(namespace.RootNamespace).Get(ctx, leaseID)
	if err != nil || e == nil {
		return "gone"
	}
	le, err := decodeLeaseEntry(e.Value)
	if err != nil {
		return "error"
	}
	if !le.ExpireTime.After(time.Now()) {
		return "queued"
	}
	return "live"
}

func c18Case(t *testing.T, v *vCore, r *kit.Result, rng *kit.Rand, caseID, wkind string, kinds []string, pol kit.Policy, user string) (kit.Schedule, bool) {
	w := c18MakeWrapped(t, v, r, rng, wkind, user, 5*time.Minute, caseID)
	ctx := namespace.RootContext(t.Context())
	te, err := v.Core.tokenStore.Lookup(ctx, w.ID)
	if err != nil || te == nil {
		t.Fatalf("verif: fresh wrapping token not found: %v", err)
	}
	salted, _ := v.Core.tokenStore.SaltID(ctx, te.ID)
	accSalted, _ := v.Core.tokenStore.SaltID(ctx, te.Accessor)
	cubby := te.CubbyholeID
	resps := make([]*logical.Response, len(kinds))
	errs := make([]error, len(kinds))
	var sched kit.Schedule
	if kit.OnlyCase() != "" {
		v.Probe.StartLog(true)
		defer func() {
			for _, e := range v.Probe.StopLog() {
				t.Logf("probe %s caller=%s", e.String(), e.Caller)
			}
		}()
	}
	if pol == nil {
		for i, k := range kinds {
			resps[i], errs[i] = c18Do(v, k, w, user)
		}
	} else {
		var mu sync.Mutex
		var reqs []kit.Req
		for i, k := range kinds {
			i, k := i, k
			reqs = append(reqs, kit.Req{Tag: fmt.Sprintf("q%d", i), Fn: func() {
				resp, err := c18Do(v, k, w, user)
				mu.Lock()
				resps[i], errs[i] = resp, err
				mu.Unlock()
			}})
		}
		// Gate points: the wrapping token's own record, its lease and its cubbyhole. Keeping the
		// alphabet this small lets the bounded exploration reach every ordering of the
		// check-and-consume steps of the competing requests within the quick budget.
		sched = v.Probe.RunGated(reqs, pol, kit.GateOpts{Filter: func(e kit.Event) bool {
			return strings.Contains(e.Key, salted) || (cubby != "" && strings.Contains(e.Key, "/"+cubby+"/"))
		}})
		if sched.TimedOut {
			r.Inconc("%s: gate watchdog expired", caseID)
			return sched, false
		}
	}
	r.Eval(1)
	outs := make([]c18Out, len(kinds))
	reveals := 0
	anyRevoke := false
	anyMisuse := false
	unwrapAttempts := 0
	var newTokens []string
	lookupOK := 0
	for i, k := range kinds {
		o := c18Out{Kind: k, Result: vErrStr(resps[i], errs[i])}
		if len(o.Result) > 160 {
			o.Result = o.Result[:160]
		}
		if vOK(resps[i], errs[i]) && c18Contains(resps[i], w.Canary) {
			o.Revealed = true
			reveals++
		}
		switch k {
		case "revoke":
			anyRevoke = true
		case "unwrap-first", "unwrap-third", "cubbyhole-read":
			unwrapAttempts++
		case "rewrap":
			if vOK(resps[i], errs[i]) && resps[i] != nil && resps[i].WrapInfo != nil && resps[i].WrapInfo.Token != "" {
				o.NewToken = true
				newTokens = append(newTokens, resps[i].WrapInfo.Token)
				if resps[i].WrapInfo.CreationPath != w.Path {
					r.Violate("C18-creation-path", caseID, fmt.Sprintf("rewrap reports creation path %q, original %q", resps[i].WrapInfo.CreationPath, w.Path), nil)
				}
			}
		case "lookup":
			if vOK(resps[i], errs[i]) && resps[i] != nil && resps[i].Data != nil {
				lookupOK++
				if cp, _ := resps[i].Data["creation_path"].(string); cp != w.Path {
					r.Violate("C18-creation-path", caseID, fmt.Sprintf("lookup reports creation path %q, original %q", cp, w.Path), nil)
				}
			}
		case "misuse":
			anyMisuse = true // a refused request still consumes the single use: the payload may be lost, never revealed
			if vOK(resps[i], errs[i]) {
				r.Violate("C18-token-grants-more", caseID, "wrapping token was accepted on a path other than the wrapping endpoints/its cubbyhole", nil)
			}
		}
		outs[i] = o
	}
	r.Count("lookups_ok", lookupOK)
	// the creation path must survive rewrapping: lookup on each successor token, and after a
	// second rewrap of it, must still report the path that created the original
	for ni, nt := range newTokens {
		for hop := 0; hop < 2; hop++ {
			resp, err := v.Do(vReq{Op: logical.UpdateOperation, Path: "sys/wrapping/lookup", Token: user, Data: map[string]any{"token": nt}})
			if vOK(resp, err) && resp != nil && resp.Data != nil {
				r.Count("lookups_on_rewrapped_token", 1)
				if cp, _ := resp.Data["creation_path"].(string); cp != w.Path {
					r.Violate("C18-creation-path", caseID, fmt.Sprintf("lookup on a rewrapped token (hop %d) reports creation path %q, original %q", hop+1, cp, w.Path), nil)
				}
			}
			if hop == 1 || rng.Chance(1, 2) {
				break
			}
			resp, err = v.Do(vReq{Op: logical.UpdateOperation, Path: "sys/wrapping/rewrap", Token: user, Data: map[string]any{"token": nt}})
			if !vOK(resp, err) || resp == nil || resp.WrapInfo == nil || resp.WrapInfo.Token == "" {
				break
			}
			if resp.WrapInfo.CreationPath != w.Path {
				r.Violate("C18-creation-path", caseID, fmt.Sprintf("second rewrap reports creation path %q, original %q", resp.WrapInfo.CreationPath, w.Path), nil)
			}
			nt = resp.WrapInfo.Token
			newTokens[ni] = nt
		}
	}
	// payload handed to rewrap lives on in the new tokens: unwrap each once, then again
	for _, nt := range newTokens {
		resp, err := v.Do(vReq{Op: logical.UpdateOperation, Path: "sys/wrapping/unwrap", Token: nt})
		if vOK(resp, err) && c18Contains(resp, w.Canary) {
			reveals++
			r.Count("reveals_via_rewrapped_token", 1)
		}
		resp, err = v.Do(vReq{Op: logical.UpdateOperation, Path: "sys/wrapping/unwrap", Token: nt})
		if vOK(resp, err) && c18Contains(resp, w.Canary) {
			reveals++
		}
	}
	wit := map[string]any{"wrapped": wkind, "kinds": kinds, "outcomes": outs, "schedule": c18Trunc(sched.String(), 3000), "rewrapped_tokens": len(newTokens)}
	if reveals > 1 {
		r.Violate("C18-payload-revealed-twice", caseID, fmt.Sprintf("the wrapped payload was obtained %d times", reveals), wit)
	}
	if reveals == 0 && !anyRevoke && !anyMisuse && unwrapAttempts+len(newTokens) > 0 {
		r.Violate("C18-payload-lost", caseID, "no unwrap attempt obtained the payload although none was preceded by a revoke", wit)
	}
	if reveals == 1 {
		r.Count("exactly_one_reveal", 1)
	}
	// afterwards: nothing of the original token may remain (if any consuming request ran)
	if unwrapAttempts > 0 || anyRevoke || len(newTokens) > 0 {
		// A first-party unwrap hands the token's revocation to the expiration workers
		// (deferred LazyRevoke), so teardown is asynchronous: wait (bounded, generous) until the
		// token's lease record is gone before scanning for residue. The lease record is not the
		// last thing to go: the token store's revocation deletes the cubbyhole, then (through
		// RevokeByToken) the lease, then the accessor index and last the token record; the
		// remaining two deletes are covered by the WaitQuiet below. Not reached = inconclusive,
		// never a violation.
		leaseGone := false
		for i := 0; i < 3000 && !leaseGone; i++ {
			leaseGone = true
			for _, k := range v.RawKeys("sys/expire/id/") {
				if strings.HasSuffix(k, "/"+salted) {
					leaseGone = false
				}
			}
			if !leaseGone {
				time.Sleep(5 * time.Millisecond)
			}
		}
		if !leaseGone && (reveals > 0 || anyRevoke) {
			r.Inconc("%s: lease of the consumed wrapping token still present after 15s (revocation worker did not finish)", caseID)
			return sched, true
		}
		v.WaitQuiet(10*time.Millisecond, 2*time.Second)
		// a late unwrap must fail
		resp, err := v.Do(vReq{Op: logical.UpdateOperation, Path: "sys/wrapping/unwrap", Token: w.Token})
		if vOK(resp, err) && c18Contains(resp, w.Canary) {
			r.Violate("C18-payload-revealed-twice", caseID, "a late unwrap after the concurrent phase still obtained the payload", wit)
		}
		// F31 signature: a request's use-count write of the token record landed after the
		// revoker had deleted that record (UseToken holds the per-token lock, revocation does
		// not), leaving an unusable revocation-pending record without lease or payload.
		f31 := false
		if anyRevoke {
			delAt := -1
			for i, st := range sched.Steps {
				if st.Op == "delete" && strings.HasSuffix(st.Key, "sys/token/id/"+salted) {
					delAt = i
				}
				if delAt >= 0 && i > delAt && st.Op == "put" && strings.HasSuffix(st.Key, "sys/token/id/"+salted) {
					f31 = true
				}
			}
		}
		// F39 signature: a revocation in flight (it holds the pending-deletion flag and is about
		// to look the token up) is overtaken by a concurrent revocation of the same token, which
		// short-circuits on that flag and deletes the token's lease; the first one then finds a
		// token without lease, takes lookupInternal's "expiring token without lease" branch -
		// visible as a request re-creating the lease record after another request deleted it -
		// and returns without tearing anything down.
		f39 := false
		if anyRevoke {
			delBy := ""
			for _, st := range sched.Steps {
				isLease := strings.HasPrefix(st.Key, "sys/expire/id/") && strings.HasSuffix(st.Key, "/"+salted)
				if isLease && st.Op == "delete" && delBy == "" {
					delBy = st.Tag
				}
				if isLease && st.Op == "put" && delBy != "" && st.Tag != delBy {
					f39 = true
				}
			}
		}
		c18Residue(v, r, caseID, salted, cubby, accSalted, wit, f31, f39)
	}
	if sched.Overlap() {
		r.Count("overlapping_schedules", 1)
		r.Nontrivial(fmt.Sprintf("%s|%v|%s", wkind, kinds, sched.Hash()))
	} else if pol == nil {
		r.Nontrivial(fmt.Sprintf("seq|%s|%v", wkind, kinds))
	}
	r.Sample(wit)
	return sched, r.NViolations() < 50
}

func c18Pick(c bool, a, b string) string {
	if c {
		return a
	}
	return b
}

func c18Trunc(s string, n int) string {
	if len(s) > n {
		return s[:n] + "..."
	}
	return s
}

func c18User(t *testing.T, v *vCore) string {
	tok, _, err := v.CreateToken(v.Root, map[string]any{"policies": []string{"c18user", "default"}, "ttl": "2h"}, false, "")
	if err != nil || tok == nil {
		t.Fatalf("verif: user token: %v", err)
	}
	return tok.ID
}

func TestVerif_C18_Sequential(t *testing.T) {
	seed := kit.Seed(18)
	r := kit.NewResult(t, "c18-sequential", seed, "sequential histories of 2-5 requests (first-party unwrap, third-party unwrap, rewrap, lookup, revoke, direct cubbyhole read, misuse on another path) on one wrapping token, for wrapped kv reads, wrapped logins and wrapped list responses; the payload carries a unique canary; reveals counted over the token and its rewrapped successors must be <=1 and ==1 without a revoke; residue scan of the physical store; creation path reported by lookup/rewrap; plus TTL expiry and wrong-token cases")
	defer r.Write(t)
	for _, tx := range []bool{false, true} {
		v := c18Boot(t, tx)
		user := c18User(t, v)
		for c := 0; c < kit.N(30, 200); c++ {
			caseID := fmt.Sprintf("seq:%v:%d", tx, c)
			if !kit.WantCase(caseID) {
				continue
			}
			rng := kit.NewRand(seed, uint64(c)*2+b2u18(tx))
			m := 2 + rng.Intn(4)
			kinds := make([]string, m)
			for i := range kinds {
				kinds[i] = kit.Pick(rng, c18Kinds)
			}
			// the wrap format comes from its own stream, so the histories are those of earlier rounds
			c18Format = ""
			if kit.NewRand(seed, uint64(c)*2+b2u18(tx)+31_000_000).Chance(1, 3) {
				c18Format = "jwt"
				r.Count("cases_with_jwt_format", 1)
			}
			_, cont := c18Case(t, v, r, rng, caseID, kit.Pick(rng, []string{"kv", "login", "list"}), kinds, nil, user)
			c18Format = ""
			if !cont {
				return
			}
		}
		// TTL expiry: after the harness has observed the clock pass creation+ttl the unwrap must fail
		if kit.WantCase(fmt.Sprintf("ttl:%v", tx)) {
			rng := kit.NewRand(seed, 900+b2u18(tx))
			var ws []*c18Wrap
			var ids []*c18Ident
			one := &c18Tree{v: v, NSs: []*c18NS{{Path: "", NS: namespace.RootNamespace, User: user}}}
			for i := 0; i < 6; i++ {
				c18Format = []string{"", "jwt"}[i/3]
				ws = append(ws, c18MakeWrapped(t, v, r, rng, []string{"kv", "login", "list"}[i%3], user, time.Second, "ttl"))
				ids = append(ids, one.ident(t, ws[i].ID))
			}
			c18Format = ""
			deadline := time.Now().Add(20 * time.Second)
			for time.Now().Before(ws[5].Created.Add(2500*time.Millisecond)) && time.Now().Before(deadline) {
				time.Sleep(100 * time.Millisecond)
			}
			if time.Now().After(ws[5].Created.Add(2 * time.Second)) {
				for _, w := range ws {
					resp, err := v.Do(vReq{Op: logical.UpdateOperation, Path: "sys/wrapping/unwrap", Token: w.Token})
					r.Eval(1)
					r.Count("ttl_expiry_checks", 1)
					if vOK(resp, err) && c18Contains(resp, w.Canary) {
						r.Violate("C18-unwrap-after-ttl", fmt.Sprintf("ttl:%v", tx), fmt.Sprintf("wrapped %s payload obtained %.1fs after creation with wrap TTL 1s", w.Kind, time.Since(w.Created).Seconds()), nil)
					}
				}
				for i, w := range ws {
					one.judgeGone(r, fmt.Sprintf("ttl:%v", tx), ids[i], "C18-residue-after-ttl", fmt.Sprintf("the wrap TTL (1s) of a %s token (format %q) elapsed %.1fs ago", w.Kind, w.Format, time.Since(w.Created).Seconds()), map[string]any{"kind": w.Kind, "format": w.Format})
				}
			} else {
				r.Inconc("clock did not pass the wrap TTL within the bound")
			}
		}
		// wrong token: another wrapping token never yields this payload; a plain token cannot unwrap
		if kit.WantCase(fmt.Sprintf("wrong:%v", tx)) {
			rng := kit.NewRand(seed, 901+b2u18(tx))
			a := c18MakeWrapped(t, v, r, rng, "kv", user, time.Minute, "wrong")
			b := c18MakeWrapped(t, v, r, rng, "kv", user, time.Minute, "wrong")
			resp, err := v.Do(vReq{Op: logical.UpdateOperation, Path: "sys/wrapping/unwrap", Token: b.Token})
			r.Eval(1)
			if vOK(resp, err) && c18Contains(resp, a.Canary) {
				r.Violate("C18-wrong-token", "wrong", "payload obtained with a different wrapping token", nil)
			}
			resp, err = v.Do(vReq{Op: logical.UpdateOperation, Path: "sys/wrapping/unwrap", Token: user})
			if vOK(resp, err) && c18Contains(resp, a.Canary) {
				r.Violate("C18-wrong-token", "wrong", "payload obtained with a non-wrapping token", nil)
			}
			resp, err = v.Do(vReq{Op: logical.ReadOperation, Path: "cubbyhole/response", Token: user})
			if vOK(resp, err) && c18Contains(resp, a.Canary) {
				r.Violate("C18-wrong-token", "wrong", "payload read from another token's cubbyhole", nil)
			}
			r.Count("wrong_token_checks", 3)
		}
		v.Close()
	}
	r.Require("exactly_one_reveal", 20)
	r.Require("residue_scans", 20)
	r.Require("ttl_expiry_checks", 3)
}

func b2u18(b bool) uint64 {
	if b {
		return 1
	}
	return 0
}

func TestVerif_C18_Schedules(t *testing.T) {
	seed := kit.Seed(18)
	shard, _ := kit.Shard()
	r := kit.NewResult(t, "c18-schedules", seed, "k in 2..4 concurrent requests drawn from {first-party unwrap, third-party unwrap, rewrap, lookup, revoke, cubbyhole read} on one wrapping token under the storage-operation gate (gate points: the wrapping token's id record, its lease and its cubbyhole keys): <=2-preemption interleavings (capped) then seeded PCT; exactly-once reveal counter and residue scan as in the sequential monitor; non-trivial = requests overlapped; distinct by (wrapped kind, request kinds, op-order hash)")
	defer r.Write(t)
	conc := []string{"unwrap-first", "unwrap-third", "rewrap", "lookup", "revoke", "cubbyhole-read"}
	for _, tx := range []bool{false, true} {
		v := c18Boot(t, tx)
		user := c18User(t, v)
		nscen := kit.N(8, 40)
		for c := 0; c < nscen; c++ {
			rng := kit.NewRand(seed, uint64(shard*100000+c)*2+b2u18(tx))
			k := 2 + rng.Intn(3)
			kinds := make([]string, k)
			for i := range kinds {
				kinds[i] = kit.Pick(rng, conc)
			}
			switch c {
			case 0:
				kinds = []string{"unwrap-first", "unwrap-first"}
			case 1:
				kinds = []string{"unwrap-third", "unwrap-third"}
			case 2:
				kinds = []string{"unwrap-first", "unwrap-third"}
			case 3:
				kinds = []string{"unwrap-third", "rewrap"}
			case 4:
				kinds = []string{"unwrap-first", "revoke"}
			case 5:
				kinds = []string{"cubbyhole-read", "unwrap-third", "lookup"}
			}
			wkind := []string{"kv", "login", "list"}[c%3]
			ex := &kit.Explorer{MaxPreempt: 2, MaxRuns: kit.N(45, 200)}
			idx := 0
			stop := false
			prefix := fmt.Sprintf("sch:%v:%d:%d:ex:", tx, shard, c)
			ex.Explore(func(pol kit.Policy) (kit.Schedule, bool) {
				idx++
				caseID := fmt.Sprintf("%s%d", prefix, idx)
				res := r
				if !kit.WantCase(caseID) {
					if !strings.HasPrefix(kit.OnlyCase(), prefix) {
						return kit.Schedule{Diverged: true}, true
					}
					// replay of a later interleaving of this scenario: the enumeration has to be
					// walked up to it; the earlier interleavings are run without being judged
					res = kit.NewResult(t, "c18-schedules-replay-walk", seed, "")
				}
				s, cont := c18Case(t, v, res, kit.NewRand(seed, uint64(idx)+5_000_000), caseID, wkind, kinds, pol, user)
				if !cont {
					stop = true
				}
				if res == r && kit.OnlyCase() != "" {
					return s, false // the wanted interleaving has been judged
				}
				return s, cont
			})
			if stop {
				return
			}
			for q := 0; q < kit.N(8, 40); q++ {
				caseID := fmt.Sprintf("sch:%v:%d:%d:pct:%d", tx, shard, c, q)
				if !kit.WantCase(caseID) {
					continue
				}
				tags := make([]string, k)
				for i := range tags {
					tags[i] = fmt.Sprintf("q%d", i)
				}
				prng := kit.NewRand(seed, uint64(shard*100000+c*100+q)*2+b2u18(tx)+9_000_000)
				if _, cont := c18Case(t, v, r, prng, caseID, wkind, kinds, kit.NewPCT(prng, tags, 3, 25*k), user); !cont {
					return
				}
			}
		}
		v.Close()
	}
	r.Require("overlapping_schedules", 100)
	r.Require("exactly_one_reveal", 50)
}
