//go:build verif

package vault

// C18 under storage faults on the CONSUMPTION side: every storage operation (get, put,
// delete, list) of a request that consumes, inspects or revokes a wrapping token fails once.
// Whatever the request then answers: the payload is obtained at most once over the faulty
// request and all later fault-free attempts, and a request that did hand out the payload (or a
// successor token) leaves - after retries had their bounded time - nothing of the token in any
// store. A request that revealed nothing leaves the token usable for its holder, or gone.

import (
	"fmt"
	"strings"
	"testing"
	"time"

	kit "github.com/openbao/openbao/sdk/v2/helper/verifkit"
	"github.com/openbao/openbao/sdk/v2/logical"
)

type c18UseOp struct {
	Name string
	Op   func(home *c18NS, tr *c18Tree) c18nsOp
}

// the consuming operations; third parties are the home namespace's own user and the root token
var c18UseOps = []c18UseOp{
	{"first-party-unwrap", func(h *c18NS, tr *c18Tree) c18nsOp { return c18nsOp{Kind: "unwrap-first", Caller: -2} }},
	{"first-party-cubbyhole-read", func(h *c18NS, tr *c18Tree) c18nsOp {
		return c18nsOp{Kind: "cubbyhole-read", Caller: -2, Hdr: h.Path}
	}},
	{"third-party-unwrap", func(h *c18NS, tr *c18Tree) c18nsOp {
		return c18nsOp{Kind: "unwrap-third", Caller: tr.idx(h), Hdr: h.Path}
	}},
	{"third-party-unwrap-by-root", func(h *c18NS, tr *c18Tree) c18nsOp { return c18nsOp{Kind: "unwrap-third", Caller: -1} }},
	{"first-party-rewrap", func(h *c18NS, tr *c18Tree) c18nsOp { return c18nsOp{Kind: "rewrap-first", Caller: -2} }},
	{"third-party-rewrap", func(h *c18NS, tr *c18Tree) c18nsOp {
		return c18nsOp{Kind: "rewrap", Caller: tr.idx(h), Hdr: h.Path}
	}},
	{"third-party-rewrap-by-root", func(h *c18NS, tr *c18Tree) c18nsOp { return c18nsOp{Kind: "rewrap", Caller: -1} }},
	{"lookup", func(h *c18NS, tr *c18Tree) c18nsOp { return c18nsOp{Kind: "lookup", Caller: tr.idx(h), Hdr: h.Path} }},
	{"first-party-lookup", func(h *c18NS, tr *c18Tree) c18nsOp { return c18nsOp{Kind: "lookup-first", Caller: -2} }},
	{"revoke-by-id", func(h *c18NS, tr *c18Tree) c18nsOp { return c18nsOp{Kind: "revoke", Caller: -1, Hdr: h.Path} }},
	{"revoke-by-accessor", func(h *c18NS, tr *c18Tree) c18nsOp {
		return c18nsOp{Kind: "revoke-accessor", Caller: -1, Hdr: h.Path}
	}},
	{"revoke-by-lease", func(h *c18NS, tr *c18Tree) c18nsOp {
		return c18nsOp{Kind: "revoke-lease", Caller: -1, Hdr: h.Path}
	}},
}

func TestVerif_C18_ConsumeFaults(t *testing.T) {
	seed := kit.Seed(18)
	shard, nshards := kit.Shard()
	r := kit.NewResult(t, "c18-consume-faults", seed, "for store kind x requesting namespace (root, ns1/) x wrap format (default, jwt) x operation (first-party unwrap, first-party cubbyhole/response read, third-party unwrap by the namespace's user / by the root token, rewrap first and third party, lookup first and third party, revoke by id / by accessor / by lease) (quick: each combination on one store kind): the request is run once on a fresh token to count its storage operations n, then n times on fresh tokens with storage operation i (get, put, delete or list, inside or outside a transaction) failing once; then retries get bounded time and the holder tries a fault-free unwrap twice, a third party once: the payload is obtained at most once over all of that; a request that handed out the payload or a successor token leaves no record of the token (token record, accessor index, lease, cubbyhole response / wrapinfo) in any namespace's store; a request that revealed nothing leaves the token usable for its holder or gone - a spent token whose records stay until the TTL without anybody having the payload is counted, not judged; non-trivial = the fault fired; distinct by (store, namespace, format, operation, failed op kind and key class)")
	r.Exhaustive = true
	defer r.Write(t)
	n := 0
	for _, tx := range []bool{false, true} {
		tr := c18nsBoot(t, tx)
		tr.v.Core.expiration.revokeRetryBase = 20 * time.Millisecond // retries of the expiration workers within the settle bound
		for wi, wns := range tr.NSs[:2] {
			for fi, format := range []string{"", "jwt"} {
				for oi, uop := range c18UseOps {
					n++
					if kit.Tier() == "quick" && (wi+fi+oi+int(seed))%2 != int(b2u18(tx)) {
						continue
					}
					// quick: "by the root token" only where that is another namespace than the token's
					if kit.Tier() == "quick" && strings.HasSuffix(uop.Name, "-by-root") && (wi == 0 || format == "jwt") {
						continue
					}
					if n%nshards != shard {
						continue
					}
					wkind := []string{"kv", "login", "list"}[(wi+fi+oi+int(seed))%3]
					rng := kit.NewRand(seed, uint64(n)+81_000_000)
					tr.format = format
					prefix := fmt.Sprintf("usefault:%v:%d:%s:%s:", tx, wi, map[string]string{"": "uuid", "jwt": "jwt"}[format], uop.Name)
					// reference run: how many storage operations does the request make?
					nops := 0
					if kit.OnlyCase() == "" || strings.HasPrefix(kit.OnlyCase(), prefix) {
						nops = tr.useFaultCase(t, r, rng, prefix+"ref", wns, wkind, uop, 0)
						r.Count("request_storage_ops:"+uop.Name, nops)
					}
					for i := 1; i <= nops; i++ {
						caseID := fmt.Sprintf("%s%d", prefix, i)
						if !kit.WantCase(caseID) {
							continue
						}
						tr.useFaultCase(t, r, rng, caseID, wns, wkind, uop, i)
						if r.NViolations() > 400 {
							return
						}
					}
					tr.format = ""
				}
			}
		}
		tr.v.Close()
	}
	r.Require("faults_fired", 300)
	r.Require("payload_revealed_by_faulty_request_and_token_gone", 30)
	r.Require("nothing_revealed_and_token_still_usable", 60)
	r.Require("nothing_revealed_and_token_gone", 30)
	r.Require("faults_fired:first-party-unwrap", 8)
	r.Require("faults_fired:first-party-cubbyhole-read", 8)
	r.Require("faults_fired_on_the_tokens_lease_record:first-party", 4)
}

// useFaultCase runs the operation on a fresh token with its failNth-th storage operation
// failing once (0 = no fault: returns the number of storage operations of the request).
func (tr *c18Tree) useFaultCase(t *testing.T, r *kit.Result, rng *kit.Rand, caseID string, wns *c18NS, wkind string, uop c18UseOp, failNth int) int {
	v := tr.v
	w := tr.wrap(t, r, rng, wns, wkind, false, caseID)
	id, made := tr.born(t, w)
	op := uop.Op(tr.home, tr)
	var faulted kit.Event
	nops := 0
	if failNth > 0 {
		v.Probe.FailNth(func(e kit.Event) bool {
			if e.Tag != "cf" {
				return false
			}
			faulted = e
			return true
		}, failNth)
	} else {
		v.Probe.StartLog(false)
	}
	resp, err := tr.run("cf", op, w)
	fired := 0
	if failNth > 0 {
		fired = v.Probe.ClearFaults()
	} else {
		for _, e := range v.Probe.StopLog() {
			if e.Tag == "cf" {
				nops++
			}
		}
	}
	o := tr.outcome(op, w, tr.home, resp, err)
	r.Eval(1)
	failedOn := "-"
	if fired > 0 {
		failedOn = faulted.Op + " " + c18UseKeyClass(faulted.Key, id)
		r.Count("faults_fired", 1)
		r.Count("faults_fired:"+uop.Name, 1)
		if op.Caller == -2 && strings.Contains(faulted.Key, "sys/expire/id/") && strings.Contains(faulted.Key, id.Salted) {
			r.Count("faults_fired_on_the_tokens_lease_record:first-party", 1)
		}
		r.Nontrivial(fmt.Sprintf("%v|%s|%s|%s|%s", v.Opts.Transactional, wns.Path, tr.format, uop.Name, failedOn))
	} else if failNth > 0 {
		r.Count("fault_not_reached", 1)
	}
	wit := map[string]any{"requested_in_namespace": wns.Path, "token_namespace": tr.home.Path, "format": tr.format, "wrapped": wkind, "operation": uop.Name,
		"failed_storage_operation": fmt.Sprintf("%d = %s", failNth, failedOn), "answer": strings.Join(strings.Fields(o.Result), " "), "answer_has_payload": o.Revealed, "answer_has_successor_token": o.NewToken != ""}
	reveals := 0
	if o.Revealed {
		reveals++
		if !c18nsIsUnwrap(op.Kind) {
			tr.violate(r, "C18-payload-in-answer-to-non-unwrap-request", caseID, fmt.Sprintf("the answer to %s contains the wrapped payload", op.Kind), wit)
		}
	}
	// let retries settle (bounded); the verdict is read off the store
	v.WaitQuiet(5*time.Millisecond, 500*time.Millisecond)
	var succ *c18Ident
	if o.NewToken != "" {
		succ = tr.ident(t, c18TokenID(o.NewToken))
		for i := 0; i < 2; i++ {
			ur, uerr := v.Do(vReq{Op: logical.UpdateOperation, Path: "sys/wrapping/unwrap", Token: o.NewToken})
			if vOK(ur, uerr) && c18Contains(ur, w.Canary) {
				reveals++
			}
		}
	}
	handedOut := o.Revealed || o.NewToken != ""
	left, lease := tr.settle(id)
	// later fault-free attempts: the holder twice, a third party once
	later := 0
	for _, a := range []c18nsOp{{Kind: "unwrap-first", Caller: -2}, {Kind: "unwrap-first", Caller: -2}, {Kind: "unwrap-third", Caller: -1}} {
		ur, uerr := tr.run("", a, w)
		if vOK(ur, uerr) && c18Contains(ur, w.Canary) {
			later++
		}
	}
	reveals += later
	wit["later_unwraps_that_obtained_the_payload"] = later
	wit["records_left_after_the_request"] = c18nsKinds(left)
	wit["lease_record"] = lease
	opClass := strings.TrimSuffix(uop.Name, "-by-root")
	// a revocation that reported the fault to its caller is tried again by the caller
	if c18nsOpClass(op.Kind) == "revoke" && fired > 0 && !vOK(resp, err) && later == 0 && len(left) > 0 {
		rr, rerr := tr.run("", op, w)
		v.WaitQuiet(5*time.Millisecond, 500*time.Millisecond)
		left2, lease2 := tr.settle(id)
		wit["retried_revocation_answer"] = strings.Join(strings.Fields(vErrStr(rr, rerr)), " ")
		r.Count("revocations_retried_after_a_reported_fault", 1)
		payloadLeft := strings.Contains(strings.Join(c18nsKinds(left2), ","), "cubbyhole/")
		if vOK(rr, rerr) && len(left2) > 0 && lease2 != "queued" && !payloadLeft {
			// the payload is gone and nobody got it; what stays is an unusable token record (and
			// index) that the retried request can no longer find: outside this property, noted
			r.Count("revocation_retry_answered_ok_but_token_record_left", 1)
			tr.note(r, "retry-left|"+opClass, "observation (not judged: the payload is gone, nobody obtained it): %s with %s failing once reported %q; the same request again, fault-free, answered ok, yet %v stay in the store (lease record: %s) - the record the request finds the token by was already deleted", uop.Name, failedOn, wit["answer"], c18nsKinds(left2), lease2)
		} else if vOK(rr, rerr) && len(left2) > 0 && lease2 != "queued" {
			wit["records_left_after_the_retry"] = c18nsKinds(left2)
			tr.violate(r, "C18-residue-after-retried-revocation-following-storage-fault", caseID, fmt.Sprintf("%s with %s failing once reported %q; the same request again, fault-free, answered ok, yet the store still holds %v (lease record: %s)", uop.Name, failedOn, wit["answer"], c18nsKinds(left2), lease2), wit)
		} else if len(left2) == 0 {
			r.Count("revocations_completed_by_the_retry", 1)
		} else {
			r.Count("revocation_retry_refused_or_under_way", 1)
		}
		left, lease = left2, lease2
	}
	switch {
	case reveals > 1:
		tr.violate(r, "C18-second-reveal-after-storage-fault", caseID, fmt.Sprintf("%s with storage operation %d (%s) failing once: the payload was obtained %d times (by the faulty request: %v, through a successor token or later fault-free unwraps: the rest)", uop.Name, failNth, failedOn, reveals, o.Revealed), wit)
	case handedOut && len(left) > 0 && (lease == "queued" || lease == "none" && tr.running(id, left)):
		r.Inconc("%s: revocation of the consumed token still under way after the bound", caseID)
	case handedOut && len(left) > 0:
		class := "C18-payload-revealed-but-token-records-left-after-storage-fault"
		if o.NewToken != "" {
			class = "C18-token-rewrapped-but-old-token-records-left-after-storage-fault"
		}
		tr.violate(r, class+"-in-"+opClass, caseID, fmt.Sprintf("%s with storage operation %d (%s) failing once answered %q and handed out the payload%s; afterwards, with nothing scheduled to remove them, the store still holds: %v (lease record: %s)", uop.Name, failNth, failedOn, wit["answer"], map[bool]string{true: " (as a successor token)", false: ""}[o.NewToken != ""], c18nsKinds(left), lease), wit)
	case handedOut:
		r.Count("payload_revealed_by_faulty_request_and_token_gone", 1)
	case later == 1:
		// nothing handed out by the faulty request; the holder still got it, exactly once
		r.Count("nothing_revealed_and_token_still_usable", 1)
		if len(left) != len(made) {
			r.Count("nothing_revealed_token_usable_with_some_records_missing", 1)
		}
		tr.judgeGone(r, caseID, id, "C18-residue-after-unwrap-following-storage-fault-in-"+opClass, "the holder unwrapped the token after the faulty "+uop.Name, wit)
	case len(left) == 0:
		r.Count("nothing_revealed_and_token_gone", 1)
	default:
		// nobody has the payload, nobody can get it, and the records lie there
		final := lease == "live" || lease == "unscheduled" || lease == "none"
		r.Count("nothing_revealed_token_spent_records_left:"+opClass+":"+map[bool]string{true: "until-ttl", false: "revocation-under-way"}[final], 1)
		if final {
			tr.note(r, "spent|"+opClass, "observation (not judged: nobody obtained the payload): %s with %s failing once answered %q; the token is spent, a fault-free unwrap fails, and %v stay in the store until the wrap TTL (lease record: %s)", uop.Name, failedOn, wit["answer"], c18nsKinds(left), lease)
		}
	}
	if reveals == 1 {
		r.Count("exactly_one_reveal", 1)
	}
	if succ != nil {
		tr.judgeGone(r, caseID, succ, "C18-residue-of-rewrapped-token-after-unwrap", "the rewrapped token was unwrapped", wit)
	}
	if fired > 0 && handedOut {
		r.Sample(wit)
	}
	return nops
}

// c18UseKeyClass names a key relative to the token: its own records by kind, others by shape.
func c18UseKeyClass(k string, id *c18Ident) string {
	if strings.Contains(k, id.Salted) || strings.Contains(k, id.AccSalted) || strings.Contains(k, "/"+id.Cubby+"/") {
		return "the token's " + c18nsKeyKind(k)
	}
	return c18KeyClass(k)
}
