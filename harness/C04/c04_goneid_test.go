//go:build verif

package vault

// C04, "a revocation that reported success is final": revocation requests that name an id
// which does not exist (never issued, or already completely revoked) must not leave anything
// behind that makes a LATER revocation of a token issued under that id report success without
// effect. Caller-chosen ids (root namespace) make an id re-issuable.

import (
	"fmt"
	"testing"
	"time"

	kit "github.com/openbao/openbao/sdk/v2/helper/verifkit"
	"github.com/openbao/openbao/sdk/v2/logical"
)

func TestVerif_C04_GoneIDRevocations(t *testing.T) {
	seed := kit.Seed(4)
	r := kit.NewResult(t, "c04-gone-id", seed, "seeded sequences over one caller-chosen token id X (root namespace, both store kinds): [issue X (with a child, a lease and a cubbyhole cell)] -> revocation requests naming X in a seeded order and multiplicity (revoke, revoke-orphan, revoke-self, revoke-accessor, sync and queued lease revocation, requests repeated after X is gone, requests naming an id that was never issued) -> re-issue X -> one revocation; after every revocation that reported success the oracle of the histories monitor runs (token refused, children dead or orphaned, leases gone or due, cubbyhole empty, accessor gone); non-trivial = a revocation request named a gone id and the id was issued again afterwards")
	defer r.Write(t)
	kinds := []string{"revoke", "revoke-orphan", "revoke-accessor", "revoke-self", "lease-sync", "lease-async"}
	for _, tx := range []bool{false, true} {
		v := c04Boot(t, tx)
		for h := 0; h < kit.N(60, 600); h++ {
			caseID := fmt.Sprintf("gone:%v:%d", tx, h)
			if !kit.WantCase(caseID) {
				continue
			}
			rng := kit.NewRand(seed, uint64(7_700_000+h)*2+map[bool]uint64{true: 1, false: 0}[tx])
			m := &c04Model{v: v}
			id := fmt.Sprintf("c04gone-%v-%d-%d", tx, seed, h)
			neverIssuedFirst := rng.Intn(3) == 0
			goneRequests, reissued := 0, 0
			// revoke does one revocation request of the given kind on tok (nil: the bare id, nothing is issued under it)
			revoke := func(kind string, tok *c04Tok, leaseID string) (bool, string) {
				var resp *logical.Response
				var err error
				switch kind {
				case "revoke":
					resp, err = v.Do(vReq{Op: logical.UpdateOperation, Path: "auth/token/revoke", Token: v.Root, Data: map[string]any{"token": id}})
				case "revoke-orphan":
					resp, err = v.Do(vReq{Op: logical.UpdateOperation, Path: "auth/token/revoke-orphan", Token: v.Root, Data: map[string]any{"token": id}})
				case "revoke-accessor":
					if tok == nil {
						return false, "skipped"
					}
					resp, err = v.Do(vReq{Op: logical.UpdateOperation, Path: "auth/token/revoke-accessor", Token: v.Root, Data: map[string]any{"accessor": tok.Accessor}})
				case "revoke-self":
					resp, err = v.Do(vReq{Op: logical.UpdateOperation, Path: "auth/token/revoke-self", Token: id})
				case "lease-sync", "lease-async":
					if leaseID == "" {
						return false, "skipped"
					}
					resp, err = v.Do(vReq{Op: logical.UpdateOperation, Path: "sys/leases/revoke", Token: v.Root, Data: map[string]any{"lease_id": leaseID, "sync": kind == "lease-sync"}})
				}
				return vOK(resp, err), vErrStr(resp, err)
			}
			if neverIssuedFirst {
				for k := 0; k < 1+rng.Intn(3); k++ {
					kind := []string{"revoke", "revoke-orphan", "revoke-self"}[rng.Intn(3)]
					ok, res := revoke(kind, nil, "")
					m.steps = append(m.steps, fmt.Sprintf("%s naming the never-issued id -> ok=%v %s", kind, ok, res))
					goneRequests++
				}
			}
			rounds := 2 + rng.Intn(2)
			for round := 0; round < rounds; round++ {
				m.nextID = id
				tok, err := m.create(nil, v.Root, rng.Intn(2) == 0, "", "")
				if err != nil {
					// the id must be issuable again once its earlier holder is completely gone
					present, _ := c04EntryPresent(v, "", id)
					if !present {
						r.Violate("C04-revoked-id-not-issuable-although-earlier-holder-is-gone", caseID, fmt.Sprintf("[%s] auth/token/create with id %s refused (%v) although no record of an earlier holder exists", caseID, id, err), map[string]any{"steps": m.steps})
					}
					break
				}
				if round > 0 {
					reissued++
				}
				m.steps = append(m.steps, fmt.Sprintf("issue %s (round %d)", id, round))
				child, cerr := m.create(tok, tok.ID, false, "", "")
				if cerr != nil {
					t.Fatalf("fixture child: %v", cerr)
				}
				_ = child
				if err := m.addLease(tok); err != nil {
					t.Fatalf("fixture lease: %v", err)
				}
				if err := m.addCubby(tok); err != nil {
					t.Fatalf("fixture cubby: %v", err)
				}
				leaseID := ""
				if te, lerr := v.Core.tokenStore.Lookup(c04NSCtx(v, ""), tok.ID); lerr == nil && te != nil {
					leaseID, _ = v.Core.expiration.CreateOrFetchRevocationLeaseByToken(c04NSCtx(v, ""), te)
				}
				// the effective revocation
				kind := kinds[rng.Intn(len(kinds))]
				ok, res := revoke(kind, tok, leaseID)
				m.steps = append(m.steps, fmt.Sprintf("%s -> ok=%v %s", kind, ok, res))
				r.Count("revocations_of_a_live_holder", 1)
				if !ok {
					r.Count("revocation_reported_failure", 1)
					break
				}
				if kind == "revoke-orphan" {
					m.killOrphaning(tok)
				} else {
					m.killTree(tok)
				}
				v.WaitQuiet(10*time.Millisecond, 2*time.Second)
				if kind == "lease-async" {
					// queued: give the expiration manager its turn (bounded; the oracle below decides from storage)
					for w := 0; w < 200; w++ {
						if present, _ := c04EntryPresent(v, "", id); !present {
							break
						}
						time.Sleep(10 * time.Millisecond)
					}
				}
				r.Eval(1)
				classify := func(k string, tk *c04Tok) string {
					if k == "over-revocation" && tk.ParentN == "(orphaned)" {
						// a token orphaned when an EARLIER holder of the id was revoked with revoke-orphan
						return "C04-orphan-of-earlier-holder-revoked-with-the-reissued-id"
					}
					if k == "dead-token-usable" && round > 0 {
						return "C04-reissued-id-usable-after-its-revocation-reported-success"
					}
					return ""
				}
				if c04Oracle(v, m, r, caseID, fmt.Sprintf("after %s of holder %d of the id", kind, round), classify) > 0 {
					break
				}
				// requests naming the id now that its holder is gone
				for k := 0; k < 1+rng.Intn(3); k++ {
					gk := kinds[rng.Intn(len(kinds))]
					gok, gres := revoke(gk, tok, leaseID)
					if gres == "skipped" {
						continue
					}
					m.steps = append(m.steps, fmt.Sprintf("%s naming the gone id -> ok=%v %s", gk, gok, gres))
					goneRequests++
					r.Count("revocation_requests_naming_a_gone_id", 1)
				}
			}
			if goneRequests > 0 && reissued > 0 {
				r.Nontrivial(fmt.Sprintf("%v:%d:%d:%v", tx, goneRequests, reissued, neverIssuedFirst))
				r.Count("ids_issued_again_after_requests_naming_them_while_gone", 1)
			}
			if h < 2 {
				r.Sample(map[string]any{"case": caseID, "steps": m.steps})
			}
			if r.NViolations() > 40 {
				break
			}
		}
		v.Close()
	}
	r.Require("revocation_requests_naming_a_gone_id", 60)
	r.Require("ids_issued_again_after_requests_naming_them_while_gone", 30)
}
